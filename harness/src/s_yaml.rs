//! C19: `yaml <picks> <store> <base>` prints, for every node of the finished graph, the serde data
//! of the analysis part of its `NodeWrapper` (field by field, as serde_yaml values in a canonical
//! text), and whether the whole dump survives `to_string` -> `from_str` -> `to_value` unchanged.
//! `valrt <aval text>...` is not needed: values are produced by programs.
use crate::s_parse::run_parse;
use crate::wire::enc_str;
use crate::Handler;
use riscv_analysis::cfg::CfgWrapper;
use riscv_analysis::passes::Manager;
use serde_yaml::Value;

pub fn dispatch(cmd: &str) -> Option<Handler> {
    Some(match cmd {
        "yaml" => yaml_cmd,
        _ => return None,
    })
}

fn show(v: &Value) -> String {
    match v {
        Value::Null => "null".to_string(),
        Value::Bool(b) => format!("b{b}"),
        Value::Number(n) => format!("i{n}"),
        Value::String(s) => format!("s{}", enc_str(s)),
        Value::Sequence(l) => format!("[{}]", l.iter().map(show).collect::<Vec<_>>().join(",")),
        Value::Mapping(m) => format!("{{{}}}", m.iter().map(|(k, v)| format!("{}={}", show(k), show(v))).collect::<Vec<_>>().join(";")),
        Value::Tagged(t) => format!("!{}({})", t.tag.to_string().trim_start_matches('!'), show(&t.value)),
    }
}

fn field(node: &Value, name: &str, empty: &str) -> String {
    match node.get(name) {
        Some(v) => show(v),
        None => empty.to_string(),
    }
}

fn yaml_cmd(a: &[&str]) -> String {
    let (_reader, nodes, _errs) = run_parse(&a[1..]);
    let cfg = match Manager::gen_full_cfg(nodes) {
        Ok(c) => c,
        Err(_) => return "CFGERROR END".to_string(),
    };
    let wrapped = CfgWrapper::from(&cfg);
    let value = serde_yaml::to_value(&wrapped).expect("to_value");
    let mut out = Vec::new();
    if let Value::Sequence(items) = &value {
        for (i, n) in items.iter().enumerate() {
            out.push(format!(
                "Y({i} func_entry={} func_exit={} nexts={} prevs={} ri={} ro={} mi={} mo={} li={} lo={} ud={})",
                field(n, "func_entry", "[]"), field(n, "func_exit", "[]"), field(n, "nexts", "[]"), field(n, "prevs", "[]"),
                field(n, "reg_values_in", "{}"), field(n, "reg_values_out", "{}"),
                field(n, "memory_values_in", "{}"), field(n, "memory_values_out", "{}"),
                field(n, "live_in", "[]"), field(n, "live_out", "[]"), field(n, "u_def", "[]"),
            ));
        }
    }
    // whole-document round trip through the text layer
    let text = serde_yaml::to_string(&wrapped).expect("to_string");
    let rt = match serde_yaml::from_str::<CfgWrapper>(&text) {
        Ok(back) => {
            let again = serde_yaml::to_value(&back).expect("to_value");
            if again == value { "RT=same" } else { "RT=different" }
        }
        Err(_) => "RT=unloadable",
    };
    out.push(rt.to_string());
    out.push(crate::s_cfg::picks_of(&cfg));
    out.push("END".to_string());
    out.join(" ")
}
