//! Pure leaf functions: literals and constant folding.
use crate::wire::dec_str;
use crate::Handler;
use riscv_analysis::cfg::MathOp;
use riscv_analysis::parser::{CsrImm, Imm};
use std::str::FromStr;

pub fn dispatch(cmd: &str) -> Option<Handler> {
    Some(match cmd {
        "imm" => imm,
        "csrimm" => csrimm,
        "op" => op,
        _ => return None,
    })
}

fn imm(a: &[&str]) -> String {
    match Imm::from_str(&dec_str(a[0])) {
        Ok(i) => format!("some {}", i.value()),
        Err(()) => "none".to_string(),
    }
}

fn csrimm(a: &[&str]) -> String {
    match CsrImm::from_str(&dec_str(a[0])) {
        Ok(i) => format!("some {}", i.value()),
        Err(()) => "none".to_string(),
    }
}

fn mathop(s: &str) -> MathOp {
    match s {
        "add" => MathOp::Add, "and" => MathOp::And, "or" => MathOp::Or, "sll" => MathOp::Sll,
        "slt" => MathOp::Slt, "sltu" => MathOp::Sltu, "sra" => MathOp::Sra, "srl" => MathOp::Srl,
        "sub" => MathOp::Sub, "xor" => MathOp::Xor, "mul" => MathOp::Mul, "mulh" => MathOp::Mulh,
        "mulhsu" => MathOp::Mulhsu, "mulhu" => MathOp::Mulhu, "div" => MathOp::Div,
        "divu" => MathOp::Divu, "rem" => MathOp::Rem, "remu" => MathOp::Remu,
        _ => panic!("mathop"),
    }
}

fn op(a: &[&str]) -> String {
    let x: i32 = a[1].parse().unwrap();
    let y: i32 = a[2].parse().unwrap();
    mathop(a[0]).operate(x, y).to_string()
}
