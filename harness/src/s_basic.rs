//! Pure leaf functions: literals and constant folding.
use crate::wire::dec_str;
use crate::Handler;
use riscv_analysis::cfg::MathOp;
use riscv_analysis::parser::{CsrImm, Imm, Inst};
use std::str::FromStr;

pub fn dispatch(cmd: &str) -> Option<Handler> {
    Some(match cmd {
        "imm" => imm,
        "csrimm" => csrimm,
        "op" => op,
        "instop" => instop,
        _ => return None,
    })
}

fn imm(a: &[&str]) -> String {
    match Imm::from_str(&dec_str(a[0])) {
        Ok(i) => format!("some {}", i.value()),
        Err(()) => "none".to_string(),
    }
}

fn csrimm(a: &[&str]) -> String {
    match CsrImm::from_str(&dec_str(a[0])) {
        Ok(i) => format!("some {}", i.value()),
        Err(()) => "none".to_string(),
    }
}

fn mathop(s: &str) -> MathOp {
    match s {
        "add" => MathOp::Add, "and" => MathOp::And, "or" => MathOp::Or, "sll" => MathOp::Sll,
        "slt" => MathOp::Slt, "sltu" => MathOp::Sltu, "sra" => MathOp::Sra, "srl" => MathOp::Srl,
        "sub" => MathOp::Sub, "xor" => MathOp::Xor, "mul" => MathOp::Mul, "mulh" => MathOp::Mulh,
        "mulhsu" => MathOp::Mulhsu, "mulhu" => MathOp::Mulhu, "div" => MathOp::Div,
        "divu" => MathOp::Divu, "rem" => MathOp::Rem, "remu" => MathOp::Remu,
        _ => panic!("mathop"),
    }
}

fn op(a: &[&str]) -> String {
    let x: i32 = a[1].parse().unwrap();
    let y: i32 = a[2].parse().unwrap();
    mathop(a[0]).operate(x, y).to_string()
}

fn opname(o: Option<MathOp>) -> &'static str {
    match o {
        None => "-",
        Some(MathOp::Add) => "add", Some(MathOp::And) => "and", Some(MathOp::Or) => "or", Some(MathOp::Sll) => "sll",
        Some(MathOp::Slt) => "slt", Some(MathOp::Sltu) => "sltu", Some(MathOp::Sra) => "sra", Some(MathOp::Srl) => "srl",
        Some(MathOp::Sub) => "sub", Some(MathOp::Xor) => "xor", Some(MathOp::Mul) => "mul", Some(MathOp::Mulh) => "mulh",
        Some(MathOp::Mulhsu) => "mulhsu", Some(MathOp::Mulhu) => "mulhu", Some(MathOp::Div) => "div",
        Some(MathOp::Divu) => "divu", Some(MathOp::Rem) => "rem", Some(MathOp::Remu) => "remu",
    }
}

/// `instop <mnemonic>`: the operator the value analysis folds this mnemonic with (Inst::math_op) and the
/// scalar operator used for stack arithmetic (Inst::scalar_op); `none` if the mnemonic is unknown
fn instop(a: &[&str]) -> String {
    match Inst::from_str(&dec_str(a[0])) {
        Ok(i) => format!("{} {}", opname(i.clone().math_op()), opname(i.scalar_op())),
        Err(_) => "none".to_string(),
    }
}
