//! Correspondence harness: reads one command per line from the file given as the first
//! argument and prints exactly one result line per command, in the canonical text form the
//! OCaml driver of the extracted Coq model prints for the same command.
//!
//! Robustness: every command runs under `catch_unwind` (a panic prints `PANIC`), and a
//! watchdog thread prints `TIMEOUT` for the current command and exits with status 3 when a
//! command exceeds the per-command limit; the caller restarts after that command
//! (`--skip n`).  A crash of the process (stack overflow) is detected by the caller from the
//! missing line.
use std::io::{BufRead, Write};
use std::sync::atomic::{AtomicU64, Ordering};
use std::sync::Arc;

mod wire;
mod s_basic;
mod s_lex;
mod memreader;
mod s_parse;
mod s_cfg;
mod s_yaml;

pub type Handler = fn(&[&str]) -> String;

fn dispatch(cmd: &str) -> Option<Handler> {
    s_basic::dispatch(cmd).or_else(|| s_lex::dispatch(cmd)).or_else(|| s_parse::dispatch(cmd)).or_else(|| s_cfg::dispatch(cmd)).or_else(|| s_yaml::dispatch(cmd))
}

/// CPU time (user + system) used by this process so far, in milliseconds.  The watchdog measures CPU time, not wall
/// time: a hang burns CPU, while a command that is merely starved by other load on the machine does not.
fn cpu_ms() -> u64 {
    let s = std::fs::read_to_string("/proc/self/stat").unwrap_or_default();
    // fields after the parenthesised command name: state ppid ... utime (14th) stime (15th), in clock ticks (100/s)
    let rest = s.rsplit(')').next().unwrap_or("");
    let f: Vec<&str> = rest.split_whitespace().collect();
    let ticks = f.get(11).and_then(|x| x.parse::<u64>().ok()).unwrap_or(0) + f.get(12).and_then(|x| x.parse::<u64>().ok()).unwrap_or(0);
    ticks * 10
}

fn main() {
    let args: Vec<String> = std::env::args().collect();
    let path = &args[1];
    let mut skip = 0usize;
    let mut limit_ms = 5000u64;
    let mut i = 2;
    while i < args.len() {
        match args[i].as_str() {
            "--skip" => { skip = args[i + 1].parse().unwrap(); i += 2; }
            "--limit-ms" => { limit_ms = args[i + 1].parse().unwrap(); i += 2; }
            _ => { i += 1; }
        }
    }
    std::panic::set_hook(Box::new(|_| {}));
    let file = std::fs::File::open(path).expect("commands file");
    let reader = std::io::BufReader::new(file);
    // watchdog: `tick` holds the start (ms of CPU time used so far, +1) of the running command, 0 = idle;
    // `wall` the wall-clock start: the wall limit is 30 times the CPU limit (a last resort against a sleeping hang)
    let tick = Arc::new(AtomicU64::new(0));
    let wall = Arc::new(AtomicU64::new(0));
    let t0 = std::time::Instant::now();
    {
        let tick = tick.clone();
        let wall = wall.clone();
        std::thread::spawn(move || loop {
            std::thread::sleep(std::time::Duration::from_millis(50));
            let started = tick.load(Ordering::SeqCst);
            if started != 0 {
                let now = cpu_ms() + 1;
                let wnow = t0.elapsed().as_millis() as u64 + 1;
                if now > started + limit_ms || wnow > wall.load(Ordering::SeqCst) + 30 * limit_ms {
                    let out = std::io::stdout();
                    let mut out = out.lock();
                    let _ = writeln!(out, "TIMEOUT");
                    let _ = out.flush();
                    std::process::exit(3);
                }
            }
        });
    }
    let stdout = std::io::stdout();
    for (n, line) in reader.lines().enumerate() {
        let line = line.expect("utf8 line");
        if n < skip {
            continue;
        }
        let parts: Vec<&str> = line.split(' ').collect();
        let res = if parts.is_empty() || parts[0].is_empty() {
            String::new()
        } else {
            match dispatch(parts[0]) {
                None => "BADCMD".to_string(),
                Some(h) => {
                    wall.store(t0.elapsed().as_millis() as u64 + 1, Ordering::SeqCst);
                    tick.store(cpu_ms() + 1, Ordering::SeqCst);
                    let r = std::panic::catch_unwind(|| h(&parts[1..]));
                    tick.store(0, Ordering::SeqCst);
                    match r {
                        Ok(s) => s,
                        Err(_) => "PANIC".to_string(),
                    }
                }
            }
        };
        let mut out = stdout.lock();
        let _ = writeln!(out, "{res}");
        let _ = out.flush();
    }
}
