//! Wire encoding shared with ocaml/conv.ml: a string is its code points in decimal separated
//! by '.', the empty string is "-".
pub fn dec_str(s: &str) -> String {
    if s == "-" {
        return String::new();
    }
    s.split('.')
        .map(|x| char::from_u32(x.parse::<u32>().expect("code point")).expect("scalar value"))
        .collect()
}

pub fn enc_str(s: &str) -> String {
    if s.is_empty() {
        return "-".to_string();
    }
    s.chars().map(|c| (c as u32).to_string()).collect::<Vec<_>>().join(".")
}
