//! Stages S4..S12: `cfg <stage> <picks> <store> <base>` runs the pass pipeline of
//! `Manager::gen_full_cfg` up to `<stage>` on the nodes parsed from the store and dumps the
//! graph; `diag <picks> <store> <base>` prints the diagnostic items of the whole pipeline.
//! Edges are read by `Rc` pointer identity.  `<picks>` is for the model only.
use crate::memreader::{decode_store, MemReader};
use crate::s_lex::show_range;
use crate::s_parse::{run_parse, show_node};
use crate::wire::enc_str;
use crate::Handler;
use riscv_analysis::analysis::{AvailableValue, AvailableValuePass, LivenessPass, MemoryLocation};
use riscv_analysis::cfg::{AvailableValueMap, Cfg, CfgNode, RegisterSet, Segment};
use riscv_analysis::gen::{EcallTerminationPass, EliminateDeadCodeDirectionsPass, FunctionMarkupPass, NodeDirectionPass};
use riscv_analysis::parser::{ParseError, ParserNode, RVParser, Register};
use riscv_analysis::passes::{CfgError, DiagnosticItem, DiagnosticLocation, GenerationPass, Manager, SeverityLevel};
use std::collections::HashSet;
use std::rc::Rc;

pub fn dispatch(cmd: &str) -> Option<Handler> {
    Some(match cmd {
        "cfg" => cfg_cmd,
        "diag" => diag_cmd,
        "rerun" => rerun_cmd,
        "repeat" => repeat_cmd,
        "order" => order_cmd,
        _ => return None,
    })
}


/// The number a CSR operand was written with, read through the derived `Debug` text (`CsrImm(4160)`) and not
/// through the accessor the analysis and the dump use: a fact is about the CSR that was written.
fn csr_raw<T: std::fmt::Debug>(c: &T) -> u64 {
    let t = format!("{c:?}");
    t.chars().filter(char::is_ascii_digit).collect::<String>().parse().unwrap_or(u64::MAX)
}

fn idx(cfg: &Cfg, n: &Rc<CfgNode>) -> usize {
    cfg.nodes().iter().position(|m| Rc::ptr_eq(m, n)).unwrap_or(usize::MAX)
}

fn idx_set(cfg: &Cfg, s: &HashSet<Rc<CfgNode>>) -> String {
    let mut v: Vec<usize> = s.iter().map(|n| idx(cfg, n)).collect();
    v.sort_unstable();
    v.iter().map(|i| i.to_string()).collect::<Vec<_>>().join(",")
}

fn mask(s: &RegisterSet) -> u32 {
    let mut m = 0u32;
    for r in s.iter() {
        m |= 1 << r.to_num();
    }
    m
}

pub fn show_aval(v: &AvailableValue) -> String {
    match v {
        AvailableValue::Constant(c) => format!("c:{c}"),
        AvailableValue::Address(l) => format!("a:{}", enc_str(l.get().as_str())),
        AvailableValue::Memory(l, o) => format!("m:{}:{o}", enc_str(l.as_str())),
        AvailableValue::RegisterWithScalar(r, o) => format!("rs:{}:{o}", r.to_num()),
        AvailableValue::OriginalRegisterWithScalar(r, o) => format!("ors:{}:{o}", r.to_num()),
        AvailableValue::MemoryAtRegister(r, o) => format!("mr:{}:{o}", r.to_num()),
        AvailableValue::MemoryAtOriginalRegister(r, o) => format!("omr:{}:{o}", r.to_num()),
        AvailableValue::ValueInCsr(c) => format!("vc:{}", csr_raw(c)),
        AvailableValue::MemoryAtCsr(c, o) => format!("mc:{}:{o}", csr_raw(c)),
    }
}

fn show_regmap(m: &AvailableValueMap<Register>) -> String {
    let mut v: Vec<(u8, String)> = m.iter().map(|(k, v)| (k.to_num(), show_aval(v))).collect();
    v.sort();
    v.iter().map(|(k, s)| format!("{k}={s}")).collect::<Vec<_>>().join(";")
}

pub fn show_memloc(l: &MemoryLocation) -> String {
    match l {
        MemoryLocation::StackOffset(o) => format!("so:{o}"),
        MemoryLocation::CsrRegister(c) => format!("csr:{}", csr_raw(c)),
        MemoryLocation::CsrRegisterValueOffset(c, o) => format!("csro:{}:{o}", csr_raw(c)),
    }
}

fn show_memmap(m: &AvailableValueMap<MemoryLocation>) -> String {
    let mut v: Vec<(MemoryLocation, String)> = m.iter().map(|(k, v)| (k.clone(), show_aval(v))).collect();
    v.sort();
    v.iter().map(|(k, s)| format!("{}={s}", show_memloc(k))).collect::<Vec<_>>().join(";")
}

fn dump(reader: &MemReader, cfg: &Cfg) -> String {
    let mut out = Vec::new();
    // functions, numbered by the position of their entry node
    let mut funcs: Vec<_> = cfg.functions().values().cloned().collect();
    funcs.sort_by_key(|f| idx(cfg, &f.entry()));
    funcs.dedup_by(|a, b| Rc::ptr_eq(a, b));
    for (i, n) in cfg.nodes().iter().enumerate() {
        let mut labels: Vec<String> = n.labels().iter().map(|l| enc_str(l.get().as_str())).collect();
        labels.sort();
        let mut fids: Vec<usize> = n
            .functions()
            .iter()
            .map(|f| funcs.iter().position(|g| Rc::ptr_eq(f, g)).unwrap_or(usize::MAX))
            .collect();
        fids.sort_unstable();
        out.push(format!(
            "C({i} {} L[{}] {} >[{}] <[{}] F[{}] ri[{}] ro[{}] mi[{}] mo[{}] li={} lo={} ud={})",
            show_node(reader, &n.node()),
            labels.join(","),
            if n.segment() == Segment::Text { "text" } else { "data" },
            idx_set(cfg, &n.nexts()),
            idx_set(cfg, &n.prevs()),
            fids.iter().map(|x| x.to_string()).collect::<Vec<_>>().join(","),
            show_regmap(&n.reg_values_in()),
            show_regmap(&n.reg_values_out()),
            show_memmap(&n.memory_values_in()),
            show_memmap(&n.memory_values_out()),
            mask(&n.live_in()),
            mask(&n.live_out()),
            mask(&n.u_def()),
        ));
    }
    for f in &funcs {
        let mut ns: Vec<usize> = f.nodes().iter().map(|n| idx(cfg, n)).collect();
        ns.sort_unstable();
        out.push(format!(
            "FN(entry={} exit={} nodes[{}] defs={})",
            idx(cfg, &f.entry()),
            idx(cfg, &f.exit()),
            ns.iter().map(|x| x.to_string()).collect::<Vec<_>>().join(","),
            mask(&f.defs())
        ));
    }
    let mut lm: Vec<(String, usize)> = cfg
        .functions()
        .iter()
        .map(|(l, f)| (enc_str(l.get().as_str()), funcs.iter().position(|g| Rc::ptr_eq(f, g)).unwrap_or(usize::MAX)))
        .collect();
    lm.sort();
    out.push(format!("LF[{}]", lm.iter().map(|(l, f)| format!("{l}={f}")).collect::<Vec<_>>().join(",")));
    out.join(" ")
}

pub fn show_cfg_error(reader: &MemReader, e: &CfgError) -> String {
    let body = match e {
        CfgError::LabelsNotDefined(ls) => {
            let mut v: Vec<String> = ls.iter().map(|l| enc_str(l.get().as_str())).collect();
            v.sort();
            format!("labelsnotdefined [{}]", v.join(","))
        }
        CfgError::DuplicateLabel(l) => format!("duplicatelabel {}", enc_str(l.get().as_str())),
        CfgError::LabelWithoutInstruction(l) => format!("labelwithoutinstruction {}", enc_str(l.get().as_str())),
        CfgError::FunctionWithoutReturn(_, names) => {
            let mut v: Vec<String> = names.split(", ").map(enc_str).collect();
            v.sort();
            format!("functionwithoutreturn [{}]", v.join(","))
        }
        CfgError::UnexpectedError => "unexpectederror".to_string(),
        _ => "other".to_string(),
    };
    format!("CE({} @{}/{})", body, show_range(&e.range()).replace(' ', "-"), reader.show_file(e.file()))
}

/// the pipeline of Manager::gen_full_cfg, stopping after `stage`
fn pipeline(nodes: Vec<ParserNode>, stage: &str) -> Result<Cfg, Box<CfgError>> {
    // the finished graph is the one the implementation's own driver builds (so that a change to the order of the
    // passes in Manager::gen_full_cfg is seen); the intermediate stages replay the documented order step by step
    if stage == "live" {
        return Manager::gen_full_cfg(nodes);
    }
    let handlers = {
        let mut cfg = Cfg::new(nodes.clone())?;
        if stage == "new1" { return Ok(cfg); }
        NodeDirectionPass::run(&mut cfg)?;
        if stage == "dir1" { return Ok(cfg); }
        AvailableValuePass::run(&mut cfg)?;
        if stage == "avail0" { return Ok(cfg); }
        cfg.get_names_of_interrupt_handler_functions()
    };
    let mut cfg = Cfg::new_with_predefined_call_names(nodes, &Some(handlers))?;
    if stage == "new" { return Ok(cfg); }
    NodeDirectionPass::run(&mut cfg)?;
    if stage == "dir" { return Ok(cfg); }
    EliminateDeadCodeDirectionsPass::run(&mut cfg)?;
    if stage == "dead" { return Ok(cfg); }
    AvailableValuePass::run(&mut cfg)?;
    if stage == "avail1" { return Ok(cfg); }
    EcallTerminationPass::run(&mut cfg)?;
    if stage == "term1" { return Ok(cfg); }
    FunctionMarkupPass::run(&mut cfg)?;
    if stage == "markup" { return Ok(cfg); }
    AvailableValuePass::run(&mut cfg)?;
    if stage == "avail2" { return Ok(cfg); }
    EcallTerminationPass::run(&mut cfg)?;
    if stage == "term2" { return Ok(cfg); }
    LivenessPass::run(&mut cfg)?;
    Ok(cfg)
}

/// the exits chosen by the function traversal (oracle for the model)
pub fn picks_of(cfg: &Cfg) -> String {
    let mut funcs: Vec<_> = cfg.functions().values().cloned().collect();
    funcs.sort_by_key(|f| idx(cfg, &f.entry()));
    funcs.dedup_by(|a, b| Rc::ptr_eq(a, b));
    format!("PICKS[{}]", funcs.iter().map(|f| idx(cfg, &f.exit()).to_string()).collect::<Vec<_>>().join("."))
}

fn cfg_cmd(a: &[&str]) -> String {
    let stage = a[0];
    let (reader, nodes, _errs) = run_parse(&a[2..]);
    match pipeline(nodes, stage) {
        Ok(cfg) => format!("{} {} END", dump(&reader, &cfg), picks_of(&cfg)),
        Err(e) => format!("{} END", show_cfg_error(&reader, &e)),
    }
}

fn sev(l: &SeverityLevel) -> &'static str {
    match l {
        SeverityLevel::Error => "Error",
        SeverityLevel::Warning => "Warning",
        SeverityLevel::Information => "Information",
        SeverityLevel::Hint => "Hint",
    }
}

pub fn show_item(reader: &MemReader, d: &DiagnosticItem) -> String {
    format!(
        "D({} {} {} {} @{}/{})",
        sev(&d.level),
        enc_str(&d.title),
        enc_str(&d.description),
        d.related.as_ref().map_or(0, std::vec::Vec::len),
        show_range(&d.range).replace(' ', "-"),
        reader.show_file(d.file)
    )
}

/// what `RVParser::run` and the CLI do after parsing, without the final sort
pub fn items_of(nodes: Vec<ParserNode>, errs: &[ParseError]) -> (Vec<DiagnosticItem>, Option<Cfg>) {
    let mut diags: Vec<DiagnosticItem> = errs.iter().map(|e| DiagnosticItem::from(e.clone())).collect();
    match Manager::gen_full_cfg(nodes) {
        Ok(cfg) => {
            let mut dm = riscv_analysis::passes::DiagnosticManager::new();
            Manager::run_diagnostics(&cfg, &mut dm);
            for x in dm.iter() {
                diags.push(DiagnosticItem::from_displayable(x.as_ref()));
            }
            (diags, Some(cfg))
        }
        Err(e) => {
            diags.push(DiagnosticItem::from(*e));
            (diags, None)
        }
    }
}

fn diag_cmd(a: &[&str]) -> String {
    let (reader, nodes, errs) = run_parse(&a[1..]);
    let (diags, cfg) = items_of(nodes, &errs);
    let mut out: Vec<String> = diags.iter().map(|d| show_item(&reader, d)).collect();
    if let Some(cfg) = cfg {
        out.push(picks_of(&cfg));
    }
    out.push("END".to_string());
    out.join(" ")
}

/// `rerun <seq> <store> <base>`: after the standard pipeline, apply the extra pass runs named by
/// `seq` (a = AvailableValuePass, e = EcallTerminationPass, l = LivenessPass) and report whether
/// any fact, edge or diagnostic changed ("SAME" / "CHANGED after <k> <first difference>").
fn rerun_cmd(a: &[&str]) -> String {
    let seq = a[0];
    let (reader, nodes, _errs) = run_parse(&a[1..]);
    let mut cfg = match Manager::gen_full_cfg(nodes) {
        Ok(c) => c,
        Err(e) => return format!("{} END", show_cfg_error(&reader, &e)),
    };
    let strip = |s: String| -> String {
        // u_def is an internal helper of the liveness pass that no lint reads; it is reported
        // separately (UDEF) and not counted as a fact
        s.split(' ').filter(|w| !w.starts_with("ud=")).collect::<Vec<_>>().join(" ")
    };
    let diags = |cfg: &Cfg| -> String {
        let mut dm = riscv_analysis::passes::DiagnosticManager::new();
        Manager::run_diagnostics(cfg, &mut dm);
        let mut v: Vec<String> = dm.iter().map(|x| show_item(&reader, &DiagnosticItem::from_displayable(x.as_ref()))).collect();
        v.sort();
        v.join(" ")
    };
    let before = strip(dump(&reader, &cfg));
    let before_full = dump(&reader, &cfg);
    let before_d = diags(&cfg);
    for (k, ch) in seq.chars().enumerate() {
        let r = match ch {
            'a' => AvailableValuePass::run(&mut cfg),
            'e' => EcallTerminationPass::run(&mut cfg),
            'l' => LivenessPass::run(&mut cfg),
            _ => Ok(()),
        };
        if let Err(e) = r {
            return format!("ERROR after {} {} END", k, show_cfg_error(&reader, &e));
        }
        let now = strip(dump(&reader, &cfg));
        if now != before {
            // first node whose record differs (records start with `C(<index> N(<kind> ...`)
            let (x, y) = before.split(" C(").zip(now.split(" C(")).find(|(x, y)| x != y).unwrap_or(("", ""));
            return format!("CHANGED after {} pass={} node=[{}] was=[{}] END", k, ch, y, x);
        }
        let d = diags(&cfg);
        if d != before_d {
            return format!("DIAGS-CHANGED after {} END", k);
        }
    }
    if dump(&reader, &cfg) == before_full { "SAME END".to_string() } else { "SAME UDEF-CHANGED END".to_string() }
}

/// `repeat <k> <store> <base>`: `RVParser::run` k times in this process, each on a fresh parser and reader
/// (fresh file/node UUIDs and fresh hash seeds for every map); prints each run's item list in output order.
/// Files are named by their path so that the order of files can be compared between runs.
fn repeat_cmd(a: &[&str]) -> String {
    use riscv_analysis::reader::FileReader;
    let k: usize = a[0].parse().unwrap_or(2);
    let mut out = vec![format!("RUNS {}", k)];
    for _ in 0..k {
        let (reader, base) = decode_store(&a[1..]);
        let mut parser = RVParser::new(reader);
        let items = parser.run(&base);
        let r = &parser.reader;
        let shown: Vec<String> = items
            .iter()
            .map(|d| {
                let rel = d.related.as_ref().map_or(String::new(), |v| {
                    v.iter()
                        .map(|x| format!("{}:{}:{}", r.get_filename(x.file).map_or("-".to_string(), |f: String| enc_str(&f)),
                            show_range(&x.range).replace(' ', "-"), enc_str(&x.description)))
                        .collect::<Vec<_>>()
                        .join("+")
                });
                format!("D({} {} {} {} @{}/{} rel={})", sev(&d.level), enc_str(&d.title), enc_str(&d.description), enc_str(&d.long_description),
                    show_range(&d.range).replace(' ', "-"), r.get_filename(d.file).map_or("-".to_string(), |f: String| enc_str(&f)), rel)
            })
            .collect();
        out.push(format!("R[{}]", shown.join(" ")));
    }
    out.push("END".to_string());
    out.join(" ")
}

/// `order <store> <base>`: the items in the order the passes produced them (U[...]) and after
/// `DiagnosticItem::sort_for_output` (S[...]); an item is `O(<sev> <title> <description> <file name> <range>)`.
fn order_cmd(a: &[&str]) -> String {
    use riscv_analysis::reader::FileReader;
    let (reader, base) = decode_store(a);
    let mut parser = RVParser::new(reader);
    let (nodes, errs) = parser.parse_from_file(&base, false);
    let (items, _cfg) = items_of(nodes, &errs);
    let show = |v: &[DiagnosticItem], r: &MemReader| -> String {
        v.iter()
            .map(|d| {
                format!("O({} {} {} {} {})", sev(&d.level), enc_str(&d.title), enc_str(&d.description),
                    r.get_filename(d.file).map_or("~".to_string(), |f: String| enc_str(&f)), show_range(&d.range).replace(' ', "-"))
            })
            .collect::<Vec<_>>()
            .join(" ")
    };
    let unsorted = show(&items, &parser.reader);
    let mut sorted = items.clone();
    DiagnosticItem::sort_for_output(&mut sorted, &parser.reader);
    format!("U[{}] S[{}] END", unsorted, show(&sorted, &parser.reader))
}
