//! An in-memory `FileReader`: a map from path to text or injected IO fault.  A path that is not
//! in the map is `InvalidPath`; a path imported before is `FileAlreadyRead`.  File ids are
//! numbered in order of successful import.
use riscv_analysis::reader::{FileReader, FileReaderError};
use uuid::Uuid;

#[derive(Clone, Debug)]
pub enum Entry {
    Text(String),
    Fault,
}

#[derive(Clone, Debug)]
pub struct MemReader {
    pub files: Vec<(String, Entry)>,
    pub imported: Vec<(String, Uuid)>,
}

impl MemReader {
    pub fn new(files: Vec<(String, Entry)>) -> Self {
        MemReader { files, imported: Vec::new() }
    }
    pub fn index_of(&self, id: Uuid) -> Option<usize> {
        self.imported.iter().position(|(_, u)| *u == id)
    }
    pub fn show_file(&self, id: Uuid) -> String {
        match self.index_of(id) {
            Some(i) => i.to_string(),
            None => if id.is_nil() { "n".to_string() } else { "?".to_string() },
        }
    }
}

impl FileReader for MemReader {
    fn import_file(&mut self, path: &str, _parent: Option<Uuid>) -> Result<(Uuid, String), FileReaderError> {
        let Some((_, e)) = self.files.iter().find(|(p, _)| p == path) else {
            return Err(FileReaderError::InvalidPath);
        };
        match e {
            Entry::Fault => Err(FileReaderError::IOErr("injected".to_string())),
            Entry::Text(t) => {
                if self.imported.iter().any(|(p, _)| p == path) {
                    return Err(FileReaderError::FileAlreadyRead(path.to_string()));
                }
                let id = Uuid::new_v4();
                self.imported.push((path.to_string(), id));
                Ok((id, t.clone()))
            }
        }
    }
    fn get_text(&self, uuid: Uuid) -> Option<String> {
        let (p, _) = self.imported.iter().find(|(_, u)| *u == uuid)?;
        match &self.files.iter().find(|(q, _)| q == p)?.1 {
            Entry::Text(t) => Some(t.clone()),
            Entry::Fault => None,
        }
    }
    fn get_filename(&self, uuid: Uuid) -> Option<String> {
        self.imported.iter().find(|(_, u)| *u == uuid).map(|(p, _)| p.clone())
    }
    fn get_base_file(&self) -> Option<Uuid> {
        self.imported.first().map(|(_, u)| *u)
    }
}

/// `<n> <path> <t|f> <text> ... <base>` (all strings wire-encoded)
pub fn decode_store(a: &[&str]) -> (MemReader, String) {
    use crate::wire::dec_str;
    let n: usize = a[0].parse().unwrap();
    let mut files = Vec::new();
    for i in 0..n {
        let p = dec_str(a[1 + 3 * i]);
        let e = if a[2 + 3 * i] == "t" { Entry::Text(dec_str(a[3 + 3 * i])) } else { Entry::Fault };
        files.push((p, e));
    }
    (MemReader::new(files), dec_str(a[1 + 3 * n]))
}
