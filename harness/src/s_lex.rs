//! Stage S1: the lexer.  `lex <text>` prints every item `Lexer::next` yields.
use crate::wire::{dec_str, enc_str};
use crate::Handler;
use riscv_analysis::parser::{LexError, Lexer, Position, Range, StringLexErrorType, Token, TokenType};
use riscv_analysis::passes::DiagnosticLocation;

pub fn dispatch(cmd: &str) -> Option<Handler> {
    Some(match cmd {
        "lex" => lex,
        _ => return None,
    })
}

pub fn show_pos(p: &Position) -> String {
    format!("{}.{}.{}", p.zero_idx_line(), p.zero_idx_column(), p.raw_index())
}

pub fn show_range(r: &Range) -> String {
    format!("{} {}", show_pos(r.start()), show_pos(r.end()))
}

pub fn show_ttype(t: &TokenType) -> String {
    match t {
        TokenType::LParen => "lp -".to_string(),
        TokenType::RParen => "rp -".to_string(),
        TokenType::Newline => "nl -".to_string(),
        TokenType::Label(s) => format!("lab {}", enc_str(s)),
        TokenType::Symbol(s) => format!("sym {}", enc_str(s)),
        TokenType::Directive(s) => format!("dir {}", enc_str(s)),
        TokenType::String(s) => format!("str {}", enc_str(s)),
        TokenType::Char(c) => format!("chr {}", *c as u32),
        TokenType::Comment(s) => format!("com {}", enc_str(s)),
    }
}

pub fn show_token(t: &Token) -> String {
    format!("{} {}", show_ttype(t.token_type()), show_range(&t.range()))
}

pub fn show_lexerr(e: &LexError) -> String {
    match e {
        LexError::InvalidString(t, se) => {
            let k = match se.kind {
                StringLexErrorType::InvalidEscapeSequence => "esc",
                StringLexErrorType::Unclosed => "unclosed",
                StringLexErrorType::Newline => "newline",
            };
            format!("ES({} {} {})", show_token(t), show_pos(&se.pos), k)
        }
        LexError::UnexpectedToken(t) => format!("EU({})", show_token(t)),
        _ => "E?".to_string(),
    }
}

fn lex(a: &[&str]) -> String {
    let text = dec_str(a[0]);
    let mut out = Vec::new();
    for item in Lexer::new(text, uuid::Uuid::nil()) {
        out.push(match item {
            Ok(t) => format!("K({})", show_token(&t)),
            Err(e) => show_lexerr(&e),
        });
    }
    out.push("END".to_string());
    out.join(" ")
}
