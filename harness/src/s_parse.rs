//! Stages S2+S3: `parse <store> <base>` prints the nodes and parse errors of
//! `RVParser::parse_from_file` over an in-memory reader.
use crate::memreader::{decode_store, MemReader};
use crate::s_lex::{show_pos, show_range, show_ttype};
use crate::wire::enc_str;
use crate::Handler;
use riscv_analysis::parser::{
    DirectiveType, ExpectedType, Inst, ParseError, ParserNode, RVParser, StringLexErrorType, Token, With,
};
use riscv_analysis::passes::DiagnosticLocation;

pub fn dispatch(cmd: &str) -> Option<Handler> {
    Some(match cmd {
        "parse" => parse,
        _ => return None,
    })
}

pub fn show_tok(r: &MemReader, t: &Token) -> String {
    format!("{} {}/{}", show_ttype(t.token_type()), show_range(&t.range()), r.show_file(t.file()))
}

fn w<T>(r: &MemReader, v: String, t: &With<T>) -> String {
    format!("{}@{}/{}", v, show_range(&t.range()).replace(' ', "-"), r.show_file(t.file()))
}

fn wi<T>(r: &MemReader, t: &With<T>) -> String
where
    for<'a> Inst: From<&'a T>,
{
    w(r, Inst::from(t.get()).to_string(), t)
}

pub fn show_node(r: &MemReader, n: &ParserNode) -> String {
    let rt = n.token();
    let body = match n {
        ParserNode::ProgramEntry(x) => format!("progentry {}", r.show_file(x.file)),
        ParserNode::FuncEntry(x) => format!("funcentry {} {}", r.show_file(x.file), x.is_interrupt_handler),
        ParserNode::Arith(x) => format!("arith {} {} {} {}", wi(r, &x.inst), w(r, x.rd.get().to_num().to_string(), &x.rd),
            w(r, x.rs1.get().to_num().to_string(), &x.rs1), w(r, x.rs2.get().to_num().to_string(), &x.rs2)),
        ParserNode::IArith(x) => format!("iarith {} {} {} {}", wi(r, &x.inst), w(r, x.rd.get().to_num().to_string(), &x.rd),
            w(r, x.rs1.get().to_num().to_string(), &x.rs1), w(r, x.imm.get().value().to_string(), &x.imm)),
        ParserNode::Label(x) => format!("label {}", w(r, enc_str(x.name.get().as_str()), &x.name)),
        ParserNode::JumpLink(x) => format!("jumplink {} {} {}", wi(r, &x.inst), w(r, x.rd.get().to_num().to_string(), &x.rd),
            w(r, enc_str(x.name.get().as_str()), &x.name)),
        ParserNode::JumpLinkR(x) => format!("jumplinkr {} {} {} {}", wi(r, &x.inst), w(r, x.rd.get().to_num().to_string(), &x.rd),
            w(r, x.rs1.get().to_num().to_string(), &x.rs1), w(r, x.imm.get().value().to_string(), &x.imm)),
        ParserNode::Basic(x) => format!("basic {}", wi(r, &x.inst)),
        ParserNode::Directive(x) => {
            let d = match &x.dir {
                DirectiveType::Include(p) => format!("inc {}", w(r, enc_str(p.get()), p)),
                DirectiveType::Align(i) => format!("align {}", w(r, i.get().value().to_string(), i)),
                DirectiveType::Ascii { text, null_term } => format!("ascii {} {}", w(r, enc_str(text.get()), text), null_term),
                DirectiveType::DataSection => "datasec".to_string(),
                DirectiveType::TextSection => "textsec".to_string(),
                DirectiveType::Data(dt, vals) => format!("data {} [{}]", dt,
                    vals.iter().map(|v| w(r, v.get().value().to_string(), v)).collect::<Vec<_>>().join(",")),
                DirectiveType::Space(i) => format!("space {}", w(r, i.get().value().to_string(), i)),
            };
            format!("dir {} {}", w(r, x.dir_token.get().to_string(), &x.dir_token), d)
        }
        ParserNode::Branch(x) => format!("branch {} {} {} {}", wi(r, &x.inst), w(r, x.rs1.get().to_num().to_string(), &x.rs1),
            w(r, x.rs2.get().to_num().to_string(), &x.rs2), w(r, enc_str(x.name.get().as_str()), &x.name)),
        ParserNode::Store(x) => format!("store {} {} {} {}", wi(r, &x.inst), w(r, x.rs1.get().to_num().to_string(), &x.rs1),
            w(r, x.rs2.get().to_num().to_string(), &x.rs2), w(r, x.imm.get().value().to_string(), &x.imm)),
        ParserNode::Load(x) => format!("load {} {} {} {}", wi(r, &x.inst), w(r, x.rd.get().to_num().to_string(), &x.rd),
            w(r, x.rs1.get().to_num().to_string(), &x.rs1), w(r, x.imm.get().value().to_string(), &x.imm)),
        ParserNode::LoadAddr(x) => format!("loadaddr {} {} {}", w(r, "la".to_string(), &x.inst),
            w(r, x.rd.get().to_num().to_string(), &x.rd), w(r, enc_str(x.name.get().as_str()), &x.name)),
        ParserNode::Csr(x) => format!("csr {} {} {} {}", wi(r, &x.inst), w(r, x.rd.get().to_num().to_string(), &x.rd),
            w(r, x.csr.get().value().to_string(), &x.csr), w(r, x.rs1.get().to_num().to_string(), &x.rs1)),
        ParserNode::CsrI(x) => format!("csri {} {} {} {}", wi(r, &x.inst), w(r, x.rd.get().to_num().to_string(), &x.rd),
            w(r, x.csr.get().value().to_string(), &x.csr), w(r, x.imm.get().value().to_string(), &x.imm)),
    };
    format!("N({} | {}/{})", body, show_range(&rt.range()).replace(' ', "-"), r.show_file(rt.file()))
}

fn show_expected(e: &[ExpectedType]) -> String {
    e.iter().map(|x| x.to_string()).collect::<Vec<_>>().join(",")
}

pub fn show_parse_error(r: &MemReader, e: &ParseError) -> String {
    match e {
        ParseError::Expected(ex, t) => format!("E(expected [{}] {})", show_expected(ex), show_tok(r, t)),
        ParseError::Unsupported(t) => format!("E(unsupported {})", show_tok(r, t)),
        ParseError::UnexpectedToken(t) => format!("E(unexpectedtoken {})", show_tok(r, t)),
        ParseError::UnexpectedError(t) => format!("E(unexpectederror {})", show_tok(r, t)),
        ParseError::UnknownDirective(t) => format!("E(unknowndirective {})", show_tok(r, t)),
        ParseError::CyclicDependency(t) => format!("E(cyclic {})", show_tok(r, t)),
        ParseError::FileNotFound(p) => format!("E(filenotfound {})", w(r, enc_str(p.get()), p)),
        ParseError::IOError(p, _) => format!("E(ioerror {})", w(r, enc_str(p.get()), p)),
        ParseError::InvalidString(t, se) => {
            let k = match se.kind {
                StringLexErrorType::InvalidEscapeSequence => "esc",
                StringLexErrorType::Unclosed => "unclosed",
                StringLexErrorType::Newline => "newline",
            };
            format!("E(invalidstring {} {} {})", show_tok(r, t), show_pos(&se.pos), k)
        }
    }
}

pub fn run_parse(a: &[&str]) -> (MemReader, Vec<ParserNode>, Vec<ParseError>) {
    let (reader, base) = decode_store(a);
    let mut parser = RVParser::new(reader);
    let (nodes, errs) = parser.parse_from_file(&base, false);
    (parser.reader, nodes, errs)
}

fn parse(a: &[&str]) -> String {
    let (reader, nodes, errs) = run_parse(a);
    let mut out: Vec<String> = nodes.iter().map(|n| show_node(&reader, n)).collect();
    out.extend(errs.iter().map(|e| show_parse_error(&reader, e)));
    out.push("END".to_string());
    out.join(" ")
}
