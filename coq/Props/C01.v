(* C01 - claimed register and stack values are true on every execution.
   Statements here; proofs in Proofs/SoundProofs.v (transfer_sound, meet soundness, induction over
   executions).  Three premises were added while proving, each forced by a concrete counterexample
   (recorded in DESIGN.md): `Sym g` (C03 proves it for pipeline graphs), `no_reentry g` (no edge leads
   into an entry node: the analysis treats every function entry as a fresh activation; such edges are
   exactly what the first-instruction / jump-to-function / fall-through lints report), and `all_wf g`
   (typing facts the Rust types guarantee: register numbers below 32, 32-bit immediates, an
   arithmetic mnemonic in an arithmetic node). *)
From RV.Model Require Import Base I32 Lexer Isa Parser Cfg Avail Live Lints.
From RV.Spec Require Import Rv32 AvailSpec FixSpec CfgSpec.
From RV.Proofs Require SoundProofs.
Open Scope Z_scope.

Definition rv64_only (i : inst) : bool :=
  match i with
  | IAddw | ISllw | ISraw | ISrlw | IDivw | IRemw | IRemuw | IAddiw | ISlliw | ISraiw | ISrliw | ILwu => true
  | _ => false
  end.
Definition supported_node (n : pnode) : Prop :=
  match n with
  | PCsr _ _ _ _ _ | PCsrI _ _ _ _ _ => False                    (* CSR state is outside this theorem *)
  | PArith i _ _ _ _ | PIArith i _ _ _ _ | PLoad i _ _ _ _ => rv64_only (wv i) = false
  | PJumpLinkR _ _ _ _ _ => is_return n = true                   (* no indirect jump other than ret *)
  | PBasic i _ => inst_eqb (wv i) IUret = false
  | _ => True
  end.
Definition far_from_stack (s0 : mstate) (a : Z) : Prop :=
  forall k, -2097152 <= k < 2097152 -> ma a <> ma (rget s0 2 + k).
Definition supported_at (s0 s : mstate) (c : cnode) : Prop :=
  match cn c with
  | PStore i rs1 _ imm _ =>
      if N.eqb (wv rs1) 2 then
        exists cur, stack_offset (rin c) = Some cur /\ slot_window (cur + wv imm) /\ slot_window cur
      else forall k, 0 <= k < store_width (wv i) -> far_from_stack s0 (rget s (wv rs1) + wv imm + k)
  | PJumpLink _ rd _ _ => N.eqb (wv rd) 1 = true ->             (* a call: the stack position is known *)
      exists cur, stack_offset (rin c) = Some cur /\ slot_window cur
  | _ => True
  end.
Inductive srun (addr_of : str -> Z) (g : cfg) (s0 : mstate) : nat -> mstate -> Prop :=
| srun_start : forall e c, nth_opt (gnodes g) e = Some c -> is_any_entry (cn c) = true -> srun addr_of g s0 e s0
| srun_step : forall i s c j s', srun addr_of g s0 i s -> nth_opt (gnodes g) i = Some c ->
    supported_at s0 s c -> step addr_of g i s j s' -> srun addr_of g s0 j s'.
Definition all_supported (g : cfg) : Prop :=
  forall i c, nth_opt (gnodes g) i = Some c -> supported_node (cn c).

(* ADDED premises, with the bodies of Proofs/SoundProofs.v *)
Definition no_reentry (g : cfg) : Prop :=
  forall i c j cj, nth_opt (gnodes g) i = Some c -> In j (nexts c) -> nth_opt (gnodes g) j = Some cj ->
    is_any_entry (cn cj) = false.
Definition node_wf (n : pnode) : Prop :=
  (forall w, writes_to n = Some w -> (wv w < 32)%N) /\
  match n with
  | PArith i _ _ _ _ => inst_kind (wv i) = KArith
  | PIArith _ _ _ imm _ => in32 (wv imm)
  | PStore _ _ rs2 _ _ => (wv rs2 < 32)%N
  | _ => True
  end.
Definition all_wf (g : cfg) : Prop :=
  forall i c, nth_opt (gnodes g) i = Some c -> node_wf (cn c).

(* the inductive `srun` of this file and its copy in the proof file generate the same executions *)
Lemma srun_bridge a g s0 i s : srun a g s0 i s -> SoundProofs.srun a g s0 i s.
Proof.
  induction 1; [eapply SoundProofs.srun_start|eapply SoundProofs.srun_step]; eauto.
Qed.

Definition C01_statement : Prop :=
  forall (addr_of : str -> Z) (g : cfg) (s0 : mstate),
    AvailEqns g -> Sym g -> all_supported g -> no_reentry g -> all_wf g -> regs_in32 s0 ->
    forall i s, srun addr_of g s0 i s ->
      forall c, nth_opt (gnodes g) i = Some c ->
        (is_any_entry (cn c) = false ->
           reg_claims addr_of s0 s (rin c) /\ mem_claims addr_of s0 s (min c)) /\
        (forall j s', supported_at s0 s c -> step addr_of g i s j s' ->
           reg_claims addr_of s0 s' (rout c) /\ mem_claims addr_of s0 s' (mout c)).

Theorem C01_claims_hold_on_executions : C01_statement.
Proof.
  intros a g s0 EQ SY SUP NR WF HI i s R.
  exact (SoundProofs.claims_hold_on_executions a g s0 EQ SY SUP NR WF HI i s (srun_bridge _ _ _ _ _ R)).
Qed.
Check C01_claims_hold_on_executions : C01_statement.
Print Assumptions C01_claims_hold_on_executions.

Definition C01_corollaries_statement : Prop :=
  forall addr_of g s0, AvailEqns g -> Sym g -> all_supported g -> no_reentry g -> all_wf g -> regs_in32 s0 ->
    forall i s c, srun addr_of g s0 i s -> nth_opt (gnodes g) i = Some c -> is_any_entry (cn c) = false ->
      (forall k, known_ecall c = Some k -> rget s 17 = k) /\
      (forall off, stack_offset (rin c) = Some off -> rget s 2 = wrap32 (rget s0 2 + off)) /\
      (forall r, is_original_value (rin c) r = true -> rget s r = rget s0 r).
Theorem C01_lint_inputs_true : C01_corollaries_statement.
Proof.
  intros a g s0 EQ SY SUP NR WF HI i s c R.
  exact (SoundProofs.lint_inputs_true a g s0 EQ SY SUP NR WF HI i s c (srun_bridge _ _ _ _ _ R)).
Qed.
Check C01_lint_inputs_true : C01_corollaries_statement.
Print Assumptions C01_lint_inputs_true.
