(* C01 - claimed register and stack values are true on every execution.
   Statements only; proofs in Proofs/SoundProofs.v. *)
From RV.Model Require Import Base I32 Lexer Isa Parser Cfg Avail Live Lints.
From RV.Spec Require Import Rv32 AvailSpec FixSpec.
From RV.Proofs Require Import SoundProofs.
Open Scope Z_scope.

(* The supported subset of the property (control transfers by branches, jal to labels and ret; stack
   memory touched only through sp with constant offsets; convention-respecting callees), made
   precise node by node.  `supported_node` is syntactic; `supported_at` constrains the execution
   at memory accesses. *)
Definition rv64_only (i : inst) : bool :=
  match i with
  | IAddw | ISllw | ISraw | ISrlw | IDivw | IRemw | IRemuw | IAddiw | ISlliw | ISraiw | ISrliw | ILwu => true
  | _ => false
  end.
Definition supported_node (n : pnode) : Prop :=
  match n with
  | PCsr _ _ _ _ _ | PCsrI _ _ _ _ _ => False                    (* CSR state is outside this theorem *)
  | PArith i _ _ _ _ | PIArith i _ _ _ _ | PLoad i _ _ _ _ => rv64_only (wv i) = false
  | PJumpLinkR _ _ _ _ _ => is_return n = true                   (* no indirect jump other than ret *)
  | PBasic i _ => inst_eqb (wv i) IUret = false
  | _ => True
  end.

(* a store through a register other than sp stays at least 2 MiB away from the entry stack pointer;
   a store through sp happens where the analyzer knows the stack position, within the slot window *)
Definition far_from_stack (s0 : mstate) (a : Z) : Prop :=
  forall k, -2097152 <= k < 2097152 -> ma a <> ma (rget s0 2 + k).
Definition supported_at (s0 s : mstate) (c : cnode) : Prop :=
  match cn c with
  | PStore i rs1 _ imm _ =>
      if N.eqb (wv rs1) 2 then
        exists cur, stack_offset (rin c) = Some cur /\ slot_window (cur + wv imm) /\ slot_window cur
      else forall k, 0 <= k < store_width (wv i) -> far_from_stack s0 (rget s (wv rs1) + wv imm + k)
  | PJumpLink _ rd _ _ => N.eqb (wv rd) 1 = true ->             (* a call: the stack position is known *)
      exists cur, stack_offset (rin c) = Some cur /\ slot_window cur
  | _ => True
  end.

(* executions of one activation that stay inside the supported subset *)
Inductive srun (addr_of : str -> Z) (g : cfg) (s0 : mstate) : nat -> mstate -> Prop :=
| srun_start : forall e c, nth_opt (gnodes g) e = Some c -> is_any_entry (cn c) = true -> srun addr_of g s0 e s0
| srun_step : forall i s c j s', srun addr_of g s0 i s -> nth_opt (gnodes g) i = Some c ->
    supported_at s0 s c -> step addr_of g i s j s' -> srun addr_of g s0 j s'.

Definition all_supported (g : cfg) : Prop :=
  forall i c, nth_opt (gnodes g) i = Some c -> supported_node (cn c).

(* Main theorem.  For ANY graph whose value facts satisfy the analysis equations (C12: this is what
   the pass returns), any label layout, any entry state with 32-bit registers, and any supported
   execution of any length from an entry node: at every node reached AFTER the entry, every claim
   in the node's incoming register facts and incoming stack-slot facts is true of the machine
   state, and after executing the node so is every claim in its outgoing facts. *)
Definition C01_statement : Prop :=
  forall (addr_of : str -> Z) (g : cfg) (s0 : mstate),
    AvailEqns g -> all_supported g -> regs_in32 s0 ->
    forall i s, srun addr_of g s0 i s ->
      forall c, nth_opt (gnodes g) i = Some c ->
        (is_any_entry (cn c) = false ->
           reg_claims addr_of s0 s (rin c) /\ mem_claims addr_of s0 s (min c)) /\
        (forall j s', supported_at s0 s c -> step addr_of g i s j s' ->
           reg_claims addr_of s0 s' (rout c) /\ mem_claims addr_of s0 s' (mout c)).

Theorem C01_claims_hold_on_executions : C01_statement.
Proof. exact claims_hold_on_executions. Qed.
Check C01_claims_hold_on_executions : C01_statement.
Print Assumptions C01_claims_hold_on_executions.

(* what the lints rest on *)
Definition C01_corollaries_statement : Prop :=
  forall addr_of g s0, AvailEqns g -> all_supported g -> regs_in32 s0 ->
    forall i s c, srun addr_of g s0 i s -> nth_opt (gnodes g) i = Some c -> is_any_entry (cn c) = false ->
      (forall k, known_ecall c = Some k -> rget s 17 = k) /\
      (forall off, stack_offset (rin c) = Some off -> rget s 2 = wrap32 (rget s0 2 + off)) /\
      (forall r, is_original_value (rin c) r = true -> rget s r = rget s0 r).
Theorem C01_lint_inputs_true : C01_corollaries_statement.
Proof. exact lint_inputs_true. Qed.
Check C01_lint_inputs_true : C01_corollaries_statement.
Print Assumptions C01_lint_inputs_true.
