(* C02 / C12(d) on the graphs the pipeline returns.  `C02_live_least` takes `all_bottom g` and `wf_live g`
   as premises, `C12_live_fix` takes `calls_resolved g`; their comments say "the pipeline guarantees" them.
   Here they are proved for the graph `gen_full_cfg` hands to `liveness_pass`, and the liveness theorems
   are restated premise-free for every pipeline output.  Proofs in Proofs/LivePipeProofs.v.

   The graph right before `liveness_pass` is stage 10 of `gen_cfg_upto` (0 new1, 1 dir1, 2 avail0, 3 new,
   4 dir, 5 dead, 6 avail1, 7 term1, 8 markup, 9 avail2, 10 term2, 11 live). *)
From RV.Model Require Import Base I32 Imm Lexer Isa Parser Reader Cfg Avail Live Lints.
From RV.Spec Require Import LiveSpec FixSpec.
From RV.Proofs Require Import LivePipeProofs.
From RV.Props Require Import C02 C12.
Open Scope N_scope.

(* (1) a successful run is stage 10 followed by the liveness pass *)
Definition C02pipe_before_liveness_statement : Prop :=
  forall picks ns g, gen_full_cfg picks ns = Ok (SOk g) ->
    exists h, gen_cfg_upto 10 picks ns = Ok (SOk h) /\ liveness_pass h = Ok g.
Theorem C02pipe_before_liveness : C02pipe_before_liveness_statement.
Proof. exact pipeline_before_liveness. Qed.
Check C02pipe_before_liveness : C02pipe_before_liveness_statement.
Print Assumptions C02pipe_before_liveness.

(* (2) the three premises hold of every stage-10 graph (whether or not the liveness pass then returns):
   (a) no stage before liveness writes a live set - they are as `cfg_new` created them, empty;
   (b) the function markup appends label entries and the function record together, so every function id
       in the label map is the index of a record; a return has no successor (C03_edges_stop, one stage
       earlier);
   (c) hence every call site - a call, or a plain jump/branch to a function label - resolves to a record *)
Definition C02pipe_all_bottom_statement : Prop :=
  forall picks ns h, gen_cfg_upto 10 picks ns = Ok (SOk h) -> all_bottom h.
Theorem C02pipe_all_bottom : C02pipe_all_bottom_statement.
Proof. exact stage10_all_bottom. Qed.
Check C02pipe_all_bottom : C02pipe_all_bottom_statement.
Print Assumptions C02pipe_all_bottom.

Definition C02pipe_wf_live_statement : Prop :=
  forall picks ns h, gen_cfg_upto 10 picks ns = Ok (SOk h) -> wf_live h.
Theorem C02pipe_wf_live : C02pipe_wf_live_statement.
Proof. exact stage10_wf_live. Qed.
Check C02pipe_wf_live : C02pipe_wf_live_statement.
Print Assumptions C02pipe_wf_live.

Definition C02pipe_calls_resolved_statement : Prop :=
  forall picks ns h, gen_cfg_upto 10 picks ns = Ok (SOk h) -> calls_resolved h.
Theorem C02pipe_calls_resolved : C02pipe_calls_resolved_statement.
Proof. exact stage10_calls_resolved. Qed.
Check C02pipe_calls_resolved : C02pipe_calls_resolved_statement.
Print Assumptions C02pipe_calls_resolved.

(* the same two structural facts for the OUTPUT (liveness touches neither edges nor functions) *)
Definition C02pipe_output_wf_statement : Prop :=
  forall picks ns g, gen_full_cfg picks ns = Ok (SOk g) -> wf_live g /\ calls_resolved g.
Theorem C02pipe_output_wf : C02pipe_output_wf_statement.
Proof. exact pipeline_output_wf. Qed.
Check C02pipe_output_wf : C02pipe_output_wf_statement.
Print Assumptions C02pipe_output_wf.

(* (3) for every pipeline output g, with h the stage-10 graph: g is h with new live sets and u_def only;
   the stored live sets are closed under the equations of Spec/LiveSpec.v and below every closed
   assignment (the least solution) *)
Definition C02pipe_least_statement : Prop :=
  forall picks ns g h, gen_full_cfg picks ns = Ok (SOk g) -> gen_cfg_upto 10 picks ns = Ok (SOk h) ->
    liveness_pass h = Ok g /\
    same_structure h g /\ Closed g (stored g) /\ forall L, Closed g L -> le_asg (stored g) L.
Theorem C02pipe_live_least : C02pipe_least_statement.
Proof. exact pipeline_live_least. Qed.
Check C02pipe_live_least : C02pipe_least_statement.
Print Assumptions C02pipe_live_least.

(* without naming h *)
Definition C02pipe_closed_statement : Prop :=
  forall picks ns g, gen_full_cfg picks ns = Ok (SOk g) ->
    Closed g (stored g) /\ forall L, Closed g L -> le_asg (stored g) L.
Theorem C02pipe_live_closed : C02pipe_closed_statement.
Proof. exact pipeline_live_closed. Qed.
Check C02pipe_live_closed : C02pipe_closed_statement.
Print Assumptions C02pipe_live_closed.

(* the exact equations of C12 (d) *)
Definition C02pipe_fix_statement : Prop :=
  forall picks ns g, gen_full_cfg picks ns = Ok (SOk g) -> LiveFix g.
Theorem C02pipe_live_fix : C02pipe_fix_statement.
Proof. exact pipeline_live_fix. Qed.
Check C02pipe_live_fix : C02pipe_fix_statement.
Print Assumptions C02pipe_live_fix.

(* hence re-running liveness on a pipeline output returns the same live sets (C12_rerun_live) *)
Definition C02pipe_rerun_statement : Prop :=
  forall picks ns g g', gen_full_cfg picks ns = Ok (SOk g) -> liveness_pass g = Ok g' -> same_live_sets g g'.
Theorem C02pipe_rerun : C02pipe_rerun_statement.
Proof. intros picks ns g g' H. exact (C12_rerun_live g g' (pipeline_live_fix picks ns g H)). Qed.
Check C02pipe_rerun : C02pipe_rerun_statement.
Print Assumptions C02pipe_rerun.

(* coverage (C02_live_covers at `stored g`), without any `Closed` premise: along any path n0 -> ... -> nk
   of a pipeline output, a register that nk reads and that no node before nk on the path overwrites is in
   the stored live-in set of n0 *)
Definition C02pipe_covers_statement : Prop :=
  forall picks ns g, gen_full_cfg picks ns = Ok (SOk g) ->
    forall p nk ck r, path g (p ++ [nk]) -> nth_opt (gnodes g) nk = Some ck ->
      N.testbit (node_uses g (stored g) nk ck) r = true ->
      (forall i c, In i p -> nth_opt (gnodes g) i = Some c -> N.testbit (node_kills g c) r = false) ->
      (forall i, In i p -> exists c, nth_opt (gnodes g) i = Some c) ->
      forall n0, hd_error (p ++ [nk]) = Some n0 -> N.testbit (Lin (stored g) n0) r = true.
Theorem C02pipe_live_covers : C02pipe_covers_statement.
Proof.
  intros picks ns g H. apply C02_live_covers. exact (proj1 (C02pipe_live_closed picks ns g H)).
Qed.
Check C02pipe_live_covers : C02pipe_covers_statement.
Print Assumptions C02pipe_live_covers.

(* C02 (d) likewise: the exit of a callee has, live on entry, whatever is live after any of its call sites *)
Definition C02pipe_returns_statement : Prop :=
  forall picks ns g, gen_full_cfg picks ns = Ok (SOk g) ->
    forall i c fid f r, nth_opt (gnodes g) i = Some c -> calls_to_from_cfg g c = Some fid ->
      nth_opt (gfuncs g) fid = Some f -> N.testbit (Lout (stored g) i) r = true ->
      N.testbit (Lin (stored g) (fexit f)) r = true.
Theorem C02pipe_returns_cover_callers : C02pipe_returns_statement.
Proof.
  intros picks ns g H. apply C02_returns_cover_callers. exact (proj1 (C02pipe_live_closed picks ns g H)).
Qed.
Check C02pipe_returns_cover_callers : C02pipe_returns_statement.
Print Assumptions C02pipe_returns_cover_callers.

(* A function-ENTRY node never has a caller-saved register (so no argument register) in its live-IN set:
   the entry node kills the caller-saved set and reads nothing.  A function's arguments are read off the
   live-OUT set of its entry (`fn_arguments`).  (This is why the example below looks at live-out of the
   entry and live-in of the call site and of the first instruction.) *)
Definition C02pipe_entry_statement : Prop :=
  forall picks ns g, gen_full_cfg picks ns = Ok (SOk g) ->
    forall i c r, nth_opt (gnodes g) i = Some c -> is_function_entry (cn c) = true ->
      N.testbit caller_saved_set r = true -> N.testbit (lin c) r = false.
Theorem C02pipe_entry_live_in : C02pipe_entry_statement.
Proof.
  intros picks ns g H. apply entry_live_in_no_caller_saved. exact (pipeline_live_fix picks ns g H).
Qed.
Check C02pipe_entry_live_in : C02pipe_entry_statement.
Print Assumptions C02pipe_entry_live_in.

(* ---------------------------------------------------------------------------------------------- *)
(* (4) not vacuous: a program with a call and a loop.  Nodes of the final graph:
     0 program entry   1 li a0,5   2 jal ra,f   3 li a7,10   4 ecall
     5 entry of f      6 addi t0,a0,0   7 (L:) addi t0,t0,-1   8 bnez t0,L   9 ret *)
Definition l_text : str := unlines
  [ «"main:"»; «"    li a0, 5"»; «"    jal ra, f"»; «"    li a7, 10"»; «"    ecall"»;
    «"f:"»; «"    addi t0, a0, 0"»; «"L:"»; «"    addi t0, t0, -1"»; «"    bnez t0, L"»; «"    ret"» ].
Definition l_path : str := «"l.s"».
Definition l_nodes : list pnode :=
  match parse_from_file false [(l_path, inl l_text)] l_path false with Ok (nodes, _, _) => nodes | _ => [] end.
Definition l_h10 : cfg :=
  match gen_cfg_upto 10 [] l_nodes with Ok (SOk g) => g | _ => mkcfg [] [] [] end.
Definition l_final : cfg :=
  match gen_full_cfg [] l_nodes with Ok (SOk g) => g | _ => mkcfg [] [] [] end.

Definition live_at (g : cfg) (i : nat) : option (list reg * list reg) :=
  option_map (fun c => (rs_elems (lin c), rs_elems (lout c))) (nth_opt (gnodes g) i).

Example C02pipe_example :
  (exists rs, parse_from_file false [(l_path, inl l_text)] l_path false = Ok (l_nodes, [], rs)) /\
  gen_full_cfg [] l_nodes = Ok (SOk l_final) /\ gen_cfg_upto 10 [] l_nodes = Ok (SOk l_h10) /\
  liveness_pass l_h10 = Ok l_final /\
  length (gnodes l_final) = 10%nat /\
  (* one function, f: entry 5, exit 9; the call at node 2 resolves to it; the loop edge 8 -> 7 *)
  map (fun f => (fentry f, fexit f, fnodes f)) (gfuncs l_final) = [(5%nat, 9%nat, [5%nat; 6%nat; 7%nat; 8%nat; 9%nat])] /\
  option_map (calls_to_from_cfg l_final) (nth_opt (gnodes l_final) 2) = Some (Some 0%nat) /\
  option_map nexts (nth_opt (gnodes l_final) 8) = Some [7%nat; 9%nat] /\
  (* the premises, and all conclusions *)
  all_bottom l_h10 /\ wf_live l_h10 /\ calls_resolved l_h10 /\
  same_structure l_h10 l_final /\ Closed l_final (stored l_final) /\
  (forall L, Closed l_final L -> le_asg (stored l_final) L) /\ LiveFix l_final /\
  (* a0 (x10) is live into the call site, live out of the entry node of f (= an inferred argument of f),
     and live into the first instruction of f; by C02pipe_entry_live_in it is NOT in the live-in set of
     the entry node itself *)
  option_map (fun c => N.testbit (lin c) 10) (nth_opt (gnodes l_final) 2) = Some true /\
  option_map (fun c => (is_function_entry (cn c), N.testbit (lout c) 10, N.testbit (lin c) 10))
             (nth_opt (gnodes l_final) 5) = Some (true, true, false) /\
  option_map (fun c => N.testbit (lin c) 10) (nth_opt (gnodes l_final) 6) = Some true /\
  option_map (fun f => rs_elems (fn_arguments l_final f)) (nth_opt (gfuncs l_final) 0) = Some [10] /\
  (* an instance of the coverage theorem through the loop edge: t0 (x5), read at node 7, is live into
     node 8 (path 8 -> 7) *)
  path l_final ([8%nat] ++ [7%nat]) /\
  N.testbit (Lin (stored l_final) 8) 5 = true.
Proof.
  assert (A : gen_full_cfg [] l_nodes = Ok (SOk l_final)) by (vm_compute; reflexivity).
  assert (B : gen_cfg_upto 10 [] l_nodes = Ok (SOk l_h10)) by (vm_compute; reflexivity).
  destruct (C02pipe_live_least [] l_nodes l_final l_h10 A B) as [HL [HS [HC HLe]]].
  assert (P : path l_final ([8%nat] ++ [7%nat])).
  { apply path_cons; [|apply path_one].
    destruct (nth_opt (gnodes l_final) 8) as [c8|] eqn:H8; [|vm_compute in H8; discriminate H8].
    exists c8. split; [exact H8|]. vm_compute in H8. injection H8 as <-. left. reflexivity. }
  split. { eexists. vm_compute. reflexivity. }
  split; [exact A|]. split; [exact B|]. split; [exact HL|].
  split. { vm_compute. reflexivity. }
  split. { vm_compute. reflexivity. }
  split. { vm_compute. reflexivity. }
  split. { vm_compute. reflexivity. }
  split. { exact (C02pipe_all_bottom [] l_nodes l_h10 B). }
  split. { exact (C02pipe_wf_live [] l_nodes l_h10 B). }
  split. { exact (C02pipe_calls_resolved [] l_nodes l_h10 B). }
  split; [exact HS|]. split; [exact HC|]. split; [exact HLe|].
  split. { exact (C02pipe_live_fix [] l_nodes l_final A). }
  split. { vm_compute. reflexivity. }
  split. { vm_compute. reflexivity. }
  split. { vm_compute. reflexivity. }
  split. { vm_compute. reflexivity. }
  split; [exact P|].
  destruct (nth_opt (gnodes l_final) 7) as [c7|] eqn:H7; [|vm_compute in H7; discriminate H7].
  apply (C02pipe_live_covers [] l_nodes l_final A [8%nat] 7%nat c7 5 P H7).
  - vm_compute in H7. injection H7 as <-. vm_compute. reflexivity.
  - intros i c [<-|[]] Hc. vm_compute in Hc. injection Hc as <-. vm_compute. reflexivity.
  - intros i [<-|[]]. destruct (nth_opt (gnodes l_final) 8) as [c8|] eqn:H8; [eauto|vm_compute in H8; discriminate H8].
  - reflexivity.
Qed.
Print Assumptions C02pipe_example.
