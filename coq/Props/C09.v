(* C09 - every reported location designates exactly the text it is about (lexer level).
   Statements only; proofs live in Proofs/LexProofs.v. *)
From RV.Model Require Import Base Lexer.
From RV.Spec Require Import PosSpec.
From RV.Proofs Require Import LexProofs.
Open Scope N_scope.

(* a position is consistent with the text: its line/column are those of its raw index *)
Definition pos_ok (src : str) (p : position) : Prop :=
  line_col src (raw p) = (line p, column p).

(* a range is well formed: both ends consistent, inside the text, on one line, ordered *)
Definition range_ok (src : str) (r : range) : Prop :=
  pos_ok src (rstart r) /\ pos_ok src (rend r) /\
  raw (rstart r) <= raw (rend r) /\ raw (rend r) < N.of_nat (length src) /\
  line (rstart r) = line (rend r).

(* the characters a token's range covers, per kind *)
Definition spelling_ok (src : str) (t : token) : Prop :=
  let txt := slice src (raw (rstart (trange t))) (raw (rend (trange t))) in
  match tt t with
  | TLParen => txt = [c_lparen]
  | TRParen => txt = [c_rparen]
  | TNewline => txt = [c_nl]
  | TSymbol s => txt = s
  | TLabel s => txt = s ++ [c_colon]
  | TDirective d => txt = d
  | TComment c => txt = c_hash :: c
  | TString _ => exists body, txt = c_dquote :: body ++ [c_dquote]
  | TChar _ => exists body, txt = c_squote :: body ++ [c_squote]
  end.

(* For every text that ends with a newline (which is what the parser driver feeds the lexer,
   fix 3ac3f1b), in either build profile, lexing succeeds and every token has a well-formed
   range that covers exactly its spelling; the tokens carried by lexer errors have well-formed
   ranges too (they become the locations of parse errors). *)
Definition C09_token_statement : Prop :=
  forall (chk : bool) (file : option N) (src : str), ends_with_nl src ->
    exists items, lex_all chk file src = Ok items /\
      forall it, In it items ->
        match it with
        | LTok t => range_ok src (trange t) /\ spelling_ok src t /\ tfile t = file
        | LErrUnexpected t => range_ok src (trange t) /\ tfile t = file /\
                              exists c, tt t = TSymbol [c] /\ slice src (raw (rstart (trange t))) (raw (rend (trange t))) = [c]
        | LErrString t p _ => pos_ok src (rstart (trange t)) /\ pos_ok src p /\ rend (trange t) = p /\
                              raw (rstart (trange t)) <= raw p <= N.of_nat (length src) /\
                              line (rstart (trange t)) = line p /\ tfile t = file
        end.

Theorem C09_token_range_exact : C09_token_statement.
Proof. exact token_range_exact. Qed.
Check C09_token_range_exact : C09_token_statement.
Print Assumptions C09_token_range_exact.

(* tokens appear in source order and do not overlap *)
Definition item_range (it : lexitem) : range :=
  match it with LTok t => trange t | LErrUnexpected t => trange t | LErrString t _ _ => trange t end.
Definition C09_order_statement : Prop :=
  forall chk file src items, lex_all chk file src = Ok items ->
    forall i j a b, (i < j)%nat -> nth_error items i = Some a -> nth_error items j = Some b ->
      raw (rend (item_range a)) < raw (rstart (item_range b)) \/
      (exists t p k, a = LErrString t p k /\ raw (rend (item_range a)) <= raw (rstart (item_range b))).
Theorem C09_tokens_ordered : C09_order_statement.
Proof. exact tokens_ordered. Qed.
Check C09_tokens_ordered : C09_order_statement.
Print Assumptions C09_tokens_ordered.

Example C09_example :
  let src := «"main: li t0, 5"» ++ [c_nl] ++ «"  sw a0, 4(sp) # x"» ++ [c_nl] in
  ends_with_nl src /\
  match lex_all true None src with
  | Ok items => length items = 13%nat
  | _ => False
  end.
Proof. split; [exists («"main: li t0, 5"» ++ [c_nl] ++ «"  sw a0, 4(sp) # x"»); vm_compute; reflexivity | vm_compute; reflexivity]. Qed.
