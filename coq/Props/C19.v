(* C19 - the CFG debug dump is a faithful, reloadable serialisation (data layer).
   Statements only; proofs in Proofs/SerdeProofs.v. *)
From RV.Model Require Import Base I32 Lexer Isa Parser Cfg Serde.
From RV.Proofs Require Import SerdeProofs.
Open Scope Z_scope.

(* values the analysis can produce: register numbers below 32 *)
Definition aval_ok (v : aval) : Prop :=
  match v with
  | ARegScalar r _ | AOrig r _ | AMemAtReg r _ | AMemAtOrig r _ => (r < 32)%N
  | _ => True
  end.
(* loading gives tokens their default value; everything else is kept *)
Definition erase_tok (v : aval) : aval :=
  match v with AAddr l => AAddr (mkw (wv l) tok_default) | _ => v end.

Definition C19_aval_statement : Prop :=
  (forall v, aval_ok v -> de_aval (ser_aval v) = Some (erase_tok v)) /\
  (forall v w, aval_ok v -> aval_ok w -> ser_aval v = ser_aval w -> aval_eqb v w = true).
Theorem C19_aval_roundtrip : C19_aval_statement.
Proof. exact aval_roundtrip. Qed.
Check C19_aval_roundtrip : C19_aval_statement.
Print Assumptions C19_aval_roundtrip.

(* stack offsets are i32 (including i32::MIN), CSR numbers u32 *)
Definition memloc_ok (l : memloc) : Prop :=
  match l with
  | MStack off => in32 off
  | MCsr c => 0 <= c < 4294967296
  | MCsrOff c off => 0 <= c < 4294967296 /\ in32 off
  end.
Definition C19_memloc_statement : Prop :=
  (forall l, memloc_ok l -> parse_memloc (show_memloc l) = Some l) /\
  (forall l m, memloc_ok l -> memloc_ok m -> show_memloc l = show_memloc m -> l = m).
Theorem C19_memloc_roundtrip : C19_memloc_statement.
Proof. exact memloc_roundtrip. Qed.
Check C19_memloc_roundtrip : C19_memloc_statement.
Print Assumptions C19_memloc_roundtrip.

Definition C19_regset_statement : Prop :=
  forall s : regset, (s < 4294967296)%N -> de_regset (ser_regset s) = Some s.
Theorem C19_regset_roundtrip : C19_regset_statement.
Proof. exact regset_roundtrip. Qed.
Check C19_regset_roundtrip : C19_regset_statement.
Print Assumptions C19_regset_roundtrip.

(* the analysis part of a node record *)
Definition facts_ok (f : facts) : Prop :=
  (forall kv, In kv (f_rin f ++ f_rout f) -> (fst kv < 32)%N /\ aval_ok (snd kv)) /\
  (forall kv, In kv (f_min f ++ f_mout f) -> memloc_ok (fst kv) /\ aval_ok (snd kv)) /\
  (f_lin f < 4294967296)%N /\ (f_lout f < 4294967296)%N /\ (f_udef f < 4294967296)%N.
Definition erase_facts (f : facts) : facts :=
  mkfacts (f_nexts f) (f_prevs f) (f_entry f) (f_exit f)
          (map (fun kv => (fst kv, erase_tok (snd kv))) (f_rin f)) (map (fun kv => (fst kv, erase_tok (snd kv))) (f_rout f))
          (map (fun kv => (fst kv, erase_tok (snd kv))) (f_min f)) (map (fun kv => (fst kv, erase_tok (snd kv))) (f_mout f))
          (f_lin f) (f_lout f) (f_udef f).

(* loading an emitted record yields the record that was written (tokens aside), hence two results
   that differ in any edge, live set, value fact or function annotation have different dumps *)
Definition C19_facts_statement : Prop :=
  (forall f, facts_ok f -> de_facts (ser_facts f) = Some (erase_facts f)) /\
  (forall f f', facts_ok f -> facts_ok f' -> ser_facts f = ser_facts f' -> erase_facts f = erase_facts f').
Theorem C19_facts_roundtrip : C19_facts_statement.
Proof. exact facts_roundtrip. Qed.
Check C19_facts_roundtrip : C19_facts_statement.
Print Assumptions C19_facts_roundtrip.

Example C19_example :
  parse_memloc (show_memloc (MStack (-2147483648))) = Some (MStack (-2147483648)) /\
  de_aval (ser_aval (AValueInCsr 5)) = Some (AValueInCsr 5) /\ de_aval (ser_aval (AConst 5)) = Some (AConst 5) /\
  ser_aval (AValueInCsr 5) <> ser_aval (AConst 5).
Proof. vm_compute. repeat split; try reflexivity. discriminate. Qed.
