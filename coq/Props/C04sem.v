(* C04sem - the definite stack diagnostics are never false positives (SEMANTIC level).
   Statements only; proofs in Proofs/LintSemProofs.v.

   Props/C04.v: every diagnostic is due to a trigger over the analysis FACTS.
   Props/C01.v / Props/C01pipe.v: the value facts are true on every execution of the machine of
   Spec/Rv32.v.  Joined here for the two definite stack diagnostics:

   - LInvalidStackPosition ("Invalid stack position"; `LintSpec.sp_state_of` = SpPositive: the node's
     outgoing stack pointer is claimed to be  entry sp + off  with 0 < off.  The other two codes are
     LUnknownStack = SpUnknown (no claim) and LInvalidStackPointer = SpInvalid (a claim that is not
     relative to the entry sp); neither says anything definite about the machine).
     Whenever it is emitted, on EVERY execution that steps out of the reported node the stack pointer
     really is `off` bytes above its value at entry of the activation.
   - LInvalidStackOffsetUsage: a load/store through sp whose address is at or above the entry stack
     pointer.  Whenever it is emitted, every execution stepping out of the node has
     sp = entry sp + off (off <= 0), and if the node does not write sp the address it accessed is
     (entry sp + off) + off2 with 0 <= off2 + off.

   The premises on g are exactly those of C01_statement (resp. C01_pipeline_statement); no other
   hypothesis had to be added for (1) and (2).  For the contrapositive (3) the node the lint would report
   has to be executed by some execution (`reported_node_exercised`; C01 says nothing about a claim at a
   node no SUPPORTED execution steps out of.  Counterexample without it, machine-checked below as
   C04sem_exercised_needed: `sw a0, 0(a1) ; addi sp, sp, 16` entered with a1 = sp - the store is outside
   `supported_at`, so no execution of `srun` gets to the addi, `sp_never_above_entry` holds, and the
   diagnostic is emitted all the same);
   the bound `off < 2^31` needed by `sp_never_above_entry` is NOT a hypothesis: it is derived, the
   invariant of Proofs/SoundProofs.v keeps the offsets of claims at reached nodes 32-bit. *)
From RV.Model Require Import Base I32 Imm Lexer Isa Parser Reader Cfg Avail Live Lints.
From RV.Spec Require Import Rv32 AvailSpec FixSpec CfgSpec LintSpec PipeEqSpec.
From RV.Proofs Require Import LintSemProofs.
From RV.Proofs Require PipeEqProofs SoundProofs FoldProofs.
From RV.Props Require Import C01 C01pipe C12.
Require Import Lia.
Open Scope Z_scope.

(* the two theorems of C01 in the form the generic lemmas of Proofs/LintSemProofs.v take *)
Lemma c01_step_claims a g s0 :
  AvailEqns g -> Sym g -> all_supported g -> no_reentry g -> all_wf g -> regs_in32 s0 ->
  step_claims a g s0 (srun a g s0) (supported_at s0).
Proof.
  intros EQ SY SUP NR WF HI i s c j s' HR Hc HS St.
  exact (proj1 (proj2 (C01_claims_hold_on_executions a g s0 EQ SY SUP NR WF HI i s HR c Hc) j s' HS St)).
Qed.
Lemma c01_pipeline_step_claims picks ns g h6 a s0 :
  gen_full_cfg picks ns = Ok (SOk g) -> gen_cfg_upto 9 picks ns = Ok (SOk h6) ->
  all_supported g -> no_reentry h6 -> all_wf g -> regs_in32 s0 ->
  step_claims a g s0 (srun a g s0) (supported_at s0).
Proof.
  intros H H9 SUP NR WF HI i s c j s' HR Hc HS St.
  exact (proj1 (proj2 (C01_pipeline_claims picks ns g h6 a s0 H H9 SUP NR WF HI i s HR c Hc) j s' HS St)).
Qed.

(* ---- (1) invalid-stack-position is real ----------------------------------------------------------- *)
(* what is said about one diagnostic x, given the set of executions *)
Definition positive_sp_real (addr_of : str -> Z) (g : cfg) (s0 : mstate) (x : lint) : Prop :=
  exists i c off, node_at g i c /\ lcands x = [node_loc c] /\ 0 < off /\
    rm_get 2%N (rout c) = Some (AOrig 2%N off) /\ first_bad_sp g i c SpPositive /\
    forall s j s', srun addr_of g s0 i s -> supported_at s0 s c -> step addr_of g i s j s' ->
      rget s' 2 = wrap32 (rget s0 2 + off).

Definition C04sem_positive_sp_statement : Prop :=
  forall (addr_of : str -> Z) (g : cfg) (s0 : mstate),
    AvailEqns g -> Sym g -> all_supported g -> no_reentry g -> all_wf g -> regs_in32 s0 ->
    forall x, In x (run_diagnostics g) -> lcode x = LInvalidStackPosition ->
      positive_sp_real addr_of g s0 x.
Theorem C04sem_positive_sp_is_real : C04sem_positive_sp_statement.
Proof.
  intros a g s0 EQ SY SUP NR WF HI.
  exact (positive_sp_is_real_gen a g s0 _ _ (c01_step_claims a g s0 EQ SY SUP NR WF HI)).
Qed.
Check C04sem_positive_sp_is_real : C04sem_positive_sp_statement.
Print Assumptions C04sem_positive_sp_is_real.

Definition C04sem_positive_sp_pipeline_statement : Prop :=
  forall picks ns g h6 (addr_of : str -> Z) (s0 : mstate),
    gen_full_cfg picks ns = Ok (SOk g) -> gen_cfg_upto 9 picks ns = Ok (SOk h6) ->
    all_supported g -> no_reentry h6 -> all_wf g -> regs_in32 s0 ->
    forall x, In x (run_diagnostics g) -> lcode x = LInvalidStackPosition ->
      positive_sp_real addr_of g s0 x.
Theorem C04sem_positive_sp_is_real_pipeline : C04sem_positive_sp_pipeline_statement.
Proof.
  intros picks ns g h6 a s0 H H9 SUP NR WF HI.
  exact (positive_sp_is_real_gen a g s0 _ _ (c01_pipeline_step_claims picks ns g h6 a s0 H H9 SUP NR WF HI)).
Qed.
Check C04sem_positive_sp_is_real_pipeline : C04sem_positive_sp_pipeline_statement.
Print Assumptions C04sem_positive_sp_is_real_pipeline.

(* ---- (2) invalid-stack-offset-usage is real -------------------------------------------------------- *)
(* `ma` is the machine address (mod 2^32) of Spec/Rv32.v; the address a load/store `op r, off2(sp)`
   accesses in state s is  rget s 2 + off2  (Rv32.effect, EffLoad / EffStore) *)
Definition stack_offset_usage_real (addr_of : str -> Z) (g : cfg) (s0 : mstate) (x : lint) : Prop :=
  exists i c off off2, node_at g i c /\ lcands x = [node_loc c] /\
    uses_memory_location (cn c) = Some (2%N, off2) /\ 0 <= off2 + off /\ off <= 0 /\
    rm_get 2%N (rout c) = Some (AOrig 2%N off) /\
    forall s j s', srun addr_of g s0 i s -> supported_at s0 s c -> step addr_of g i s j s' ->
      rget s' 2 = wrap32 (rget s0 2 + off) /\
      ((forall w, writes_to (cn c) = Some w -> wv w <> 2%N) ->
         rget s 2 = rget s' 2 /\
         rget s 2 + off2 = wrap32 (rget s0 2 + off) + off2 /\
         ma (rget s 2 + off2) = ma (rget s0 2 + (off + off2))).

Definition C04sem_stack_offset_usage_statement : Prop :=
  forall (addr_of : str -> Z) (g : cfg) (s0 : mstate),
    AvailEqns g -> Sym g -> all_supported g -> no_reentry g -> all_wf g -> regs_in32 s0 ->
    forall x, In x (run_diagnostics g) -> lcode x = LInvalidStackOffsetUsage ->
      stack_offset_usage_real addr_of g s0 x.
Theorem C04sem_stack_offset_usage_is_real : C04sem_stack_offset_usage_statement.
Proof.
  intros a g s0 EQ SY SUP NR WF HI.
  exact (stack_offset_usage_is_real_gen a g s0 _ _ (c01_step_claims a g s0 EQ SY SUP NR WF HI)).
Qed.
Check C04sem_stack_offset_usage_is_real : C04sem_stack_offset_usage_statement.
Print Assumptions C04sem_stack_offset_usage_is_real.

Definition C04sem_stack_offset_usage_pipeline_statement : Prop :=
  forall picks ns g h6 (addr_of : str -> Z) (s0 : mstate),
    gen_full_cfg picks ns = Ok (SOk g) -> gen_cfg_upto 9 picks ns = Ok (SOk h6) ->
    all_supported g -> no_reentry h6 -> all_wf g -> regs_in32 s0 ->
    forall x, In x (run_diagnostics g) -> lcode x = LInvalidStackOffsetUsage ->
      stack_offset_usage_real addr_of g s0 x.
Theorem C04sem_stack_offset_usage_is_real_pipeline : C04sem_stack_offset_usage_pipeline_statement.
Proof.
  intros picks ns g h6 a s0 H H9 SUP NR WF HI.
  exact (stack_offset_usage_is_real_gen a g s0 _ _ (c01_pipeline_step_claims picks ns g h6 a s0 H H9 SUP NR WF HI)).
Qed.
Check C04sem_stack_offset_usage_is_real_pipeline : C04sem_stack_offset_usage_pipeline_statement.
Print Assumptions C04sem_stack_offset_usage_is_real_pipeline.

(* every store, and every load into a register other than sp, satisfies the side condition of (2) *)
Definition C04sem_store_keeps_sp_statement : Prop :=
  forall n, (forall w, writes_to n = Some w -> wv w <> 2%N) <->
            match n with
            | PLoad _ rd _ _ _ | PLoadAddr _ rd _ _ | PArith _ rd _ _ _ | PIArith _ rd _ _ _ | PJumpLink _ rd _ _
            | PJumpLinkR _ rd _ _ _ | PCsr _ rd _ _ _ | PCsrI _ rd _ _ _ => wv rd <> 2%N
            | _ => True      (* PStore among them *)
            end.
Theorem C04sem_store_keeps_sp : C04sem_store_keeps_sp_statement.
Proof.
  intros n. destruct n; cbn [writes_to]; split; intros H; try exact I; try (intros w Hw; discriminate Hw);
    try (exact (H _ eq_refl)); intros w Hw; injection Hw as <-; exact H.
Qed.
Check C04sem_store_keeps_sp : C04sem_store_keeps_sp_statement.
Print Assumptions C04sem_store_keeps_sp.

(* ---- (3) the contrapositive: the property's own wording ------------------------------------------ *)
(* over EXECUTIONS, not facts: no step of any execution leaves sp above its entry value *)
Definition sp_never_above_entry (addr_of : str -> Z) (g : cfg) (s0 : mstate) : Prop :=
  forall i s c j s', srun addr_of g s0 i s -> nth_opt (gnodes g) i = Some c -> supported_at s0 s c ->
    step addr_of g i s j s' ->
    forall off, 0 < off < 2147483648 -> rget s' 2 <> wrap32 (rget s0 2 + off).
(* the node the stack-pointer lint would report as "positive" (there is at most one:
   LintSemProofs.first_bad_sp_unique) is stepped out of by some execution *)
Definition reported_node_exercised (addr_of : str -> Z) (g : cfg) (s0 : mstate) : Prop :=
  forall i c, first_bad_sp g i c SpPositive ->
    exists s j s', srun addr_of g s0 i s /\ supported_at s0 s c /\ step addr_of g i s j s'.

Definition C04sem_conforming_sp_statement : Prop :=
  forall (addr_of : str -> Z) (g : cfg) (s0 : mstate),
    AvailEqns g -> Sym g -> all_supported g -> no_reentry g -> all_wf g -> regs_in32 s0 ->
    reported_node_exercised addr_of g s0 -> sp_never_above_entry addr_of g s0 ->
    forall x, In x (run_diagnostics g) -> lcode x <> LInvalidStackPosition.
Theorem C04sem_conforming_sp_no_position_diag : C04sem_conforming_sp_statement.
Proof.
  intros a g s0 EQ SY SUP NR WF HI RE NV.
  apply (no_positive_sp_diag_gen a g s0 _ _ (c01_step_claims a g s0 EQ SY SUP NR WF HI) NV).
  intros i c off Hfb Hr. destruct (RE i c Hfb) as (s & j & s' & HR & HS & St).
  split; [|exists s, j, s'; auto].
  pose proof (reached_out_offset_in32 a g s0 EQ SY SUP NR WF HI i s c j s' _ _ off
                (srun_bridge _ _ _ _ _ HR) (proj1 Hfb) HS St Hr) as B.
  unfold in32, i32_max in B. lia.
Qed.
Check C04sem_conforming_sp_no_position_diag : C04sem_conforming_sp_statement.
Print Assumptions C04sem_conforming_sp_no_position_diag.

Definition C04sem_conforming_sp_pipeline_statement : Prop :=
  forall picks ns g h6 (addr_of : str -> Z) (s0 : mstate),
    gen_full_cfg picks ns = Ok (SOk g) -> gen_cfg_upto 9 picks ns = Ok (SOk h6) ->
    all_supported g -> no_reentry h6 -> all_wf g -> regs_in32 s0 ->
    reported_node_exercised addr_of g s0 -> sp_never_above_entry addr_of g s0 ->
    forall x, In x (run_diagnostics g) -> lcode x <> LInvalidStackPosition.
Theorem C04sem_conforming_sp_no_position_diag_pipeline : C04sem_conforming_sp_pipeline_statement.
Proof.
  intros picks ns g h6 a s0 H H9 SUP NR WF HI RE NV.
  apply (no_positive_sp_diag_gen a g s0 _ _ (c01_pipeline_step_claims picks ns g h6 a s0 H H9 SUP NR WF HI) NV).
  intros i c off Hfb Hr. destruct (RE i c Hfb) as (s & j & s' & HR & HS & St).
  split; [|exists s, j, s'; auto].
  pose proof (pipeline_out_offset_in32 picks ns g h6 a s0 H H9 SUP NR WF HI i s c j s' _ _ off
                (srun_bridge _ _ _ _ _ HR) (proj1 Hfb) HS St Hr) as B.
  unfold in32, i32_max in B. lia.
Qed.
Check C04sem_conforming_sp_no_position_diag_pipeline : C04sem_conforming_sp_pipeline_statement.
Print Assumptions C04sem_conforming_sp_no_position_diag_pipeline.

(* ---- (4) examples ------------------------------------------------------------------------------------ *)
(* `addi sp, sp, 16` at the start of main: node 0 is the program entry, node 1 the addi, whose outgoing
   stack pointer is claimed to be entry sp + 16 *)
Definition p_text : str := unlines [ «"main:"»; «"    addi sp, sp, 16"»; «"    li a7, 10"»; «"    ecall"» ].
Definition p_nodes : list pnode :=
  match parse_from_file false [(w_path, inl p_text)] w_path false with Ok (nodes, _, _) => nodes | _ => [] end.
Definition p_h6 : cfg :=
  match gen_cfg_upto 9 [] p_nodes with Ok (SOk g) => g | _ => mkcfg [] [] [] end.
Definition p_final : cfg :=
  match gen_full_cfg [] p_nodes with Ok (SOk g) => g | _ => mkcfg [] [] [] end.

(* the diagnostic IS emitted, at the addi, with off = 16; the premises of the pipeline theorems hold *)
Example C04sem_position_example_emitted :
  (exists rs, parse_from_file false [(w_path, inl p_text)] w_path false = Ok (p_nodes, [], rs)) /\
  gen_full_cfg [] p_nodes = Ok (SOk p_final) /\ gen_cfg_upto 9 [] p_nodes = Ok (SOk p_h6) /\
  all_supported p_final /\ no_reentry p_h6 /\ all_wf p_final /\
  map lcode (run_diagnostics p_final) = [LDeadAssignment; LInvalidUseBeforeAssignment; LInvalidStackPosition] /\
  (exists x c, In x (run_diagnostics p_final) /\ lcode x = LInvalidStackPosition /\
     nth_opt (gnodes p_final) 1 = Some c /\ lcands x = [node_loc c] /\
     rm_get 2%N (rout c) = Some (AOrig 2%N 16) /\ first_bad_sp p_final 1 c SpPositive).
Proof.
  split. { eexists. vm_compute. reflexivity. }
  split. { vm_compute. reflexivity. }
  split. { vm_compute. reflexivity. }
  split. { apply PipeEqProofs.all_supportedb_ok. vm_compute. reflexivity. }
  split. { apply PipeEqProofs.no_reentryb_ok. vm_compute. reflexivity. }
  split. { apply PipeEqProofs.all_wfb_ok. vm_compute. reflexivity. }
  split. { vm_compute. reflexivity. }
  destruct (nth_opt (gnodes p_final) 1) as [c|] eqn:Hc; [|vm_compute in Hc; discriminate Hc].
  exists (lint1 LInvalidStackPosition (node_loc c)), c.
  split. { vm_compute in Hc. injection Hc as <-. vm_compute. right; right; left. reflexivity. }
  split; [reflexivity|]. split; [reflexivity|]. split; [reflexivity|].
  split. { vm_compute in Hc. injection Hc as <-. vm_compute. reflexivity. }
  apply first_bad_spb_ok; [exact Hc|]. vm_compute. reflexivity.
Qed.
Print Assumptions C04sem_position_example_emitted.

(* ... the reported node is exercised from every 32-bit entry state, so by (1) EVERY execution stepping out
   of it has sp = entry sp + 16, and therefore (contrapositive of (3)) the program does not keep sp at or
   below its entry value *)
Example C04sem_position_example_real :
  forall addr_of s0, regs_in32 s0 ->
    reported_node_exercised addr_of p_final s0 /\
    (forall c s j s', nth_opt (gnodes p_final) 1 = Some c -> srun addr_of p_final s0 1 s ->
       supported_at s0 s c -> step addr_of p_final 1 s j s' -> rget s' 2 = wrap32 (rget s0 2 + 16)) /\
    ~ sp_never_above_entry addr_of p_final s0.
Proof.
  intros a s0 HI.
  destruct C04sem_position_example_emitted as (_ & A & B & SUP & NR & WF & _ & x & c & Hin & Hk & Hc & Hl & Hr & Hfb).
  assert (RE : reported_node_exercised a p_final s0).
  { intros i c' Hfb'. destruct (first_bad_sp_unique _ _ _ _ _ _ _ Hfb' Hfb) as (-> & -> & _).
    destruct (nth_opt (gnodes p_final) 0) as [c0|] eqn:H0; [|vm_compute in H0; discriminate H0].
    exists s0, 2%nat, (rset s0 2 (FoldSpec.eval FoldSpec.Add (rget s0 2) 16)).
    split; [|split].
    - eapply srun_step; [eapply srun_start; [exact H0|] | exact H0 | | ].
      + vm_compute in H0. injection H0 as <-. reflexivity.
      + vm_compute in H0. injection H0 as <-. exact I.
      + exists c0. split; [exact H0|]. vm_compute in H0. injection H0 as <-.
        split; [left; reflexivity|]. apply EffEntry; reflexivity.
    - vm_compute in Hc. injection Hc as <-. exact I.
    - exists c. split; [exact Hc|]. vm_compute in Hc. injection Hc as <-.
      split; [left; reflexivity|]. eapply EffIArith; [reflexivity|]. reflexivity. }
  split; [exact RE|].
  assert (Real : forall c s j s', nth_opt (gnodes p_final) 1 = Some c -> srun a p_final s0 1 s ->
            supported_at s0 s c -> step a p_final 1 s j s' -> rget s' 2 = wrap32 (rget s0 2 + 16)).
  { intros c' s j s' Hc' HR HS St. rewrite Hc in Hc'. injection Hc' as <-.
    destruct (C04sem_positive_sp_is_real_pipeline [] p_nodes p_final p_h6 a s0 A B SUP NR WF HI x Hin Hk)
      as (i & c' & off & Hc' & _ & _ & Hr' & Hfb' & Real).
    destruct (first_bad_sp_unique _ _ _ _ _ _ _ Hfb' Hfb) as (-> & -> & _).
    rewrite Hr in Hr'. injection Hr' as <-. exact (Real s j s' HR HS St). }
  split; [exact Real|].
  intros NV.
  exact (C04sem_conforming_sp_no_position_diag_pipeline [] p_nodes p_final p_h6 a s0 A B SUP NR WF HI RE NV x Hin Hk).
Qed.
Print Assumptions C04sem_position_example_real.

(* `sw a0, 0(sp)` at the start of main: a store AT the entry stack pointer (off = 0, off2 = 0) *)
Definition r_text : str := unlines [ «"main:"»; «"    sw a0, 0(sp)"»; «"    li a7, 10"»; «"    ecall"» ].
Definition r_nodes : list pnode :=
  match parse_from_file false [(w_path, inl r_text)] w_path false with Ok (nodes, _, _) => nodes | _ => [] end.
Definition r_h6 : cfg :=
  match gen_cfg_upto 9 [] r_nodes with Ok (SOk g) => g | _ => mkcfg [] [] [] end.
Definition r_final : cfg :=
  match gen_full_cfg [] r_nodes with Ok (SOk g) => g | _ => mkcfg [] [] [] end.
Example C04sem_offset_usage_example :
  gen_full_cfg [] r_nodes = Ok (SOk r_final) /\ gen_cfg_upto 9 [] r_nodes = Ok (SOk r_h6) /\
  all_supported r_final /\ no_reentry r_h6 /\ all_wf r_final /\
  map lcode (run_diagnostics r_final) = [LInvalidUseBeforeAssignment; LInvalidStackOffsetUsage] /\
  option_map (fun c => (uses_memory_location (cn c), writes_to (cn c), rm_get 2%N (rout c)))
             (nth_opt (gnodes r_final) 1) = Some (Some (2%N, 0), None, Some (AOrig 2%N 0)) /\
  forall addr_of s0, regs_in32 s0 ->
    forall x, In x (run_diagnostics r_final) -> lcode x = LInvalidStackOffsetUsage ->
      stack_offset_usage_real addr_of r_final s0 x.
Proof.
  assert (A : gen_full_cfg [] r_nodes = Ok (SOk r_final)) by (vm_compute; reflexivity).
  assert (B : gen_cfg_upto 9 [] r_nodes = Ok (SOk r_h6)) by (vm_compute; reflexivity).
  assert (SUP : all_supported r_final) by (apply PipeEqProofs.all_supportedb_ok; vm_compute; reflexivity).
  assert (NR : no_reentry r_h6) by (apply PipeEqProofs.no_reentryb_ok; vm_compute; reflexivity).
  assert (WF : all_wf r_final) by (apply PipeEqProofs.all_wfb_ok; vm_compute; reflexivity).
  split; [exact A|]. split; [exact B|]. split; [exact SUP|]. split; [exact NR|]. split; [exact WF|].
  split. { vm_compute. reflexivity. }
  split. { vm_compute. reflexivity. }
  intros a s0 HI.
  exact (C04sem_stack_offset_usage_is_real_pipeline [] r_nodes r_final r_h6 a s0 A B SUP NR WF HI).
Qed.
Print Assumptions C04sem_offset_usage_example.

(* the premise `reported_node_exercised` of (3) is needed: `sw a0, 0(a1)` in front of the addi, entered in
   the all-zero state z0 (a1 = sp = 0: the store hits the entry stack pointer, which `supported_at`
   excludes).  Executions of `srun` stop in front of the store, so sp never moves; the diagnostic is
   emitted nevertheless (the analysis facts do not depend on s0). *)
Definition q_text : str :=
  unlines [ «"main:"»; «"    sw a0, 0(a1)"»; «"    addi sp, sp, 16"»; «"    li a7, 10"»; «"    ecall"» ].
Definition q_nodes : list pnode :=
  match parse_from_file false [(w_path, inl q_text)] w_path false with Ok (nodes, _, _) => nodes | _ => [] end.
Definition q_h6 : cfg :=
  match gen_cfg_upto 9 [] q_nodes with Ok (SOk g) => g | _ => mkcfg [] [] [] end.
Definition q_final : cfg :=
  match gen_full_cfg [] q_nodes with Ok (SOk g) => g | _ => mkcfg [] [] [] end.
Definition z0 : mstate := mkst (fun _ => 0) (fun _ => 0).

Lemma q_store_unsupported c : nth_opt (gnodes q_final) 1 = Some c -> ~ supported_at z0 z0 c.
Proof.
  intros Hc SA. vm_compute in Hc. injection Hc as <-.
  change (forall k, 0 <= k < 4 -> far_from_stack z0 (rget z0 11 + 0 + k)) in SA.
  apply (SA 0 ltac:(lia) 0 ltac:(lia)). reflexivity.
Qed.
Lemma q_runs a i s : srun a q_final z0 i s -> (i = 0 \/ i = 1)%nat /\ s = z0.
Proof.
  induction 1 as [e c He Hc | i s c j s' Hrun IH Hi SA St].
  - split; [|reflexivity].
    do 5 (destruct e as [|e];
          [vm_compute in He; injection He as <-; try (vm_compute in Hc; discriminate Hc); auto|]).
    vm_compute in He. discriminate He.
  - destruct IH as [[-> | ->] ->].
    + destruct St as (c' & Hc' & Hn & E). rewrite Hi in Hc'. injection Hc' as <-.
      vm_compute in Hi. injection Hi as <-.
      apply SoundProofs.eff_entry in E; [|reflexivity]. subst s'.
      destruct Hn as [<-|[]]. auto.
    + exfalso. exact (q_store_unsupported c Hi SA).
Qed.

Example C04sem_exercised_needed :
  gen_full_cfg [] q_nodes = Ok (SOk q_final) /\ gen_cfg_upto 9 [] q_nodes = Ok (SOk q_h6) /\
  all_supported q_final /\ no_reentry q_h6 /\ all_wf q_final /\ regs_in32 z0 /\
  map lcode (run_diagnostics q_final) = [LDeadAssignment; LInvalidUseBeforeAssignment; LInvalidStackPosition] /\
  forall addr_of, sp_never_above_entry addr_of q_final z0 /\ ~ reported_node_exercised addr_of q_final z0.
Proof.
  assert (A : gen_full_cfg [] q_nodes = Ok (SOk q_final)) by (vm_compute; reflexivity).
  assert (B : gen_cfg_upto 9 [] q_nodes = Ok (SOk q_h6)) by (vm_compute; reflexivity).
  assert (SUP : all_supported q_final) by (apply PipeEqProofs.all_supportedb_ok; vm_compute; reflexivity).
  assert (NR : no_reentry q_h6) by (apply PipeEqProofs.no_reentryb_ok; vm_compute; reflexivity).
  assert (WF : all_wf q_final) by (apply PipeEqProofs.all_wfb_ok; vm_compute; reflexivity).
  assert (HI : regs_in32 z0).
  { intros r. unfold rget. destruct (N.eqb r 0); cbn; unfold in32, i32_min, i32_max; lia. }
  assert (D : map lcode (run_diagnostics q_final) =
              [LDeadAssignment; LInvalidUseBeforeAssignment; LInvalidStackPosition]) by (vm_compute; reflexivity).
  split; [exact A|]. split; [exact B|]. split; [exact SUP|]. split; [exact NR|]. split; [exact WF|].
  split; [exact HI|]. split; [exact D|].
  intros a.
  assert (NV : sp_never_above_entry a q_final z0).
  { intros i s c j s' HR Hc HS St off Ho. destruct (q_runs a i s HR) as [[-> | ->] ->].
    - destruct St as (c' & Hc' & Hn & E). rewrite Hc in Hc'. injection Hc' as <-.
      vm_compute in Hc. injection Hc as <-.
      apply SoundProofs.eff_entry in E; [|reflexivity]. subst s'.
      change (0 <> wrap32 (0 + off)). rewrite Z.add_0_l.
      rewrite FoldProofs.wrap32_id; [lia|]. unfold in32, i32_min, i32_max. lia.
    - exfalso. exact (q_store_unsupported c Hc HS). }
  split; [exact NV|]. intros RE.
  assert (Hx : exists x, In x (run_diagnostics q_final) /\ lcode x = LInvalidStackPosition).
  { assert (Hm : existsb (fun x => match lcode x with LInvalidStackPosition => true | _ => false end)
                         (run_diagnostics q_final) = true) by (vm_compute; reflexivity).
    apply existsb_exists in Hm. destruct Hm as (x & Hin & Hk). exists x. split; [exact Hin|].
    destruct (lcode x); try discriminate Hk. reflexivity. }
  destruct Hx as (x & Hin & Hk).
  exact (C04sem_conforming_sp_no_position_diag_pipeline [] q_nodes q_final q_h6 a z0 A B SUP NR WF HI RE NV x Hin Hk).
Qed.
Print Assumptions C04sem_exercised_needed.
