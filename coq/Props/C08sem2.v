(* C08sem2 - the semantic decode table of C08, completed: base instructions (register-register,
   register-immediate, loads, stores) and the remaining pseudo-instructions.  Statements only; proofs
   live in Proofs/PseudoSemProofs2.v.  Same shape as Props/C08sem.v: the operands parse /\ every node
   the parse can return has, on the machine of Spec/Rv32.v, the manual's effect.  The manual's tables are
   Spec/AsmSpec.v (mnemonic -> operation; mnemonic -> width, signedness); the statements about base
   instructions are stated ONCE, quantified over the rows of those tables. *)
From RV.Model Require Import Base I32 Lexer Isa Parser Cfg Avail.
From RV.Spec Require Import SpellNodeSpec Rv32.
From RV.Spec Require FoldSpec PseudoSpec PcSpec AsmSpec.
From RV.Proofs Require Import SpellProofs PseudoSemProofs PseudoSemProofs2.
Open Scope Z_scope.

(* (1) register-register: for every row (m, o) of the manual's table whose mnemonic the parser treats as
   register-register (inst_kind I = KArith - exactly the 18 rows add ... remu, C08sem2_rows), `m rd, rs1, rs2`
   writes o(rs1, rs2) to rd *)
Definition C08sem2_rtype_statement : Prop :=
  forall m o, In (m, o) AsmSpec.manual_arith ->
  forall I, inst_from_str m = Some I -> inst_kind I = KArith ->
  forall (addr_of : str -> Z) t0 t_rd t_rs1 t_rs2 rest raw rd rs1 rs2,
  tok_reg_val t_rd = Some rd ->
  tok_reg_val t_rs1 = Some rs1 ->
  tok_reg_val t_rs2 = Some rs2 ->
  (exists n raw', parse_inst I t0 (LTok t_rd :: LTok t_rs1 :: LTok t_rs2 :: rest, raw) = Ok (inr n, (rest, raw'))) /\
  forall n st', parse_inst I t0 (LTok t_rd :: LTok t_rs1 :: LTok t_rs2 :: rest, raw) = Ok (inr n, st') ->
  forall s s', regs_in32 s -> effect addr_of n s s' ->
    s' = rset s rd (FoldSpec.eval o (rget s rs1) (rget s rs2)) /\
    regs_in32 s' /\
    (forall r, rget s' r = if N.eqb r 0 then 0 else if N.eqb r rd
                           then FoldSpec.eval o (rget s rs1) (rget s rs2) else rget s r).
Theorem C08sem2_rtype : C08sem2_rtype_statement.
Proof. exact sem_rtype. Qed.
Check C08sem2_rtype : C08sem2_rtype_statement.
Print Assumptions C08sem2_rtype.

(* the KArith rows are the 18 register-register mnemonics, the KIArith rows the 9 immediate ones, and
   there is no other row *)
Example C08sem2_rows :
  rows_of_kind is_karith =
  [«"add"»; «"sub"»; «"and"»; «"or"»; «"xor"»; «"sll"»; «"srl"»; «"sra"»; «"slt"»; «"sltu"»; «"mul"»; «"mulh"»;
   «"mulhsu"»; «"mulhu"»; «"div"»; «"divu"»; «"rem"»; «"remu"»] /\
  rows_of_kind is_kiarith =
  [«"addi"»; «"andi"»; «"ori"»; «"xori"»; «"slli"»; «"srli"»; «"srai"»; «"slti"»; «"sltiu"»] /\
  length AsmSpec.manual_arith = 27%nat.
Proof. exact rtype_rows. Qed.
(* rtype_example m x y expect: `m a0, t1, s2` with t1 = x, s2 = y: the mnemonic is a KArith row, the
   statement parses, the state is 32-bit, the node can execute, and afterwards a0 = expect, t1 = x *)
Example C08sem2_sub_ex : rtype_example «"sub"» (-2147483648) 1 2147483647.  Proof. exact sub_ex. Qed.
Example C08sem2_sltu_ex : rtype_example «"sltu"» 1 (-1) 1.                  Proof. exact sltu_ex. Qed.
Example C08sem2_div_ex : rtype_example «"div"» (-7) 2 (-3).                 Proof. exact div_ex. Qed.

(* (2) register-immediate.  The parser enforces NO range on the immediate of addi ... sltiu (no 12-bit
   check, no 5-bit check of shift amounts): every immediate the token reader accepts is stored as it is,
   so the parse succeeds for every z and there is no hypothesis on z; in32 z (true of every immediate
   written as a symbol, C08sem_imm_symbol_in32) is only needed for "s' is again a 32-bit state". *)
Definition C08sem2_itype_statement : Prop :=
  forall m o, In (m, o) AsmSpec.manual_arith ->
  forall I, inst_from_str m = Some I -> inst_kind I = KIArith ->
  forall (addr_of : str -> Z) t0 t_rd t_rs1 t_z rest raw rd rs1 z,
  tok_reg_val t_rd = Some rd ->
  tok_reg_val t_rs1 = Some rs1 ->
  tok_imm_val t_z = Ok (Some z) ->
  (exists n raw', parse_inst I t0 (LTok t_rd :: LTok t_rs1 :: LTok t_z :: rest, raw) = Ok (inr n, (rest, raw'))) /\
  forall n st', parse_inst I t0 (LTok t_rd :: LTok t_rs1 :: LTok t_z :: rest, raw) = Ok (inr n, st') ->
  forall s s', effect addr_of n s s' ->
    s' = rset s rd (FoldSpec.eval o (rget s rs1) z) /\
    (regs_in32 s -> in32 z -> regs_in32 s') /\
    (forall r, rget s' r = if N.eqb r 0 then 0 else if N.eqb r rd
                           then FoldSpec.eval o (rget s rs1) z else rget s r).
Theorem C08sem2_itype : C08sem2_itype_statement.
Proof. exact sem_itype. Qed.
Check C08sem2_itype : C08sem2_itype_statement.
Print Assumptions C08sem2_itype.

(* itype_example m lit x z expect: `m a0, t1, lit` with t1 = x; lit reads as z *)
Example C08sem2_sltiu_ex : itype_example «"sltiu"» «"1"» (-5) 1 0.             Proof. exact sltiu_ex. Qed.
Example C08sem2_srai_ex : itype_example «"srai"» «"1"» (-8) 1 (-4).            Proof. exact srai_ex. Qed.
(* accepted although outside the 12-bit / 5-bit ranges of the ISA encoding *)
Example C08sem2_itype_no_range_check : itype_example «"addi"» «"100000"» 5 100000 100005.  Proof. exact itype_no_range_check. Qed.
Example C08sem2_itype_no_shamt_check : itype_example «"slli"» «"33"» 1 33 2.               Proof. exact itype_no_shamt_check. Qed.

(* (3) loads, `off(rs1)` form.  `loaded s a w sg` is what Rv32.EffLoad writes:
     loaded s a w sg := let u := load_u s a w in if sg then (if w =? 4 then wrap32 u else sext w u) else u
   with the width w and signedness sg of the MANUAL's row (AsmSpec.manual_loads) *)
Definition C08sem2_load_statement : Prop :=
  forall m w sg, In (m, (w, sg)) AsmSpec.manual_loads ->
  forall I, inst_from_str m = Some I ->
  forall (addr_of : str -> Z) t0 t_rd t_z lp t_rs1 rp rest raw rd z rs1,
  tok_reg_val t_rd = Some rd ->
  tok_imm_val t_z = Ok (Some z) ->
  is_lparen lp = true ->
  tok_reg_val t_rs1 = Some rs1 ->
  is_rparen rp = true ->
  (exists n raw', parse_inst I t0 (LTok t_rd :: LTok t_z :: LTok lp :: LTok t_rs1 :: LTok rp :: rest, raw)
                  = Ok (inr n, (rest, raw'))) /\
  forall n st', parse_inst I t0 (LTok t_rd :: LTok t_z :: LTok lp :: LTok t_rs1 :: LTok rp :: rest, raw) = Ok (inr n, st') ->
  forall s s', effect addr_of n s s' ->
    s' = rset s rd (loaded s (rget s rs1 + z) w sg) /\
    (regs_in32 s -> regs_in32 s') /\
    (forall r, rget s' r = if N.eqb r 0 then 0 else if N.eqb r rd then loaded s (rget s rs1 + z) w sg else rget s r).
Theorem C08sem2_load : C08sem2_load_statement.
Proof. exact sem_load. Qed.
Check C08sem2_load : C08sem2_load_statement.
Print Assumptions C08sem2_load.

(* memory byte 100 = 0x80, byte 101 = 0xff, t1 = 100: `m a0, 0(t1)` *)
Example C08sem2_lb_ex : load_example «"lb"» (-128).   Proof. exact lb_ex. Qed.
Example C08sem2_lbu_ex : load_example «"lbu"» 128.    Proof. exact lbu_ex. Qed.
Example C08sem2_lh_ex : load_example «"lh"» (-128).   Proof. exact lh_ex. Qed.
Example C08sem2_lhu_ex : load_example «"lhu"» 65408.  Proof. exact lhu_ex. Qed.
Example C08sem2_lw_ex : load_example «"lw"» 65408.    Proof. exact lw_ex. Qed.

(* stores, `off(rs1)` form, width of the MANUAL's row (AsmSpec.manual_stores) *)
Definition C08sem2_store_statement : Prop :=
  forall m w, In (m, w) AsmSpec.manual_stores ->
  forall I, inst_from_str m = Some I ->
  forall (addr_of : str -> Z) t0 t_rs2 t_z lp t_rs1 rp rest raw rs2 z rs1,
  tok_reg_val t_rs2 = Some rs2 ->
  tok_imm_val t_z = Ok (Some z) ->
  is_lparen lp = true ->
  tok_reg_val t_rs1 = Some rs1 ->
  is_rparen rp = true ->
  (exists n raw', parse_inst I t0 (LTok t_rs2 :: LTok t_z :: LTok lp :: LTok t_rs1 :: LTok rp :: rest, raw)
                  = Ok (inr n, (rest, raw'))) /\
  forall n st', parse_inst I t0 (LTok t_rs2 :: LTok t_z :: LTok lp :: LTok t_rs1 :: LTok rp :: rest, raw) = Ok (inr n, st') ->
  forall s s', effect addr_of n s s' ->
    store_rel s (rget s rs1 + z) (to_u32 (rget s rs2)) w s'.
Theorem C08sem2_store : C08sem2_store_statement.
Proof. exact sem_store. Qed.
Check C08sem2_store : C08sem2_store_statement.
Print Assumptions C08sem2_store.

(* s2 = -1, t1 = 100: `sb s2, 0(t1)` writes 0xff at 100 and leaves bytes 101, 102 alone; `sh` also
   writes byte 101 and leaves 102 alone *)
Example C08sem2_sb_ex : store_example «"sb"» 255 (-1) (-1).  Proof. exact sb_ex. Qed.
Example C08sem2_sh_ex : store_example «"sh"» 255 255 (-1).   Proof. exact sh_ex. Qed.

(* (4) la rd, l *)
Definition C08sem2_la_statement : Prop :=
  forall (addr_of : str -> Z) t0 t_rd t_l rest raw rd l,
  tok_reg_val t_rd = Some rd ->
  tok_label_val t_l = Some l ->
  (exists n raw', parse_inst ILa t0 (LTok t_rd :: LTok t_l :: rest, raw) = Ok (inr n, (rest, raw'))) /\
  forall n st', parse_inst ILa t0 (LTok t_rd :: LTok t_l :: rest, raw) = Ok (inr n, st') ->
  forall s s', regs_in32 s -> effect addr_of n s s' ->
    s' = rset s rd (wrap32 (addr_of l)) /\
    regs_in32 s' /\
    (forall r, rget s' r = if N.eqb r 0 then 0 else if N.eqb r rd then wrap32 (addr_of l) else rget s r).
Theorem C08sem2_la : C08sem2_la_statement.
Proof. exact sem_la. Qed.
Check C08sem2_la : C08sem2_la_statement.
Print Assumptions C08sem2_la.

Example C08sem2_la_ex :
  forall addr_of : str -> Z, exists n st',
    parse_inst ILa (sym «"la"») ([LTok (sym «"a0"»); LTok (sym «"msg"»); LTok nl], None) = Ok (inr n, st') /\
    (exists s', effect addr_of n (st_of [(10%N, 7)]) s') /\
    forall s', effect addr_of n (st_of [(10%N, 7)]) s' -> rget s' 10 = wrap32 (addr_of «"msg"») /\ rget s' 0 = 0.
Proof. exact la_ex. Qed.

(* j l : jump to l, link register x0, nothing changes *)
Definition C08sem2_j_statement : Prop :=
  forall (addr_of : str -> Z) t0 t_l rest raw l,
  tok_label_val t_l = Some l ->
  (exists n raw', parse_inst IJ t0 (LTok t_l :: rest, raw) = Ok (inr n, (rest, raw'))) /\
  forall n st', parse_inst IJ t0 (LTok t_l :: rest, raw) = Ok (inr n, st') ->
  exists i rd lbl rt,
    n = PJumpLink i rd lbl rt /\ wv i = IJal /\ wv rd = 0%N /\ wv lbl = l /\
    (forall s s', effect addr_of n s s' -> s' = s).
Theorem C08sem2_j : C08sem2_j_statement.
Proof. exact sem_j. Qed.
Check C08sem2_j : C08sem2_j_statement.
Print Assumptions C08sem2_j.

(* b l : jump to l, link register x0, nothing changes *)
Definition C08sem2_b_statement : Prop :=
  forall (addr_of : str -> Z) t0 t_l rest raw l,
  tok_label_val t_l = Some l ->
  (exists n raw', parse_inst IB t0 (LTok t_l :: rest, raw) = Ok (inr n, (rest, raw'))) /\
  forall n st', parse_inst IB t0 (LTok t_l :: rest, raw) = Ok (inr n, st') ->
  exists i rd lbl rt,
    n = PJumpLink i rd lbl rt /\ wv i = IJal /\ wv rd = 0%N /\ wv lbl = l /\
    (forall s s', effect addr_of n s s' -> s' = s).
Theorem C08sem2_b : C08sem2_b_statement.
Proof. exact sem_b. Qed.
Check C08sem2_b : C08sem2_b_statement.
Print Assumptions C08sem2_b.

(* IJal l : call of l, link register ra = x1; the callee is summarised by the calling convention (Rv32.EffCall) *)
Definition C08sem2_jal_label_statement : Prop :=
  forall (addr_of : str -> Z) t0 t_l rest raw l,
  tok_label_val t_l = Some l ->
  (exists n raw', parse_inst IJal t0 (LTok t_l :: rest, raw) = Ok (inr n, (rest, raw'))) /\
  forall n st', parse_inst IJal t0 (LTok t_l :: rest, raw) = Ok (inr n, st') ->
  exists i rd lbl rt,
    n = PJumpLink i rd lbl rt /\ wv i = IJal /\ wv rd = 1%N /\ wv lbl = l /\
    (forall s s', effect addr_of n s s' ->
       regs_in32 s' /\
       (forall r, callee_preserves r = true -> rget s' r = rget s r) /\
       (forall a, above_sp s a -> mem s' (ma a) = mem s (ma a))).
Theorem C08sem2_jal_label : C08sem2_jal_label_statement.
Proof. exact sem_jal_label. Qed.
Check C08sem2_jal_label : C08sem2_jal_label_statement.
Print Assumptions C08sem2_jal_label.

(* ICall l : call of l, link register ra = x1; the callee is summarised by the calling convention (Rv32.EffCall) *)
Definition C08sem2_call_statement : Prop :=
  forall (addr_of : str -> Z) t0 t_l rest raw l,
  tok_label_val t_l = Some l ->
  (exists n raw', parse_inst ICall t0 (LTok t_l :: rest, raw) = Ok (inr n, (rest, raw'))) /\
  forall n st', parse_inst ICall t0 (LTok t_l :: rest, raw) = Ok (inr n, st') ->
  exists i rd lbl rt,
    n = PJumpLink i rd lbl rt /\ wv i = IJal /\ wv rd = 1%N /\ wv lbl = l /\
    (forall s s', effect addr_of n s s' ->
       regs_in32 s' /\
       (forall r, callee_preserves r = true -> rget s' r = rget s r) /\
       (forall a, above_sp s a -> mem s' (ma a) = mem s (ma a))).
Theorem C08sem2_call : C08sem2_call_statement.
Proof. exact sem_call. Qed.
Check C08sem2_call : C08sem2_call_statement.
Print Assumptions C08sem2_call.

Example C08sem2_j_ex : jumplink_example IJ 0%N.       Proof. exact j_ex. Qed.
Example C08sem2_b_ex : jumplink_example IB 0%N.       Proof. exact b_ex. Qed.
Example C08sem2_jal_ex : jumplink_example IJal 1%N.   Proof. exact jal_ex. Qed.
Example C08sem2_call_ex : jumplink_example ICall 1%N. Proof. exact call_ex. Qed.

(* jr rs : the node of `jalr x0, rs, 0`; is_return exactly when rs = ra.  The machine of Rv32.v follows
   one activation and has no step out of a jalr node: no effect *)
Definition C08sem2_jr_statement : Prop :=
  forall (addr_of : str -> Z) t0 t_rs rest raw rs,
  tok_reg_val t_rs = Some rs ->
  (exists n raw', parse_inst IJr t0 (LTok t_rs :: rest, raw) = Ok (inr n, (rest, raw'))) /\
  forall n st', parse_inst IJr t0 (LTok t_rs :: rest, raw) = Ok (inr n, st') ->
  (exists i rd rs1 imm rt,
    n = PJumpLinkR i rd rs1 imm rt /\ wv i = IJalr /\ wv rd = 0%N /\ wv rs1 = rs /\ wv imm = 0) /\
  is_return n = N.eqb rs 1 /\
  (forall s s', ~ effect addr_of n s s').
Theorem C08sem2_jr : C08sem2_jr_statement.
Proof. exact sem_jr. Qed.
Check C08sem2_jr : C08sem2_jr_statement.
Print Assumptions C08sem2_jr.

(* ret : the node of `jalr x0, ra, 0`, is_return = true *)
Definition C08sem2_ret_statement : Prop :=
  forall (addr_of : str -> Z) t0 rest raw,
  (exists n raw', parse_inst IRet t0 (rest, raw) = Ok (inr n, (rest, raw'))) /\
  forall n st', parse_inst IRet t0 (rest, raw) = Ok (inr n, st') ->
  (exists i rd rs1 imm rt,
    n = PJumpLinkR i rd rs1 imm rt /\ wv i = IJalr /\ wv rd = 0%N /\ wv rs1 = 1%N /\ wv imm = 0) /\
  is_return n = true /\
  (forall s s', ~ effect addr_of n s s').
Theorem C08sem2_ret : C08sem2_ret_statement.
Proof. exact sem_ret. Qed.
Check C08sem2_ret : C08sem2_ret_statement.
Print Assumptions C08sem2_ret.

Example C08sem2_jr_ret_ex :
  (exists n st', parse_inst IJr (sym «"jr"») ([LTok (sym «"t1"»); LTok nl], None) = Ok (inr n, st') /\ is_return n = false) /\
  (exists n st', parse_inst IJr (sym «"jr"») ([LTok (sym «"ra"»); LTok nl], None) = Ok (inr n, st') /\ is_return n = true) /\
  (exists n st', parse_inst IRet (sym «"ret"») ([LTok nl], None) = Ok (inr n, st') /\ is_return n = true).
Proof. exact jr_ret_ex. Qed.

(* sgez rs, l : NOT the manual's two-instruction "set if >= zero": the model (like the implementation)
   reads `rs, label` and builds the BRANCH `bge x0, rs, l`, taken iff rs <= 0 - the condition of blez *)
Definition C08sem2_sgez_statement : Prop :=
  forall (addr_of : str -> Z) t0 t_rs t_l rest raw rs l,
  tok_reg_val t_rs = Some rs ->
  tok_label_val t_l = Some l ->
  (exists n raw', parse_inst ISgez t0 (LTok t_rs :: LTok t_l :: rest, raw) = Ok (inr n, (rest, raw'))) /\
  forall n st', parse_inst ISgez t0 (LTok t_rs :: LTok t_l :: rest, raw) = Ok (inr n, st') ->
  exists i rs1 rs2 lbl rt,
    n = PBranch i rs1 rs2 lbl rt /\ wv lbl = l /\
    (forall s, PcSpec.branch_holds (wv i) (rget s (wv rs1)) (rget s (wv rs2)) = Some (PseudoSpec.blez (rget s rs))) /\
    (forall s s', effect addr_of n s s' -> s' = s).
Theorem C08sem2_sgez : C08sem2_sgez_statement.
Proof. exact sem_sgez. Qed.
Check C08sem2_sgez : C08sem2_sgez_statement.
Print Assumptions C08sem2_sgez.
Example C08sem2_sgez_pos_ex : branch1_example ISgez 5 false.   Proof. exact sgez_pos_ex. Qed.
Example C08sem2_sgez_neg_ex : branch1_example ISgez (-5) true. Proof. exact sgez_neg_ex. Qed.

Definition C08sem2_table_statement : Prop :=
  C08sem2_rtype_statement /\ C08sem2_itype_statement /\ C08sem2_load_statement /\ C08sem2_store_statement /\
  C08sem2_la_statement /\ C08sem2_j_statement /\ C08sem2_b_statement /\ C08sem2_jal_label_statement /\
  C08sem2_call_statement /\ C08sem2_jr_statement /\ C08sem2_ret_statement /\ C08sem2_sgez_statement.
Theorem C08sem2_table : C08sem2_table_statement.
Proof.
  exact (conj C08sem2_rtype (conj C08sem2_itype (conj C08sem2_load (conj C08sem2_store (conj C08sem2_la
        (conj C08sem2_j (conj C08sem2_b (conj C08sem2_jal_label (conj C08sem2_call (conj C08sem2_jr
        (conj C08sem2_ret C08sem2_sgez))))))))))).
Qed.
Check C08sem2_table : C08sem2_table_statement.
Print Assumptions C08sem2_table.
