(* C09 beyond the lexer - "every reported location is exact": for the parse of a single file (the text
   [text] stored under [path], lexed after normalisation as file 0), the tokens carried by parser nodes,
   the raw ranges of nodes, the locations of parse errors and every location of every diagnostic lie
   inside the (normalised) text, have line/column equal to those of their raw offsets, and are either one
   token of the lexer output (covering exactly its spelling) or the hull of the tokens of one statement.
   Statements only; proofs in Proofs/LocProofs.v (tightness of instruction statements: LocTightProofs.v,
   for include trees LocTightTreeProofs.v).
   The token-level facts are Props/C09.v. *)
From RV.Model Require Import Base I32 Imm Lexer Isa Parser Reader Cfg Lints.
From RV.Spec Require Import PosSpec LineSpec ParamSpec IncludeSpec LocSpec.
From RV.Proofs Require Import LocProofs LocTightProofs LocTightTreeProofs.
Open Scope N_scope.

(* ---- the notions of Props/C09.v (same bodies) --------------------------------------------- *)
Definition pos_ok (src : str) (p : position) : Prop :=
  line_col src (raw p) = (line p, column p).
Definition range_ok (src : str) (r : range) : Prop :=
  pos_ok src (rstart r) /\ pos_ok src (rend r) /\
  raw (rstart r) <= raw (rend r) /\ raw (rend r) < N.of_nat (length src) /\
  line (rstart r) = line (rend r).
Definition spelling_ok (src : str) (t : token) : Prop :=
  let txt := slice src (raw (rstart (trange t))) (raw (rend (trange t))) in
  match tt t with
  | TLParen => txt = [c_lparen]
  | TRParen => txt = [c_rparen]
  | TNewline => txt = [c_nl]
  | TSymbol s => txt = s
  | TLabel s => txt = s ++ [c_colon]
  | TDirective d => txt = d
  | TComment c => txt = c_hash :: c
  | TString _ => exists body, txt = c_dquote :: body ++ [c_dquote]
  | TChar _ => exists body, txt = c_squote :: body ++ [c_squote]
  end.
Definition item_range (it : lexitem) : range :=
  match it with LTok t => trange t | LErrUnexpected t => trange t | LErrString t _ _ => trange t end.

(* a range that may span lines (the hull of a statement: a `.word` list may continue on the next line):
   both ends consistent with the text, ordered, inside the text *)
Definition span_ok (src : str) (r : range) : Prop :=
  pos_ok src (rstart r) /\ pos_ok src (rend r) /\
  raw (rstart r) <= raw (rend r) /\ raw (rend r) < N.of_nat (length src).

(* the parse of one file and the lexer output it was made from *)
Definition one_file (chk : bool) (path text : str) (nodes : list pnode) (errs : list parse_error)
  (items : list lexitem) : Prop :=
  (exists rs, parse_from_file chk [(path, inl text)] path false = Ok (nodes, errs, rs)) /\
  lex_all chk (Some 0) (normalize_text text) = Ok items.

(* ---- (1) node operands are tokens --------------------------------------------------------- *)
(* Every token a node carries (instruction, registers, immediates, label names, directive and its
   arguments; [node_tokens], Spec/IncludeSpec.v) is a token of the lexer output of the file - operands
   synthesised by a pseudo-instruction expansion carry the mnemonic's (or, for `li`, the immediate's)
   token, which is one of them - so its range is inside the text, on one line, consistent with its raw
   offsets, covers exactly the token's spelling, is in file 0, and lies within the node's own range. *)
Definition C09loc_operands_statement : Prop :=
  forall chk path text nodes errs items, one_file chk path text nodes errs items ->
    forall n t, In n nodes -> In t (node_tokens n) ->
      In (LTok t) items /\ range_ok (normalize_text text) (trange t) /\ spelling_ok (normalize_text text) t /\
      tfile t = Some 0 /\ covers (node_raw n) t.
Theorem C09loc_operands : C09loc_operands_statement.
Proof.
  intros chk path text nodes errs items [[rs Hp] Hl] n t Hn Ht.
  exact (node_operands_exact chk path text nodes errs rs items Hp Hl n t Hn Ht).
Qed.
Check C09loc_operands : C09loc_operands_statement.
Print Assumptions C09loc_operands.

(* every location [sel_loc s n] with s <> SelNode is the location of such a token *)
Definition C09loc_selector_statement : Prop :=
  forall s n l, sel_loc s n = Some l ->
    (s = SelNode /\ l = loc_of_node n) \/
    (s <> SelNode /\ exists t, In t (node_tokens n) /\ l = loc_of_tok t).
Theorem C09loc_selector : C09loc_selector_statement.
Proof. exact sel_loc_cases. Qed.
Check C09loc_selector : C09loc_selector_statement.
Print Assumptions C09loc_selector.

(* ---- (2) node range = hull of the statement's tokens -------------------------------------- *)
(* The nodes are the ProgramEntry followed by [body]; [segs items body] (Spec/LocSpec.v) says that the
   nodes of [body] are, in order, the statements of disjoint consecutive segments of the lexer output:
   each node's raw range is the hull of the tokens its statement consumed (start of the first, end of
   the last) and its tokens are among them.  Hence the range is inside the text with consistent ends
   and start <= end; two nodes have disjoint ranges ordered as in the source - EXCEPT the two nodes of
   an expansion (`lw rd, label`, `sw rs, label, rt`, `sw rs, imm, rt`), which are adjacent and share
   one range (so a diagnostic about the statement could be produced twice before the dedup fix). *)
Definition raw_end (n : pnode) : N := raw (rend (rrange (node_raw n))).
Definition raw_start (n : pnode) : N := raw (rstart (rrange (node_raw n))).
Definition C09loc_node_range_statement : Prop :=
  forall chk path text nodes errs items, one_file chk path text nodes errs items ->
    exists body, nodes = entry_node 0 :: body /\ segs items body /\
      (forall n, In n body ->
         (exists tf tl, In (LTok tf) items /\ In (LTok tl) items /\ node_raw n = hull tf tl) /\
         span_ok (normalize_text text) (rrange (node_raw n)) /\ rfile (node_raw n) = Some 0) /\
      (forall i j a b, (i < j)%nat -> nth_error body i = Some a -> nth_error body j = Some b ->
         raw_end a < raw_start b \/ (j = S i /\ expansion_pair a b /\ node_raw a = node_raw b)).
Theorem C09loc_node_range : C09loc_node_range_statement.
Proof.
  intros chk path text nodes errs items [[rs Hp] Hl].
  exact (node_range_exact chk path text nodes errs rs items Hp Hl).
Qed.
Check C09loc_node_range : C09loc_node_range_statement.
Print Assumptions C09loc_node_range.

(* ---- (2b) instruction nodes: mnemonic through last operand -------------------------------- *)
(* An INSTRUCTION statement consumes nothing but its mnemonic and its operand tokens - no newline, no
   comment ([operand_tok], Spec/LocSpec.v) - so the raw range of an instruction node (every node but
   labels, directives and the entries: [is_instruction_node]) runs exactly from the mnemonic through the
   last operand.  [segs_tight items body] is [segs items body] with this for every instruction statement;
   spelled out: the statement of an instruction node [n] is a segment [tf :: u'] of the lexer output,
   [tf] is the token of the node's instruction field ([mnemonic_tok]), all of tf :: u' are operand
   tokens, the node's range is the hull of tf and the last of them, and the tokens it carries are among
   them.  (Since the jalr fix: a bare `jalr rs` used to consume the token after rs - the newline, or a
   trailing comment, which then was part of the node's range.)  Data directives are excluded because
   they legitimately consume newlines (`.word 1` <newline> `2`: the example below). *)
Definition C09loc_node_range_tight_statement : Prop :=
  forall chk path text nodes errs items, one_file chk path text nodes errs items ->
    exists body, nodes = entry_node 0 :: body /\ segs_tight items body /\
      forall n, In n body -> is_instruction_node n = true ->
        exists pre tf u' post,
          items = pre ++ map LTok (tf :: u') ++ post /\ mnemonic_tok n = Some tf /\
          Forall operand_tok (tf :: u') /\ node_raw n = hull tf (last u' tf) /\
          Forall (fun t => In t (tf :: u')) (node_tokens n).
Theorem C09loc_node_range_tight : C09loc_node_range_tight_statement.
Proof.
  intros chk path text nodes errs items [[rs Hp] Hl].
  exact (node_range_tight chk path text nodes errs rs items Hp Hl).
Qed.
Check C09loc_node_range_tight : C09loc_node_range_tight_statement.
Print Assumptions C09loc_node_range_tight.

(* [segs_tight] refines [segs] *)
Definition C09loc_segs_tight_segs_statement : Prop :=
  forall items body, segs_tight items body -> segs items body.
Theorem C09loc_segs_tight_segs : C09loc_segs_tight_segs_statement.
Proof. exact segs_tight_segs. Qed.
Check C09loc_segs_tight_segs : C09loc_segs_tight_segs_statement.
Print Assumptions C09loc_segs_tight_segs.

(* ---- (3) parse error locations ------------------------------------------------------------ *)
(* The location of every parse error is the range of an item of the lexer output, in file 0: the
   offending token (for an include failure, the path token), or the item the lexer itself rejected (an
   unexpected character, or a bad string: from its opening quote to where the lexer gave up).  All of
   them are one-line ranges inside the text with consistent ends. *)
Definition C09loc_parse_error_statement : Prop :=
  forall chk path text nodes errs items, one_file chk path text nodes errs items ->
    forall e, In e errs ->
      exists it, In it items /\ err_item e it /\
        parse_error_loc e = mkloc (item_range it) (Some 0) /\
        range_ok (normalize_text text) (item_range it) /\
        match it with LTok t => spelling_ok (normalize_text text) t | _ => True end.
Theorem C09loc_parse_error : C09loc_parse_error_statement.
Proof.
  intros chk path text nodes errs items [[rs Hp] Hl] e He.
  exact (parse_error_exact chk path text nodes errs rs items Hp Hl e He).
Qed.
Check C09loc_parse_error : C09loc_parse_error_statement.
Print Assumptions C09loc_parse_error.

(* ---- (4) diagnostics ---------------------------------------------------------------------- *)
(* provenance: every location of every diagnostic is a selector location of an input node or the
   location of an input parse error (Param's run_items_place with both inputs equal) *)
Definition C09loc_provenance_statement : Prop :=
  forall picks ns es ds, run_items picks ns es = Ok ds ->
    forall d, In d ds -> forall l, In l (dlocs d) ->
      (exists s n, In n ns /\ sel_loc s n = Some l) \/ (exists e, In e es /\ parse_error_loc e = l).
Theorem C09loc_provenance : C09loc_provenance_statement.
Proof. exact run_items_provenance. Qed.
Check C09loc_provenance : C09loc_provenance_statement.
Print Assumptions C09loc_provenance.

(* Every location of every diagnostic of a single-file run is in file 0 and is: the location of the
   ProgramEntry node (range0: not a piece of text), or the range of one item of the lexer output (a
   token, covering exactly its spelling, or a rejected item), or the hull of the tokens of one statement
   (the raw range of one of the nodes); in the last two cases it is inside the normalised text with
   line/column equal to those of its raw offsets. *)
Definition C09loc_diagnostics_statement : Prop :=
  forall chk path text nodes errs items picks ds, one_file chk path text nodes errs items ->
    run_items picks nodes errs = Ok ds ->
    forall d, In d ds -> forall l, In l (dlocs d) ->
      lfile l = Some 0 /\
      (l = entry_loc 0 \/
       (exists it, In it items /\ lrange l = item_range it /\ range_ok (normalize_text text) (lrange l) /\
                   match it with LTok t => spelling_ok (normalize_text text) t | _ => True end) \/
       (exists n pre u post, In n nodes /\ items = pre ++ map LTok u ++ post /\ stmt_node u n /\
                   l = loc_of_node n /\ span_ok (normalize_text text) (lrange l))).
Theorem C09loc_diagnostics : C09loc_diagnostics_statement.
Proof.
  intros chk path text nodes errs items picks ds [[rs Hp] Hl] Hr.
  exact (diag_locs_exact chk path text nodes errs rs items picks ds Hp Hl Hr).
Qed.
Check C09loc_diagnostics : C09loc_diagnostics_statement.
Print Assumptions C09loc_diagnostics.

(* ---- non-vacuity --------------------------------------------------------------------------- *)
Fixpoint unlines (l : list str) : str := match l with [] => [] | x :: l' => x ++ [c_nl] ++ unlines l' end.
(* a label, a pseudo-instruction with a synthesised operand (li), an expansion (lw t1, val), a parse error
   (missing parenthesis), a lexer error (unclosed string), unreachable code, two instructions followed by a
   comment (a load without base register and a bare `jalr rs`: both look at the token after their last
   operand), a data list over two lines *)
Definition ex_text : str := unlines
  [ «"main:"»; «"    li t0, 5"»; «"    lw t1, val"»; «"    addi t0, zero, 7"»; «"    sw t0, 0(sp"»;
    «"    .ascii ""abc"»; «"    li a7, 10"»; «"    ecall"»; «"    addi t1, t1, 1"»;
    «"    lw a0, 4 # c"»; «"    jalr t0 # comment"»; «".data"»; «"val: .word 1"»; «"   2"» ].
Definition ex_path : str := «"a.s"».

Definition range_eqb (a b : range) : bool :=
  (N.eqb (raw (rstart a)) (raw (rstart b)) && N.eqb (raw (rend a)) (raw (rend b)))%bool.

(* the hypotheses are satisfiable: the parse succeeds with 14 nodes and 2 errors, the analysis yields
   diagnostics; the two nodes of `lw t1, val` share their range; the `.word` node spans two lines; the
   ranges of `lw a0, 4 # c` and `jalr t0 # comment` end with their last operand (`4`, `t0`), not with the
   comment; there are diagnostics located at a single item and diagnostics located at the hull of a
   statement *)
Example C09loc_example :
  match parse_from_file false [(ex_path, inl ex_text)] ex_path false,
        lex_all false (Some 0) (normalize_text ex_text) with
  | Ok (nodes, errs, _), Ok items =>
      one_file false ex_path ex_text nodes errs items /\
      length nodes = 14%nat /\ length errs = 2%nat /\ length items = 52%nat /\
      (match nth_error nodes 3, nth_error nodes 4 with
       | Some a, Some b => expansion_pair a b /\ node_raw a = node_raw b
       | _, _ => False end) /\
      (match nth_error nodes 13 with
       | Some n => is_instruction_node n = false /\
                   line (rstart (rrange (node_raw n))) = 12 /\ line (rend (rrange (node_raw n))) = 13
       | None => False end) /\
      (match nth_error nodes 9, nth_error nodes 10 with
       | Some (PLoad _ _ _ imm ra as a), Some (PJumpLinkR _ _ rs1 _ rb as b) =>
           slice (normalize_text ex_text) (raw_start a) (raw_end a) = «"lw a0, 4"» /\
           rend (rrange ra) = rend (trange (wt imm)) /\ tt (wt imm) = TSymbol «"4"» /\
           slice (normalize_text ex_text) (raw_start b) (raw_end b) = «"jalr t0"» /\
           rend (rrange rb) = rend (trange (wt rs1)) /\ tt (wt rs1) = TSymbol «"t0"»
       | _, _ => False end) /\
      match run_items [] nodes errs with
      | Ok ds =>
          map (fun d => match dk d with DLint c => Some c | _ => None end) ds =
            [None; None; Some LDeadAssignment; Some LDeadAssignment; Some LDeadAssignment; Some LDeadAssignment;
             Some LDeadAssignment; Some LUnreachableCode; Some LUnreachableCode; Some LUnknownStack] /\
          (* the last three diagnostics are located at the hull of a statement, the others at single items *)
          map (fun d => map (fun l => existsb (fun n => range_eqb (lrange l) (rrange (node_raw n))) nodes) (dlocs d)) ds =
            [[false]; [false]; [false]; [false]; [false]; [false]; [false]; [true]; [true]; [true]] /\
          map (fun d => map (fun l => existsb (fun it => range_eqb (lrange l) (item_range it)) items) (dlocs d)) ds =
            [[true]; [true]; [true]; [true]; [true]; [true]; [true]; [false]; [false]; [false]]
      | _ => False
      end
  | _, _ => False
  end.
Proof.
  vm_compute. split; [split; [eexists; reflexivity|reflexivity]|]. repeat split; reflexivity.
Qed.

(* the theorems applied to the example: every location of its ten diagnostics is exact *)
Example C09loc_example_applied :
  forall nodes errs rs items ds,
    parse_from_file false [(ex_path, inl ex_text)] ex_path false = Ok (nodes, errs, rs) ->
    lex_all false (Some 0) (normalize_text ex_text) = Ok items ->
    run_items [] nodes errs = Ok ds ->
    forall d, In d ds -> forall l, In l (dlocs d) ->
      lfile l = Some 0 /\
      (l = entry_loc 0 \/
       (exists it, In it items /\ lrange l = item_range it /\ range_ok (normalize_text ex_text) (lrange l) /\
                   match it with LTok t => spelling_ok (normalize_text ex_text) t | _ => True end) \/
       (exists n pre u post, In n nodes /\ items = pre ++ map LTok u ++ post /\ stmt_node u n /\
                   l = loc_of_node n /\ span_ok (normalize_text ex_text) (lrange l))).
Proof.
  intros nodes errs rs items ds Hp Hl Hr.
  apply (C09loc_diagnostics false ex_path ex_text nodes errs items [] ds); [|exact Hr].
  split; [exists rs; exact Hp|exact Hl].
Qed.

(* ============================================================================================ *)
(* Include trees: any store, any base file, imports followed (ign = false) or not.  File [k] is the
   k-th path the run imported ([imported rs]); [file_items chk fs (imported rs) k text items]
   (Spec/LocSpec.v) says that [text] is its text in the store and [items] the lexer output the driver
   parsed for it.  Two locations are not pieces of text: [entry_loc 0] (the ProgramEntry node) and
   [no_loc] (range0, no file: the parse error reported when the base file itself cannot be read). *)
Definition nfiles (rs : rstate) : N := N.of_nat (length (imported rs)).
(* the node's raw token is in a file whose id satisfies P *)
Definition node_in (P : N -> Prop) (n : pnode) : Prop := exists k, rfile (node_raw n) = Some k /\ P k.

(* (1) node operands are tokens of the lexer output of the node's file *)
Definition C09loc_tree_operands_statement : Prop :=
  forall chk fs base ign nodes errs rs, parse_from_file chk fs base ign = Ok (nodes, errs, rs) ->
    forall n t, In n nodes -> In t (node_tokens n) ->
      exists k text items, k < nfiles rs /\ file_items chk fs (imported rs) k text items /\
        In (LTok t) items /\ range_ok (normalize_text text) (trange t) /\ spelling_ok (normalize_text text) t /\
        tfile t = Some k /\ covers (node_raw n) t.
Theorem C09loc_tree_operands : C09loc_tree_operands_statement.
Proof. exact tree_operands_exact. Qed.
Check C09loc_tree_operands : C09loc_tree_operands_statement.
Print Assumptions C09loc_tree_operands.

(* (2) per file, the nodes located in that file are, in order, the statements of disjoint segments of the
   file's lexer output: range = hull, inside the file's text, disjoint and ordered except expansions *)
Definition C09loc_tree_node_range_statement : Prop :=
  forall chk fs base ign nodes errs rs, parse_from_file chk fs base ign = Ok (nodes, errs, rs) ->
    (nodes = [] /\ exists e, errs = [to_parse_error e (mkw base tok_default)]) \/
    exists body, nodes = entry_node 0 :: body /\ Forall (node_in (fun k => k < nfiles rs)) body /\
      forall k, k < nfiles rs -> exists text items,
        file_items chk fs (imported rs) k text items /\ segs items (filter (in_file k) body) /\
        (forall n, In n (filter (in_file k) body) ->
           (exists tf tl, In (LTok tf) items /\ In (LTok tl) items /\ node_raw n = hull tf tl) /\
           span_ok (normalize_text text) (rrange (node_raw n)) /\ rfile (node_raw n) = Some k) /\
        (forall i j a b, (i < j)%nat -> nth_error (filter (in_file k) body) i = Some a ->
           nth_error (filter (in_file k) body) j = Some b ->
           raw_end a < raw_start b \/ (j = S i /\ expansion_pair a b /\ node_raw a = node_raw b)).
Theorem C09loc_tree_node_range : C09loc_tree_node_range_statement.
Proof. exact tree_node_range_exact. Qed.
Check C09loc_tree_node_range : C09loc_tree_node_range_statement.
Print Assumptions C09loc_tree_node_range.

(* (3) parse errors: an item of the lexer output of one of the files (for a failed include: the path
   token in the including file), or no location at all when the base file cannot be read *)
Definition C09loc_tree_parse_error_statement : Prop :=
  forall chk fs base ign nodes errs rs, parse_from_file chk fs base ign = Ok (nodes, errs, rs) ->
    forall e, In e errs ->
      (nodes = [] /\ parse_error_loc e = no_loc) \/
      exists k text items it, k < nfiles rs /\ file_items chk fs (imported rs) k text items /\
        In it items /\ err_item e it /\
        parse_error_loc e = mkloc (item_range it) (Some k) /\ range_ok (normalize_text text) (item_range it) /\
        match it with LTok t => spelling_ok (normalize_text text) t | _ => True end.
Theorem C09loc_tree_parse_error : C09loc_tree_parse_error_statement.
Proof. exact tree_parse_error_exact. Qed.
Check C09loc_tree_parse_error : C09loc_tree_parse_error_statement.
Print Assumptions C09loc_tree_parse_error.

(* (4) every location of every diagnostic names one of the imported files and is, in that file's
   normalised text, one lexer item or the hull of one statement *)
Definition C09loc_tree_diagnostics_statement : Prop :=
  forall chk fs base ign nodes errs rs picks ds, parse_from_file chk fs base ign = Ok (nodes, errs, rs) ->
    run_items picks nodes errs = Ok ds ->
    forall d, In d ds -> forall l, In l (dlocs d) ->
      l = no_loc \/ l = entry_loc 0 \/
      exists k text items, k < nfiles rs /\ file_items chk fs (imported rs) k text items /\ lfile l = Some k /\
        ((exists it, In it items /\ lrange l = item_range it /\ range_ok (normalize_text text) (lrange l) /\
                     match it with LTok t => spelling_ok (normalize_text text) t | _ => True end) \/
         (exists n pre u post, In n nodes /\ items = pre ++ map LTok u ++ post /\ stmt_node u n /\
                     l = loc_of_node n /\ span_ok (normalize_text text) (lrange l))).
Theorem C09loc_tree_diagnostics : C09loc_tree_diagnostics_statement.
Proof.
  intros chk fs base ign nodes errs rs picks ds Hp Hr.
  exact (tree_diag_locs_exact chk fs base ign nodes errs rs Hp picks ds Hr).
Qed.
Check C09loc_tree_diagnostics : C09loc_tree_diagnostics_statement.
Print Assumptions C09loc_tree_diagnostics.

(* ---- non-vacuity: two files, a failed include, a cyclic include ----------------------------- *)
Definition main_text : str := unlines
  [ «"main:"»; «"    li a0, 1"»; «"    jal ra, f"»; «"    li a7, 10"»; «"    ecall"»;
    «".include ""lib.s"""»; «".include ""nope.s"""»; «"    addi t1, t1, 1"» ].
Definition lib_text : str := unlines
  [ «"f:"»; «"    lw t1, val"»; «"    addi s1, a0, 1"»; «"    sw t0, 0(sp"»; «".include ""main.s"""»; «"    ret"»;
    «".data"»; «"val: .word 1"»; «"   2"» ].
Definition ex_fs : store := [(«"main.s"», inl main_text); («"lib.s"», inl lib_text)].

(* 15 nodes (6 + entry in file 0, then 8 of file 1, then 1 of file 0), 3 parse errors (one in file 1 for
   the missing parenthesis, one in file 1 for the cyclic include, one in file 0 for the missing file),
   10 diagnostics located in both files *)
Example C09loc_tree_example :
  match parse_from_file false ex_fs «"main.s"» false with
  | Ok (nodes, errs, rs) =>
      imported rs = [«"main.s"»; «"lib.s"»] /\
      file_items false ex_fs (imported rs) 0 main_text
        (match lex_all false (Some 0) (normalize_text main_text) with Ok i => i | _ => [] end) /\
      file_items false ex_fs (imported rs) 1 lib_text
        (match lex_all false (Some 1) (normalize_text lib_text) with Ok i => i | _ => [] end) /\
      map (in_file 0) nodes = [true; true; true; true; true; true; false; false; false; false; false; false; false;
                               false; true] /\
      map (in_file 1) nodes = [false; false; false; false; false; false; true; true; true; true; true; true; true;
                               true; false] /\
      map (fun e => lfile (parse_error_loc e)) errs = [Some 1; Some 1; Some 0] /\
      match run_items [] nodes errs with
      | Ok ds => map (fun d => map lfile (dlocs d)) ds =
                 [[Some 1]; [Some 1]; [Some 0]; [Some 1]; [Some 0]; [Some 0]; [Some 0]; [Some 0]; [Some 1]; [Some 1]]
      | _ => False
      end
  | _ => False
  end.
Proof.
  vm_compute. split; [reflexivity|]. split; [eexists; repeat split; reflexivity|].
  split; [eexists; repeat split; reflexivity|]. repeat split; reflexivity.
Qed.

(* the base file cannot be read: no node, one error without location *)
Example C09loc_tree_example_unreadable :
  match parse_from_file false ex_fs «"other.s"» false with
  | Ok (nodes, errs, rs) => nodes = [] /\ map parse_error_loc errs = [no_loc] /\ imported rs = []
  | _ => False
  end.
Proof. vm_compute. repeat split; reflexivity. Qed.

(* ============================================================================================ *)
(* (2b) for include trees: instruction nodes run from the mnemonic through the last operand, in the
   lexer output of the file they are located in.

   Per file: the nodes located in file [k] are, in order, the statements of disjoint segments of the
   lexer output of file [k], tight for every instruction statement ([segs_tight], Spec/LocSpec.v).
   The lexer stack does not matter: every file is driven on its own item list and a statement only sees
   the list on top of the stack, so no statement crosses a file boundary - the first statement of an
   included file starts in that file's lexer output and its last one ends in it; the rest of the
   including file is parsed afterwards from what the `.include` statement left unread, and its nodes are
   again segments of the including file's lexer output (the filter [in_file k] puts the two parts of the
   including file back together).  The node of a followed (or failed) `.include` directive is not among
   the nodes at all; with ign = true it is an ordinary directive node, of which - as of every label and
   directive - only [segs] is claimed. *)
Definition C09loc_tree_segs_tight_statement : Prop :=
  forall chk fs base ign nodes errs rs, parse_from_file chk fs base ign = Ok (nodes, errs, rs) ->
    (nodes = [] /\ exists e, errs = [to_parse_error e (mkw base tok_default)]) \/
    exists body, nodes = entry_node 0 :: body /\ Forall (node_in (fun k => k < nfiles rs)) body /\
      forall k, k < nfiles rs -> exists text items,
        file_items chk fs (imported rs) k text items /\ segs_tight items (filter (in_file k) body).
Theorem C09loc_tree_segs_tight : C09loc_tree_segs_tight_statement.
Proof. exact parse_tree_segs_tight. Qed.
Check C09loc_tree_segs_tight : C09loc_tree_segs_tight_statement.
Print Assumptions C09loc_tree_segs_tight.

(* Spelled out for one instruction node [n] of the result: there is an imported file [k] - the file the
   node's raw range names - with text [text] and lexer output [items] such that the statement of [n] is a
   segment [tf :: u'] of [items]; [tf] is the token of the node's instruction field, all of tf :: u' are
   operand tokens (no newline, no comment), the node's raw range is the hull of tf and the last of them,
   and the tokens the node carries are among them. *)
Definition C09loc_tree_node_range_tight_statement : Prop :=
  forall chk fs base ign nodes errs rs, parse_from_file chk fs base ign = Ok (nodes, errs, rs) ->
    forall n, In n nodes -> is_instruction_node n = true ->
      exists k text items pre tf u' post,
        k < nfiles rs /\ file_items chk fs (imported rs) k text items /\
        items = pre ++ map LTok (tf :: u') ++ post /\ mnemonic_tok n = Some tf /\
        Forall operand_tok (tf :: u') /\ node_raw n = hull tf (last u' tf) /\
        Forall (fun t => In t (tf :: u')) (node_tokens n) /\
        rfile (node_raw n) = Some k /\ tfile tf = Some k.
Theorem C09loc_tree_node_range_tight : C09loc_tree_node_range_tight_statement.
Proof. exact tree_node_range_tight. Qed.
Check C09loc_tree_node_range_tight : C09loc_tree_node_range_tight_statement.
Print Assumptions C09loc_tree_node_range_tight.

(* ---- non-vacuity: a two-file tree with a trailing comment after the last operand in each file ---- *)
Definition t2_main : str := unlines
  [ «"main:"»; «"    jalr t0 # c"»; «".include ""b.s"""»; «"    li a7, 10"»; «"    ecall"» ].
Definition t2_b : str := unlines [ «"    lw a0, 4 # c"»; «"    ret"» ].
Definition t2_fs : store := [(«"main.s"», inl t2_main); («"b.s"», inl t2_b)].

(* 7 nodes, no error: entry, `main:`, `jalr` (file 0), `lw`, `ret` (file 1), `li`, `ecall` (file 0 again; the
   followed `.include` left no node).  The `lw` node is an instruction node located in file 1 whose raw
   range is "lw a0, 4" in the text of b.s: it ends with the operand `4`, not with the comment; likewise
   the `jalr` node of file 0 ends with `t0`; the `ret` node is the last statement of the included file,
   the `li` node the first one after the include. *)
Example C09loc_tree_tight_example :
  match parse_from_file false t2_fs «"main.s"» false with
  | Ok (nodes, errs, rs) =>
      imported rs = [«"main.s"»; «"b.s"»] /\ nfiles rs = 2 /\ length nodes = 7%nat /\ errs = [] /\
      file_items false t2_fs (imported rs) 0 t2_main
        (match lex_all false (Some 0) (normalize_text t2_main) with Ok i => i | _ => [] end) /\
      file_items false t2_fs (imported rs) 1 t2_b
        (match lex_all false (Some 1) (normalize_text t2_b) with Ok i => i | _ => [] end) /\
      map (in_file 1) nodes = [false; false; false; true; true; false; false] /\
      map is_instruction_node nodes = [false; false; true; true; true; true; true] /\
      (match nth_error nodes 3 with
       | Some (PLoad i _ _ imm ra as a) =>
           is_instruction_node a = true /\ rfile ra = Some 1 /\ tfile (wt i) = Some 1 /\
           mnemonic_tok a = Some (wt i) /\ tt (wt i) = TSymbol «"lw"» /\
           slice (normalize_text t2_b) (raw_start a) (raw_end a) = «"lw a0, 4"» /\
           rstart (rrange ra) = rstart (trange (wt i)) /\
           rend (rrange ra) = rend (trange (wt imm)) /\ tt (wt imm) = TSymbol «"4"»
       | _ => False end) /\
      (match nth_error nodes 2 with
       | Some (PJumpLinkR _ _ rs1 _ rb as b) =>
           rfile rb = Some 0 /\
           slice (normalize_text t2_main) (raw_start b) (raw_end b) = «"jalr t0"» /\
           rend (rrange rb) = rend (trange (wt rs1)) /\ tt (wt rs1) = TSymbol «"t0"»
       | _ => False end) /\
      (match nth_error nodes 4, nth_error nodes 5 with
       | Some a, Some b =>
           rfile (node_raw a) = Some 1 /\ slice (normalize_text t2_b) (raw_start a) (raw_end a) = «"ret"» /\
           rfile (node_raw b) = Some 0 /\ slice (normalize_text t2_main) (raw_start b) (raw_end b) = «"li a7, 10"»
       | _, _ => False end)
  | _ => False
  end.
Proof.
  vm_compute. split; [reflexivity|]. split; [reflexivity|]. split; [reflexivity|]. split; [reflexivity|].
  split; [eexists; repeat split; reflexivity|]. split; [eexists; repeat split; reflexivity|].
  repeat split; reflexivity.
Qed.

(* the theorem applied to the example: every instruction node of the two-file tree is tight in its file *)
Example C09loc_tree_tight_example_applied :
  forall nodes errs rs, parse_from_file false t2_fs «"main.s"» false = Ok (nodes, errs, rs) ->
    forall n, In n nodes -> is_instruction_node n = true ->
      exists k text items pre tf u' post,
        k < nfiles rs /\ file_items false t2_fs (imported rs) k text items /\
        items = pre ++ map LTok (tf :: u') ++ post /\ mnemonic_tok n = Some tf /\
        Forall operand_tok (tf :: u') /\ node_raw n = hull tf (last u' tf) /\
        Forall (fun t => In t (tf :: u')) (node_tokens n) /\
        rfile (node_raw n) = Some k /\ tfile tf = Some k.
Proof. intros nodes errs rs Hp. exact (C09loc_tree_node_range_tight false t2_fs «"main.s"» false nodes errs rs Hp). Qed.
