(* C03 (labels) - which instruction does a label name?  The graph builder attaches every label to the NEXT
   INSTRUCTION of the parser's node stream (labels and directives in between do not matter), and jumps,
   branches and calls go there.  Statements only; definitions in Spec/LabelSpec.v, proofs in
   Proofs/LabelProofs.v. *)
From Coq Require Import List.
From RV.Model Require Import Base I32 Imm Lexer Isa Parser Reader Cfg Avail Live Lints.
From RV.Spec Require Import CfgSpec LabelSpec.
From RV.Proofs Require Import LabelProofs.
Import ListNotations.

(* (1) the source-level notions mean what they should: `next_instruction_after ns p` is the first position
   after p that holds neither a label nor a directive; `label_position ns l` is the first `PLabel` named l *)
Definition C03lbl_next_statement : Prop :=
  forall ns p q, next_instruction_after ns p = Some q <->
    (p < q)%nat /\ (exists n, nth_opt ns q = Some n /\ is_code n = true) /\
    (forall k m, (p < k < q)%nat -> nth_opt ns k = Some m -> is_code m = false).
Theorem C03lbl_next_instruction_after_spec : C03lbl_next_statement.
Proof. exact next_instruction_after_spec. Qed.
Check C03lbl_next_instruction_after_spec : C03lbl_next_statement.
Print Assumptions C03lbl_next_instruction_after_spec.

Definition C03lbl_position_statement : Prop :=
  forall ns l p, label_position ns l = Some p ->
    (exists name rt, nth_opt ns p = Some (PLabel name rt) /\ wv name = l) /\
    (forall k name rt, (k < p)%nat -> nth_opt ns k = Some (PLabel name rt) -> wv name <> l).
Theorem C03lbl_label_position_spec : C03lbl_position_statement.
Proof. exact label_position_spec. Qed.
Check C03lbl_label_position_spec : C03lbl_position_statement.
Print Assumptions C03lbl_label_position_spec.

(* (2) labels name the next instruction: when the graph is built, for every label at position p whose next
   instruction is at position q there are graph nodes (j, c) and (k, ck) such that
   - c holds the parser node of position q (and, for programs without function entries of their own, c is
     the (number of instructions before q)-th graph node that is not a function entry);
   - ck carries the label token; no other graph node carries a label of that name;
   - k = j when none of the labels of ck is a called name (a `jal ra`/`call` target or a predefined handler);
     otherwise S k = j, ck is the function entry created for c, and c itself carries no label. *)
Definition C03lbl_labels_statement : Prop :=
  forall ns predef g, cfg_new ns predef = inr g ->
    forall p name rt q, nth_opt ns p = Some (PLabel name rt) -> next_instruction_after ns p = Some q ->
      exists j c k ck,
        (node_at g j c /\ nth_opt ns q = Some (cn c) /\
         ((forall m, In m ns -> is_function_entry m = false) ->
          is_function_entry (cn c) = false /\ graph_rank (gnodes g) j = code_rank ns q)) /\
        (node_at g k ck /\
         ((k = j /\ any_in (clabels ck) (called_names_of ns predef) = false) \/
          (S k = j /\ any_in (clabels ck) (called_names_of ns predef) = true /\ clabels c = [] /\
           cn ck = PFuncEntry (rfile (node_raw (cn c))) (node_raw (cn c))
                              (match predef with Some h => any_in (clabels ck) h | None => false end)))) /\
        In name (clabels ck) /\
        (forall k' c', node_at g k' c' -> mem_name (wv name) (clabels c') = true -> k' = k).
Theorem C03lbl_labels_name_next_instruction : C03lbl_labels_statement.
Proof. exact label_on_next_instruction. Qed.
Check C03lbl_labels_name_next_instruction : C03lbl_labels_statement.
Print Assumptions C03lbl_labels_name_next_instruction.

(* the same with the label given by its name (`name_on_instruction`, Spec/LabelSpec.v, is the statement
   above with `mem_name l (clabels ck) = true` for `In name (clabels ck)`) *)
Definition C03lbl_names_statement : Prop :=
  forall ns predef g, cfg_new ns predef = inr g ->
    forall l p q, label_position ns l = Some p -> next_instruction_after ns p = Some q ->
      exists k, name_on_instruction ns predef g l q k.
Theorem C03lbl_names_name_next_instruction : C03lbl_names_statement.
Proof. exact name_on_next_instruction. Qed.
Check C03lbl_names_name_next_instruction : C03lbl_names_statement.
Print Assumptions C03lbl_names_name_next_instruction.

(* directives and further labels between a label and its instruction do not matter: all labels with the
   same next instruction sit on one graph node *)
Definition C03lbl_share_statement : Prop :=
  forall ns predef g, cfg_new ns predef = inr g ->
    forall p1 p2 n1 r1 n2 r2 q,
      nth_opt ns p1 = Some (PLabel n1 r1) -> nth_opt ns p2 = Some (PLabel n2 r2) ->
      next_instruction_after ns p1 = Some q -> next_instruction_after ns p2 = Some q ->
      exists k ck, node_at g k ck /\ In n1 (clabels ck) /\ In n2 (clabels ck).
Theorem C03lbl_labels_share_node : C03lbl_share_statement.
Proof. exact labels_share_node. Qed.
Check C03lbl_labels_share_node : C03lbl_share_statement.
Print Assumptions C03lbl_labels_share_node.

(* the correspondence used to identify "the graph node made for position q": the graph nodes that are not
   function entries are the instruction nodes of the source, in source order *)
Definition C03lbl_order_statement : Prop :=
  forall ns predef g,
    (forall m, In m ns -> is_function_entry m = false) ->
    cfg_new ns predef = inr g ->
    map cn (filter not_fentry (gnodes g)) = filter is_code ns.
Theorem C03lbl_graph_nodes_in_source_order : C03lbl_order_statement.
Proof. exact graph_nodes_in_source_order. Qed.
Check C03lbl_graph_nodes_in_source_order : C03lbl_order_statement.
Print Assumptions C03lbl_graph_nodes_in_source_order.

(* (3a) after `directions`, a jump or branch that is not a call has an edge to the node that carries its
   target, and that node is the one of the next instruction after the target label (or its function entry) *)
Definition C03lbl_jump_statement : Prop :=
  forall ns predef g0 g1, cfg_new ns predef = inr g0 -> directions g0 = inr g1 ->
    forall i ci lab, node_at g1 i ci -> jumps_to (cn ci) = Some lab ->
    forall p q, label_position ns (wv lab) = Some p -> next_instruction_after ns p = Some q ->
      exists k, name_on_instruction ns predef g1 (wv lab) q k /\
                find_label (wv lab) (gnodes g1) 0 = Some k /\ In k (nexts ci).
Theorem C03lbl_jump_goes_to_next_instruction : C03lbl_jump_statement.
Proof. exact jump_goes_to_next_instruction. Qed.
Check C03lbl_jump_goes_to_next_instruction : C03lbl_jump_statement.
Print Assumptions C03lbl_jump_goes_to_next_instruction.

(* (3b) a call (`jal ra, l` / `call l`) makes the label group of l a function: the labels sit on a function
   entry created right before the next instruction after `l:`, and that instruction carries no label *)
Definition C03lbl_call_statement : Prop :=
  forall ns predef g, cfg_new ns predef = inr g ->
    forall m lab, In m ns -> calls_to m = Some lab ->
    forall p q, label_position ns (wv lab) = Some p -> next_instruction_after ns p = Some q ->
      exists j c k ck,
        name_on_instruction ns predef g (wv lab) q k /\
        node_of_source ns g q j c /\ node_at g k ck /\ S k = j /\
        is_function_entry (cn ck) = true /\ mem_name (wv lab) (clabels ck) = true /\ clabels c = [].
Theorem C03lbl_call_target_is_function_entry : C03lbl_call_statement.
Proof. exact call_target_is_function_entry. Qed.
Check C03lbl_call_target_is_function_entry : C03lbl_call_statement.
Print Assumptions C03lbl_call_target_is_function_entry.

(* (4) non-vacuity: `f:` is followed by a directive and another label before its instruction *)
Fixpoint unlines (l : list str) : str := match l with [] => [] | x :: l' => x ++ [c_nl] ++ unlines l' end.
Definition ex_text : str := unlines
  [ «"main:"»; «"    jal f"»; «"    li a7, 10"»; «"    ecall"»; «"f:"»; «".align 2"»; «"g:"»;
    «"    addi a0, a0, 1"»; «"    ret"» ].

(* the parse succeeds without errors; `f:` is node 5, `.align 2` node 6, `g:` node 7, `addi` node 8; the next
   instruction after both labels is node 8; in the graph, index 4 is the function entry created for `addi`
   (index 5) and carries both f and g; `addi` itself and all other nodes carry neither *)
Example C03lbl_example :
  match parse_from_text false ex_text with
  | Ok (ns, errs) =>
      errs = [] /\ length ns = 10%nat /\
      label_position ns «"f"» = Some 5%nat /\ label_position ns «"g"» = Some 7%nat /\
      (match nth_opt ns 6 with Some n => is_directive n = true | None => False end) /\
      next_instruction_after ns 5 = Some 8%nat /\ next_instruction_after ns 7 = Some 8%nat /\
      (forall m, In m ns -> is_function_entry m = false) /\
      match cfg_new ns None with
      | inr g =>
          map (fun c => map wv (clabels c)) (gnodes g) = [[]; [«"main"»]; []; []; [«"f"»; «"g"»]; []; []] /\
          map (fun c => is_function_entry (cn c)) (gnodes g) = [false; false; false; false; true; false; false] /\
          option_map cn (nth_opt (gnodes g) 5) = nth_opt ns 8 /\
          (match nth_opt ns 8 with Some (PIArith i _ _ _ _) => wv i = IAddi | _ => False end) /\
          graph_rank (gnodes g) 5 = code_rank ns 8 /\
          match directions g with
          | inr g1 => map nexts (gnodes g1) = [[1]; [2]; [3]; [4]; [5]; [6]; []]%nat
          | inl _ => False
          end
      | inl _ => False
      end
  | _ => False
  end.
Proof.
  vm_compute. repeat split; try reflexivity.
  intros m H. repeat (destruct H as [<-|H]; [reflexivity|]). destruct H.
Qed.

(* the theorems applied to the example: f and g are carried by one node, the function entry in front of
   the node made for source position 8 *)
Example C03lbl_example_applied :
  forall ns errs g, parse_from_text false ex_text = Ok (ns, errs) -> cfg_new ns None = inr g ->
    (exists kf kg, name_on_instruction ns None g «"f"» 8 kf /\ name_on_instruction ns None g «"g"» 8 kg) /\
    (exists k ck nf rf ng rg, nth_opt ns 5 = Some (PLabel nf rf) /\ nth_opt ns 7 = Some (PLabel ng rg) /\
                  node_at g k ck /\ In nf (clabels ck) /\ In ng (clabels ck)).
Proof.
  intros ns errs g Hp Hg.
  assert (Hns : exists nf rf ng rg,
            label_position ns «"f"» = Some 5%nat /\ label_position ns «"g"» = Some 7%nat /\
            nth_opt ns 5 = Some (PLabel nf rf) /\ nth_opt ns 7 = Some (PLabel ng rg) /\
            next_instruction_after ns 5 = Some 8%nat /\ next_instruction_after ns 7 = Some 8%nat).
  { vm_compute in Hp. inversion Hp; subst ns. vm_compute. do 4 eexists. repeat split; reflexivity. }
  destruct Hns as [nf [rf [ng [rg [Pf [Pg [Nf [Ng [Qf Qg]]]]]]]]].
  split.
  - destruct (C03lbl_names_name_next_instruction ns None g Hg _ _ _ Pf Qf) as [kf Hf].
    destruct (C03lbl_names_name_next_instruction ns None g Hg _ _ _ Pg Qg) as [kg Hg'].
    exists kf, kg. auto.
  - destruct (C03lbl_labels_share_node ns None g Hg _ _ _ _ _ _ _ Nf Ng Qf Qg) as [k [ck H]].
    exists k, ck, nf, rf, ng, rg. tauto.
Qed.

(* (3a') the positions need not be assumed: when `cfg_new` and `directions` succeed, the target of every jump
   or branch is a label of the program and an instruction follows it (otherwise `directions` fails with
   `CLabelWithoutInstruction`) *)
Definition C03lbl_jump_exists_statement : Prop :=
  forall ns predef g0 g1, cfg_new ns predef = inr g0 -> directions g0 = inr g1 ->
    forall i ci lab, node_at g1 i ci -> jumps_to (cn ci) = Some lab ->
      exists p q k, label_position ns (wv lab) = Some p /\ next_instruction_after ns p = Some q /\
                    name_on_instruction ns predef g1 (wv lab) q k /\
                    find_label (wv lab) (gnodes g1) 0 = Some k /\ In k (nexts ci).
Theorem C03lbl_jump_target_exists : C03lbl_jump_exists_statement.
Proof. exact jump_target_exists. Qed.
Check C03lbl_jump_target_exists : C03lbl_jump_exists_statement.
Print Assumptions C03lbl_jump_target_exists.

(* every name used by a call, a jump/branch or an address load is a label of the program *)
Definition C03lbl_defined_statement : Prop :=
  forall ns predef g, cfg_new ns predef = inr g ->
    forall m lab, In m ns -> (calls_to m = Some lab \/ jumps_to m = Some lab \/ reads_address_of m = Some lab) ->
      exists p, label_position ns (wv lab) = Some p.
Theorem C03lbl_used_names_are_labels : C03lbl_defined_statement.
Proof. exact cfg_new_defined. Qed.
Check C03lbl_used_names_are_labels : C03lbl_defined_statement.
Print Assumptions C03lbl_used_names_are_labels.

(* (3c) the finished graph: the label of a call target owns a function (C11_label_owns_function), and the
   function entry that carries it is the node created in front of the next instruction after the label *)
Definition C03lbl_call_final_statement : Prop :=
  forall picks ns g, gen_full_cfg picks ns = Ok (SOk g) ->
    forall m lab, In m ns -> calls_to m = Some lab ->
    forall p q, label_position ns (wv lab) = Some p -> next_instruction_after ns p = Some q ->
      exists hs h0 k ck fid,
        cfg_new ns (Some hs) = inr h0 /\ name_on_instruction ns (Some hs) h0 (wv lab) q k /\
        node_at g k ck /\ is_function_entry (cn ck) = true /\ mem_name (wv lab) (clabels ck) = true /\
        assoc_fn (wv lab) (glabelfn g) = Some fid.
Theorem C03lbl_call_target_owns_function : C03lbl_call_final_statement.
Proof. exact call_target_owns_function. Qed.
Check C03lbl_call_target_owns_function : C03lbl_call_final_statement.
Print Assumptions C03lbl_call_target_owns_function.

(* the finished graph of the example: index 4 is the entry of function 0, owned by both f and g *)
Example C03lbl_example_finished :
  match parse_from_text false ex_text with
  | Ok (ns, _) =>
      match gen_full_cfg [] ns with
      | Ok (SOk g) =>
          map (fun c => map wv (clabels c)) (gnodes g) = [[]; [«"main"»]; []; []; [«"f"»; «"g"»]; []; []] /\
          glabelfn g = [(«"f"», 0%nat); («"g"», 0%nat)] /\ map fentry (gfuncs g) = [4%nat]
      | _ => False
      end
  | _ => False
  end.
Proof. vm_compute. repeat split; reflexivity. Qed.

(* a branch (not a call) to `f`: the edge goes to the node of `addi` (index 4, position 8 of the source),
   which carries f and g itself; no function entry is created *)
Definition ex_branch : str := unlines
  [ «"main:"»; «"    beq a0, a1, f"»; «"    li a7, 10"»; «"    ecall"»; «"f:"»; «".align 2"»; «"g:"»;
    «"    addi a0, a0, 1"»; «"    li a7, 10"»; «"    ecall"» ].
Example C03lbl_example_branch :
  match parse_from_text false ex_branch with
  | Ok (ns, errs) =>
      errs = [] /\ label_position ns «"f"» = Some 5%nat /\ next_instruction_after ns 5 = Some 8%nat /\
      match cfg_new ns None with
      | inr g =>
          map (fun c => map wv (clabels c)) (gnodes g) = [[]; [«"main"»]; []; []; [«"f"»; «"g"»]; []; []] /\
          map (fun c => is_function_entry (cn c)) (gnodes g) = [false; false; false; false; false; false; false] /\
          option_map cn (nth_opt (gnodes g) 4) = nth_opt ns 8 /\
          option_map (fun c => jumps_to (cn c)) (nth_opt (gnodes g) 1) =
            option_map (fun n => jumps_to n) (nth_opt ns 2) /\
          (match nth_opt ns 2 with Some n => option_map wv (jumps_to n) = Some «"f"» | None => False end) /\
          match directions g with
          | inr g1 => map nexts (gnodes g1) = [[1]; [2; 4]; [3]; [4]; [5]; [6]; []]%nat
          | inl _ => False
          end
      | inl _ => False
      end
  | _ => False
  end.
Proof. vm_compute. repeat split; reflexivity. Qed.

(* the hypothesis `next_instruction_after ns p = Some q` of (3b) and (3c) cannot be dropped: a CALL to a label
   no instruction follows is accepted by every stage (only jumps and branches to such a label are an error),
   and then no node carries the label *)
Definition ex_dangling : str := unlines [ «"main:"»; «"    jal f"»; «"    li a7, 10"»; «"    ecall"»; «"f:"» ].
Example C03lbl_example_dangling_call_target :
  match parse_from_text false ex_dangling with
  | Ok (ns, errs) =>
      errs = [] /\ label_position ns «"f"» = Some 5%nat /\ next_instruction_after ns 5 = None /\
      (match nth_opt ns 2 with Some n => option_map wv (calls_to n) = Some «"f"» | None => False end) /\
      match gen_full_cfg [] ns with
      | Ok (SOk g) => map (fun c => map wv (clabels c)) (gnodes g) = [[]; [«"main"»]; []; []] /\ glabelfn g = []
      | _ => False
      end
  | _ => False
  end.
Proof. vm_compute. repeat split; reflexivity. Qed.

(* (3d) ... and the function the label owns has its ENTRY at that node: the record `fid` of the finished
   graph exists and its `fentry` is the index k of the node that carries the label (the function entry
   created in front of the next instruction after the label).  Proofs/FnEntryProofs.v: the label map and
   the function records are appended together by the markup pass (C11_label_fn_entry), and no other node
   carries the label (the uniqueness clause of `name_on_instruction`). *)
From RV.Proofs Require Import FnEntryProofs.
Definition C03lbl_call_target_function_entry_statement : Prop :=
  forall picks ns g, gen_full_cfg picks ns = Ok (SOk g) ->
    forall m lab, In m ns -> calls_to m = Some lab ->
    forall p q, label_position ns (wv lab) = Some p -> next_instruction_after ns p = Some q ->
      exists hs h0 k ck fid,
        cfg_new ns (Some hs) = inr h0 /\ name_on_instruction ns (Some hs) h0 (wv lab) q k /\
        node_at g k ck /\ is_function_entry (cn ck) = true /\ mem_name (wv lab) (clabels ck) = true /\
        assoc_fn (wv lab) (glabelfn g) = Some fid /\
        exists f, nth_opt (gfuncs g) fid = Some f /\ fentry f = k.
Theorem C03lbl_call_target_function_entry : C03lbl_call_target_function_entry_statement.
Proof. exact call_target_function_entry. Qed.
Check C03lbl_call_target_function_entry : C03lbl_call_target_function_entry_statement.
Print Assumptions C03lbl_call_target_function_entry.

(* the hypotheses hold for the call `jal f` of the example (node 2 of the source; `f:` is node 5, its next
   instruction node 8), and the conclusion as computed: `f` owns function 0, whose entry is index 4, the
   function entry that carries f (and g) *)
Example C03lbl_example_function_entry :
  match parse_from_text false ex_text with
  | Ok (ns, _) =>
      (exists m lab, In m ns /\ calls_to m = Some lab /\ wv lab = «"f"» /\
                     label_position ns (wv lab) = Some 5%nat /\ next_instruction_after ns 5 = Some 8%nat) /\
      match gen_full_cfg [] ns with
      | Ok (SOk g) =>
          assoc_fn «"f"» (glabelfn g) = Some 0%nat /\
          option_map fentry (nth_opt (gfuncs g) 0) = Some 4%nat /\
          option_map (fun c => (is_function_entry (cn c), mem_name «"f"» (clabels c))) (nth_opt (gnodes g) 4) =
            Some (true, true) /\
          map (fun c => mem_name «"f"» (clabels c)) (gnodes g) = [false; false; false; false; true; false; false]
      | _ => False
      end
  | _ => False
  end.
Proof.
  vm_compute. split; [|repeat split; reflexivity].
  eexists. eexists. split; [right; right; left; reflexivity|]. repeat split; reflexivity.
Qed.

(* the theorem applied to the example: whatever the picks, the function owned by `f` starts at the node
   that carries `f` *)
Example C03lbl_example_function_entry_applied :
  forall picks ns errs g, parse_from_text false ex_text = Ok (ns, errs) -> gen_full_cfg picks ns = Ok (SOk g) ->
    exists k ck fid f, node_at g k ck /\ mem_name «"f"» (clabels ck) = true /\
                       assoc_fn «"f"» (glabelfn g) = Some fid /\
                       nth_opt (gfuncs g) fid = Some f /\ fentry f = k.
Proof.
  intros picks ns errs g Hp Hg.
  assert (Hns : exists m lab, In m ns /\ calls_to m = Some lab /\ wv lab = «"f"» /\
                  label_position ns (wv lab) = Some 5%nat /\ next_instruction_after ns 5 = Some 8%nat).
  { vm_compute in Hp. inversion Hp; subst ns. eexists. eexists.
    split; [right; right; left; reflexivity|]. vm_compute. repeat split; reflexivity. }
  destruct Hns as [m [lab [Hin [Hc [Hw [Pf Qf]]]]]].
  destruct (C03lbl_call_target_function_entry picks ns g Hg m lab Hin Hc _ _ Pf Qf)
    as [hs [h0 [k [ck [fid [_ [_ [Hk [_ [Hm [Ha [f [Hf He]]]]]]]]]]]]].
  rewrite Hw in Hm, Ha. exists k, ck, fid, f. auto.
Qed.
