(* C12 - analysis results are a stable fixed point of the pass pipeline.
   Statements only; proofs in Proofs/FixProofs.v. *)
From RV.Model Require Import Base Lexer Isa Parser Cfg Avail Live Lints.
From RV.Spec Require Import LiveSpec FixSpec.
From RV.Proofs Require Import FixProofs.
Open Scope N_scope.

(* (a) whenever the value analysis returns, its result satisfies the equations with all
   predecessors.  Unconditional since the fix of `avail_sweep` (a node seen for the first time counts
   as a change; Rust: `changed |= visited.insert(node)` in AvailableValuePass::run).  Before, the
   statement needed the disjunct `\/ same_avail_facts g g'`: a run whose very first sweep changed no
   fact was a no-op and stopped at once, although the predecessors placed AFTER a node had not been
   taken into account in that sweep (only visited predecessors are met).  That disjunct was the trace of
   a defect.  Witness: a function with two returns, the second placed after the first; after
   FunctionMarkupPass had added the edge from the converted return to the exit, the second value
   analysis changed nothing in its first sweep and stopped, so the exit kept facts that hold on one path
   only. *)
Definition C12_avail_statement : Prop :=
  forall g g', avail_pass g = Ok g' -> AvailEqns g'.
Theorem C12_avail_fix : C12_avail_statement.
Proof. exact avail_fix_full. Qed.
Check C12_avail_fix : C12_avail_statement.
Print Assumptions C12_avail_fix.

(* the instance for a graph whose facts are all empty and whose first node is the program entry (every
   graph the pipeline starts from); before the fix this was the only unconditional statement: on such a
   graph the first sweep changes the program entry, so the run was never a no-op *)
Definition fresh_avail (g : cfg) : Prop :=
  (exists c rest, gnodes g = c :: rest /\ is_program_entry (cn c) = true) /\
  forall i c, nth_opt (gnodes g) i = Some c -> rin c = [] /\ rout c = [] /\ min c = [] /\ mout c = [].
Definition C12_avail_fresh_statement : Prop :=
  forall g g', fresh_avail g -> avail_pass g = Ok g' -> AvailEqns g'.
Theorem C12_avail_fix_fresh : C12_avail_fresh_statement.
Proof. exact avail_fix_fresh. Qed.
Check C12_avail_fix_fresh : C12_avail_fresh_statement.
Print Assumptions C12_avail_fix_fresh.

(* (b) the value analysis and the liveness pass never touch an edge, a node or a function *)
Definition C12_frame_statement : Prop :=
  forall g g', (avail_pass g = Ok g' \/ liveness_pass g = Ok g') ->
    same_edges g g' /\ gfuncs g = gfuncs g' /\ glabelfn g = glabelfn g' /\
    forall i c d, nth_opt (gnodes g) i = Some c -> nth_opt (gnodes g') i = Some d ->
      cn c = cn d /\ clabels c = clabels d /\ cfuncs c = cfuncs d /\ ctext c = ctext d.
Theorem C12_passes_frame : C12_frame_statement.
Proof. exact passes_frame. Qed.
Check C12_passes_frame : C12_frame_statement.
Print Assumptions C12_passes_frame.

(* (c) the ecall-termination step is idempotent: run on its own output it changes nothing *)
Definition C12_term_statement : Prop :=
  forall g, ecall_terminate (ecall_terminate g) = ecall_terminate g.
Theorem C12_ecallterm_idem : C12_term_statement.
Proof. exact ecallterm_idem. Qed.
Check C12_ecallterm_idem : C12_term_statement.
Print Assumptions C12_ecallterm_idem.

(* (d) whenever liveness returns, the live sets satisfy the exact equations; and re-running
   liveness on a graph whose live sets satisfy them returns the same live sets *)
(* every call site's label resolves to an existing function record (the function markup pass adds
   the label entries and the record together) *)
Definition calls_resolved (g : cfg) : Prop :=
  forall i c fid, nth_opt (gnodes g) i = Some c -> calls_to_from_cfg g c = Some fid ->
    nth_opt (gfuncs g) fid <> None.
Definition C12_live_statement : Prop :=
  forall g g', calls_resolved g -> liveness_pass g = Ok g' -> LiveFix g'.
Theorem C12_live_fix : C12_live_statement.
Proof. exact live_fix_partial. Qed.
Check C12_live_fix : C12_live_statement.
Print Assumptions C12_live_fix.

Definition C12_rerun_statement : Prop :=
  forall g g', LiveFix g -> liveness_pass g = Ok g' -> same_live_sets g g'.
Theorem C12_rerun_live : C12_rerun_statement.
Proof. exact rerun_live. Qed.
Check C12_rerun_live : C12_rerun_statement.
Print Assumptions C12_rerun_live.

(* (e) the lints read nothing but the graph: equal graphs give equal diagnostics (so stable facts
   give stable diagnostics) - and they never depend on u_def *)
Definition strip_udef (c : cnode) : cnode :=
  mkcn (cn c) (clabels c) (ctext c) (nexts c) (prevs c) (cfuncs c) (rin c) (rout c) (min c) (mout c) (lin c) (lout c) 0.
Definition C12_diags_statement : Prop :=
  forall g, run_diagnostics (mkcfg (map strip_udef (gnodes g)) (gfuncs g) (glabelfn g)) = run_diagnostics g.
Theorem C12_diags_ignore_udef : C12_diags_statement.
Proof. exact diags_ignore_udef. Qed.
Check C12_diags_ignore_udef : C12_diags_statement.
Print Assumptions C12_diags_ignore_udef.
