(* C12 - analysis results are a stable fixed point of the pass pipeline.
   Statements only; proofs in Proofs/FixProofs.v. *)
From RV.Model Require Import Base Lexer Isa Parser Cfg Avail Live Lints.
From RV.Spec Require Import LiveSpec FixSpec.
From RV.Proofs Require Import FixProofs.
Open Scope N_scope.

(* (a) whenever the value analysis returns, its result satisfies the equations with all
   predecessors.  Unconditional since the fix of `avail_sweep` (a node seen for the first time counts
   as a change; Rust: `changed |= visited.insert(node)` in AvailableValuePass::run).  Before, the
   statement needed the disjunct `\/ same_avail_facts g g'`: a run whose very first sweep changed no
   fact was a no-op and stopped at once, although the predecessors placed AFTER a node had not been
   taken into account in that sweep (only visited predecessors are met).  That disjunct was the trace of
   a defect.  Witness: a function with two returns, the second placed after the first; after
   FunctionMarkupPass had added the edge from the converted return to the exit, the second value
   analysis changed nothing in its first sweep and stopped, so the exit kept facts that hold on one path
   only. *)
Definition C12_avail_statement : Prop :=
  forall g g', avail_pass g = Ok g' -> AvailEqns g'.
Theorem C12_avail_fix : C12_avail_statement.
Proof. exact avail_fix_full. Qed.
Check C12_avail_fix : C12_avail_statement.
Print Assumptions C12_avail_fix.

(* the instance for a graph whose facts are all empty and whose first node is the program entry (every
   graph the pipeline starts from); before the fix this was the only unconditional statement: on such a
   graph the first sweep changes the program entry, so the run was never a no-op *)
Definition fresh_avail (g : cfg) : Prop :=
  (exists c rest, gnodes g = c :: rest /\ is_program_entry (cn c) = true) /\
  forall i c, nth_opt (gnodes g) i = Some c -> rin c = [] /\ rout c = [] /\ min c = [] /\ mout c = [].
Definition C12_avail_fresh_statement : Prop :=
  forall g g', fresh_avail g -> avail_pass g = Ok g' -> AvailEqns g'.
Theorem C12_avail_fix_fresh : C12_avail_fresh_statement.
Proof. exact avail_fix_fresh. Qed.
Check C12_avail_fix_fresh : C12_avail_fresh_statement.
Print Assumptions C12_avail_fix_fresh.

(* (b) the value analysis and the liveness pass never touch an edge, a node or a function *)
Definition C12_frame_statement : Prop :=
  forall g g', (avail_pass g = Ok g' \/ liveness_pass g = Ok g') ->
    same_edges g g' /\ gfuncs g = gfuncs g' /\ glabelfn g = glabelfn g' /\
    forall i c d, nth_opt (gnodes g) i = Some c -> nth_opt (gnodes g') i = Some d ->
      cn c = cn d /\ clabels c = clabels d /\ cfuncs c = cfuncs d /\ ctext c = ctext d.
Theorem C12_passes_frame : C12_frame_statement.
Proof. exact passes_frame. Qed.
Check C12_passes_frame : C12_frame_statement.
Print Assumptions C12_passes_frame.

(* (c) the ecall-termination step is idempotent: run on its own output it changes nothing *)
Definition C12_term_statement : Prop :=
  forall g, ecall_terminate (ecall_terminate g) = ecall_terminate g.
Theorem C12_ecallterm_idem : C12_term_statement.
Proof. exact ecallterm_idem. Qed.
Check C12_ecallterm_idem : C12_term_statement.
Print Assumptions C12_ecallterm_idem.

(* (d) whenever liveness returns, the live sets satisfy the exact equations; and re-running
   liveness on a graph whose live sets satisfy them returns the same live sets *)
(* every call site's label resolves to an existing function record (the function markup pass adds
   the label entries and the record together) *)
Definition calls_resolved (g : cfg) : Prop :=
  forall i c fid, nth_opt (gnodes g) i = Some c -> calls_to_from_cfg g c = Some fid ->
    nth_opt (gfuncs g) fid <> None.
Definition C12_live_statement : Prop :=
  forall g g', calls_resolved g -> liveness_pass g = Ok g' -> LiveFix g'.
Theorem C12_live_fix : C12_live_statement.
Proof. exact live_fix_partial. Qed.
Check C12_live_fix : C12_live_statement.
Print Assumptions C12_live_fix.

Definition C12_rerun_statement : Prop :=
  forall g g', LiveFix g -> liveness_pass g = Ok g' -> same_live_sets g g'.
Theorem C12_rerun_live : C12_rerun_statement.
Proof. exact rerun_live. Qed.
Check C12_rerun_live : C12_rerun_statement.
Print Assumptions C12_rerun_live.

(* (e) the lints read nothing but the graph: equal graphs give equal diagnostics (so stable facts
   give stable diagnostics) - and they never depend on u_def *)
Definition strip_udef (c : cnode) : cnode :=
  mkcn (cn c) (clabels c) (ctext c) (nexts c) (prevs c) (cfuncs c) (rin c) (rout c) (min c) (mout c) (lin c) (lout c) 0.
Definition C12_diags_statement : Prop :=
  forall g, run_diagnostics (mkcfg (map strip_udef (gnodes g)) (gfuncs g) (glabelfn g)) = run_diagnostics g.
Theorem C12_diags_ignore_udef : C12_diags_statement.
Proof. exact diags_ignore_udef. Qed.
Check C12_diags_ignore_udef : C12_diags_statement.
Print Assumptions C12_diags_ignore_udef.

(* ---------------------------------------------------------------------------------------------- *)
(* (f) the equations of (a) on the graphs the pipeline returns.  Proofs in Proofs/PipeEqProofs.v.

   `gen_full_cfg` runs the ecall-termination step once more AFTER the last value analysis (stage 9 of
   `gen_cfg_upto`; then stage 10 = `ecall_terminate`, stage 11 = liveness).  That step removes the
   out-edges of every ecall whose a7 fact is the constant 10 or 93.  Removing an edge p -> i changes the
   equation of i (its meet loses out[p]) but not the facts stored at i, so on the final graph the
   equation of i can fail - exactly at the nodes that lost a predecessor in that step (known finding
   'stale facts behind a late exit'; witness below).  The stored facts are then those of a graph with
   MORE edges: they claim less than the least solution would, never more (Props/C01pipe.v). *)
From RV.Model Require Import I32 Imm Reader.
From RV.Spec Require Import PipeEqSpec.
From RV.Proofs Require Import PipeEqProofs.

(* the equations, one node at a time *)
Definition C12_eqn_at_statement : Prop :=
  forall g, AvailEqns g <-> forall i, (i < length (gnodes g))%nat -> AvailEqnAt g i.
Theorem C12_eqn_at : C12_eqn_at_statement.
Proof. exact AvailEqns_at_lt. Qed.
Check C12_eqn_at : C12_eqn_at_statement.
Print Assumptions C12_eqn_at.

(* the ecall-termination step changes edges only: instructions and value facts stay; the predecessor
   list of a node only shrinks, and changes only if the node had an exit ecall among its predecessors *)
Definition C12_term_frame_statement : Prop :=
  forall g, same_values g (ecall_terminate g) /\
    forall i c d, nth_opt (gnodes g) i = Some c -> nth_opt (gnodes (ecall_terminate g)) i = Some d ->
      incl (prevs d) (prevs c) /\ (prevs d = prevs c \/ lost_pred g i).
Theorem C12_ecallterm_frame : C12_term_frame_statement.
Proof. exact ecallterm_frame. Qed.
Check C12_ecallterm_frame : C12_term_frame_statement.
Print Assumptions C12_ecallterm_frame.

(* a node whose predecessor list the step leaves alone keeps its equation *)
Definition C12_term_keeps_eqn_statement : Prop :=
  forall g i, AvailEqnAt g i ->
    (forall c d, nth_opt (gnodes g) i = Some c -> nth_opt (gnodes (ecall_terminate g)) i = Some d ->
       prevs d = prevs c) ->
    AvailEqnAt (ecall_terminate g) i.
Theorem C12_ecallterm_keeps_eqn : C12_term_keeps_eqn_statement.
Proof. exact ecallterm_keeps_eqn. Qed.
Check C12_ecallterm_keeps_eqn : C12_term_keeps_eqn_statement.
Print Assumptions C12_ecallterm_keeps_eqn.

(* the step leaves a graph alone exactly when every exit ecall is cut off already *)
Definition C12_term_fixed_statement : Prop :=
  forall h, ecall_terminate h = h <-> exits_cut h.
Theorem C12_ecallterm_fixed_iff : C12_term_fixed_statement.
Proof. exact ecallterm_fixed_iff. Qed.
Check C12_ecallterm_fixed_iff : C12_term_fixed_statement.
Print Assumptions C12_ecallterm_fixed_iff.

(* the pipeline: with h6 the graph after the last value analysis, h6 satisfies all equations; the final
   graph carries the instructions and value facts of h6, and predecessor lists included in those of h6; a
   node whose predecessor list is still that of h6 satisfies its equation; every node satisfies its
   equation or lost a predecessor - an exit ecall of h6 - in the last ecall-termination step *)
Definition C12_pipeline_eqns_statement : Prop :=
  forall picks ns g, gen_full_cfg picks ns = Ok (SOk g) ->
    exists h6, gen_cfg_upto 9 picks ns = Ok (SOk h6) /\ AvailEqns h6 /\ same_values h6 g /\
      (forall i c6 c, nth_opt (gnodes h6) i = Some c6 -> nth_opt (gnodes g) i = Some c ->
         incl (prevs c) (prevs c6) /\ (prevs c = prevs c6 -> AvailEqnAt g i)) /\
      (forall i, AvailEqnAt g i \/ lost_pred h6 i).
Theorem C12_pipeline_eqns : C12_pipeline_eqns_statement.
Proof. exact pipeline_eqns. Qed.
Check C12_pipeline_eqns : C12_pipeline_eqns_statement.
Print Assumptions C12_pipeline_eqns.

(* when the last value analysis found no exit that was not cut off before, the final graph satisfies the
   equations outright *)
Definition C12_pipeline_eqns_clean_statement : Prop :=
  forall picks ns g h6, gen_full_cfg picks ns = Ok (SOk g) ->
    gen_cfg_upto 9 picks ns = Ok (SOk h6) -> ecall_terminate h6 = h6 -> AvailEqns g.
Theorem C12_pipeline_eqns_clean : C12_pipeline_eqns_clean_statement.
Proof. exact pipeline_eqns_clean. Qed.
Check C12_pipeline_eqns_clean : C12_pipeline_eqns_clean_statement.
Print Assumptions C12_pipeline_eqns_clean.

(* the exception is necessary.  The first analysis sees both values of t0 reach X (the `ecall` before X
   still falls through), so a7 is unknown at the second `ecall`; the first termination step cuts the edge
   into X; the last analysis then finds a7 = 10 at the second `ecall`, and the last termination step cuts
   the edge to `li a7, 1` (node 8), which keeps the facts t0 = 10, a7 = 10 although it has no predecessor
   left: its equation fails, at that node only. *)
Fixpoint unlines (l : list str) : str := match l with [] => [] | x :: l' => x ++ [c_nl] ++ unlines l' end.
Definition w_text : str := unlines
  [ «"main:"»; «"    li t0, 10"»; «"    beqz a0, X"»; «"    li t0, 5"»; «"    li a7, 10"»; «"    ecall"»;
    «"X:"»; «"    addi a7, t0, 0"»; «"    ecall"»; «"    li a7, 1"»; «"    li a0, 3"»; «"    ecall"»;
    «"    li a7, 10"»; «"    ecall"» ].
Definition w_path : str := «"w.s"».
Definition w_nodes : list pnode :=
  match parse_from_file false [(w_path, inl w_text)] w_path false with Ok (nodes, _, _) => nodes | _ => [] end.
Definition w_h6 : cfg :=
  match gen_cfg_upto 9 [] w_nodes with Ok (SOk g) => g | _ => mkcfg [] [] [] end.
Definition w_final : cfg :=
  match gen_full_cfg [] w_nodes with Ok (SOk g) => g | _ => mkcfg [] [] [] end.

Example C12_pipeline_eqn_exception :
  (exists rs, parse_from_file false [(w_path, inl w_text)] w_path false = Ok (w_nodes, [], rs)) /\
  gen_full_cfg [] w_nodes = Ok (SOk w_final) /\ gen_cfg_upto 9 [] w_nodes = Ok (SOk w_h6) /\
  length (gnodes w_final) = 13%nat /\
  option_map (fun c => (is_ecall (cn c), prevs c)) (nth_opt (gnodes w_h6) 7) = Some (true, [6%nat]) /\
  option_map (fun c => (prevs c, rin c)) (nth_opt (gnodes w_final) 8) =
    Some ([], [(1, AOrig 1 0); (2, AOrig 2 0); (5, AConst 10); (17, AConst 10)]) /\
  ~ AvailEqnAt w_final 8 /\ lost_pred w_h6 8 /\
  (forall i, i <> 8%nat -> AvailEqnAt w_final i) /\
  ~ AvailEqns w_final /\ ecall_terminate w_h6 <> w_h6.
Proof.
  assert (N8 : ~ AvailEqnAt w_final 8).
  { intros E. apply avail_eqn_atb_spec in E. vm_compute in E. discriminate E. }
  split. { eexists. vm_compute. reflexivity. }
  split. { vm_compute. reflexivity. }
  split. { vm_compute. reflexivity. }
  split. { vm_compute. reflexivity. }
  split. { vm_compute. reflexivity. }
  split. { vm_compute. reflexivity. }
  split. { exact N8. }
  split. { apply (lost_pred_check w_h6 8 7). vm_compute. reflexivity. }
  split. { intros i Hi. apply (eqns_except w_final [8%nat]); [vm_compute; reflexivity|].
           intros [Hin|[]]. apply Hi. symmetry. exact Hin. }
  split. { intros E. apply N8. apply (proj1 (AvailEqns_at w_final) E). }
  intros E. apply (proj1 (ecallterm_fixed_iff w_h6)) in E.
  pose proof (lost_pred_check w_h6 8 7) as L. 
  destruct L as [p [cp [ci [Hp [_ [Hx [Hn _]]]]]]]; [vm_compute; reflexivity|].
  rewrite (E p cp Hp Hx) in Hn. destruct Hn.
Qed.

(* the clean case is not vacuous: a program with a call and one exit, found by the first analysis *)
Definition v_text : str := unlines
  [ «"main:"»; «"    li a0, 1"»; «"    jal ra, f"»; «"    li a7, 10"»; «"    ecall"»;
    «"f:"»; «"    addi a0, a0, 1"»; «"    ret"» ].
Definition v_nodes : list pnode :=
  match parse_from_file false [(w_path, inl v_text)] w_path false with Ok (nodes, _, _) => nodes | _ => [] end.
Definition v_h6 : cfg :=
  match gen_cfg_upto 9 [] v_nodes with Ok (SOk g) => g | _ => mkcfg [] [] [] end.
Definition v_final : cfg :=
  match gen_full_cfg [] v_nodes with Ok (SOk g) => g | _ => mkcfg [] [] [] end.
Example C12_pipeline_eqns_clean_example :
  (exists rs, parse_from_file false [(w_path, inl v_text)] w_path false = Ok (v_nodes, [], rs)) /\
  gen_full_cfg [] v_nodes = Ok (SOk v_final) /\ gen_cfg_upto 9 [] v_nodes = Ok (SOk v_h6) /\
  length (gnodes v_final) = 8%nat /\ ecall_terminate v_h6 = v_h6 /\ AvailEqns v_final.
Proof.
  assert (A : gen_full_cfg [] v_nodes = Ok (SOk v_final)) by (vm_compute; reflexivity).
  assert (B : gen_cfg_upto 9 [] v_nodes = Ok (SOk v_h6)) by (vm_compute; reflexivity).
  assert (C : ecall_terminate v_h6 = v_h6) by (vm_compute; reflexivity).
  split. { eexists. vm_compute. reflexivity. }
  split; [exact A|]. split; [exact B|]. split. { vm_compute. reflexivity. }
  split; [exact C|]. exact (C12_pipeline_eqns_clean [] v_nodes v_final v_h6 A B C).
Qed.
Print Assumptions C12_pipeline_eqn_exception.
Print Assumptions C12_pipeline_eqns_clean_example.
