(* C01 on the graphs the pipeline returns: the soundness theorem of Props/C01.v takes the data-flow
   equations `AvailEqns g` as a premise.  Props/C12.v proves them for the result of every value analysis,
   but `gen_full_cfg` cuts the edges out of exit ecalls once more AFTER its last value analysis, and on the
   final graph the equations can fail at the nodes behind such an exit (C12_pipeline_eqn_exception).
   Here the premise is discharged for pipeline outputs.  Proofs in Proofs/PipeEqProofs.v.

   h6 is the graph after the last value analysis (`gen_cfg_upto 9`); the final graph has the same nodes and
   value facts, and the edges of h6 minus those out of the exit ecalls of h6. *)
From RV.Model Require Import Base I32 Imm Lexer Isa Parser Reader Cfg Avail Live Lints.
From RV.Spec Require Import Rv32 AvailSpec FixSpec CfgSpec PipeEqSpec.
From RV.Proofs Require Import PipeEqProofs.
From RV.Props Require Import C01 C12.
Open Scope Z_scope.

(* the conclusion of C01_statement at one point of an execution *)
Definition claims_at (addr_of : str -> Z) (g : cfg) (s0 : mstate) (i : nat) (s : mstate) (c : cnode) : Prop :=
  (is_any_entry (cn c) = false ->
     reg_claims addr_of s0 s (rin c) /\ mem_claims addr_of s0 s (min c)) /\
  (forall j s', supported_at s0 s c -> step addr_of g i s j s' ->
     reg_claims addr_of s0 s' (rout c) /\ mem_claims addr_of s0 s' (mout c)).

(* (a) the last value analysis found no exit that was not cut off already (`ecall_terminate h6 = h6`):
   the final graph satisfies the equations (C12_pipeline_eqns_clean) and C01 applies to it as it stands;
   `Sym g` is C03 *)
Definition C01_pipeline_clean_statement : Prop :=
  forall picks ns g h6 (addr_of : str -> Z) (s0 : mstate),
    gen_full_cfg picks ns = Ok (SOk g) -> gen_cfg_upto 9 picks ns = Ok (SOk h6) ->
    ecall_terminate h6 = h6 ->
    all_supported g -> no_reentry g -> all_wf g -> regs_in32 s0 ->
    forall i s, srun addr_of g s0 i s ->
      forall c, nth_opt (gnodes g) i = Some c -> claims_at addr_of g s0 i s c.
Theorem C01_pipeline_claims_clean : C01_pipeline_clean_statement.
Proof.
  intros picks ns g h6 a s0 H H9 E SUP NR WF HI i s R.
  exact (pipeline_claims_clean picks ns g h6 a s0 H H9 E SUP NR WF HI i s (srun_bridge _ _ _ _ _ R)).
Qed.
Check C01_pipeline_claims_clean : C01_pipeline_clean_statement.
Print Assumptions C01_pipeline_claims_clean.

(* (b) in general: every execution of the final graph is an execution of h6 (same nodes, more edges), h6
   satisfies the equations, and the facts are the same; so the claims of the final graph are true on all
   its executions whether or not its own equations hold.  The premise about edges into entry nodes is
   needed for h6 (it implies the one for the final graph). *)
Definition C01_pipeline_statement : Prop :=
  forall picks ns g h6 (addr_of : str -> Z) (s0 : mstate),
    gen_full_cfg picks ns = Ok (SOk g) -> gen_cfg_upto 9 picks ns = Ok (SOk h6) ->
    all_supported g -> no_reentry h6 -> all_wf g -> regs_in32 s0 ->
    forall i s, srun addr_of g s0 i s ->
      forall c, nth_opt (gnodes g) i = Some c -> claims_at addr_of g s0 i s c.
Theorem C01_pipeline_claims : C01_pipeline_statement.
Proof.
  intros picks ns g h6 a s0 H H9 SUP NR WF HI i s R.
  exact (pipeline_claims picks ns g h6 H H9 a s0 SUP NR WF HI i s (srun_bridge _ _ _ _ _ R)).
Qed.
Check C01_pipeline_claims : C01_pipeline_statement.
Print Assumptions C01_pipeline_claims.

Definition C01_pipeline_reentry_statement : Prop :=
  forall picks ns g h6, gen_full_cfg picks ns = Ok (SOk g) -> gen_cfg_upto 9 picks ns = Ok (SOk h6) ->
    no_reentry h6 -> no_reentry g.
Theorem C01_pipeline_no_reentry : C01_pipeline_reentry_statement.
Proof. exact no_reentry_final. Qed.
Check C01_pipeline_no_reentry : C01_pipeline_reentry_statement.
Print Assumptions C01_pipeline_no_reentry.

(* the premises of (b) hold of the program of C12_pipeline_eqn_exception, whose final graph violates the
   equations: its claims are true on every execution nevertheless; and an execution exists (the entry, then
   `li t0, 10`) *)
Example C01_pipeline_example :
  gen_full_cfg [] w_nodes = Ok (SOk w_final) /\ gen_cfg_upto 9 [] w_nodes = Ok (SOk w_h6) /\
  ~ AvailEqns w_final /\
  all_supported w_final /\ no_reentry w_h6 /\ all_wf w_final /\
  forall addr_of s0, regs_in32 s0 ->
    srun addr_of w_final s0 1 s0 /\
    forall i s, srun addr_of w_final s0 i s ->
      forall c, nth_opt (gnodes w_final) i = Some c -> claims_at addr_of w_final s0 i s c.
Proof.
  assert (A : gen_full_cfg [] w_nodes = Ok (SOk w_final)) by (vm_compute; reflexivity).
  assert (B : gen_cfg_upto 9 [] w_nodes = Ok (SOk w_h6)) by (vm_compute; reflexivity).
  assert (SUP : all_supported w_final) by (apply all_supportedb_ok; vm_compute; reflexivity).
  assert (NR : no_reentry w_h6) by (apply no_reentryb_ok; vm_compute; reflexivity).
  assert (WF : all_wf w_final) by (apply all_wfb_ok; vm_compute; reflexivity).
  split; [exact A|]. split; [exact B|].
  split. { apply C12_pipeline_eqn_exception. }
  split; [exact SUP|]. split; [exact NR|]. split; [exact WF|].
  intros a s0 HI. split.
  - destruct (nth_opt (gnodes w_final) 0) as [c0|] eqn:H0; [|vm_compute in H0; discriminate H0].
    eapply srun_step; [eapply srun_start; [exact H0|] | exact H0 | | ].
    + vm_compute in H0. injection H0 as <-. reflexivity.
    + vm_compute in H0. injection H0 as <-. exact I.
    + exists c0. split; [exact H0|]. vm_compute in H0. injection H0 as <-.
      split; [left; reflexivity|]. apply EffEntry; reflexivity.
  - intros i s R c Hc. exact (C01_pipeline_claims [] w_nodes w_final w_h6 a s0 A B SUP NR WF HI i s R c Hc).
Qed.
Print Assumptions C01_pipeline_example.

(* the premises of (a) hold of the program of C12_pipeline_eqns_clean_example *)
Example C01_pipeline_clean_example :
  gen_full_cfg [] v_nodes = Ok (SOk v_final) /\ gen_cfg_upto 9 [] v_nodes = Ok (SOk v_h6) /\
  ecall_terminate v_h6 = v_h6 /\ all_supported v_final /\ no_reentry v_final /\ all_wf v_final.
Proof.
  split. { vm_compute. reflexivity. }
  split. { vm_compute. reflexivity. }
  split. { vm_compute. reflexivity. }
  split. { apply all_supportedb_ok. vm_compute. reflexivity. }
  split. { apply no_reentryb_ok. vm_compute. reflexivity. }
  apply all_wfb_ok. vm_compute. reflexivity.
Qed.
Print Assumptions C01_pipeline_clean_example.
