(* C18 - all output channels report the same diagnostics, well-formed and ordered: every diagnostic has a
   non-empty title and a severity that is fixed for its kind; each rendered source excerpt shows the line the
   diagnostic refers to with the marker under the reported columns.
   Statements only; proofs in Proofs/PrintProofs.v; vocabulary in Spec/PrintSpec.v. *)
From Coq Require Import List Permutation Sorted.
From RV.Model Require Import Base I32 Imm Lexer Parser Reader Cfg Lints Serde Output Printer.
From RV.Spec Require Import PrintSpec.
From RV.Proofs Require Import OutputProofs PrintProofs.
Import ListNotations.
Open Scope N_scope.

(* ================================================================================================ *)
(* (1) KIND TABLE.  Every diagnostic kind (lint code, parse error, CFG error) has a non-empty title; the   *)
(* severity of a lint is a function of its code alone (`lint_severity : lintcode -> severity`; the items    *)
(* of parse and CFG errors are errors by construction); the list of codes is complete; every severity has  *)
(* a non-empty name.                                                                                       *)
(* ================================================================================================ *)
Definition C18_kind_table_statement : Prop :=
  (forall c, lint_title c <> []) /\
  (forall e, parse_error_title e <> []) /\
  (forall e, cfg_error_title e <> []) /\
  (forall c, In c all_lintcodes) /\
  (forall l1 l2 : lint, lcode l1 = lcode l2 -> lint_severity (lcode l1) = lint_severity (lcode l2)) /\
  (forall s, level_name s <> []).
Theorem C18_kind_table : C18_kind_table_statement.
Proof.
  exact (conj lint_title_nonempty (conj parse_error_title_nonempty (conj cfg_error_title_nonempty
        (conj all_lintcodes_complete (conj lint_severity_of_code level_name_nonempty))))).
Qed.
Check C18_kind_table : C18_kind_table_statement.
Print Assumptions C18_kind_table.

(* the table itself: code, severity, "title is not empty" *)
Example C18_kind_table_example :
  map (fun c => (c, lint_severity c, match lint_title c with [] => false | _ => true end)) all_lintcodes
  = [(LDeadAssignment, SevWarning, true); (LSaveToZero, SevWarning, true); (LInvalidUseAfterCall, SevError, true);
     (LInvalidUseBeforeAssignment, SevError, true); (LInvalidJumpToFunction, SevWarning, true);
     (LFirstInstructionIsFunction, SevWarning, true); (LUnknownEcall, SevError, true);
     (LUnreachableCode, SevWarning, true); (LInvalidSegment, SevWarning, true); (LUnknownStack, SevError, true);
     (LInvalidStackPointer, SevError, true); (LInvalidStackPosition, SevError, true);
     (LInvalidStackOffsetUsage, SevError, true); (LOverwriteCalleeSavedRegister, SevError, true);
     (LLostRegisterValue, SevWarning, true); (LNodeInManyFunctions, SevWarning, true)].
Proof. vm_compute. reflexivity. Qed.

(* ================================================================================================ *)
(* (2) EXCERPT EXACT.                                                                                  *)
(* ================================================================================================ *)
(* For a line `text`, line number `ln`, columns start <= end_ on the line and after its indentation: the
   excerpt is three lines - a gutter line, the one-based line number with the trimmed source line, and the
   marker line; the marker is as long as the distance from the first shown column to end_; under the columns
   before `start` it repeats the white space of the source (tabs are kept) and has a blank under anything else;
   under columns start..end_ it has carets. *)
Definition C18_excerpt_exact_statement : Prop :=
  forall (text : str) (ln : N) (start end_ : nat),
    let fnw := first_non_ws text in
    (fnw <= start)%nat -> (start <= end_)%nat -> (end_ < length text)%nat ->
    exists marker : str,
      format_region text ln start end_ =
        (let lno := show_N (ln + 1) in
         let spc := repeat c_space (S (length lno)) in
         spc ++ «" |"» ++ [c_nl] ++ [c_space] ++ lno ++ «" | "» ++ trim text ++ [c_nl]
         ++ spc ++ «" | "» ++ marker ++ [c_nl]) /\
      length marker = (S end_ - fnw)%nat /\
      (forall j d, (fnw <= j < start)%nat ->
         nth (j - fnw) marker d = (if is_whitespace (nth j text d) then nth j text d else c_space)) /\
      (forall j d, (start <= j <= end_)%nat -> nth (j - fnw) marker d = c_caret).
Theorem C18_excerpt_exact : C18_excerpt_exact_statement.
Proof. intros text ln start end_ fnw H1 H2 H3. apply excerpt_exact; auto. apply PeanoNat.Nat.lt_le_incl. eapply PeanoNat.Nat.le_lt_trans; eassumption. Qed.
Check C18_excerpt_exact : C18_excerpt_exact_statement.
Print Assumptions C18_excerpt_exact.

(* The same with the weaker hypothesis that only the START column is on the line or just behind its end
   (the end column may lie beyond the end of the line: the carets then run past it). *)
Definition C18_excerpt_general_statement : Prop :=
  forall (text : str) (ln : N) (start end_ : nat),
    let fnw := first_non_ws text in
    (fnw <= start)%nat -> (start <= end_)%nat -> (start <= length text)%nat ->
    exists marker : str,
      format_region text ln start end_ = excerpt_with text ln marker /\
      length marker = (S end_ - fnw)%nat /\
      (forall j d, (fnw <= j < start)%nat ->
         nth (j - fnw) marker d = (if is_whitespace (nth j text d) then nth j text d else c_space)) /\
      (forall j d, (start <= j <= end_)%nat -> nth (j - fnw) marker d = c_caret).
Theorem C18_excerpt_general : C18_excerpt_general_statement.
Proof. intros text ln start end_ fnw. apply excerpt_exact. Qed.
Check C18_excerpt_general : C18_excerpt_general_statement.
Print Assumptions C18_excerpt_general.

(* The shown source line.  If the line is not all white space: fnw is the column of its first character that
   is not white space; the shown line `trim text` is `skipn fnw text` with its trailing white space removed
   (it ends with a character that is not white space, what was cut is white space); so position j - fnw of the
   shown line is column j of the source, and every column that is not white space is shown.  Together with
   C18_excerpt_exact: the carets are exactly under the reported columns. *)
Definition C18_excerpt_source_statement : Prop :=
  forall text : str, all_ws text = false ->
    let fnw := first_non_ws text in
    (fnw < length text)%nat /\
    (forall j d, (j < fnw)%nat -> is_whitespace (nth j text d) = true) /\
    (forall d, is_whitespace (nth fnw text d) = false) /\
    trim text = trim_end (skipn fnw text) /\
    (exists w, skipn fnw text = trim text ++ w /\ all_ws w = true) /\
    (exists t c, trim text = t ++ [c] /\ is_whitespace c = false) /\
    (forall j d, (fnw <= j < fnw + length (trim text))%nat -> nth (j - fnw) (trim text) d = nth j text d) /\
    (forall j d, (fnw <= j < length text)%nat -> is_whitespace (nth j text d) = false -> (j < fnw + length (trim text))%nat).
Theorem C18_excerpt_source : C18_excerpt_source_statement.
Proof. exact shown_line. Qed.
Check C18_excerpt_source : C18_excerpt_source_statement.
Print Assumptions C18_excerpt_source.

(* a line of white space only: shown as the empty line, fnw = 0 *)
Definition C18_excerpt_blank_statement : Prop :=
  forall text : str, all_ws text = true -> first_non_ws text = 0%nat /\ trim text = [].
Theorem C18_excerpt_blank : C18_excerpt_blank_statement.
Proof. exact fnw_all_ws. Qed.
Check C18_excerpt_blank : C18_excerpt_blank_statement.
Print Assumptions C18_excerpt_blank.

(* Outside the hypothesis (always: format_region = excerpt_with .. (marker_of ..), no panic in the model):
   - start at or beyond the end of the line: the whole blanked line, then the carets appended at its end
     (at shown position length text - fnw, not start - fnw);
   - start inside the indentation: the carets begin at the first shown column (under column fnw, not start);
   - end_ < start: no caret at all. *)
Definition C18_excerpt_outside_statement : Prop :=
  forall (text : str) (ln : N) (start end_ : nat),
    format_region text ln start end_ = excerpt_with text ln (marker_of text start end_) /\
    ((length text <= start)%nat ->
       marker_of text start end_ = map blank (skipn (first_non_ws text) text) ++ repeat c_caret (S end_ - start)) /\
    ((start <= first_non_ws text)%nat -> marker_of text start end_ = repeat c_caret (S end_ - start)) /\
    ((end_ < start)%nat ->
       marker_of text start end_ = firstn (start - first_non_ws text) (map blank (skipn (first_non_ws text) text))).
Theorem C18_excerpt_outside : C18_excerpt_outside_statement.
Proof.
  intros text ln start end_. split; [apply format_region_eq|]. split; [apply marker_beyond_end|].
  split; [apply marker_in_indentation|apply marker_reversed_range].
Qed.
Check C18_excerpt_outside : C18_excerpt_outside_statement.
Print Assumptions C18_excerpt_outside.

(* The excerpt of a pretty block is that of the line the range starts on: the lines of the file's text are its
   unique split at newlines (joining them with newlines gives the text back, no line contains a newline), the
   block is header ++ excerpt ++ blank line, and the excerpt is format_region of line number `line` with the
   start column and end column of the range. *)
Definition C18_excerpt_line_statement : Prop :=
  (forall t : str, join [c_nl] (split_lines t []) = t /\ Forall no_nl (split_lines t [])) /\
  (forall p, format_item p = header_of (fields p) ++ excerpt_of p ++ [c_nl]) /\
  (forall p t region,
     ptext p = Some t -> nth_error (split_lines t []) (N.to_nat (line (rstart (prange p)))) = Some region ->
     excerpt_of p = format_region region (line (rstart (prange p)))
                      (N.to_nat (column (rstart (prange p)))) (N.to_nat (column (rend (prange p))))).
Theorem C18_excerpt_line : C18_excerpt_line_statement.
Proof. exact (conj lines_of_text (conj format_item_eq excerpt_of_line)). Qed.
Check C18_excerpt_line : C18_excerpt_line_statement.
Print Assumptions C18_excerpt_line.

(* a line indented with a tab and two blanks, a tab inside; the diagnostic is on columns 6..7 ("a0") *)
Definition ex_line : str := [c_tab] ++ «"  lw"» ++ [c_tab] ++ «"a0, 4(sp)  "».
Example C18_excerpt_example :
  (first_non_ws ex_line <= 6 /\ 6 <= 7 /\ 7 < length ex_line)%nat /\ all_ws ex_line = false /\
  format_region ex_line 6 6 7 =
    «"   |"» ++ [c_nl] ++
    «" 7 | lw"» ++ [c_tab] ++ «"a0, 4(sp)"» ++ [c_nl] ++
    «"   |   "» ++ [c_tab] ++ «"^^"» ++ [c_nl] /\
  (* beyond the end of the line: carets appended after the blanked line *)
  marker_of ex_line 20 22 = «"  "» ++ [c_tab] ++ «"           ^^^"» /\
  (* inside the indentation: carets at the first shown column *)
  marker_of ex_line 1 2 = «"^^"».
Proof. split; [vm_compute; lia|]. vm_compute. repeat split; reflexivity. Qed.

(* ================================================================================================ *)
(* (3) ORDER IS KEPT BY THE FILE FILTER; THE COUNTER.                                                  *)
(* ================================================================================================ *)
Definition C18_filter_sorted_statement : Prop :=
  forall (A : Type) (key : A -> okey) (f : A -> bool) (l : list A),
    StronglySorted (le key) l -> StronglySorted (le key) (filter f l).
Theorem C18_filter_sorted : C18_filter_sorted_statement.
Proof. intros A key f l. apply StronglySorted_filter. Qed.
Check C18_filter_sorted : C18_filter_sorted_statement.
Print Assumptions C18_filter_sorted.

(* With the items sorted by (file name, range) - the output sort of C10 - what display_pretty shows is still
   sorted, and is a permutation of the visible items of the unsorted list; in terms of positions: of two shown
   items the earlier one never has the greater file name, and if they are in the same file the earlier one
   starts first (or at the same offset and ends first or at the same offset). *)
Definition C18_visible_sorted_statement : Prop :=
  forall (hb all : bool) (items : list pitem),
    let vis := filter (shown hb all) (sort_items pkey items) in
    StronglySorted (le pkey) vis /\
    Permutation (filter (shown hb all) items) vis /\
    forall d i j, (i < j < length vis)%nat ->
      let x := nth i vis d in let y := nth j vis d in
      ostr_cmp (pfile x) (pfile y) <> Gt /\
      (pfile x = pfile y ->
         raw (rstart (prange x)) < raw (rstart (prange y)) \/
         (raw (rstart (prange x)) = raw (rstart (prange y)) /\ raw (rend (prange x)) <= raw (rend (prange y)))).
Theorem C18_visible_sorted : C18_visible_sorted_statement.
Proof.
  intros hb all items vis. destruct (visible_sorted pkey (shown hb all) items) as [S P].
  split; [exact S|]. split; [exact P|]. intros d i j H. apply (visible_by_position hb all items d i j H).
Qed.
Check C18_visible_sorted : C18_visible_sorted_statement.
Print Assumptions C18_visible_sorted.

(* display_pretty prints the visible items in order, then the counter line for the number of hidden items
   (nothing when there is none); with --all-files, or without a base file, nothing is hidden. *)
Definition C18_display_pretty_statement : Prop :=
  forall (compact all hb : bool) (items : list pitem),
    let vis := filter (shown hb all) items in
    let hidden := filter (fun p => negb (shown hb all p)) items in
    display_pretty compact all hb items = concat (map (fmt_of compact) vis) ++ counter_line (length items - length vis) /\
    (length items - length vis = length hidden)%nat /\
    (counter_line (length hidden) = [] <-> hidden = []) /\
    (all = true \/ hb = false -> display_pretty compact all hb items = concat (map (fmt_of compact) items)).
Theorem C18_display_pretty : C18_display_pretty_statement.
Proof.
  intros compact all hb items vis hidden.
  split; [apply display_pretty_eq|]. split; [apply hidden_count|]. split; [|apply display_pretty_all].
  rewrite counter_line_nil. apply length_zero_iff_nil.
Qed.
Check C18_display_pretty : C18_display_pretty_statement.
Print Assumptions C18_display_pretty.

Definition ex_p1 : pitem :=
  mkp SevWarning «"Unused value"» [] (Some «"a.s"») (Some («"main:"» ++ [c_nl] ++ ex_line ++ [c_nl])) true
      (mkrange (mkpos 1 6 12) (mkpos 1 7 13)).
Definition ex_p2 : pitem :=
  mkp SevError «"Unknown ecall"» [] (Some «"b.s"») None false (mkrange (mkpos 3 4 40) (mkpos 3 8 44)).
Definition ex_p3 : pitem :=
  mkp SevError «"Invalid stack pointer"» [] (Some «"a.s"») None true (mkrange (mkpos 0 0 0) (mkpos 0 4 4)).
Example C18_display_example :
  sort_items pkey [ex_p2; ex_p1; ex_p3] = [ex_p3; ex_p1; ex_p2] /\
  filter (shown true false) [ex_p3; ex_p1; ex_p2] = [ex_p3; ex_p1] /\
  display_pretty true false true [ex_p3; ex_p1; ex_p2] =
    «"Error: Invalid stack pointer in a.s at 1 1:5"» ++ [c_nl] ++
    «"Warning: Unused value in a.s at 2 7:8"» ++ [c_nl] ++
    «"1 diagnostic found in other files. To see all errors, run with the `--all-files` option."» ++ [c_nl] /\
  display_pretty false true true [ex_p1] =
    «"Warning: Unused value"» ++ [c_nl] ++ «" in file: a.s"» ++ [c_nl] ++
    «"   |"» ++ [c_nl] ++
    «" 2 | lw"» ++ [c_tab] ++ «"a0, 4(sp)"» ++ [c_nl] ++
    «"   |   "» ++ [c_tab] ++ «"^^"» ++ [c_nl] ++ [c_nl].
Proof. vm_compute. repeat split; reflexivity. Qed.

(* ================================================================================================ *)
(* (4) CHANNEL AGREEMENT.                                                                              *)
(* ================================================================================================ *)
(* The compact line and the header of the pretty block are functions of `fields`; the JSON record carries the
   level, title and range of `fields` (and the canonical file name, the description, the raw offsets). *)
Definition C18_channels_agree_statement : Prop :=
  (forall p, format_item_compact p = compact_of (fields p)) /\
  (forall p q, fields p = fields q -> format_item_compact p = format_item_compact q) /\
  (forall p, format_item p = header_of (fields p) ++ excerpt_of p ++ [c_nl]) /\
  (forall p q, fields p = fields q ->
     exists h, format_item p = h ++ excerpt_of p ++ [c_nl] /\ format_item q = h ++ excerpt_of q ++ [c_nl] /\
               h = header_of (fields p)) /\
  (forall canon p,
     jfields (wrap_item canon p) = fields_nopath (fields p) /\
     jfile (wrap_item canon p) = option_map canon (pfile p) /\ jdesc (wrap_item canon p) = pdesc p) /\
  (forall canon items,
     map jfields (display_json canon items) = map (fun p => fields_nopath (fields p)) items).
Theorem C18_channels_agree : C18_channels_agree_statement.
Proof.
  exact (conj compact_eq (conj compact_fields (conj format_item_eq (conj header_fields
        (conj wrap_item_fields display_json_fields))))).
Qed.
Check C18_channels_agree : C18_channels_agree_statement.
Print Assumptions C18_channels_agree.

(* DECODING THE COMPACT LINE.  `read_compact` (Spec/PrintSpec.v) reads a line from its end: newline, digits,
   ':', digits, ' ', digits, " at ", and the level name in front.  Without any hypothesis on title and path it
   recovers the severity, the text "title in path", and the zero-based line, column and end column; hence the
   compact line determines them, and determines all of `fields` once the path (or the title) is known. *)
Definition C18_compact_decode_statement : Prop :=
  (forall p, read_compact (format_item_compact p) = Some (compact_core p)) /\
  (forall p q, format_item_compact p = format_item_compact q -> psev p = psev q) /\
  (forall p q, format_item_compact p = format_item_compact q -> compact_core p = compact_core q) /\
  (forall p q, format_item_compact p = format_item_compact q -> path_of p = path_of q -> fields p = fields q) /\
  (forall p q, format_item_compact p = format_item_compact q -> ptitle p = ptitle q -> fields p = fields q).
Theorem C18_compact_decode : C18_compact_decode_statement.
Proof.
  exact (conj read_compact_ok (conj compact_severity (conj compact_inj (conj compact_inj_fields compact_inj_fields_title)))).
Qed.
Check C18_compact_decode : C18_compact_decode_statement.
Print Assumptions C18_compact_decode.

(* The split of "title in path" is NOT determined by the compact line (the format is ambiguous when a title or
   a path contains " in "): two items with different fields and the same compact line. *)
Example C18_compact_ambiguous :
  let p := mkp SevError «"a in b"» [] (Some «"c"») None true range0 in
  let q := mkp SevError «"a"» [] (Some «"b in c"») None true range0 in
  format_item_compact p = format_item_compact q /\ fields p <> fields q.
Proof. split; [vm_compute; reflexivity|]. vm_compute. intros H. discriminate H. Qed.

(* When title and path contain no newline the compact rendering is ONE line, ending with " at L C:E" for the
   one-based L, C, E of `fields`. *)
Definition C18_compact_line_statement : Prop :=
  forall p, no_nl (ptitle p) -> no_nl (path_of p) ->
    exists body, format_item_compact p = body ++ [c_nl] /\ no_nl body /\
      body = (level_name (psev p) ++ «": "» ++ ptitle p ++ «" in "» ++ path_of p)
             ++ «" at "» ++ show_N (line (rstart (prange p)) + 1) ++ «" "» ++ show_N (column (rstart (prange p)) + 1)
             ++ «":"» ++ show_N (column (rend (prange p)) + 1).
Theorem C18_compact_line : C18_compact_line_statement.
Proof. exact compact_one_line. Qed.
Check C18_compact_line : C18_compact_line_statement.
Print Assumptions C18_compact_line.

(* THE WHOLE COMPACT OUTPUT, read back line by line (`read_output`: split at newlines, read every line): if no
   title and no path contains a newline, it yields exactly the visible items' (severity, "title in path", line,
   column, end column), in order, followed by one unreadable line (the counter) iff some item is hidden. *)
Definition C18_compact_output_statement : Prop :=
  forall (all hb : bool) (items : list pitem),
    Forall (fun p => no_nl (ptitle p) /\ no_nl (path_of p)) items ->
    read_output (display_pretty true all hb items)
    = map (fun p => Some (compact_core p)) (filter (shown hb all) items)
      ++ (if Nat.eqb (length (filter (fun p => negb (shown hb all p)) items)) 0 then [] else [None]).
Theorem C18_compact_output : C18_compact_output_statement.
Proof. exact read_output_compact. Qed.
Check C18_compact_output : C18_compact_output_statement.
Print Assumptions C18_compact_output.

(* the hypothesis is needed (D29): a newline in a title breaks the line structure *)
Example C18_compact_output_newline :
  let p := mkp SevError («"found LABEL(x)"» ++ [c_nl]) [] (Some «"a.s"») None true range0 in
  read_output (display_pretty true true true [p]) = [None; None].
Proof. vm_compute. reflexivity. Qed.

(* THE PRETTY BLOCK determines severity, title and path (and the excerpt) when titles and paths contain no
   newline: its first line is "{level}: {title}", its second " in file: {path}". *)
Definition C18_pretty_decode_statement : Prop :=
  forall p q, no_nl (ptitle p) -> no_nl (ptitle q) -> no_nl (path_of p) -> no_nl (path_of q) ->
    format_item p = format_item q ->
    psev p = psev q /\ ptitle p = ptitle q /\ path_of p = path_of q /\ excerpt_of p = excerpt_of q.
Theorem C18_pretty_decode : C18_pretty_decode_statement.
Proof. exact pretty_inj. Qed.
Check C18_pretty_decode : C18_pretty_decode_statement.
Print Assumptions C18_pretty_decode.

Example C18_channels_example :
  no_nl (ptitle ex_p1) /\ no_nl (path_of ex_p1) /\
  fields ex_p1 = («"Warning"», «"Unused value"», «"a.s"», 1, 6, 7) /\
  read_compact (format_item_compact ex_p1) = Some (SevWarning, «"Unused value in a.s"», 1, 6, 7) /\
  jfields (wrap_item (fun s => «"/abs/"» ++ s) ex_p1) = («"Warning"», «"Unused value"», 1, 6, 7) /\
  jfile (wrap_item (fun s => «"/abs/"» ++ s) ex_p1) = Some «"/abs/a.s"» /\
  read_output (display_pretty true false true [ex_p3; ex_p1; ex_p2])
  = [Some (compact_core ex_p3); Some (compact_core ex_p1); None] /\
  read_output (display_pretty true true true [ex_p3; ex_p1; ex_p2])
  = [Some (compact_core ex_p3); Some (compact_core ex_p1); Some (compact_core ex_p2)].
Proof.
  split; [apply no_nl_dec; reflexivity|]. split; [apply no_nl_dec; reflexivity|].
  vm_compute. repeat split; reflexivity.
Qed.
