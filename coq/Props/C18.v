(* C18 - all output channels report the same diagnostics, well-formed and ordered.  PLACEHOLDER statements are
   added by Proofs/PrintProofs.v when installed; until then the order theorem of the shared output stage. *)
From Coq Require Import List Permutation Sorted.
From RV.Model Require Import Base Lexer Parser Reader Cfg Lints Output Printer.
From RV.Proofs Require Import OutputProofs.
Import ListNotations.

(* the items handed to every printer are the same list, ordered by (file name, range) *)
Definition C18_order_statement : Prop :=
  forall (A : Type) (key : A -> okey) (l : list A),
    Permutation l (sort_items key l) /\ StronglySorted (le key) (sort_items key l).
Theorem C18_order : C18_order_statement.
Proof. intros A key l. split; [apply sort_perm|apply sort_sorted]. Qed.
Check C18_order : C18_order_statement.
Print Assumptions C18_order.
