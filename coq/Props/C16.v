(* C16 - every analysis failure is explained at a real place in the user's files.
   Statements only; proofs in Proofs/ErrProofs.v. *)
From RV.Model Require Import Base Lexer Isa Parser Reader Cfg Avail Live Lints.
From RV.Proofs Require Import ErrProofs.

Definition uses_label (n : pnode) (l : wth str) : Prop :=
  calls_to n = Some l \/ jumps_to n = Some l \/ reads_address_of n = Some l.
Definition defines_label (n : pnode) (s : str) : Prop :=
  exists name rt, n = PLabel name rt /\ wv name = s.

(* what each error must be about, in terms of the parsed nodes *)
Definition explained (nodes : list pnode) (handlers : list (wth str)) (e : cfgerr) : Prop :=
  match e with
  | CLabelsNotDefined ls =>
      ls <> [] /\
      forall l, In l ls ->
        (forall n, In n nodes -> ~ defines_label n (wv l)) /\
        ((exists n, In n nodes /\ uses_label n l) \/ In l handlers)
  | CDuplicateLabel l =>
      exists pre post rt, nodes = pre ++ PLabel l rt :: post /\ exists n, In n pre /\ defines_label n (wv l)
  | CLabelWithoutInstruction l => exists n, In n nodes /\ jumps_to n = Some l
  | CFunctionWithoutReturn en ls =>
      ls <> [] /\ exists n h, In n nodes /\ is_instruction n = true /\ en = PFuncEntry (rfile (node_raw n)) (node_raw n) h
  | CUnexpectedError => False
  end.

(* For every program that was parsed from files (any include tree, any reader faults, any exit
   choices): if the analysis stops, the error is one of the specific kinds, it is about an
   occurrence in the program as described by `explained`, and it is located in one of the
   user's files (never the nil file). *)
Definition C16_statement : Prop :=
  forall chk fs base nodes errs rs picks e,
    parse_from_file chk fs base false = Ok (nodes, errs, rs) ->
    gen_full_cfg picks nodes = Ok (SErr e) ->
    (exists handlers, explained nodes handlers e /\
                      forall h, In h handlers -> exists n, In n nodes /\ reads_address_of n = Some h) /\
    exists id, lfile (cfg_error_loc e) = Some id.
Theorem C16_cfg_error_specific_located : C16_statement.
Proof. exact cfg_error_specific_located. Qed.
Check C16_cfg_error_specific_located : C16_statement.
Print Assumptions C16_cfg_error_specific_located.

(* when the analysis does not stop, all eleven lints are run on the finished graph and their
   findings are reported after the parse errors; nothing is withheld *)
Definition C16_ok_statement : Prop :=
  forall picks nodes errs g, gen_full_cfg picks nodes = Ok (SOk g) ->
    exists items, run_items picks nodes errs = Ok items /\
      length items = (length errs + length (run_diagnostics g))%nat.
Theorem C16_ok_runs_all_lints : C16_ok_statement.
Proof. exact ok_runs_all_lints. Qed.
Check C16_ok_runs_all_lints : C16_ok_statement.
Print Assumptions C16_ok_runs_all_lints.
