(* Param - "diagnostics depend on what is written, not where": the whole analysis pipeline of the model
   (CFG construction, directions, dead code, value analysis, ecall termination, function markup, liveness,
   the lints, and the assembly of diagnostic items) is parametric in source locations.
   Statements only; proofs in Proofs/ParamProofs.v (and ParamRel/ParamCfg/ParamAvail/ParamLive/ParamLints). *)
From RV.Model Require Import Base I32 Imm Lexer Isa Parser Reader Cfg Avail Live Lints.
From RV.Spec Require Import ParamSpec ParamPlaceSpec.
From RV.Proofs Require Import ParamProofs.
Import ListNotations.

(* (P1) Two inputs whose nodes and parse errors agree up to positions and file identities get the same
   diagnostics up to locations: same kinds in the same order, the same number of candidate locations, the same
   optional flag; and the pipeline fails on one exactly when (and as) it fails on the other. *)
Definition Param_run_items_erase_statement : Prop :=
  forall picks ns1 ns2 es1 es2,
    map erase_node ns1 = map erase_node ns2 -> map erase_perr es1 = map erase_perr es2 ->
    match run_items picks ns1 es1, run_items picks ns2 es2 with
    | Ok d1, Ok d2 => map erase_ditem d1 = map erase_ditem d2
    | Panic _, Panic _ => True | OutOfFuel, OutOfFuel => True | _, _ => False end.
Theorem Param_run_items_erase : Param_run_items_erase_statement.
Proof. exact run_items_erase. Qed.
Check Param_run_items_erase : Param_run_items_erase_statement.
Print Assumptions Param_run_items_erase.

(* (P2) The graph level: the fully analysed graphs are equal once the embedded parser nodes, label tokens
   and label-valued facts are erased - so edges, function membership, the function table, the label map,
   value maps and live sets are identical; a CFG error is the same error up to erasure. *)
Definition Param_gen_full_cfg_erase_statement : Prop :=
  forall picks ns1 ns2,
    map erase_node ns1 = map erase_node ns2 ->
    match gen_full_cfg picks ns1, gen_full_cfg picks ns2 with
    | Ok (SOk g1), Ok (SOk g2) => erase_cfg g1 = erase_cfg g2
    | Ok (SErr e1), Ok (SErr e2) => erase_cfgerr e1 = erase_cfgerr e2
    | Panic _, Panic _ => True | OutOfFuel, OutOfFuel => True | _, _ => False end.
Theorem Param_gen_full_cfg_erase : Param_gen_full_cfg_erase_statement.
Proof. exact gen_full_cfg_erase. Qed.
Check Param_gen_full_cfg_erase : Param_gen_full_cfg_erase_statement.
Print Assumptions Param_gen_full_cfg_erase.

(* the same at every stage boundary of the pipeline (0 new1 .. 11 live, as in Lints.gen_cfg_upto) *)
Definition Param_gen_cfg_upto_erase_statement : Prop :=
  forall stage picks ns1 ns2,
    map erase_node ns1 = map erase_node ns2 ->
    match gen_cfg_upto stage picks ns1, gen_cfg_upto stage picks ns2 with
    | Ok (SOk g1), Ok (SOk g2) => erase_cfg g1 = erase_cfg g2
    | Ok (SErr e1), Ok (SErr e2) => erase_cfgerr e1 = erase_cfgerr e2
    | Panic _, Panic _ => True | OutOfFuel, OutOfFuel => True | _, _ => False end.
Theorem Param_gen_cfg_upto_erase : Param_gen_cfg_upto_erase_statement.
Proof. exact gen_cfg_upto_erase. Qed.
Check Param_gen_cfg_upto_erase : Param_gen_cfg_upto_erase_statement.
Print Assumptions Param_gen_cfg_upto_erase.

(* the final graph, fact by fact *)
Definition Param_gen_full_cfg_facts_statement : Prop :=
  forall picks ns1 ns2 g1 g2,
    map erase_node ns1 = map erase_node ns2 ->
    gen_full_cfg picks ns1 = Ok (SOk g1) -> gen_full_cfg picks ns2 = Ok (SOk g2) ->
    gfuncs g1 = gfuncs g2 /\ glabelfn g1 = glabelfn g2 /\
    Forall2 (fun c1 c2 => erase_node (cn c1) = erase_node (cn c2) /\ map erase_w (clabels c1) = map erase_w (clabels c2) /\
                          ctext c1 = ctext c2 /\ nexts c1 = nexts c2 /\ prevs c1 = prevs c2 /\ cfuncs c1 = cfuncs c2 /\
                          map erase_kv (rin c1) = map erase_kv (rin c2) /\ map erase_kv (rout c1) = map erase_kv (rout c2) /\
                          map erase_kv (min c1) = map erase_kv (min c2) /\ map erase_kv (mout c1) = map erase_kv (mout c2) /\
                          lin c1 = lin c2 /\ lout c1 = lout c2 /\ udef c1 = udef c2) (gnodes g1) (gnodes g2).
Theorem Param_gen_full_cfg_facts : Param_gen_full_cfg_facts_statement.
Proof. exact gen_full_cfg_facts. Qed.
Check Param_gen_full_cfg_facts : Param_gen_full_cfg_facts_statement.
Print Assumptions Param_gen_full_cfg_facts.

(* (P3) Locations: corresponding diagnostics point at the same places of the two inputs - the same selector
   (whole node / instruction / rd / rs1 / rs2 / immediate / label name / directive token or argument) of the node
   at the same index, or the parse error at the same index.  (Synthesized function entries, rewritten
   returns and CFG errors point at such places too: see Spec/ParamPlaceSpec.v.) *)
Definition Param_run_items_place_statement : Prop :=
  forall picks ns1 ns2 es1 es2,
    map erase_node ns1 = map erase_node ns2 -> map erase_perr es1 = map erase_perr es2 ->
    match run_items picks ns1 es1, run_items picks ns2 es2 with
    | Ok d1, Ok d2 =>
        map erase_ditem d1 = map erase_ditem d2 /\
        Forall2 (fun a b => Forall2 (place ns1 ns2 es1 es2) (dlocs a) (dlocs b)) d1 d2
    | Panic _, Panic _ => True | OutOfFuel, OutOfFuel => True | _, _ => False end.
Theorem Param_run_items_place : Param_run_items_place_statement.
Proof. exact run_items_place. Qed.
Check Param_run_items_place : Param_run_items_place_statement.
Print Assumptions Param_run_items_place.

(* ---- non-vacuity: one program text, two layouts ------------------------------------------ *)
Fixpoint unlines (l : list str) : str := match l with [] => [] | x :: l' => x ++ [c_nl] ++ unlines l' end.
Definition ex_text1 : str := unlines
  [ «"main:"»; «"    addi t0, zero, 5"»; «"    jal ra, f"»; «"    li a7, 10"»; «"    ecall"»;
    «"f:"»; «"    add s1, a0, t1"»; «"    ret"»; «"    lw t0, 0(sp"» ].
Definition ex_text2 : str := unlines
  [ «""»; «"main:   addi   t0,zero,5"»; «""»; «"  jal ra,   f"»; «"li a7, 10"»; «"         ecall"»; «""»; «""»;
    «"f:"»; «"add s1,a0,t1"»; «"  ret"»; «"lw t0,0(sp"» ].

(* the two parses satisfy the premises non-trivially (nine nodes and one parse error each, at different
   ranges), the analysis succeeds on both with four diagnostics (the parse error, a dead assignment, an
   overwritten and a lost callee-saved register), equal after erasure and located at different ranges *)
Example Param_example :
  match parse_from_text false ex_text1, parse_from_text false ex_text2 with
  | Ok (n1, e1), Ok (n2, e2) =>
      map erase_node n1 = map erase_node n2 /\ map erase_perr e1 = map erase_perr e2 /\
      length n1 = 9%nat /\ length e1 = 1%nat /\ n1 <> n2 /\ e1 <> e2 /\
      match run_items [] n1 e1, run_items [] n2 e2 with
      | Ok d1, Ok d2 =>
          map erase_ditem d1 = map erase_ditem d2 /\
          map (fun d => match dk d with DLint c => Some c | _ => None end) d1
            = [None; Some LDeadAssignment; Some LOverwriteCalleeSavedRegister; Some LLostRegisterValue] /\
          map dlocs d1 <> map dlocs d2
      | _, _ => False
      end
  | _, _ => False
  end.
Proof. vm_compute. repeat split; try reflexivity; discriminate. Qed.

(* the theorems applied to the example *)
Example Param_example_place :
  forall n1 e1 n2 e2 d1 d2,
    parse_from_text false ex_text1 = Ok (n1, e1) -> parse_from_text false ex_text2 = Ok (n2, e2) ->
    run_items [] n1 e1 = Ok d1 -> run_items [] n2 e2 = Ok d2 ->
    map erase_ditem d1 = map erase_ditem d2 /\
    Forall2 (fun a b => Forall2 (place n1 n2 e1 e2) (dlocs a) (dlocs b)) d1 d2.
Proof.
  intros n1 e1 n2 e2 d1 d2 H1 H2 R1 R2.
  assert (Hn : map erase_node n1 = map erase_node n2 /\ map erase_perr e1 = map erase_perr e2).
  { vm_compute in H1, H2. inversion H1; inversion H2; subst. vm_compute. split; reflexivity. }
  destruct Hn as [Hn He]. pose proof (Param_run_items_place [] n1 n2 e1 e2 Hn He) as H.
  rewrite R1, R2 in H. exact H.
Qed.
