(* C10 - output is deterministic and free of duplicate diagnostics.
   Statements only; proofs in Proofs/OutputProofs.v (and Proofs/DetProofs.v). *)
From Coq Require Import List Permutation Sorted.
From RV.Model Require Import Base Lexer Parser Reader Cfg Lints Output.
From RV.Proofs Require Import OutputProofs.
Import ListNotations.

(* (1) The final ordering.  For ANY list of items and any sort key (file name, range): the output is a
   permutation of the items (nothing lost, nothing duplicated by the ordering step), it is ordered by
   (file name, start offset, end offset), and items with equal keys keep the order in which the passes
   produced them.  Since the key uses the file NAME (fix "deterministic order of files"), not the random file
   UUID, the order is a function of the item list alone. *)
Definition C10_order_statement : Prop :=
  forall (A : Type) (key : A -> okey) (l : list A),
    Permutation l (sort_items key l) /\
    StronglySorted (le key) (sort_items key l) /\
    forall k, filter (same_key key k) (sort_items key l) = filter (same_key key k) l.
Theorem C10_order : C10_order_statement.
Proof. intros A key l. split; [apply sort_perm|split; [apply sort_sorted|intros k; apply sort_stable]]. Qed.
Check C10_order : C10_order_statement.
Print Assumptions C10_order.

Example C10_order_example :
  let mk f a b := (Some f, mkrange (mkpos 0 0 a) (mkpos 0 0 b)) in
  sort_items (fun x : okey * nat => fst x)
    [(mk «"b.s"» 4 6, 0%nat); (mk «"a.s"» 9 9, 1%nat); (mk «"a.s"» 2 5, 2%nat); (mk «"a.s"» 2 5, 3%nat); ((None, range0), 4%nat)]
  = [((None, range0), 4%nat); (mk «"a.s"» 2 5, 2%nat); (mk «"a.s"» 2 5, 3%nat); (mk «"a.s"» 9 9, 1%nat); (mk «"b.s"» 4 6, 0%nat)].
Proof. vm_compute. reflexivity. Qed.

(* (2) No duplicates.  The output stage (`DiagnosticItem::sort_for_output`: stable sort, then drop every item that
   agrees with an earlier one in all fields) returns a list in which no item is the same as an earlier one; every
   produced item is represented (itself or an identical earlier one); nothing is invented; the result is still
   sorted and is a sub-sequence of the sorted list (so the relative order of the survivors is unchanged). *)
Definition C10_nodup_statement : Prop :=
  forall (A : Type) (key : A -> okey) (same : A -> A -> bool) (l : list A),
    let out := sort_for_output key same l in
    (forall pre x post y, out = pre ++ x :: post -> In y pre -> same x y = false) /\
    (forall x, In x l -> exists y, In y out /\ (y = x \/ same x y = true)) /\
    (forall x, In x out -> In x l) /\
    StronglySorted (le key) out /\
    subseq out (sort_items key l).
Theorem C10_no_duplicates : C10_nodup_statement.
Proof. exact (@sort_for_output_facts). Qed.
Check C10_no_duplicates : C10_nodup_statement.
Print Assumptions C10_no_duplicates.

Example C10_nodup_example :
  let mk f a t := mko (Some f) (mkrange (mkpos 0 0 a) (mkpos 0 0 a)) 0 t [] in
  output_order [mk «"b.s"» 4 «"x"»; mk «"a.s"» 9 «"y"»; mk «"a.s"» 2 «"z"»; mk «"a.s"» 9 «"y"»; mk «"a.s"» 2 «"w"»]
  = [mk «"a.s"» 2 «"z"»; mk «"a.s"» 2 «"w"»; mk «"a.s"» 9 «"y"»; mk «"b.s"» 4 «"x"»].
Proof. vm_compute. reflexivity. Qed.
