(* C10 - output is deterministic and free of duplicate diagnostics.
   Statements only; proofs in Proofs/OutputProofs.v (and Proofs/DetProofs.v). *)
From Coq Require Import List Permutation Sorted.
From RV.Model Require Import Base Lexer Parser Reader Cfg Lints Output.
From RV.Proofs Require Import OutputProofs.
Import ListNotations.

(* (1) The final ordering.  For ANY list of items and any sort key (file name, range): the output is a
   permutation of the items (nothing lost, nothing duplicated by the ordering step), it is ordered by
   (file name, start offset, end offset), and items with equal keys keep the order in which the passes
   produced them.  Since the key uses the file NAME (fix "deterministic order of files"), not the random file
   UUID, the order is a function of the item list alone. *)
Definition C10_order_statement : Prop :=
  forall (A : Type) (key : A -> okey) (l : list A),
    Permutation l (sort_items key l) /\
    StronglySorted (le key) (sort_items key l) /\
    forall k, filter (same_key key k) (sort_items key l) = filter (same_key key k) l.
Theorem C10_order : C10_order_statement.
Proof. intros A key l. split; [apply sort_perm|split; [apply sort_sorted|intros k; apply sort_stable]]. Qed.
Check C10_order : C10_order_statement.
Print Assumptions C10_order.

Example C10_order_example :
  let mk f a b := (Some f, mkrange (mkpos 0 0 a) (mkpos 0 0 b)) in
  sort_items (fun x : okey * nat => fst x)
    [(mk «"b.s"» 4 6, 0%nat); (mk «"a.s"» 9 9, 1%nat); (mk «"a.s"» 2 5, 2%nat); (mk «"a.s"» 2 5, 3%nat); ((None, range0), 4%nat)]
  = [((None, range0), 4%nat); (mk «"a.s"» 2 5, 2%nat); (mk «"a.s"» 2 5, 3%nat); (mk «"a.s"» 9 9, 1%nat); (mk «"b.s"» 4 6, 0%nat)].
Proof. vm_compute. reflexivity. Qed.
