(* C14 - renaming labels or same-class registers only renames the diagnostics.
   Statements only; definitions in Spec/RenameSpec.v, proofs in Proofs/Rename*.v.

   A class permutation `s` (Spec: `class_perm`; list form `valid_perm p`, `sigma_of p`) permutes the
   temporaries t0-t6 among themselves and the saved registers s0-s11 among themselves and fixes every other
   register.  A label renaming `rho` (Spec: `label_renaming`) is injective and fixes the reserved name
   "<return>".  `rn_node s rho` applies both to a parsed node (`rename_regs s` / `rename_labels rho` apply
   one), `rn_cfg s rho` to a whole graph (operands, register sets via `perm_set`, abstract values, re-indexed
   register maps), `rn_cfgerr` / `rn_ditem` to a CFG error / diagnostic item.

   RESULT.  The renamed program goes through the pipeline exactly like the original one and every
   intermediate and final graph is the renamed graph (C14_pipeline); the diagnostics are the original
   ones - same codes, same locations, same flags; a lint carries no register or label -
     * as a multiset for register permutations (C14_regs_diagnostics; NOT as a list: C14_order_counterexample),
     * as a list for label renamings (C14_labels_diagnostics),
   and a CFG error is the renamed error at the same location (C14_items), provided - for
   `CLabelsNotDefined` only - that rho keeps the string order of the undefined names
   (C14_error_location_counterexample shows the location moves otherwise; C14_error_location_among says where to).
   The hypothesis rho "<return>" = "<return>" is needed (C14_return_name_counterexample). *)
From Coq Require Import Permutation.
From RV.Model Require Import Base I32 Imm Lexer Isa Parser Reader Cfg Avail Live Lints.
From RV.Spec Require Import RenameSpec.
From RV.Proofs Require Import RenameProofs.
Open Scope N_scope.

(* ---- (1) permutations ------------------------------------------------------------------------------ *)
Definition C14_valid_perm_statement : Prop :=
  forall p, valid_perm p = true -> class_perm (sigma_of p).
Theorem C14_valid_perm : C14_valid_perm_statement.
Proof. exact valid_perm_class. Qed.
Check C14_valid_perm : C14_valid_perm_statement.
Print Assumptions C14_valid_perm.

(* perm_set permutes the bits, is a homomorphism and a bijection of masks *)
Definition C14_perm_set_statement : Prop :=
  forall s, class_perm s ->
    (forall x r, rs_mem (s r) (perm_set s x) = rs_mem r x) /\
    (forall a b, perm_set s (rs_union a b) = rs_union (perm_set s a) (perm_set s b)) /\
    (forall a b, perm_set s (rs_inter a b) = rs_inter (perm_set s a) (perm_set s b)) /\
    (forall a b, perm_set s (rs_diff a b) = rs_diff (perm_set s a) (perm_set s b)) /\
    (forall r, perm_set s (rs_one r) = rs_one (s r)) /\
    (forall l, perm_set s (rs_of_list l) = rs_of_list (map s l)) /\
    (forall a b, perm_set s a = perm_set s b -> a = b) /\
    (forall x, Permutation (rs_elems (perm_set s x)) (map s (rs_elems x))).
Theorem C14_perm_set : C14_perm_set_statement.
Proof.
  intros s Hs. repeat split.
  - apply perm_set_spec, Hs.
  - apply perm_set_union, Hs.
  - apply perm_set_inter, Hs.
  - apply perm_set_diff, Hs.
  - apply perm_set_one, Hs.
  - apply perm_set_of_list, Hs.
  - apply perm_set_inj, Hs.
  - apply rs_elems_perm, Hs.
Qed.
Check C14_perm_set : C14_perm_set_statement.
Print Assumptions C14_perm_set.

(* ---- (2) tables: every register-set constant of the model is invariant ---------------------------------- *)
(* model_regsets = [rs_empty; program_args_set; temporary_set; argument_set; return_set; all_writable_set;
   saved_set; sp_ra_set; return_addr_set; caller_saved_set; const_zero_set; callee_saved_set;
   ecall_always_argument_set; rs_one 2; rs_one 0; rs_one 1; rs_one 17], and the table of ecall signatures *)
Definition C14_tables_statement : Prop :=
  forall s, class_perm s ->
    (forall S, In S model_regsets -> perm_set s S = S) /\
    (forall n a r, environment_in_outs n = Some (a, r) -> perm_set s a = a /\ perm_set s r = r).
Theorem C14_tables : C14_tables_statement.
Proof. intros s Hs. split; [apply tables_invariant, Hs | apply env_invariant, Hs]. Qed.
Check C14_tables : C14_tables_statement.
Print Assumptions C14_tables.

(* ---- (3) gen/kill and every per-node function ------------------------------------------------------------ *)
(* node_preds n = [is_return n; is_ureturn n; is_ecall n; might_terminate n; can_skip_save_checks n; is_any_entry n;
   is_function_entry n; is_handler_function_entry n; is_program_entry n; is_instruction n;
   is_unconditional_jump n; is_datasec n; is_textsec n; is_directive n; loads_word n] *)
Definition C14_regs_node_statement : Prop :=
  forall s n, class_perm s ->
  let n' := rename_regs s n in
  kill_reg n' = perm_set s (kill_reg n) /\ gen_reg n' = perm_set s (gen_reg n) /\
  writes_to n' = option_map (map_w s) (writes_to n) /\ reads_from n' = map (map_w s) (reads_from n) /\
  stores_to_memory n' = option_map (pair3 s) (stores_to_memory n) /\
  reads_from_memory n' = option_map (pairm s) (reads_from_memory n) /\
  uses_memory_location n' = option_map (pairu s) (uses_memory_location n) /\
  gen_reg_value n' = option_map (rn_kv s (fun x => x)) (gen_reg_value n) /\
  gen_memory_value n' = option_map (rn_mkv s (fun x => x)) (gen_memory_value n) /\
  calls_to n' = calls_to n /\ jumps_to n' = jumps_to n /\ reads_address_of n' = reads_address_of n /\
  is_some_jump_to_label n' = is_some_jump_to_label n /\ label_of n' = label_of n /\
  node_raw n' = node_raw n /\ node_inst n' = node_inst n /\ node_preds n' = node_preds n.
Theorem C14_regs_node : C14_regs_node_statement.
Proof. exact regs_node_facts. Qed.
Check C14_regs_node : C14_regs_node_statement.
Print Assumptions C14_regs_node.

Definition C14_labels_node_statement : Prop :=
  forall rho n,
  let n' := rename_labels rho n in
  kill_reg n' = kill_reg n /\ gen_reg n' = gen_reg n /\ writes_to n' = writes_to n /\ reads_from n' = reads_from n /\
  stores_to_memory n' = stores_to_memory n /\ reads_from_memory n' = reads_from_memory n /\
  uses_memory_location n' = uses_memory_location n /\
  calls_to n' = option_map (map_w rho) (calls_to n) /\ jumps_to n' = option_map (map_w rho) (jumps_to n) /\
  reads_address_of n' = option_map (map_w rho) (reads_address_of n) /\
  is_some_jump_to_label n' = option_map (map_w rho) (is_some_jump_to_label n) /\
  label_of n' = option_map (map_w rho) (label_of n) /\
  node_raw n' = node_raw n /\ node_inst n' = node_inst n /\ node_preds n' = node_preds n.
Theorem C14_labels_node : C14_labels_node_statement.
Proof. exact labels_node_facts. Qed.
Check C14_labels_node : C14_labels_node_statement.
Print Assumptions C14_labels_node.

(* ---- (4) liveness ------------------------------------------------------------------------------------------ *)
Definition C14_liveness_statement : Prop :=
  forall s rho g, class_perm s -> label_renaming rho ->
    liveness_pass (rn_cfg s rho g) = map_res (rn_cfg s rho) (liveness_pass g).
Theorem C14_liveness : C14_liveness_statement.
Proof. intros s rho g Hs Hr. apply liveness_pass_rn; assumption. Qed.
Check C14_liveness : C14_liveness_statement.
Print Assumptions C14_liveness.

(* ---- (5) value analysis ------------------------------------------------------------------------------------- *)
(* `maps_sorted`: the register maps stored in the graph are strictly sorted by key - the model's representation
   invariant, true of every graph of the pipeline (C14_pipeline_sorted) and kept by the pass *)
Definition C14_avail_statement : Prop :=
  forall s rho g, class_perm s -> label_renaming rho -> maps_sorted (gnodes g) ->
    avail_pass (rn_cfg s rho g) = map_res (rn_cfg s rho) (avail_pass g) /\
    (forall g', avail_pass g = Ok g' -> maps_sorted (gnodes g')).
Theorem C14_avail : C14_avail_statement.
Proof.
  intros s rho g Hs Hr Hg. split; [apply avail_pass_rn; assumption|].
  intros g' E. eapply avail_pass_sorted; eassumption.
Qed.
Check C14_avail : C14_avail_statement.
Print Assumptions C14_avail.

(* what the renamed register map is: sorted again, and the entry of `s r` is the renamed entry of `r` *)
Definition C14_regmap_statement : Prop :=
  forall s rho m, class_perm s ->
    rsorted (rn_regmap s rho m) /\
    forall r, rm_get (s r) (rn_regmap s rho m) = option_map (rn_aval s rho) (rm_get r m).
Theorem C14_regmap : C14_regmap_statement.
Proof. intros s rho m Hs. split; [apply rsorted_pm | intros r; apply rm_get_rn, Hs]. Qed.
Check C14_regmap : C14_regmap_statement.
Print Assumptions C14_regmap.

Definition C14_transfer_statement : Prop :=
  forall s rho c ri mi, class_perm s -> label_renaming rho -> rsorted ri ->
    avail_transfer (rn_cnode s rho c) (rn_regmap s rho ri) (rn_memmap s rho mi)
    = (rn_regmap s rho (fst (avail_transfer c ri mi)), rn_memmap s rho (snd (avail_transfer c ri mi))).
Theorem C14_transfer : C14_transfer_statement.
Proof. intros s rho c ri mi Hs Hr Hi. apply avail_transfer_rn; assumption. Qed.
Check C14_transfer : C14_transfer_statement.
Print Assumptions C14_transfer.

(* ---- (6) lints and end-to-end ------------------------------------------------------------------------------- *)
(* on any renamed graph: the same findings, in a possibly different order; in the same order when the
   permutation keeps the enumeration order of register sets (`keeps_order`; the identity does) *)
Definition C14_lints_statement : Prop :=
  forall s rho g, class_perm s -> label_renaming rho -> maps_sorted (gnodes g) ->
    Permutation (run_diagnostics (rn_cfg s rho g)) (run_diagnostics g) /\
    (keeps_order s -> run_diagnostics (rn_cfg s rho g) = run_diagnostics g).
Theorem C14_lints : C14_lints_statement.
Proof.
  intros s rho g Hs Hr Hg. split; [apply run_diagnostics_perm; assumption|].
  intros Ho. apply run_diagnostics_eq; assumption.
Qed.
Check C14_lints : C14_lints_statement.
Print Assumptions C14_lints.

(* the whole pipeline: the result on the renamed program is the renamed result (graph, CFG error, or failure) *)
Definition C14_pipeline_statement : Prop :=
  forall s rho picks ns, class_perm s -> label_renaming rho ->
    gen_full_cfg picks (map (rn_node s rho) ns)
    = map_res (rn_stage s rho (rn_cfg s rho)) (gen_full_cfg picks ns).
Theorem C14_pipeline : C14_pipeline_statement.
Proof. intros s rho picks ns Hs Hr. apply gen_full_cfg_rn; assumption. Qed.
Check C14_pipeline : C14_pipeline_statement.
Print Assumptions C14_pipeline.

Definition C14_pipeline_sorted_statement : Prop :=
  forall picks ns g, gen_full_cfg picks ns = Ok (SOk g) -> maps_sorted (gnodes g).
Theorem C14_pipeline_sorted : C14_pipeline_sorted_statement.
Proof. exact gen_full_cfg_sorted. Qed.
Check C14_pipeline_sorted : C14_pipeline_sorted_statement.
Print Assumptions C14_pipeline_sorted.

(* the diagnostic items, all cases *)
Definition C14_items_statement : Prop :=
  forall s rho picks ns errs, class_perm s -> label_renaming rho ->
    (forall ls, gen_full_cfg picks ns = Ok (SErr (CLabelsNotDefined ls)) -> monotone_on rho ls) ->
    match run_items picks ns errs with
    | Ok items => exists items', run_items picks (map (rn_node s rho) ns) errs = Ok items' /\
                                 Permutation items' (map (rn_ditem s rho) items)
    | Panic k => run_items picks (map (rn_node s rho) ns) errs = Panic k
    | OutOfFuel => run_items picks (map (rn_node s rho) ns) errs = OutOfFuel
    end.
Theorem C14_items : C14_items_statement.
Proof. intros s rho picks ns errs Hs Hr Hm. apply run_items_rn; assumption. Qed.
Check C14_items : C14_items_statement.
Print Assumptions C14_items.

(* registers: for every valid permutation list, when the analysis succeeds, exactly the original diagnostics
   (codes, locations, flags) up to their order *)
Definition C14_regs_diagnostics_statement : Prop :=
  forall p picks ns errs g, valid_perm p = true -> gen_full_cfg picks ns = Ok (SOk g) ->
    exists items items', run_items picks ns errs = Ok items
                         /\ run_items picks (map (rename_regs (sigma_of p)) ns) errs = Ok items'
                         /\ Permutation items' items.
Theorem C14_regs_diagnostics : C14_regs_diagnostics_statement.
Proof. exact regs_diagnostics_perm. Qed.
Check C14_regs_diagnostics : C14_regs_diagnostics_statement.
Print Assumptions C14_regs_diagnostics.

(* labels: when the analysis succeeds, exactly the original list *)
Definition C14_labels_diagnostics_statement : Prop :=
  forall rho picks ns errs g, label_renaming rho -> gen_full_cfg picks ns = Ok (SOk g) ->
    exists items, run_items picks ns errs = Ok items /\ run_items picks (map (rename_labels rho) ns) errs = Ok items.
Theorem C14_labels_diagnostics : C14_labels_diagnostics_statement.
Proof. exact labels_diagnostics_eq. Qed.
Check C14_labels_diagnostics : C14_labels_diagnostics_statement.
Print Assumptions C14_labels_diagnostics.

(* registers, every case (success, CFG error, failure): a CFG error of the pipeline mentions no register *)
Definition C14_regs_items_statement : Prop :=
  forall p picks ns errs, valid_perm p = true ->
    match run_items picks ns errs with
    | Ok items => exists items', run_items picks (map (rename_regs (sigma_of p)) ns) errs = Ok items' /\
                                 Permutation items' items
    | Panic k => run_items picks (map (rename_regs (sigma_of p)) ns) errs = Panic k
    | OutOfFuel => run_items picks (map (rename_regs (sigma_of p)) ns) errs = OutOfFuel
    end.
Theorem C14_regs_items : C14_regs_items_statement.
Proof. exact regs_items. Qed.
Check C14_regs_items : C14_regs_items_statement.
Print Assumptions C14_regs_items.

(* labels, every case: the same list, with the CFG error (if any) renamed *)
Definition C14_labels_items_statement : Prop :=
  forall rho picks ns errs, label_renaming rho ->
    (forall ls, gen_full_cfg picks ns = Ok (SErr (CLabelsNotDefined ls)) -> monotone_on rho ls) ->
    run_items picks (map (rename_labels rho) ns) errs
    = map_res (map (rn_ditem (fun r => r) rho)) (run_items picks ns errs).
Theorem C14_labels_items : C14_labels_items_statement.
Proof. exact labels_items. Qed.
Check C14_labels_items : C14_labels_items_statement.
Print Assumptions C14_labels_items.

(* CFG errors: the item is the renamed error; its location is unchanged if rho keeps the order of the undefined
   names, and is in any case the location of one of them; the sorted name list of the title follows rho under
   the same condition *)
Definition C14_error_statement : Prop :=
  forall s rho picks ns errs e, class_perm s -> label_renaming rho -> gen_full_cfg picks ns = Ok (SErr e) ->
    run_items picks ns errs = Ok (parse_items errs ++ [mkd (DCfg e) [cfg_error_loc e] false]) /\
    run_items picks (map (rn_node s rho) ns) errs
    = Ok (parse_items errs ++ [mkd (DCfg (rn_cfgerr s rho e)) [cfg_error_loc (rn_cfgerr s rho e)] false]) /\
    ((forall ls, e = CLabelsNotDefined ls -> monotone_on rho ls) ->
     cfg_error_loc (rn_cfgerr s rho e) = cfg_error_loc e).
Theorem C14_error : C14_error_statement.
Proof.
  intros s rho picks ns errs e Hs Hr E.
  destruct (run_items_err s rho Hs Hr picks ns errs e E) as [A B]. split; [exact A|]. split; [exact B|].
  apply cfg_error_loc_rn.
Qed.
Check C14_error : C14_error_statement.
Print Assumptions C14_error.

Definition C14_error_location_among_statement : Prop :=
  forall s rho ls, ls <> [] ->
    In (cfg_error_loc (rn_cfgerr s rho (CLabelsNotDefined ls))) (map (fun l => loc_of_tok (wt l)) ls).
Theorem C14_error_location_among : C14_error_location_among_statement.
Proof. exact cfg_error_loc_among. Qed.
Check C14_error_location_among : C14_error_location_among_statement.
Print Assumptions C14_error_location_among.

Definition C14_sorted_names_statement : Prop :=
  forall rho l, (forall a b, In a l -> In b l -> str_ltb (rho a) (rho b) = str_ltb a b) ->
    sort_names (map rho l) = map rho (sort_names l).
Theorem C14_sorted_names : C14_sorted_names_statement.
Proof. exact sort_names_rn. Qed.
Check C14_sorted_names : C14_sorted_names_statement.
Print Assumptions C14_sorted_names.

(* ---- examples ------------------------------------------------------------------------------------------------- *)
Fixpoint unlines (l : list str) : str := match l with [] => [] | x :: l' => x ++ [c_nl] ++ unlines l' end.

(* t0 <-> t6 and s1 <-> s11 *)
Definition ex_perm : perm := swap_perm 9 27 (swap_perm 5 31 id_perm).
Example C14_perm_example :
  valid_perm ex_perm = true /\ valid_perm id_perm = true /\
  map (sigma_of ex_perm) [5; 31; 9; 27; 0; 2; 10; 6; 18; 40] = [31; 5; 27; 9; 0; 2; 10; 6; 18; 40] /\
  valid_perm (swap_perm 5 9 id_perm) = false (* t0 <-> s1 mixes the classes *) /\
  valid_perm (swap_perm 10 11 id_perm) = false (* argument registers are not permuted *) /\
  perm_set (sigma_of ex_perm) (rs_of_list [5; 9; 10]) = rs_of_list [31; 27; 10].
Proof. vm_compute. repeat split; reflexivity. Qed.

Definition ex_text : str := unlines
  [ «"main:"»; «"    li t0, 1"»; «"    li t6, 2"»; «"    li s1, 3"»; «"    jal ra, f"»; «"    add a0, t0, zero"»;
    «"    add a1, t6, a0"»; «"    li a7, 10"»; «"    ecall"»;
    «"f:"»; «"    add s11, a0, s1"»; «"    ret"» ].

Definition code_of (d : ditem) : option lintcode := match dk d with DLint c => Some c | _ => None end.

(* the permuted program is a different program; its nine diagnostics are the original nine, with the two
   use-after-call findings (t0 at line 5, t6 at line 6: after the exchange t6 at line 5, t0 at line 6, and
   t0 is enumerated first) in the other order: F1 *)
Example C14_regs_example :
  match parse_from_text false ex_text with
  | Ok (n, e) =>
      map (rename_regs (sigma_of ex_perm)) n <> n /\
      match run_items [] n e, run_items [] (map (rename_regs (sigma_of ex_perm)) n) e with
      | Ok d, Ok d' =>
          map code_of d = [Some LDeadAssignment; Some LDeadAssignment; Some LDeadAssignment; Some LInvalidUseAfterCall;
                           Some LInvalidUseAfterCall; Some LDeadAssignment; Some LOverwriteCalleeSavedRegister;
                           Some LInvalidUseBeforeAssignment; Some LLostRegisterValue] /\
          match d with
          | [d0; d1; d2; d3; d4; d5; d6; d7; d8] => d' = [d0; d1; d2; d4; d3; d5; d6; d7; d8] /\ d3 <> d4
          | _ => False
          end
      | _, _ => False
      end
  | _ => False
  end.
Proof. vm_compute. repeat split; try reflexivity; discriminate. Qed.

Definition C14_order_counterexample_statement : Prop :=
  ~ (forall p picks ns errs, valid_perm p = true ->
       run_items picks (map (rename_regs (sigma_of p)) ns) errs = run_items picks ns errs).
Theorem C14_order_counterexample : C14_order_counterexample_statement.
Proof.
  intros H.
  destruct (parse_from_text false ex_text) as [[n e]| |] eqn:P; [|vm_compute in P; discriminate..].
  specialize (H ex_perm [] n e eq_refl).
  vm_compute in P. injection P as <- <-. vm_compute in H. discriminate H.
Qed.
Check C14_order_counterexample : C14_order_counterexample_statement.
Print Assumptions C14_order_counterexample.

(* the theorem applied to the example *)
Example C14_regs_example_thm :
  forall n e, parse_from_text false ex_text = Ok (n, e) ->
    exists items items', run_items [] n e = Ok items
                         /\ run_items [] (map (rename_regs (sigma_of ex_perm)) n) e = Ok items'
                         /\ Permutation items' items /\ length items = 9%nat.
Proof.
  intros n e P.
  destruct (gen_full_cfg [] n) as [[g|err]| |] eqn:G.
  - destruct (C14_regs_diagnostics ex_perm [] n e g eq_refl G) as [items [items' [A [B C]]]].
    exists items, items'. repeat split; try assumption.
    vm_compute in P. injection P as <- <-. vm_compute in A. injection A as <-. reflexivity.
  - vm_compute in P. injection P as <- <-. vm_compute in G. discriminate.
  - vm_compute in P. injection P as <- <-. vm_compute in G. discriminate.
  - vm_compute in P. injection P as <- <-. vm_compute in G. discriminate.
Qed.

(* labels: f <-> func, L <-> zz *)
Definition ex_rho (x : str) : str := swap_str «"f"» «"func"» (swap_str «"L"» «"zz"» x).
Definition exl_text : str := unlines
  [ «"main:"»; «"    li t0, 1"»; «"    jal ra, f"»; «"    add a0, t0, zero"»; «"    li a7, 10"»; «"    ecall"»;
    «"f:"»; «"    beq a1, zero, L"»; «"    add s1, a0, a0"»; «"    ret"»; «"L:"»; «"    ret"» ].

Lemma ex_rho_renaming : label_renaming ex_rho.
Proof.
  assert (A : label_renaming (swap_str «"f"» «"func"»)) by (apply swap_str_renaming; discriminate).
  assert (B : label_renaming (swap_str «"L"» «"zz"»)) by (apply swap_str_renaming; discriminate).
  constructor.
  - intros a b E. apply (lr_inj _ B), (lr_inj _ A), E.
  - unfold ex_rho. rewrite (lr_ret _ B). apply (lr_ret _ A).
Qed.

Example C14_labels_example :
  match parse_from_text false exl_text with
  | Ok (n, e) =>
      map (rename_labels ex_rho) n <> n /\
      match run_items [] n e, run_items [] (map (rename_labels ex_rho) n) e with
      | Ok d, Ok d' =>
          d' = d /\
          map code_of d = [Some LDeadAssignment; Some LInvalidUseAfterCall; Some LDeadAssignment;
                           Some LOverwriteCalleeSavedRegister; Some LLostRegisterValue]
      | _, _ => False
      end
  | _ => False
  end.
Proof. vm_compute. repeat split; try reflexivity; discriminate. Qed.

(* F2: a renaming that does not fix "<return>" (here g <-> <return>; it is injective) changes the
   diagnostics: the rewritten second return of f, `jal x0, <return>`, becomes a call of the renamed g, a0
   becomes live through f and the dead assignment `li a0, 5` is no longer reported *)
Definition f2_text : str := unlines
  [ «"main:"»; «"    li a0, 5"»; «"    jal ra, f"»; «"    li a0, 1"»; «"    jal ra, g"»; «"    li a7, 10"»; «"    ecall"»;
    «"f:"»; «"    beq a1, zero, L"»; «"    ret"»; «"L:"»; «"    ret"»;
    «"g:"»; «"    add a1, a0, a0"»; «"    ret"» ].
Definition f2_rho : str -> str := swap_str «"g"» «"<return>"».
Definition C14_return_name_counterexample_statement : Prop :=
  injective f2_rho /\
  match parse_from_text false f2_text with
  | Ok (n, e) =>
      match run_items [] n e, run_items [] (map (rename_labels f2_rho) n) e with
      | Ok d, Ok d' => map code_of d = [Some LDeadAssignment; Some LDeadAssignment] /\ map code_of d' = [Some LDeadAssignment]
      | _, _ => False
      end
  | _ => False
  end.
Theorem C14_return_name_counterexample : C14_return_name_counterexample_statement.
Proof. split; [apply swap_str_inj|]. vm_compute. split; reflexivity. Qed.
Check C14_return_name_counterexample : C14_return_name_counterexample_statement.
Print Assumptions C14_return_name_counterexample.

(* F3: two undefined labels and a renaming that reverses their order (alpha <-> zeta): the error is the renamed
   error but its location moves from the use of `alpha` (line 2) to the use of the new `alpha` (line 1) *)
Definition f3_text : str := unlines [ «"main:"»; «"    beq a0, zero, zeta"»; «"    j alpha"» ].
Definition f3_rho : str -> str := swap_str «"alpha"» «"zeta"».
Definition C14_error_location_counterexample_statement : Prop :=
  label_renaming f3_rho /\
  match parse_from_text false f3_text with
  | Ok (n, e) =>
      match run_items [] n e, run_items [] (map (rename_labels f3_rho) n) e with
      | Ok [d], Ok [d'] =>
          dk d' = rn_dkind (fun r => r) f3_rho (dk d) /\
          map (fun l => line (rstart (lrange l))) (dlocs d) = [2] /\
          map (fun l => line (rstart (lrange l))) (dlocs d') = [1]
      | _, _ => False
      end
  | _ => False
  end.
Theorem C14_error_location_counterexample : C14_error_location_counterexample_statement.
Proof. split; [apply swap_str_renaming; discriminate|]. vm_compute. repeat split; reflexivity. Qed.
Check C14_error_location_counterexample : C14_error_location_counterexample_statement.
Print Assumptions C14_error_location_counterexample.

(* the side conditions are needed: exchanging a temporary with a saved register (t0 <-> s1, rejected by
   valid_perm) changes the diagnostics (nine become six); a non-injective label renaming produces a
   duplicate-label error *)
Example C14_conditions_needed :
  valid_perm (swap_perm 5 9 id_perm) = false /\
  match parse_from_text false ex_text with
  | Ok (n, e) =>
      match run_items [] n e, run_items [] (map (rename_regs (sigma_of (swap_perm 5 9 id_perm))) n) e,
            run_items [] (map (rename_labels (fun _ => «"x"»)) n) e with
      | Ok d, Ok d', Ok d'' =>
          length d = 9%nat /\ length d' = 6%nat /\
          map (fun x => match dk x with DCfg (CDuplicateLabel _) => true | _ => false end) d'' = [true]
      | _, _, _ => False
      end
  | _ => False
  end.
Proof. vm_compute. repeat split; reflexivity. Qed.
