(* C17 — numeric literals mean what they say.  Statements only; proofs live in Proofs/. *)
From RV.Model Require Import Base I32 Imm.
From RV.Spec Require Import LitSpec.
From RV.Proofs Require Import ImmProofs.

(* The lexer only ever hands `Imm::from_str` a Symbol token, whose characters are ASCII
   letters, digits, '_' and '-' (Proofs/LexProofs.v: symbol_chars).  In particular it
   contains no '+' and no white space, the two things Rust's std parsers accept beyond
   the notation of the manual. *)
Definition symbol_char (c : char) : bool :=
  (is_ascii_lower c || is_ascii_upper c || is_ascii_digit c || N.eqb c c_under || N.eqb c c_minus)%bool.
Definition symbol_str (s : str) : Prop := forallb symbol_char s = true.

Definition C17_statement : Prop :=
  forall s : str, symbol_str s ->
    (* never crashes, in either build profile *)
    (exists r, imm_from_str s = Ok r) /\
    (* sound: an accepted literal denotes a value with a 32-bit representation, and the
       result is that value's two's-complement word *)
    (forall i, imm_from_str s = Ok (Some i) ->
       exists v n, lit_value s = Some (v, n) /\ fits32 v /\ i = wrap32 v /\
                   (2147483648 <= v -> n = Hex \/ n = Bin)) /\
    (* complete: every literal denoting a signed 32-bit value is accepted, and so is every
       hex or binary bit pattern up to 2^32-1 *)
    (forall v n, lit_value s = Some (v, n) ->
       (fits_i32 v \/ (fits32 v /\ (n = Hex \/ n = Bin))) -> imm_from_str s = Ok (Some (wrap32 v))) /\
    (* anything else - no denotation, or out of range - is rejected, not wrapped *)
    (lit_value s = None -> imm_from_str s = Ok None) /\
    (forall v n, lit_value s = Some (v, n) -> ~ fits32 v -> imm_from_str s = Ok None).

Theorem C17_imm_exact : C17_statement.
Proof. exact imm_exact. Qed.
Check C17_imm_exact : C17_statement.
Print Assumptions C17_imm_exact.

(* lui places a 20-bit literal in bits 31..12 and rejects anything wider *)
Definition C17_lui_statement : Prop :=
  forall v, in32 v ->
    (0 <= v < 2 ^ 20 -> lui_imm v = Some (wrap32 (v * 4096))) /\
    (~ (0 <= v < 2 ^ 20) -> lui_imm v = None).
Theorem C17_lui_exact : C17_lui_statement.
Proof. exact lui_exact. Qed.
Check C17_lui_exact : C17_lui_statement.
Print Assumptions C17_lui_exact.

(* CSR operands: a named CSR or a literal, read with the same exactness *)
Definition C17_csr_statement : Prop :=
  forall s, symbol_str s -> assoc_str (lower s) csr_names = None ->
    forall r, imm_from_str s = Ok r ->
      csrimm_from_str s = Ok (option_map to_u32 r).
Theorem C17_csr_exact : C17_csr_statement.
Proof. exact csr_exact. Qed.
Check C17_csr_exact : C17_csr_statement.
Print Assumptions C17_csr_exact.

(* non-vacuity *)
Example C17_examples :
  symbol_str «"-0x80000000"» /\ imm_from_str «"-0x80000000"» = Ok (Some (-2147483648)) /\
  imm_from_str «"-0x80000001"» = Ok None /\ imm_from_str «"0xFFFFFFFF"» = Ok (Some (-1)) /\
  imm_from_str «"-2147483648"» = Ok (Some (-2147483648)) /\ imm_from_str «"2147483648"» = Ok None /\
  imm_from_str «"0b101"» = Ok (Some 5) /\ imm_from_str «"1_0"» = Ok None /\
  lit_value «"-0x80000001"» = Some (-2147483649, Hex).
Proof. vm_compute. repeat split; reflexivity. Qed.
