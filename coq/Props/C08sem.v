(* C08sem - pseudo-instructions have the architectural effect the assembly manual describes.
   Statements only; proofs live in Proofs/PseudoSemProofs.v.

   Props/C13.v: a pseudo-instruction parses to the same node as its documented expansion.
   Props/C08.v: the base mnemonics carry the ISA's operation (C08_decode_tables).
   Here, the last step: the node the parser builds for `P operands` has, on the ISA machine of
   Spec/Rv32.v (`effect`, `rget`, `rset`, `regs_in32`), the effect that the manual's DESCRIPTION of P
   gives (Spec/PseudoSpec.v, plain functions on Z written from the manual, not from the expansion).
   A wrong expansion - e.g. `seqz` as the signed `slti rd, rs, 1`, which for rs = -5 gives 1 - makes
   the corresponding statement false (see the examples with a negative operand).

   Tokens and registers are quantified as in the C13_pseudo_P statements.  Each statement says
   (1) the operands parse, to a node n leaving `rest` unread, and (2) for EVERY node n the parse can
   return, every state s whose registers are 32-bit values and every state s' the machine can be in
   after executing n:  s' = rset s rd (PseudoSpec.P (rget s rs)).  Register x0: `rset s 0 v = s`, so
   for rd = x0 this says nothing changes; the third conjunct spells the registers of s' out through
   rget (x0 reads 0, rd reads the result unless it is x0, every other register is unchanged).

   Branch conditions: Spec/PcSpec.v already has the ISA-level condition of the six base branch
   mnemonics, `PcSpec.branch_holds : inst -> Z -> Z -> option bool` (C03dyn); it is used here, no
   new `branch_cond` is defined. *)
From RV.Model Require Import Base I32 Lexer Isa Parser Cfg Avail.
From RV.Spec Require Import SpellNodeSpec Rv32.
From RV.Spec Require FoldSpec PseudoSpec PcSpec.
From RV.Proofs Require Import SpellProofs PseudoSemProofs.
Open Scope Z_scope.

(* ============================================================================================== *)
(* register-to-register pseudo-instructions                                                       *)
(* ============================================================================================== *)

(* mv rd, rs   copies rs *)
Definition C08sem_mv_statement : Prop :=
  forall (addr_of : str -> Z) t0 t_rd t_rs rest raw rd rs,
  tok_reg_val t_rd = Some rd ->
  tok_reg_val t_rs = Some rs ->
  (exists n raw', parse_inst IMv t0 (LTok t_rd :: LTok t_rs :: rest, raw) = Ok (inr n, (rest, raw'))) /\
  forall n st', parse_inst IMv t0 (LTok t_rd :: LTok t_rs :: rest, raw) = Ok (inr n, st') ->
  forall s s', regs_in32 s -> effect addr_of n s s' ->
    s' = rset s rd (PseudoSpec.mv (rget s rs)) /\
    regs_in32 s' /\
    (forall r, rget s' r = if N.eqb r 0 then 0 else if N.eqb r rd then PseudoSpec.mv (rget s rs) else rget s r).
Theorem C08sem_mv : C08sem_mv_statement.
Proof. exact sem_mv. Qed.
Check C08sem_mv : C08sem_mv_statement.
Print Assumptions C08sem_mv.

(* neg rd, rs   two's complement of rs *)
Definition C08sem_neg_statement : Prop :=
  forall (addr_of : str -> Z) t0 t_rd t_rs rest raw rd rs,
  tok_reg_val t_rd = Some rd ->
  tok_reg_val t_rs = Some rs ->
  (exists n raw', parse_inst INeg t0 (LTok t_rd :: LTok t_rs :: rest, raw) = Ok (inr n, (rest, raw'))) /\
  forall n st', parse_inst INeg t0 (LTok t_rd :: LTok t_rs :: rest, raw) = Ok (inr n, st') ->
  forall s s', regs_in32 s -> effect addr_of n s s' ->
    s' = rset s rd (PseudoSpec.neg (rget s rs)) /\
    regs_in32 s' /\
    (forall r, rget s' r = if N.eqb r 0 then 0 else if N.eqb r rd then PseudoSpec.neg (rget s rs) else rget s r).
Theorem C08sem_neg : C08sem_neg_statement.
Proof. exact sem_neg. Qed.
Check C08sem_neg : C08sem_neg_statement.
Print Assumptions C08sem_neg.

(* not rd, rs   one's complement of rs *)
Definition C08sem_not_statement : Prop :=
  forall (addr_of : str -> Z) t0 t_rd t_rs rest raw rd rs,
  tok_reg_val t_rd = Some rd ->
  tok_reg_val t_rs = Some rs ->
  (exists n raw', parse_inst INot t0 (LTok t_rd :: LTok t_rs :: rest, raw) = Ok (inr n, (rest, raw'))) /\
  forall n st', parse_inst INot t0 (LTok t_rd :: LTok t_rs :: rest, raw) = Ok (inr n, st') ->
  forall s s', regs_in32 s -> effect addr_of n s s' ->
    s' = rset s rd (PseudoSpec.not (rget s rs)) /\
    regs_in32 s' /\
    (forall r, rget s' r = if N.eqb r 0 then 0 else if N.eqb r rd then PseudoSpec.not (rget s rs) else rget s r).
Theorem C08sem_not : C08sem_not_statement.
Proof. exact sem_not. Qed.
Check C08sem_not : C08sem_not_statement.
Print Assumptions C08sem_not.

(* seqz rd, rs   1 if rs = 0 else 0 *)
Definition C08sem_seqz_statement : Prop :=
  forall (addr_of : str -> Z) t0 t_rd t_rs rest raw rd rs,
  tok_reg_val t_rd = Some rd ->
  tok_reg_val t_rs = Some rs ->
  (exists n raw', parse_inst ISeqz t0 (LTok t_rd :: LTok t_rs :: rest, raw) = Ok (inr n, (rest, raw'))) /\
  forall n st', parse_inst ISeqz t0 (LTok t_rd :: LTok t_rs :: rest, raw) = Ok (inr n, st') ->
  forall s s', regs_in32 s -> effect addr_of n s s' ->
    s' = rset s rd (PseudoSpec.seqz (rget s rs)) /\
    regs_in32 s' /\
    (forall r, rget s' r = if N.eqb r 0 then 0 else if N.eqb r rd then PseudoSpec.seqz (rget s rs) else rget s r).
Theorem C08sem_seqz : C08sem_seqz_statement.
Proof. exact sem_seqz. Qed.
Check C08sem_seqz : C08sem_seqz_statement.
Print Assumptions C08sem_seqz.

(* snez rd, rs   1 if rs <> 0 else 0 *)
Definition C08sem_snez_statement : Prop :=
  forall (addr_of : str -> Z) t0 t_rd t_rs rest raw rd rs,
  tok_reg_val t_rd = Some rd ->
  tok_reg_val t_rs = Some rs ->
  (exists n raw', parse_inst ISnez t0 (LTok t_rd :: LTok t_rs :: rest, raw) = Ok (inr n, (rest, raw'))) /\
  forall n st', parse_inst ISnez t0 (LTok t_rd :: LTok t_rs :: rest, raw) = Ok (inr n, st') ->
  forall s s', regs_in32 s -> effect addr_of n s s' ->
    s' = rset s rd (PseudoSpec.snez (rget s rs)) /\
    regs_in32 s' /\
    (forall r, rget s' r = if N.eqb r 0 then 0 else if N.eqb r rd then PseudoSpec.snez (rget s rs) else rget s r).
Theorem C08sem_snez : C08sem_snez_statement.
Proof. exact sem_snez. Qed.
Check C08sem_snez : C08sem_snez_statement.
Print Assumptions C08sem_snez.

(* sltz rd, rs   1 if rs < 0 (signed) else 0 *)
Definition C08sem_sltz_statement : Prop :=
  forall (addr_of : str -> Z) t0 t_rd t_rs rest raw rd rs,
  tok_reg_val t_rd = Some rd ->
  tok_reg_val t_rs = Some rs ->
  (exists n raw', parse_inst ISltz t0 (LTok t_rd :: LTok t_rs :: rest, raw) = Ok (inr n, (rest, raw'))) /\
  forall n st', parse_inst ISltz t0 (LTok t_rd :: LTok t_rs :: rest, raw) = Ok (inr n, st') ->
  forall s s', regs_in32 s -> effect addr_of n s s' ->
    s' = rset s rd (PseudoSpec.sltz (rget s rs)) /\
    regs_in32 s' /\
    (forall r, rget s' r = if N.eqb r 0 then 0 else if N.eqb r rd then PseudoSpec.sltz (rget s rs) else rget s r).
Theorem C08sem_sltz : C08sem_sltz_statement.
Proof. exact sem_sltz. Qed.
Check C08sem_sltz : C08sem_sltz_statement.
Print Assumptions C08sem_sltz.

(* sgtz rd, rs   1 if rs > 0 (signed) else 0 *)
Definition C08sem_sgtz_statement : Prop :=
  forall (addr_of : str -> Z) t0 t_rd t_rs rest raw rd rs,
  tok_reg_val t_rd = Some rd ->
  tok_reg_val t_rs = Some rs ->
  (exists n raw', parse_inst ISgtz t0 (LTok t_rd :: LTok t_rs :: rest, raw) = Ok (inr n, (rest, raw'))) /\
  forall n st', parse_inst ISgtz t0 (LTok t_rd :: LTok t_rs :: rest, raw) = Ok (inr n, st') ->
  forall s s', regs_in32 s -> effect addr_of n s s' ->
    s' = rset s rd (PseudoSpec.sgtz (rget s rs)) /\
    regs_in32 s' /\
    (forall r, rget s' r = if N.eqb r 0 then 0 else if N.eqb r rd then PseudoSpec.sgtz (rget s rs) else rget s r).
Theorem C08sem_sgtz : C08sem_sgtz_statement.
Proof. exact sem_sgtz. Qed.
Check C08sem_sgtz : C08sem_sgtz_statement.
Print Assumptions C08sem_sgtz.

(* ---- examples: `P a0, t1` executed in the state where t1 = x (all other registers 0):
   the statement parses to a node n, the state is a 32-bit state, n can execute, and after every
   execution a0 = expect, t1 = x, x0 = 0.
     unary_example P name x expect :=
       forall addr_of, exists n st',
         parse_inst P (sym name) ([LTok (sym "a0"); LTok (sym "t1"); LTok nl], None) = Ok (inr n, st') /\
         regs_in32 (st_of [(6, x)]) /\ (exists s', effect addr_of n (st_of [(6, x)]) s') /\
         forall s', effect addr_of n (st_of [(6, x)]) s' -> rget s' 10 = expect /\ rget s' 6 = x /\ rget s' 0 = 0 *)
Example C08sem_mv_ex : unary_example IMv «"x"» (-5) (-5).           Proof. exact mv_ex. Qed.
Example C08sem_neg_ex : unary_example INeg «"x"» 5 (-5).            Proof. exact neg_ex. Qed.
Example C08sem_neg_min_ex : unary_example INeg «"x"» (-2147483648) (-2147483648).  Proof. exact neg_min_ex. Qed.
Example C08sem_not_ex : unary_example INot «"x"» (-5) 4.            Proof. exact not_ex. Qed.
Example C08sem_not_zero_ex : unary_example INot «"x"» 0 (-1).       Proof. exact not_zero_ex. Qed.
(* NEGATIVE operands: a signed compare in place of the unsigned one (seqz as slti) would give 1 *)
Example C08sem_seqz_neg_ex : unary_example ISeqz «"x"» (-5) 0.      Proof. exact seqz_neg_ex. Qed.
Example C08sem_seqz_zero_ex : unary_example ISeqz «"x"» 0 1.        Proof. exact seqz_zero_ex. Qed.
Example C08sem_snez_neg_ex : unary_example ISnez «"x"» (-5) 1.      Proof. exact snez_neg_ex. Qed.
Example C08sem_snez_zero_ex : unary_example ISnez «"x"» 0 0.        Proof. exact snez_zero_ex. Qed.
(* an unsigned compare in place of the signed one would give 0 resp. 1 *)
Example C08sem_sltz_neg_ex : unary_example ISltz «"x"» (-5) 1.      Proof. exact sltz_neg_ex. Qed.
Example C08sem_sltz_pos_ex : unary_example ISltz «"x"» 5 0.         Proof. exact sltz_pos_ex. Qed.
Example C08sem_sgtz_neg_ex : unary_example ISgtz «"x"» (-5) 0.      Proof. exact sgtz_neg_ex. Qed.
Example C08sem_sgtz_pos_ex : unary_example ISgtz «"x"» 5 1.         Proof. exact sgtz_pos_ex. Qed.
(* destination x0: `seqz zero, t1` with t1 = 0 would write 1 - the state does not change *)
Example C08sem_seqz_x0_ex :
  forall addr_of : str -> Z, exists n st',
    parse_inst ISeqz (sym «"x"») ([LTok (sym «"zero"»); LTok (sym «"t1"»); LTok nl], None) = Ok (inr n, st') /\
    (exists s', effect addr_of n (st_of [(6%N, 0)]) s') /\
    forall s', effect addr_of n (st_of [(6%N, 0)]) s' -> s' = st_of [(6%N, 0)] /\ rget s' 0 = 0.
Proof. exact seqz_x0_ex. Qed.

(* the manual's results are again 32-bit values (in particular the one's complement Z.lnot x) *)
Definition C08sem_results_in32_statement : Prop :=
  forall x, in32 x ->
  in32 (PseudoSpec.mv x) /\ in32 (PseudoSpec.neg x) /\ in32 (PseudoSpec.not x) /\
  in32 (PseudoSpec.seqz x) /\ in32 (PseudoSpec.snez x) /\ in32 (PseudoSpec.sltz x) /\ in32 (PseudoSpec.sgtz x).
Theorem C08sem_results_in32 : C08sem_results_in32_statement.
Proof. exact pseudo_results_in32. Qed.
Check C08sem_results_in32 : C08sem_results_in32_statement.
Print Assumptions C08sem_results_in32.

(* the seeded defect `seqz rd, rs = slti rd, rs, 1` (a signed compare) is told apart from the manual's
   seqz by rs = -5; likewise an unsigned compare in sltz / sgtz *)
Example C08sem_wrong_expansions_differ :
  FoldSpec.eval FoldSpec.Slt (-5) 1 = 1 /\ PseudoSpec.seqz (-5) = 0 /\
  FoldSpec.eval FoldSpec.Sltu (-5) 0 = 0 /\ PseudoSpec.sltz (-5) = 1 /\
  FoldSpec.eval FoldSpec.Sltu 0 (-5) = 1 /\ PseudoSpec.sgtz (-5) = 0.
Proof. exact wrong_expansions_differ. Qed.

(* ============================================================================================== *)
(* li and nop                                                                                     *)
(* ============================================================================================== *)
(* li rd, imm   loads the immediate.  `li` is parsed into ONE node (addi rd, x0, imm) for every
   immediate the token reader accepts.  ADDED hypothesis in32 z: every immediate written as a symbol
   is a 32-bit value (C08sem_imm_symbol_in32 below), but the token type of the model also admits a
   character token with an arbitrary code, e.g. 2^32 - then the machine writes 0, not 2^32
   (C08sem_li_needs_in32).  Without the hypothesis the register receives wrap32 z (C08sem_li_wrap). *)
Definition C08sem_li_statement : Prop :=
  forall (addr_of : str -> Z) t0 t_rd t_z rest raw rd z,
  tok_reg_val t_rd = Some rd ->
  tok_imm_val t_z = Ok (Some z) ->
  in32 z ->
  (exists n raw', parse_inst ILi t0 (LTok t_rd :: LTok t_z :: rest, raw) = Ok (inr n, (rest, raw'))) /\
  forall n st', parse_inst ILi t0 (LTok t_rd :: LTok t_z :: rest, raw) = Ok (inr n, st') ->
  forall s s', regs_in32 s -> effect addr_of n s s' ->
    s' = rset s rd (PseudoSpec.li z) /\
    regs_in32 s' /\
    (forall r, rget s' r = if N.eqb r 0 then 0 else if N.eqb r rd then PseudoSpec.li z else rget s r).
Theorem C08sem_li : C08sem_li_statement.
Proof. exact sem_li. Qed.
Check C08sem_li : C08sem_li_statement.
Print Assumptions C08sem_li.

Definition C08sem_li_wrap_statement : Prop :=
  forall (addr_of : str -> Z) t0 t_rd t_z rest raw rd z,
  tok_reg_val t_rd = Some rd ->
  tok_imm_val t_z = Ok (Some z) ->
  forall n st', parse_inst ILi t0 (LTok t_rd :: LTok t_z :: rest, raw) = Ok (inr n, st') ->
  forall s s', effect addr_of n s s' -> s' = rset s rd (wrap32 z).
Theorem C08sem_li_wrap : C08sem_li_wrap_statement.
Proof. exact sem_li_wrap. Qed.
Check C08sem_li_wrap : C08sem_li_wrap_statement.
Print Assumptions C08sem_li_wrap.

(* the added hypothesis holds for every immediate written as a symbol; the only other immediate
   token is a character literal, whose value is its code *)
Definition C08sem_imm_symbol_in32_statement : Prop :=
  (forall t s z, tt t = TSymbol s -> tok_imm_val t = Ok (Some z) -> in32 z) /\
  (forall t z, tok_imm_val t = Ok (Some z) ->
     (exists s, tt t = TSymbol s) \/ (exists c, tt t = TChar c /\ z = Z.of_N c)).
Theorem C08sem_imm_symbol_in32 : C08sem_imm_symbol_in32_statement.
Proof. exact (conj imm_val_symbol_in32 imm_val_cases). Qed.
Check C08sem_imm_symbol_in32 : C08sem_imm_symbol_in32_statement.
Print Assumptions C08sem_imm_symbol_in32.

(* COUNTEREXAMPLE to C08sem_li without in32 z *)
Example C08sem_li_needs_in32 :
  let t := mktok (TChar 4294967296%N) range0 None in
  tok_imm_val t = Ok (Some 4294967296) /\ ~ in32 4294967296 /\
  forall addr_of : str -> Z, exists n st',
    parse_inst ILi (sym «"x"») ([LTok (sym «"a0"»); LTok t; LTok nl], None) = Ok (inr n, st') /\
    forall s s', effect addr_of n s s' -> s' = rset s 10 0 /\ rset s 10 0 <> rset s 10 (PseudoSpec.li 4294967296).
Proof. exact li_needs_in32. Qed.

(* `li a0, lit` in the state where a0 = 7: the literal reads as z, z is a 32-bit value, the node can
   execute and afterwards a0 = z
     li_example lit z := forall addr_of, exists n st',
       parse_inst ILi (sym "x") ([LTok (sym "a0"); LTok (sym lit); LTok nl], None) = Ok (inr n, st') /\
       tok_imm_val (sym lit) = Ok (Some z) /\ in32 z /\ (exists s', effect addr_of n (st_of [(10, 7)]) s') /\
       forall s', effect addr_of n (st_of [(10, 7)]) s' -> rget s' 10 = z /\ rget s' 0 = 0 *)
Example C08sem_li_hex_ex : li_example «"0x10"» 16.                   Proof. exact li_hex_ex. Qed.
Example C08sem_li_neg_ex : li_example «"-1"» (-1).                   Proof. exact li_neg_ex. Qed.
Example C08sem_li_allones_ex : li_example «"0xffffffff"» (-1).       Proof. exact li_allones_ex. Qed.
Example C08sem_li_min_ex : li_example «"-2147483648"» (-2147483648). Proof. exact li_min_ex. Qed.

(* nop   changes nothing (no hypothesis on the state) *)
Definition C08sem_nop_statement : Prop :=
  forall (addr_of : str -> Z) t0 rest raw,
  (exists n raw', parse_inst INop t0 (rest, raw) = Ok (inr n, (rest, raw'))) /\
  forall n st', parse_inst INop t0 (rest, raw) = Ok (inr n, st') ->
  forall s s', effect addr_of n s s' -> s' = s.
Theorem C08sem_nop : C08sem_nop_statement.
Proof. exact sem_nop. Qed.
Check C08sem_nop : C08sem_nop_statement.
Print Assumptions C08sem_nop.
Example C08sem_nop_ex :
  forall addr_of : str -> Z, exists n st',
    parse_inst INop (sym «"x"») ([LTok nl], None) = Ok (inr n, st') /\
    (exists s', effect addr_of n (st_of [(10%N, 7)]) s') /\
    forall s', effect addr_of n (st_of [(10%N, 7)]) s' -> s' = st_of [(10%N, 7)].
Proof. exact nop_ex. Qed.

(* ============================================================================================== *)
(* branch pseudo-instructions                                                                     *)
(* ============================================================================================== *)
(* The operands parse; every node the parse can return is a PBranch to the written label whose ISA
   branch condition (PcSpec.branch_holds on its mnemonic and the values of its two operand registers
   in ANY state s - no 32-bit hypothesis is needed) is the manual's condition on the value of rs
   (and rt); executing the node changes nothing. *)

(* beqz rs, l   taken iff rs = 0 *)
Definition C08sem_beqz_statement : Prop :=
  forall (addr_of : str -> Z) t0 t_rs t_l rest raw rs l,
  tok_reg_val t_rs = Some rs ->
  tok_label_val t_l = Some l ->
  (exists n raw', parse_inst IBeqz t0 (LTok t_rs :: LTok t_l :: rest, raw) = Ok (inr n, (rest, raw'))) /\
  forall n st', parse_inst IBeqz t0 (LTok t_rs :: LTok t_l :: rest, raw) = Ok (inr n, st') ->
  exists i rs1 rs2 lbl rt,
    n = PBranch i rs1 rs2 lbl rt /\ wv lbl = l /\
    (forall s, PcSpec.branch_holds (wv i) (rget s (wv rs1)) (rget s (wv rs2)) = Some (PseudoSpec.beqz (rget s rs))) /\
    (forall s s', effect addr_of n s s' -> s' = s).
Theorem C08sem_beqz : C08sem_beqz_statement.
Proof. exact sem_beqz. Qed.
Check C08sem_beqz : C08sem_beqz_statement.
Print Assumptions C08sem_beqz.

(* bnez rs, l   taken iff rs <> 0 *)
Definition C08sem_bnez_statement : Prop :=
  forall (addr_of : str -> Z) t0 t_rs t_l rest raw rs l,
  tok_reg_val t_rs = Some rs ->
  tok_label_val t_l = Some l ->
  (exists n raw', parse_inst IBnez t0 (LTok t_rs :: LTok t_l :: rest, raw) = Ok (inr n, (rest, raw'))) /\
  forall n st', parse_inst IBnez t0 (LTok t_rs :: LTok t_l :: rest, raw) = Ok (inr n, st') ->
  exists i rs1 rs2 lbl rt,
    n = PBranch i rs1 rs2 lbl rt /\ wv lbl = l /\
    (forall s, PcSpec.branch_holds (wv i) (rget s (wv rs1)) (rget s (wv rs2)) = Some (PseudoSpec.bnez (rget s rs))) /\
    (forall s s', effect addr_of n s s' -> s' = s).
Theorem C08sem_bnez : C08sem_bnez_statement.
Proof. exact sem_bnez. Qed.
Check C08sem_bnez : C08sem_bnez_statement.
Print Assumptions C08sem_bnez.

(* bltz rs, l   taken iff rs < 0 *)
Definition C08sem_bltz_statement : Prop :=
  forall (addr_of : str -> Z) t0 t_rs t_l rest raw rs l,
  tok_reg_val t_rs = Some rs ->
  tok_label_val t_l = Some l ->
  (exists n raw', parse_inst IBltz t0 (LTok t_rs :: LTok t_l :: rest, raw) = Ok (inr n, (rest, raw'))) /\
  forall n st', parse_inst IBltz t0 (LTok t_rs :: LTok t_l :: rest, raw) = Ok (inr n, st') ->
  exists i rs1 rs2 lbl rt,
    n = PBranch i rs1 rs2 lbl rt /\ wv lbl = l /\
    (forall s, PcSpec.branch_holds (wv i) (rget s (wv rs1)) (rget s (wv rs2)) = Some (PseudoSpec.bltz (rget s rs))) /\
    (forall s s', effect addr_of n s s' -> s' = s).
Theorem C08sem_bltz : C08sem_bltz_statement.
Proof. exact sem_bltz. Qed.
Check C08sem_bltz : C08sem_bltz_statement.
Print Assumptions C08sem_bltz.

(* bgez rs, l   taken iff rs >= 0 *)
Definition C08sem_bgez_statement : Prop :=
  forall (addr_of : str -> Z) t0 t_rs t_l rest raw rs l,
  tok_reg_val t_rs = Some rs ->
  tok_label_val t_l = Some l ->
  (exists n raw', parse_inst IBgez t0 (LTok t_rs :: LTok t_l :: rest, raw) = Ok (inr n, (rest, raw'))) /\
  forall n st', parse_inst IBgez t0 (LTok t_rs :: LTok t_l :: rest, raw) = Ok (inr n, st') ->
  exists i rs1 rs2 lbl rt,
    n = PBranch i rs1 rs2 lbl rt /\ wv lbl = l /\
    (forall s, PcSpec.branch_holds (wv i) (rget s (wv rs1)) (rget s (wv rs2)) = Some (PseudoSpec.bgez (rget s rs))) /\
    (forall s s', effect addr_of n s s' -> s' = s).
Theorem C08sem_bgez : C08sem_bgez_statement.
Proof. exact sem_bgez. Qed.
Check C08sem_bgez : C08sem_bgez_statement.
Print Assumptions C08sem_bgez.

(* bgtz rs, l   taken iff rs > 0 *)
Definition C08sem_bgtz_statement : Prop :=
  forall (addr_of : str -> Z) t0 t_rs t_l rest raw rs l,
  tok_reg_val t_rs = Some rs ->
  tok_label_val t_l = Some l ->
  (exists n raw', parse_inst IBgtz t0 (LTok t_rs :: LTok t_l :: rest, raw) = Ok (inr n, (rest, raw'))) /\
  forall n st', parse_inst IBgtz t0 (LTok t_rs :: LTok t_l :: rest, raw) = Ok (inr n, st') ->
  exists i rs1 rs2 lbl rt,
    n = PBranch i rs1 rs2 lbl rt /\ wv lbl = l /\
    (forall s, PcSpec.branch_holds (wv i) (rget s (wv rs1)) (rget s (wv rs2)) = Some (PseudoSpec.bgtz (rget s rs))) /\
    (forall s s', effect addr_of n s s' -> s' = s).
Theorem C08sem_bgtz : C08sem_bgtz_statement.
Proof. exact sem_bgtz. Qed.
Check C08sem_bgtz : C08sem_bgtz_statement.
Print Assumptions C08sem_bgtz.

(* blez rs, l   taken iff rs <= 0 *)
Definition C08sem_blez_statement : Prop :=
  forall (addr_of : str -> Z) t0 t_rs t_l rest raw rs l,
  tok_reg_val t_rs = Some rs ->
  tok_label_val t_l = Some l ->
  (exists n raw', parse_inst IBlez t0 (LTok t_rs :: LTok t_l :: rest, raw) = Ok (inr n, (rest, raw'))) /\
  forall n st', parse_inst IBlez t0 (LTok t_rs :: LTok t_l :: rest, raw) = Ok (inr n, st') ->
  exists i rs1 rs2 lbl rt,
    n = PBranch i rs1 rs2 lbl rt /\ wv lbl = l /\
    (forall s, PcSpec.branch_holds (wv i) (rget s (wv rs1)) (rget s (wv rs2)) = Some (PseudoSpec.blez (rget s rs))) /\
    (forall s s', effect addr_of n s s' -> s' = s).
Theorem C08sem_blez : C08sem_blez_statement.
Proof. exact sem_blez. Qed.
Check C08sem_blez : C08sem_blez_statement.
Print Assumptions C08sem_blez.

(* bgt rs, rt, l   taken iff rs > rt, signed *)
Definition C08sem_bgt_statement : Prop :=
  forall (addr_of : str -> Z) t0 t_rs t_rt t_l rest raw rs rt l,
  tok_reg_val t_rs = Some rs ->
  tok_reg_val t_rt = Some rt ->
  tok_label_val t_l = Some l ->
  (exists n raw', parse_inst IBgt t0 (LTok t_rs :: LTok t_rt :: LTok t_l :: rest, raw) = Ok (inr n, (rest, raw'))) /\
  forall n st', parse_inst IBgt t0 (LTok t_rs :: LTok t_rt :: LTok t_l :: rest, raw) = Ok (inr n, st') ->
  exists i rs1 rs2 lbl rt',
    n = PBranch i rs1 rs2 lbl rt' /\ wv lbl = l /\
    (forall s, PcSpec.branch_holds (wv i) (rget s (wv rs1)) (rget s (wv rs2)) = Some (PseudoSpec.bgt (rget s rs) (rget s rt))) /\
    (forall s s', effect addr_of n s s' -> s' = s).
Theorem C08sem_bgt : C08sem_bgt_statement.
Proof. exact sem_bgt. Qed.
Check C08sem_bgt : C08sem_bgt_statement.
Print Assumptions C08sem_bgt.

(* ble rs, rt, l   taken iff rs <= rt, signed *)
Definition C08sem_ble_statement : Prop :=
  forall (addr_of : str -> Z) t0 t_rs t_rt t_l rest raw rs rt l,
  tok_reg_val t_rs = Some rs ->
  tok_reg_val t_rt = Some rt ->
  tok_label_val t_l = Some l ->
  (exists n raw', parse_inst IBle t0 (LTok t_rs :: LTok t_rt :: LTok t_l :: rest, raw) = Ok (inr n, (rest, raw'))) /\
  forall n st', parse_inst IBle t0 (LTok t_rs :: LTok t_rt :: LTok t_l :: rest, raw) = Ok (inr n, st') ->
  exists i rs1 rs2 lbl rt',
    n = PBranch i rs1 rs2 lbl rt' /\ wv lbl = l /\
    (forall s, PcSpec.branch_holds (wv i) (rget s (wv rs1)) (rget s (wv rs2)) = Some (PseudoSpec.ble (rget s rs) (rget s rt))) /\
    (forall s s', effect addr_of n s s' -> s' = s).
Theorem C08sem_ble : C08sem_ble_statement.
Proof. exact sem_ble. Qed.
Check C08sem_ble : C08sem_ble_statement.
Print Assumptions C08sem_ble.

(* bgtu rs, rt, l   taken iff rs > rt, unsigned *)
Definition C08sem_bgtu_statement : Prop :=
  forall (addr_of : str -> Z) t0 t_rs t_rt t_l rest raw rs rt l,
  tok_reg_val t_rs = Some rs ->
  tok_reg_val t_rt = Some rt ->
  tok_label_val t_l = Some l ->
  (exists n raw', parse_inst IBgtu t0 (LTok t_rs :: LTok t_rt :: LTok t_l :: rest, raw) = Ok (inr n, (rest, raw'))) /\
  forall n st', parse_inst IBgtu t0 (LTok t_rs :: LTok t_rt :: LTok t_l :: rest, raw) = Ok (inr n, st') ->
  exists i rs1 rs2 lbl rt',
    n = PBranch i rs1 rs2 lbl rt' /\ wv lbl = l /\
    (forall s, PcSpec.branch_holds (wv i) (rget s (wv rs1)) (rget s (wv rs2)) = Some (PseudoSpec.bgtu (rget s rs) (rget s rt))) /\
    (forall s s', effect addr_of n s s' -> s' = s).
Theorem C08sem_bgtu : C08sem_bgtu_statement.
Proof. exact sem_bgtu. Qed.
Check C08sem_bgtu : C08sem_bgtu_statement.
Print Assumptions C08sem_bgtu.

(* bleu rs, rt, l   taken iff rs <= rt, unsigned *)
Definition C08sem_bleu_statement : Prop :=
  forall (addr_of : str -> Z) t0 t_rs t_rt t_l rest raw rs rt l,
  tok_reg_val t_rs = Some rs ->
  tok_reg_val t_rt = Some rt ->
  tok_label_val t_l = Some l ->
  (exists n raw', parse_inst IBleu t0 (LTok t_rs :: LTok t_rt :: LTok t_l :: rest, raw) = Ok (inr n, (rest, raw'))) /\
  forall n st', parse_inst IBleu t0 (LTok t_rs :: LTok t_rt :: LTok t_l :: rest, raw) = Ok (inr n, st') ->
  exists i rs1 rs2 lbl rt',
    n = PBranch i rs1 rs2 lbl rt' /\ wv lbl = l /\
    (forall s, PcSpec.branch_holds (wv i) (rget s (wv rs1)) (rget s (wv rs2)) = Some (PseudoSpec.bleu (rget s rs) (rget s rt))) /\
    (forall s s', effect addr_of n s s' -> s' = s).
Theorem C08sem_bleu : C08sem_bleu_statement.
Proof. exact sem_bleu. Qed.
Check C08sem_bleu : C08sem_bleu_statement.
Print Assumptions C08sem_bleu.

(* examples: `P t1, loop` with t1 = x resp. `P t1, s2, loop` with t1 = x, s2 = y parse to a branch to
   `loop` whose condition evaluates to `taken`
     branch1_example P x taken := exists n st',
       parse_inst P (sym "x") ([LTok (sym "t1"); LTok (sym "loop"); LTok nl], None) = Ok (inr n, st') /\
       match n with PBranch i a b l _ => wv l = "loop" /\
         PcSpec.branch_holds (wv i) (rget (st_of [(6, x)]) (wv a)) (rget (st_of [(6, x)]) (wv b)) = Some taken
       | _ => False end
     branch2_example: the same with tokens t1, s2, loop and the state st_of [(6, x); (18, y)] *)
Example C08sem_beqz_neg_ex : branch1_example IBeqz (-5) false.  Proof. exact beqz_neg_ex. Qed.
Example C08sem_beqz_zero_ex : branch1_example IBeqz 0 true.     Proof. exact beqz_zero_ex. Qed.
Example C08sem_bnez_neg_ex : branch1_example IBnez (-5) true.   Proof. exact bnez_neg_ex. Qed.
Example C08sem_bltz_neg_ex : branch1_example IBltz (-5) true.   Proof. exact bltz_neg_ex. Qed.
Example C08sem_bgez_neg_ex : branch1_example IBgez (-5) false.  Proof. exact bgez_neg_ex. Qed.
Example C08sem_bgez_zero_ex : branch1_example IBgez 0 true.     Proof. exact bgez_zero_ex. Qed.
Example C08sem_bgtz_neg_ex : branch1_example IBgtz (-5) false.  Proof. exact bgtz_neg_ex. Qed.
Example C08sem_bgtz_pos_ex : branch1_example IBgtz 5 true.      Proof. exact bgtz_pos_ex. Qed.
Example C08sem_blez_neg_ex : branch1_example IBlez (-5) true.   Proof. exact blez_neg_ex. Qed.
Example C08sem_blez_zero_ex : branch1_example IBlez 0 true.     Proof. exact blez_zero_ex. Qed.
(* t1 = -1 (unsigned 2^32-1), s2 = 1: the signed and the unsigned forms disagree *)
Example C08sem_bgt_ex : branch2_example IBgt (-1) 1 false.      Proof. exact bgt_ex. Qed.
Example C08sem_ble_ex : branch2_example IBle (-1) 1 true.       Proof. exact ble_ex. Qed.
Example C08sem_bgtu_ex : branch2_example IBgtu (-1) 1 true.     Proof. exact bgtu_ex. Qed.
Example C08sem_bleu_ex : branch2_example IBleu (-1) 1 false.    Proof. exact bleu_ex. Qed.

(* ============================================================================================== *)
(* summary                                                                                        *)
(* ============================================================================================== *)
Definition C08sem_pseudo_table_statement : Prop :=

  C08sem_mv_statement /\
  C08sem_neg_statement /\
  C08sem_not_statement /\
  C08sem_seqz_statement /\
  C08sem_snez_statement /\
  C08sem_sltz_statement /\
  C08sem_sgtz_statement /\
  C08sem_li_statement /\
  C08sem_nop_statement /\
  C08sem_beqz_statement /\
  C08sem_bnez_statement /\
  C08sem_bltz_statement /\
  C08sem_bgez_statement /\
  C08sem_bgtz_statement /\
  C08sem_blez_statement /\
  C08sem_bgt_statement /\
  C08sem_ble_statement /\
  C08sem_bgtu_statement /\
  C08sem_bleu_statement.
Theorem C08sem_pseudo_table : C08sem_pseudo_table_statement.
Proof.
  exact (conj C08sem_mv (conj C08sem_neg (conj C08sem_not (conj C08sem_seqz (conj C08sem_snez (conj C08sem_sltz (conj C08sem_sgtz (conj C08sem_li (conj C08sem_nop (conj C08sem_beqz (conj C08sem_bnez (conj C08sem_bltz (conj C08sem_bgez (conj C08sem_bgtz (conj C08sem_blez (conj C08sem_bgt (conj C08sem_ble (conj C08sem_bgtu C08sem_bleu)))))))))))))))))).
Qed.
Check C08sem_pseudo_table : C08sem_pseudo_table_statement.
Print Assumptions C08sem_pseudo_table.
