(* C08 — constant folding follows RV32IM; decode tables.  Statements only; proofs live in
   Proofs/. *)
From RV.Model Require Import Base I32.
From RV.Spec Require FoldSpec.
From RV.Proofs Require Import FoldProofs.

Definition spec_op (o : mathop) : FoldSpec.op :=
  match o with
  | MAdd => FoldSpec.Add | MAnd => FoldSpec.And | MOr => FoldSpec.Or | MSll => FoldSpec.Sll
  | MSlt => FoldSpec.Slt | MSltu => FoldSpec.Sltu | MSra => FoldSpec.Sra | MSrl => FoldSpec.Srl
  | MSub => FoldSpec.Sub | MXor => FoldSpec.Xor | MMul => FoldSpec.Mul | MMulh => FoldSpec.Mulh
  | MMulhsu => FoldSpec.Mulhsu | MMulhu => FoldSpec.Mulhu | MDiv => FoldSpec.Div
  | MDivu => FoldSpec.Divu | MRem => FoldSpec.Rem | MRemu => FoldSpec.Remu
  end.

(* For all 18 operators and all 2^64 operand pairs the folded constant is the ISA's result,
   and it is again a 32-bit value. *)
Definition C08_fold_statement : Prop :=
  forall (o : mathop) (x y : Z), in32 x -> in32 y ->
    operate o x y = FoldSpec.eval (spec_op o) x y /\ in32 (operate o x y).

Theorem C08_fold_correct : C08_fold_statement.
Proof. exact fold_correct. Qed.
Check C08_fold_correct : C08_fold_statement.
Print Assumptions C08_fold_correct.

(* non-vacuity: boundary operands satisfy the hypotheses, and the interesting cases compute *)
Example C08_fold_examples :
  in32 i32_min /\ in32 (-1) /\
  operate MDiv i32_min (-1) = i32_min /\ operate MRem i32_min (-1) = 0 /\
  operate MMulhu (-1) (-1) = -2 /\ operate MMulhsu 2 (-1) = 1 /\
  operate MSll 1 33 = 2 /\ operate MSra (-8) 33 = -4 /\ operate MAdd i32_max 1 = i32_min.
Proof. unfold in32, i32_min, i32_max. vm_compute. repeat split; congruence. Qed.
