(* C08 — constant folding follows RV32IM; decode tables.  Statements only; proofs live in
   Proofs/. *)
From RV.Model Require Import Base I32.
From RV.Spec Require FoldSpec.
From RV.Model Require Import Lexer Isa Parser Cfg Avail.
From RV.Spec Require AsmSpec Rv32.
From RV.Proofs Require Import FoldProofs DecodeProofs.
From Coq Require Import List.

Definition spec_op (o : mathop) : FoldSpec.op :=
  match o with
  | MAdd => FoldSpec.Add | MAnd => FoldSpec.And | MOr => FoldSpec.Or | MSll => FoldSpec.Sll
  | MSlt => FoldSpec.Slt | MSltu => FoldSpec.Sltu | MSra => FoldSpec.Sra | MSrl => FoldSpec.Srl
  | MSub => FoldSpec.Sub | MXor => FoldSpec.Xor | MMul => FoldSpec.Mul | MMulh => FoldSpec.Mulh
  | MMulhsu => FoldSpec.Mulhsu | MMulhu => FoldSpec.Mulhu | MDiv => FoldSpec.Div
  | MDivu => FoldSpec.Divu | MRem => FoldSpec.Rem | MRemu => FoldSpec.Remu
  end.

(* For all 18 operators and all 2^64 operand pairs the folded constant is the ISA's result,
   and it is again a 32-bit value. *)
Definition C08_fold_statement : Prop :=
  forall (o : mathop) (x y : Z), in32 x -> in32 y ->
    operate o x y = FoldSpec.eval (spec_op o) x y /\ in32 (operate o x y).

Theorem C08_fold_correct : C08_fold_statement.
Proof. exact fold_correct. Qed.
Check C08_fold_correct : C08_fold_statement.
Print Assumptions C08_fold_correct.

(* non-vacuity: boundary operands satisfy the hypotheses, and the interesting cases compute *)
Example C08_fold_examples :
  in32 i32_min /\ in32 (-1) /\
  operate MDiv i32_min (-1) = i32_min /\ operate MRem i32_min (-1) = 0 /\
  operate MMulhu (-1) (-1) = -2 /\ operate MMulhsu 2 (-1) = 1 /\
  operate MSll 1 33 = 2 /\ operate MSra (-8) 33 = -4 /\ operate MAdd i32_max 1 = i32_min.
Proof. unfold in32, i32_min, i32_max. vm_compute. repeat split; congruence. Qed.

(* Decode tables.  For every register-register / register-immediate mnemonic of RV32IM (the manual's table in
   Spec/AsmSpec.v) the parser recognises the mnemonic - in any letter case - and both the value analysis (math_op,
   whose result is folded by `operate` above) and the ISA machine of C01 attach the manual's operation to it; every
   load/store mnemonic has the manual's width and signedness.  (Operand forms and pseudo-instructions: Props/C13.v
   and the exhaustive decode comparison of the check.) *)
Definition C08_decode_statement : Prop :=
  (forall m o, In (m, o) AsmSpec.manual_arith ->
     exists i mo, inst_from_str m = Some i /\ math_op i = Some mo /\ Rv32.spec_of mo = o /\ Rv32.alu i = Some o) /\
  (forall m w sg, In (m, (w, sg)) AsmSpec.manual_loads -> exists i, inst_from_str m = Some i /\ Rv32.load_width i = (w, sg)) /\
  (forall m w, In (m, w) AsmSpec.manual_stores -> exists i, inst_from_str m = Some i /\ Rv32.store_width i = w) /\
  (forall s, inst_from_str (lower s) = inst_from_str s).
Theorem C08_decode_tables : C08_decode_statement.
Proof. exact (conj decode_arith (conj (proj1 decode_mem) (conj (proj2 decode_mem) decode_case))). Qed.
Check C08_decode_tables : C08_decode_statement.
Print Assumptions C08_decode_tables.
