(* C02 - liveness covers every real use and is the least solution of its equations.
   Statements only; proofs live in Proofs/LiveProofs.v. *)
From RV.Model Require Import Base Lexer Isa Parser Cfg Avail Live Lints.
From RV.Spec Require Import LiveSpec.
From RV.Proofs Require Import LiveProofs.
Open Scope N_scope.

Definition all_bottom (g : cfg) : Prop :=
  forall i c, nth_opt (gnodes g) i = Some c -> lin c = 0 /\ lout c = 0.

(* (a) Whenever the pass returns, started from empty sets (as the pipeline does), on ANY graph
   (loops, irreducible flow, recursion, several returns, any number of call sites): the stored
   sets are closed under the equations, nothing but the live sets and u_def changed, and they
   are below every closed assignment - i.e. they are the least solution: they contain nothing
   the equations do not force. *)
(* well-formedness the pipeline guarantees (C03 edges_stop, C11): function ids in the label map
   exist, and a return has no successors *)
Definition wf_live (g : cfg) : Prop :=
  (forall l fid, In (l, fid) (glabelfn g) -> (fid < length (gfuncs g))%nat) /\
  (forall i c, nth_opt (gnodes g) i = Some c -> is_return (cn c) = true -> nexts c = []).

Definition C02_least_statement : Prop :=
  forall g g', all_bottom g -> wf_live g -> liveness_pass g = Ok g' ->
    same_structure g g' /\
    Closed g' (stored g') /\
    forall L, Closed g' L -> le_asg (stored g') L.

Theorem C02_live_least : C02_least_statement.
Proof. exact live_least. Qed.
Check C02_live_least : C02_least_statement.
Print Assumptions C02_live_least.

(* (b) Coverage, for every closed assignment (hence for the computed one): along any path
   n0 -> ... -> nk of the graph, a register that nk reads and that no node before nk on the
   path overwrites is live on entry to n0 (and live on exit of every earlier node). *)
Definition C02_covers_statement : Prop :=
  forall g L, Closed g L ->
    forall p nk ck r, path g (p ++ [nk]) -> nth_opt (gnodes g) nk = Some ck ->
      N.testbit (node_uses g L nk ck) r = true ->
      (forall i c, In i p -> nth_opt (gnodes g) i = Some c -> N.testbit (node_kills g c) r = false) ->
      (forall i, In i p -> exists c, nth_opt (gnodes g) i = Some c) ->
      forall n0, hd_error (p ++ [nk]) = Some n0 -> N.testbit (Lin L n0) r = true.

Theorem C02_live_covers : C02_covers_statement.
Proof. exact live_covers. Qed.
Check C02_live_covers : C02_covers_statement.
Print Assumptions C02_live_covers.

(* (c) An 'unused value' warning is given only for an assignment whose value is not live out of
   its instruction (so, by (b), no path reads it before it is overwritten), and always on the
   destination operand of that instruction. *)
Definition C02_dead_statement : Prop :=
  forall g l, In l (lint_dead_value g) -> lcode l = LDeadAssignment ->
    exists i c def, nth_opt (gnodes g) i = Some c /\ writes_to (cn c) = Some def /\
      lcands l = [loc_of_tok (wt def)] /\ N.testbit (lout c) (wv def) = false.

Theorem C02_dead_only_if_unread : C02_dead_statement.
Proof. exact dead_only_if_unread. Qed.
Check C02_dead_only_if_unread : C02_dead_statement.
Print Assumptions C02_dead_only_if_unread.

(* (d) A function's inferred arguments are the argument registers live out of its entry, its
   inferred returns the return registers live into its exit; with (a) this makes `returns`
   contain every return register some caller reads after the call. *)
Definition C02_returns_statement : Prop :=
  forall g L, Closed g L ->
    forall i c fid f r, nth_opt (gnodes g) i = Some c -> calls_to_from_cfg g c = Some fid ->
      nth_opt (gfuncs g) fid = Some f -> N.testbit (Lout L i) r = true ->
      N.testbit (Lin L (fexit f)) r = true.
Theorem C02_returns_cover_callers : C02_returns_statement.
Proof. exact returns_cover_callers. Qed.
Check C02_returns_cover_callers : C02_returns_statement.
Print Assumptions C02_returns_cover_callers.
