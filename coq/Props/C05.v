(* C05 - each kind of convention violation is reported where it occurs (fact level).
   Statements only; proofs in Proofs/LintProofs.v.

   For every finished graph (any program): whenever the trigger of a kind holds at a location
   (Spec/LintSpec.v), the lint pass emits a diagnostic of that kind there - and (C04) conversely.
   The two liveness-based kinds that search for the first use (invalid-use-after-call, and
   invalid-use-before-assignment at entries) are characterised through the search function. *)
From RV.Model Require Import Base I32 Lexer Isa Parser Cfg Avail Live Lints.
From RV.Spec Require Import CfgSpec LintSpec.
From RV.Proofs Require Import LintProofs.
Open Scope N_scope.

Definition reported (g : cfg) (k : lintcode) (l : loc) : Prop :=
  exists x, In x (run_diagnostics g) /\ lcode x = k /\ In l (lcands x).

Definition C05_trigger_statement : Prop :=
  forall g k l, trig g k l -> reported g k l.
Theorem C05_triggers_are_reported : C05_trigger_statement.
Proof. exact triggers_are_reported. Qed.
Check C05_triggers_are_reported : C05_trigger_statement.
Print Assumptions C05_triggers_are_reported.

(* stack pointer: the first offending node gets the diagnostic of its kind, on the node *)
Definition C05_stack_statement : Prop :=
  forall g i c s, first_bad_sp g i c s ->
    reported g (match s with SpUnknown => LUnknownStack | SpInvalid => LInvalidStackPointer
                           | SpPositive => LInvalidStackPosition | SpFine => LUnknownStack end) (node_loc c).
Theorem C05_first_bad_sp_reported : C05_stack_statement.
Proof. exact first_bad_sp_reported. Qed.
Check C05_first_bad_sp_reported : C05_stack_statement.
Print Assumptions C05_first_bad_sp_reported.

(* a temporary / argument register live after a call but not returned by the callee: a diagnostic is
   given at one of the nearest uses (candidates of the breadth-first search), unless every nearest
   'use' is a return *)
Definition C05_after_call_statement : Prop :=
  forall g i c fid f r cands, node_at g i c -> calls_to_from_cfg g c = Some fid -> nth_opt (gfuncs g) fid = Some f ->
    rs_mem r (rs_inter (rs_diff caller_saved_set (fn_returns g f)) (lout c)) = true -> (r < 32)%N ->
    error_ranges_for_first_usage (gnodes g) i r = cands ->
    filter_map (fun x => x) cands <> [] ->
    exists x, In x (run_diagnostics g) /\ lcode x = LInvalidUseAfterCall /\ lcands x = filter_map (fun x => x) cands.
Theorem C05_use_after_call_reported : C05_after_call_statement.
Proof. exact use_after_call_reported. Qed.
Check C05_use_after_call_reported : C05_after_call_statement.
Print Assumptions C05_use_after_call_reported.

(* a register live into the program entry that is not a program argument *)
Definition C05_before_assignment_statement : Prop :=
  forall g i c r cands, node_at g i c -> is_program_entry (cn c) = true ->
    rs_mem r (rs_diff (lin c) program_args_set) = true -> (r < 32)%N ->
    error_ranges_for_first_usage (gnodes g) i r = cands -> filter_map (fun x => x) cands <> [] ->
    exists x, In x (run_diagnostics g) /\ lcode x = LInvalidUseBeforeAssignment /\ lcands x = filter_map (fun x => x) cands.
Theorem C05_use_before_assignment_reported : C05_before_assignment_statement.
Proof. exact use_before_assignment_reported. Qed.
Check C05_use_before_assignment_reported : C05_before_assignment_statement.
Print Assumptions C05_use_before_assignment_reported.

(* a return that the function-markup pass rewrites into a jump to the function's exit keeps its own place in the
   source (fix 41a4d47; it used to take the place of the exit, so that a diagnostic about the whole instruction
   - an instruction in the data segment, say - was reported on the first return and dropped as a duplicate):
   the node that replaces it has the replaced return's raw range, and with it the location that every
   whole-instruction diagnostic reports *)
Definition C05_rewritten_return_place_statement : Prop :=
  forall found exit_ : cnode,
    node_raw (rewritten_return found exit_) = node_raw (cn found) /\
    node_loc (set_cn (set_nexts found [0%nat]) (rewritten_return found exit_)) = node_loc found.
Theorem C05_rewritten_return_place : C05_rewritten_return_place_statement.
Proof. exact rewritten_return_place. Qed.
Check C05_rewritten_return_place : C05_rewritten_return_place_statement.
Print Assumptions C05_rewritten_return_place.
