(* C07 - no source line is silently dropped; a bad line affects only itself.
   Statements only; proofs in Proofs/LineProofs.v. *)
From RV.Model Require Import Base Lexer Isa Parser Reader.
From RV.Spec Require Import LineSpec.
From RV.Proofs Require Import LineProofs.
Open Scope N_scope.

(* (1) Lexing is line-local: the token stream of a text made of a block of complete lines A
   followed by anything B is the stream of A followed by the stream of B moved down by A's
   lines and characters.  Hence deleting, inserting or editing a line never changes the tokens
   of any other line (only their line number and raw offset). *)
Definition C07_lex_statement : Prop :=
  forall chk file (A B : str), lines_block A ->
    forall ia ib, lex_all chk file A = Ok ia -> lex_all chk file B = Ok ib ->
      lex_all chk file (A ++ B) = Ok (ia ++ map (sh_item (count_nl A) (len A)) ib).
Theorem C07_lex_line_local : C07_lex_statement.
Proof. exact lex_line_local. Qed.
Check C07_lex_line_local : C07_lex_statement.
Print Assumptions C07_lex_line_local.

(* (2) Nothing is dropped silently.  Parse any single file (its own `.include`s can only fail
   and then produce an error).  Unless the file uses the unsupported `.macro` directive, every
   significant token the lexer produced - and every lexer error - is either inside the text
   range of a node that was produced, or on a line on which a parse error is reported. *)
Definition C07_accounted_statement : Prop :=
  forall chk path text nodes errs rs items,
    parse_from_file chk [(path, inl text)] path false = Ok (nodes, errs, rs) ->
    lex_all chk (Some 0) (normalize_text text) = Ok items ->
    (forall it, In it items -> is_macro_tok (item_token it) = false) ->
    forall it, In it items ->
      match it with
      | LTok t => significant t = true ->
          (exists n, In n nodes /\ covers (node_raw n) t) \/
          (exists e, In e errs /\ tfile (err_token e) = tfile t /\ tok_line (err_token e) = tok_line t)
      | LErrString t _ _ | LErrUnexpected t =>
          exists e, In e errs /\ tfile (err_token e) = tfile t /\ tok_line (err_token e) = tok_line t
      end.
Theorem C07_tokens_accounted : C07_accounted_statement.
Proof. exact tokens_accounted. Qed.
Check C07_tokens_accounted : C07_accounted_statement.
Print Assumptions C07_tokens_accounted.

(* the parser always returns (no panic, enough fuel) on a single file *)
Definition C07_total_statement : Prop :=
  forall chk path text, exists nodes errs rs,
    parse_from_file chk [(path, inl text)] path false = Ok (nodes, errs, rs).
Theorem C07_parse_total : C07_total_statement.
Proof. exact parse_total. Qed.
Check C07_parse_total : C07_total_statement.
Print Assumptions C07_parse_total.

Example C07_example :
  let text := «"main: li t0, 5"» ++ [c_nl] ++ «"  frob t1 ; x"» ++ [c_nl] ++ «".word 7"» in
  match parse_from_file true [(«"a.s"», inl text)] «"a.s"» false with
  | Ok (nodes, errs, _) => length nodes = 4%nat /\ length errs = 1%nat
  | _ => False
  end.
Proof. vm_compute. split; reflexivity. Qed.
