(* C15 - `.include` behaves as textual inclusion with per-file locations; and the parser half of
   C13 - the parser depends on WHAT the tokens are, not WHERE they are.
   Statements only; proofs in Proofs/IncludeErase.v, IncludeLex.v, IncludeRun.v, IncludeFrame.v,
   IncludeProofs.v.  Vocabulary in Spec/IncludeSpec.v (erase_lexerr, items_eq, parse_one_agree,
   drive_agree, closed, include_line, Run, no_cyclic) and Spec/ParamSpec.v (the erase functions). *)
From RV.Model Require Import Base I32 Imm Lexer Isa Parser Reader.
From RV.Spec Require Import ParamSpec LineSpec IncludeSpec.
From RV.Proofs Require Import TotalProofs IncludeErase IncludeLex IncludeRun IncludeFrame IncludeProofs IncludeLine IncludeFile.

(* ================================================================================== *)
(* (A) position-parametricity of the parser                                              *)

(* one statement: two item streams equal up to positions are parsed alike - both Ok with the same
   outcome up to positions (same constructor, erase_node-equal nodes / erase_lexerr-equal errors)
   and remaining streams again equal up to positions and of equal length; or the same panic; or
   both out of fuel *)
Definition C15_parse_one_erase_statement : Prop :=
  forall l1 l2, items_eq l1 l2 -> parse_one_agree (parse_one l1) (parse_one l2).
Theorem C15_parse_one_erase : C15_parse_one_erase_statement.
Proof. exact parse_one_erase. Qed.
Check C15_parse_one_erase : C15_parse_one_erase_statement.
Print Assumptions C15_parse_one_erase.

(* functional form: parsing the erased stream is erasing the parse *)
Definition C15_parse_one_erased_statement : Prop :=
  forall items, parse_one (map erase_item items) =
    match parse_one items with
    | Ok (x, rest) => Ok (erase_stmt x, map erase_item rest)
    | Panic s => Panic s
    | OutOfFuel => OutOfFuel
    end.
Theorem C15_parse_one_erased : C15_parse_one_erased_statement.
Proof. exact parse_one_erased. Qed.
Check C15_parse_one_erased : C15_parse_one_erased_statement.
Print Assumptions C15_parse_one_erased.

(* the file driver, any store, imports followed or not: stacks of item streams equal up to
   positions (same store, same reader state) give nodes and errors equal up to positions and the
   same final reader state - or the same panic, or both out of fuel *)
Definition C15_drive_erase_statement : Prop :=
  forall chk fs ign f stack1 stack2 rs n1 n2 e1 e2,
    Forall2 items_eq stack1 stack2 ->
    map erase_node n1 = map erase_node n2 -> map erase_perr e1 = map erase_perr e2 ->
    drive_agree (drive f chk fs ign stack1 rs n1 e1) (drive f chk fs ign stack2 rs n2 e2).
Theorem C15_drive_erase : C15_drive_erase_statement.
Proof. exact drive_erase. Qed.
Check C15_drive_erase : C15_drive_erase_statement.
Print Assumptions C15_drive_erase.

(* parse level: two base texts whose items are equal up to positions (same tokens, other layout) *)
Definition C15_parse_file_erase_statement : Prop :=
  forall chk (fs1 fs2 : store) (base t1 t2 : str) ign i1 i2,
    assoc_str base fs1 = Some (inl t1) -> assoc_str base fs2 = Some (inl t2) ->
    (forall q, q <> base -> assoc_str q fs2 = assoc_str q fs1) ->
    lex_all chk (Some 0%N) (normalize_text t1) = Ok i1 ->
    lex_all chk (Some 0%N) (normalize_text t2) = Ok i2 -> items_eq i1 i2 ->
    forall ns1 es1 rs1 ns2 es2 rs2,
      parse_from_file chk fs1 base ign = Ok (ns1, es1, rs1) ->
      parse_from_file chk fs2 base ign = Ok (ns2, es2, rs2) ->
      map erase_node ns1 = map erase_node ns2 /\ map erase_perr es1 = map erase_perr es2.
Theorem C15_parse_file_erase : C15_parse_file_erase_statement.
Proof. exact parse_file_erase. Qed.
Check C15_parse_file_erase : C15_parse_file_erase_statement.
Print Assumptions C15_parse_file_erase.

(* ================================================================================== *)
(* (B) include faults                                                                   *)

(* totality: parsing returns for every store - any include graph, any injected faults *)
Definition C15_total_statement : Prop :=
  forall chk (fs : store) base ignore_imports,
    exists nodes errs rs, parse_from_file chk fs base ignore_imports = Ok (nodes, errs, rs).
Theorem C15_parse_total : C15_total_statement.
Proof. exact parse_total_any_store. Qed.
Check C15_parse_total : C15_total_statement.
Print Assumptions C15_parse_total.

(* step lemma: an include directive whose import fails contributes exactly one error, located at
   the directive's string token; no node; the reader state is unchanged and the driver goes on
   with the rest of the including file.  The error is PEFileNotFound for an absent path,
   PEIOError for an injected IO fault, PECyclicDependency for a path already imported (a file
   including itself, a cycle, a second inclusion) *)
Definition C15_include_fault_step_statement : Prop :=
  forall chk fs top below rs nodes errs n rest path e rs',
    parse_one top = Ok (inr n, rest) -> include_path n = Some path ->
    import_file fs (wv path) rs = (inl e, rs') ->
    (forall f, drive (S f) chk fs false (top :: below) rs nodes errs =
               drive f chk fs false (rest :: below) rs nodes (to_parse_error e path :: errs)) /\
    err_token (to_parse_error e path) = wt path /\
    tok_path (wt path) = Some (wv path) /\
    ((assoc_str (wv path) fs = None /\ to_parse_error e path = PEFileNotFound path) \/
     (exists u, assoc_str (wv path) fs = Some (inr u) /\ to_parse_error e path = PEIOError path) \/
     (exists t, assoc_str (wv path) fs = Some (inl t) /\ mem_str (wv path) (imported rs) = true /\
                to_parse_error e path = PECyclicDependency (wt path))).
Theorem C15_include_fault_step : C15_include_fault_step_statement.
Proof. exact drive_include_fault. Qed.
Check C15_include_fault_step : C15_include_fault_step_statement.
Print Assumptions C15_include_fault_step.

(* the three ways an import fails *)
Definition C15_import_faults_statement : Prop :=
  forall fs q rs,
    (assoc_str q fs = None -> import_file fs q rs = (inl REInvalidPath, rs)) /\
    (forall u, assoc_str q fs = Some (inr u) -> import_file fs q rs = (inl REIOErr, rs)) /\
    (forall t, assoc_str q fs = Some (inl t) -> mem_str q (imported rs) = true ->
               import_file fs q rs = (inl REFileAlreadyRead, rs)).
Theorem C15_import_faults : C15_import_faults_statement.
Proof.
  intros fs q rs. split; [apply import_absent|]. split; [intros u; apply import_io_fault|intros t; apply import_again].
Qed.
Check C15_import_faults : C15_import_faults_statement.
Print Assumptions C15_import_faults.

(* on the driver: a whole line `.include p` whose import fails is worth one error and nothing else *)
Definition C15_include_fault_line_statement : Prop :=
  forall chk fs p d s n rest below rs nodes errs e rs' r, inc_toks p d s n ->
    import_file fs p rs = (inl e, rs') ->
    (Run chk fs false ((LTok d :: LTok s :: LTok n :: rest) :: below) rs nodes errs r <->
     Run chk fs false (rest :: below) rs nodes (to_parse_error e (mkw p s) :: errs) r).
Theorem C15_include_fault_line : C15_include_fault_line_statement.
Proof. exact run_include_fault_line. Qed.
Check C15_include_fault_line : C15_include_fault_line_statement.
Print Assumptions C15_include_fault_line.

(* end to end.  Base text A ++ L ++ B, A a block of complete lines that ends at a statement
   boundary, L the line `.include p`, p failing to import in the reader state [rsA] reached after A:
   the nodes are those of base text A ++ B up to positions; the errors are those of A ++ B with the
   one include error inserted after the errors of A.
   ADDED HYPOTHESIS [closed ia]: without it the statement is false (Example C15_fault_needs_closed). *)
Definition C15_include_fault_statement : Prop :=
  forall chk (fs1 fs2 : store) (base p A L B : str),
    lines_block A -> include_line p L ->
    assoc_str base fs1 = Some (inl (A ++ L ++ B)) ->
    assoc_str base fs2 = Some (inl (A ++ B)) ->
    (forall q, q <> base -> assoc_str q fs2 = assoc_str q fs1) ->
    forall ia, lex_all chk (Some 0%N) A = Ok ia -> closed ia = true ->
    forall nsA esA rsA, Run chk fs1 false [ia] (mkrs [base]) [entry_node 0] [] (nsA, esA, rsA) ->
    forall e rs', import_file fs1 p rsA = (inl e, rs') ->
    forall ns1 es1 rs1 ns2 es2 rs2,
      parse_from_file chk fs1 base false = Ok (ns1, es1, rs1) ->
      parse_from_file chk fs2 base false = Ok (ns2, es2, rs2) ->
      map erase_node ns1 = map erase_node ns2 /\
      exists pth esB1 esA2 esB2,
        wv pth = p /\ tok_path (wt pth) = Some p /\
        es1 = esA ++ to_parse_error e pth :: esB1 /\
        es2 = esA2 ++ esB2 /\
        map erase_perr esA = map erase_perr esA2 /\ map erase_perr esB1 = map erase_perr esB2.
Theorem C15_include_fault : C15_include_fault_statement.
Proof. exact include_fault. Qed.
Check C15_include_fault : C15_include_fault_statement.
Print Assumptions C15_include_fault.

(* ================================================================================== *)
(* (C) include = paste                                                                  *)

(* on the driver: a list of items that ends at a statement boundary, followed by anything, is
   driven exactly (not only up to positions) like a file of its own on top of what follows *)
Definition C15_run_concat_statement : Prop :=
  forall chk fs ign above ia X below rs n e r,
    nl_terminated ia -> closed ia = true ->
    (Run chk fs ign (above ++ (ia ++ X) :: below) rs n e r <->
     Run chk fs ign (above ++ ia :: X :: below) rs n e r).
Theorem C15_run_concat : C15_run_concat_statement.
Proof.
  intros chk fs ign above ia X below rs n e r Hl Hc. apply run_concat; [exact Hl|apply closed_closedP; exact Hc].
Qed.
Check C15_run_concat : C15_run_concat_statement.
Print Assumptions C15_run_concat.

(* end to end.  Store fs1: base text A ++ L ++ B, L the line `.include p`, p |-> T, p not yet
   imported when L is reached.  Store fs2: base text A ++ normalize_text T ++ B, otherwise like
   fs1 (whatever it has at p).  Same nodes, same errors, up to positions.  T may itself include
   files (those directives stay in the pasted text and are followed in both runs).
   ADDED HYPOTHESES:
     closed ia, closed iT - A and T end at a statement boundary (false otherwise: Examples
                            C15_paste_needs_closed_data, C15_paste_needs_closed_macro);
     no_cyclic p es1      - p is not included a second time (then the split program reports
                            "already imported" where the pasted one reports something else). *)
Definition C15_include_paste_statement : Prop :=
  forall chk (fs1 fs2 : store) (base p A L B T : str),
    p <> base -> lines_block A -> include_line p L ->
    assoc_str base fs1 = Some (inl (A ++ L ++ B)) -> assoc_str p fs1 = Some (inl T) ->
    assoc_str base fs2 = Some (inl (A ++ normalize_text T ++ B)) ->
    (forall q, q <> base -> q <> p -> assoc_str q fs2 = assoc_str q fs1) ->
    forall ia iT, lex_all chk (Some 0%N) A = Ok ia -> closed ia = true ->
      lex_all chk (Some 0%N) (normalize_text T) = Ok iT -> closed iT = true ->
    forall nsA esA rsA, Run chk fs1 false [ia] (mkrs [base]) [entry_node 0] [] (nsA, esA, rsA) ->
    mem_str p (imported rsA) = false ->
    forall ns1 es1 rs1 ns2 es2 rs2,
      parse_from_file chk fs1 base false = Ok (ns1, es1, rs1) -> no_cyclic p es1 ->
      parse_from_file chk fs2 base false = Ok (ns2, es2, rs2) ->
      map erase_node ns1 = map erase_node ns2 /\ map erase_perr es1 = map erase_perr es2.
Theorem C15_include_paste : C15_include_paste_statement.
Proof. exact include_paste. Qed.
Check C15_include_paste : C15_include_paste_statement.
Print Assumptions C15_include_paste.

(* per-file locations: the nodes and errors coming from the included text are EXACTLY those of
   driving T's own items - T lexed alone from position 0 under the file id the reader gave it - and
   they sit between those of what precedes the directive and those of what follows it *)
Definition C15_include_locations_statement : Prop :=
  forall chk (fs1 : store) (base p A L B T : str),
    lines_block A -> include_line p L ->
    assoc_str base fs1 = Some (inl (A ++ L ++ B)) -> assoc_str p fs1 = Some (inl T) ->
    forall ia, lex_all chk (Some 0%N) A = Ok ia -> closed ia = true ->
    forall nsA esA rsA, Run chk fs1 false [ia] (mkrs [base]) [entry_node 0] [] (nsA, esA, rsA) ->
    mem_str p (imported rsA) = false ->
    forall ns1 es1 rs1, parse_from_file chk fs1 base false = Ok (ns1, es1, rs1) ->
    exists itemsT nT eT rsT nB eB,
      import_file fs1 p rsA = (inr (N.of_nat (length (imported rsA)), T), mkrs (imported rsA ++ [p])) /\
      lex_all chk (Some (N.of_nat (length (imported rsA)))) (normalize_text T) = Ok itemsT /\
      Run chk fs1 false [itemsT] (mkrs (imported rsA ++ [p])) [] [] (nT, eT, rsT) /\
      ns1 = nsA ++ nT ++ nB /\ es1 = esA ++ eT ++ eB.
Theorem C15_include_locations : C15_include_locations_statement.
Proof. exact include_locations. Qed.
Check C15_include_locations : C15_include_locations_statement.
Print Assumptions C15_include_locations.

(* every location of a parsed node - its raw token, the tokens of its instruction and operands -
   is in the file the items were lexed for *)
Definition C15_node_file_statement : Prop :=
  forall F items n rest,
    Forall (fun it => tfile (item_token it) = F) items -> parse_one items = Ok (inr n, rest) ->
    node_in_file F n /\ Forall (fun it => tfile (item_token it) = F) rest.
Theorem C15_node_file : C15_node_file_statement.
Proof.
  intros F items n rest Hit Hp.
  assert (Hconv : forall l, Forall (fun it => tfile (item_token it) = F) l <-> Forall (ErrProofs.item_file F) l).
  { intros l. split; intros H; (eapply Forall_impl; [|exact H]); intros it Hi; destruct it; exact Hi. }
  destruct (parse_one_file F items (inr n) rest (proj1 (Hconv items) Hit) Hp) as [H1 H2].
  split; [exact H2|apply Hconv; exact H1].
Qed.
Check C15_node_file : C15_node_file_statement.
Print Assumptions C15_node_file.

(* the run over an included text (lexed for the id the reader gave it) that imports nothing further
   yields only nodes and errors all of whose locations are in that file *)
Definition C15_included_in_file_statement : Prop :=
  forall chk fs id (text : str) items rs ns es rs',
    lex_all chk (Some id) text = Ok items ->
    Run chk fs false [items] rs [] [] (ns, es, rs') -> imported rs' = imported rs ->
    Forall (node_in_file (Some id)) ns /\ Forall (err_in_file (Some id)) es.
Theorem C15_included_in_file : C15_included_in_file_statement.
Proof. exact run_single_file. Qed.
Check C15_included_in_file : C15_included_in_file_statement.
Print Assumptions C15_included_in_file.

(* the include line, literally: blanks, `.include`, blanks, the quoted path (no quote, newline or
   backslash in it), blanks, newline - in any file, with or without the lexer's debug checks, this
   is one line that lexes to the three tokens [include_line] asks for *)
Definition C15_include_line_literal_statement : Prop :=
  forall p w1 w2 w3,
    Forall (fun c => is_ws c = true) w1 -> Forall (fun c => is_ws c = true) w2 ->
    Forall (fun c => is_ws c = true) w3 ->
    Forall (fun c => c <> c_dquote /\ c <> c_nl /\ c <> c_bslash) p ->
    include_line p (w1 ++ «".include"» ++ w2 ++ [c_dquote] ++ p ++ [c_dquote] ++ w3 ++ [c_nl]).
Theorem C15_include_line_literal : C15_include_line_literal_statement.
Proof. exact include_line_literal. Qed.
Check C15_include_line_literal : C15_include_line_literal_statement.
Print Assumptions C15_include_line_literal.

(* being closed does not depend on positions or file identity *)
Definition C15_closed_erase_statement : Prop := forall l1 l2, items_eq l1 l2 -> closed l1 = closed l2.
Theorem C15_closed_erase : C15_closed_erase_statement.
Proof. exact closed_items_eq. Qed.
Check C15_closed_erase : C15_closed_erase_statement.
Print Assumptions C15_closed_erase.

(* ================================================================================== *)
(* Examples                                                                             *)

Definition nl : str := [c_nl].
Definition a_s : str := «"a.s"».
Definition b_s : str := «"b.s"».
Definition c_s : str := «"c.s"».
Definition d_s : str := «"d.s"».
Definition lex0 (s : str) : list lexitem :=
  match lex_all true (Some 0%N) s with Ok l => l | _ => [] end.
Definition outcome (r : res (list pnode * list parse_error * rstate)) :=
  match r with Ok (n, e, _) => Some (map erase_node n, map erase_perr e) | _ => None end.

(* (A) non-vacuity: the same statement at two different places, in two different files *)
Example C15_erase_example :
  let l1 := lex0 («"lw t0, 4(sp)"» ++ nl) in
  let l2 := match lex_all true (Some 7%N) (nl ++ «"   lw   t0 ,4 ( sp )"» ++ nl) with Ok (_ :: l) => l | _ => [] end in
  l1 <> l2 /\ items_eq l1 l2 /\
  match parse_one l1, parse_one l2 with
  | Ok (inr n1, r1), Ok (inr n2, r2) => n1 <> n2 /\ erase_node n1 = erase_node n2 /\ length r1 = 1%nat /\ length r2 = 1%nat
  | _, _ => False
  end.
Proof. vm_compute. repeat split; try reflexivity; intros H; discriminate H. Qed.

(* -- success: three files, a.s includes b.s, b.s includes c.s -------------------------- *)
Definition exA : str := «"main: li a0, 1"» ++ nl.
Definition exL : str := «"  .include ""b.s"" "» ++ nl.
Definition exB : str := «"ret"» ++ nl.
Definition exT : str := «"addi a0, a0, 2"» ++ nl ++ «".include ""c.s"""».     (* no final newline *)
Definition exC : str := «"nop"».
Definition ex_split : store := [(a_s, inl (exA ++ exL ++ exB)); (b_s, inl exT); (c_s, inl exC)].
Definition ex_pasted : store := [(a_s, inl (exA ++ normalize_text exT ++ exB)); (c_s, inl exC)].

(* checked directly *)
Example C15_paste_example :
  outcome (parse_from_file true ex_split a_s false) = outcome (parse_from_file true ex_pasted a_s false) /\
  match parse_from_file true ex_split a_s false with
  | Ok (ns, es, rs) => length ns = 6%nat /\ es = [] /\ imported rs = [a_s; b_s; c_s]
  | _ => False
  end.
Proof. vm_compute. repeat split. Qed.

(* and as an instance of the theorem: its hypotheses are satisfiable *)
Example C15_paste_instance :
  match parse_from_file true ex_split a_s false, parse_from_file true ex_pasted a_s false with
  | Ok (ns1, es1, _), Ok (ns2, es2, _) =>
      map erase_node ns1 = map erase_node ns2 /\ map erase_perr es1 = map erase_perr es2
  | _, _ => False
  end.
Proof.
  destruct (parse_from_file true ex_split a_s false) as [[[ns1 es1] rs1]| |] eqn:E1;
    [|vm_compute in E1; discriminate E1|vm_compute in E1; discriminate E1].
  destruct (parse_from_file true ex_pasted a_s false) as [[[ns2 es2] rs2]| |] eqn:E2;
    [|vm_compute in E2; discriminate E2|vm_compute in E2; discriminate E2].
  refine (C15_include_paste true ex_split ex_pasted a_s b_s exA exL exB exT _ _ _ _ _ _ _
            (lex0 exA) (lex0 (normalize_text exT)) _ _ _ _
            [entry_node 0; PLabel _ _; PIArith _ _ _ _ _] [] (mkrs [a_s]) _ _ ns1 es1 rs1 ns2 es2 rs2 E1 _ E2).
  - intros H. discriminate H.
  - apply lines_block_b. reflexivity.
  - apply include_line_b_sound. vm_compute. reflexivity.
  - reflexivity.
  - reflexivity.
  - reflexivity.
  - intros q Hq1 Hq2. cbn [ex_split ex_pasted assoc_str].
    destruct (str_eqb q a_s) eqn:Ea; [apply str_eqb_eq in Ea; contradiction|].
    destruct (str_eqb q b_s) eqn:Eb; [apply str_eqb_eq in Eb; contradiction|]. reflexivity.
  - vm_compute. reflexivity.
  - vm_compute. reflexivity.
  - vm_compute. reflexivity.
  - vm_compute. reflexivity.
  - apply (run_of_drive _ _ _ 10). vm_compute. reflexivity.
  - reflexivity.
  - apply no_cyclic_b_sound. vm_compute in E1. inversion E1; subst. reflexivity.
Qed.

(* per-file locations on the same program: the nodes of b.s (and of c.s, included from it) carry
   the ids 1 and 2 and positions counted from the start of their own text *)
Example C15_locations_example :
  match parse_from_file true ex_split a_s false,
        lex_all true (Some 1%N) (normalize_text exT) with
  | Ok (ns1, _, _), Ok itemsT =>
      match drive 10 true ex_split false [itemsT] (mkrs [a_s; b_s]) [] [] with
      | Ok (nT, _, _) =>
          ns1 = firstn 3 ns1 ++ nT ++ skipn 5 ns1 /\ length ns1 = 6%nat /\ length nT = 2%nat /\
            map (fun n => rfile (node_raw n)) nT = [Some 1%N; Some 2%N] /\
            map (fun n => line (rstart (rrange (node_raw n)))) nT = [0%N; 0%N]
      | _ => False
      end
  | _, _ => False
  end.
Proof. vm_compute. repeat split. Qed.

(* -- missing file, IO fault ------------------------------------------------------------ *)
Definition exLm : str := «".include ""nope.s"""» ++ nl.
Definition ex_missing : store := [(a_s, inl (exA ++ exLm ++ exB)); (b_s, inl exT); (c_s, inl exC)].
Definition ex_without : store := [(a_s, inl (exA ++ exB)); (b_s, inl exT); (c_s, inl exC)].
Definition ex_iofault : store := [(a_s, inl (exA ++ exLm ++ exB)); («"nope.s"», inr Datatypes.tt)].

Example C15_missing_example :
  match parse_from_file true ex_missing a_s false, parse_from_file true ex_without a_s false,
        parse_from_file true ex_iofault a_s false with
  | Ok (ns1, es1, _), Ok (ns2, es2, _), Ok (ns3, es3, _) =>
      map erase_node ns1 = map erase_node ns2 /\ map erase_node ns3 = map erase_node ns2 /\ es2 = [] /\
      (exists pth, es1 = [PEFileNotFound pth] /\ wv pth = «"nope.s"» /\ tt (wt pth) = TString «"nope.s"» /\
                   line (rstart (trange (wt pth))) = 1%N /\ tfile (wt pth) = Some 0%N) /\
      (exists pth, es3 = [PEIOError pth] /\ wv pth = «"nope.s"»)
  | _, _, _ => False
  end.
Proof. vm_compute. repeat split; eexists; repeat split. Qed.

Example C15_fault_instance :
  match parse_from_file true ex_missing a_s false, parse_from_file true ex_without a_s false with
  | Ok (ns1, es1, _), Ok (ns2, es2, _) =>
      map erase_node ns1 = map erase_node ns2 /\
      exists pth esB1 esA2 esB2,
        wv pth = «"nope.s"» /\ tok_path (wt pth) = Some «"nope.s"» /\
        es1 = [] ++ to_parse_error REInvalidPath pth :: esB1 /\ es2 = esA2 ++ esB2 /\
        map erase_perr (@nil parse_error) = map erase_perr esA2 /\ map erase_perr esB1 = map erase_perr esB2
  | _, _ => False
  end.
Proof.
  destruct (parse_from_file true ex_missing a_s false) as [[[ns1 es1] rs1]| |] eqn:E1;
    [|vm_compute in E1; discriminate E1|vm_compute in E1; discriminate E1].
  destruct (parse_from_file true ex_without a_s false) as [[[ns2 es2] rs2]| |] eqn:E2;
    [|vm_compute in E2; discriminate E2|vm_compute in E2; discriminate E2].
  refine (C15_include_fault true ex_missing ex_without a_s «"nope.s"» exA exLm exB _ _ _ _ _
            (lex0 exA) _ _ [entry_node 0; PLabel _ _; PIArith _ _ _ _ _] [] (mkrs [a_s]) _
            REInvalidPath (mkrs [a_s]) _ ns1 es1 rs1 ns2 es2 rs2 E1 E2).
  - apply lines_block_b. reflexivity.
  - apply include_line_b_sound. vm_compute. reflexivity.
  - reflexivity.
  - reflexivity.
  - intros q Hq. cbn [ex_missing ex_without assoc_str].
    destruct (str_eqb q a_s) eqn:Ea; [apply str_eqb_eq in Ea; contradiction|]. reflexivity.
  - vm_compute. reflexivity.
  - vm_compute. reflexivity.
  - apply (run_of_drive _ _ _ 10). vm_compute. reflexivity.
  - reflexivity.
Qed.

(* -- self-include, cycle, diamond ------------------------------------------------------ *)
Definition ex_self : store := [(a_s, inl (exA ++ «".include ""a.s"""» ++ nl ++ exB))].
Example C15_self_include_example :
  match parse_from_file true ex_self a_s false, parse_from_file true [(a_s, inl (exA ++ exB))] a_s false with
  | Ok (ns1, es1, rs1), Ok (ns2, es2, _) =>
      map erase_node ns1 = map erase_node ns2 /\ es2 = [] /\ imported rs1 = [a_s] /\
      exists t, es1 = [PECyclicDependency t] /\ tt t = TString a_s /\ line (rstart (trange t)) = 1%N
  | _, _ => False
  end.
Proof. vm_compute. repeat split. eexists. repeat split. Qed.

(* a.s includes b.s, b.s includes a.s *)
Definition ex_cycle : store :=
  [(a_s, inl («".include ""b.s"""» ++ nl ++ «"ret"»)); (b_s, inl («"nop"» ++ nl ++ «".include ""a.s"""»))].
Example C15_cycle_example :
  match parse_from_file true ex_cycle a_s false with
  | Ok (ns, es, rs) =>
      length ns = 3%nat /\ imported rs = [a_s; b_s] /\
      exists t, es = [PECyclicDependency t] /\ tt t = TString a_s /\ tfile t = Some 1%N /\ line (rstart (trange t)) = 1%N
  | _ => False
  end.
Proof. vm_compute. repeat split. eexists. repeat split. Qed.

(* diamond: a.s includes b.s and c.s, both include d.s: the second inclusion of d.s is refused *)
Definition ex_diamond : store :=
  [(a_s, inl («".include ""b.s"""» ++ nl ++ «".include ""c.s"""» ++ nl ++ «"ret"»));
   (b_s, inl («".include ""d.s"""» ++ nl ++ «"addi a0, a0, 1"»));
   (c_s, inl («".include ""d.s"""» ++ nl ++ «"addi a0, a0, 2"»));
   (d_s, inl «"nop"»)].
Example C15_diamond_example :
  match parse_from_file true ex_diamond a_s false with
  | Ok (ns, es, rs) =>
      length ns = 5%nat /\ imported rs = [a_s; b_s; d_s; c_s] /\
      map (fun n => rfile (node_raw n)) ns = [Some 0; Some 2; Some 1; Some 3; Some 0]%N /\
      exists t, es = [PECyclicDependency t] /\ tt t = TString d_s /\ tfile t = Some 3%N /\ line (rstart (trange t)) = 0%N
  | _ => False
  end.
Proof. vm_compute. repeat split. eexists. repeat split. Qed.

(* -- the added hypotheses are needed ---------------------------------------------------- *)
(* an included file that ends in an open data directive: split, `.word 1` ends with the file and
   `2` is a stray token; pasted, `.word 1` goes on and takes the `2` *)
Definition cxT : str := «".word 1"».
Definition cx_split : store := [(a_s, inl («".include ""b.s"""» ++ nl ++ «"2"» ++ nl)); (b_s, inl cxT)].
Definition cx_pasted : store := [(a_s, inl (normalize_text cxT ++ «"2"» ++ nl))].
Example C15_paste_needs_closed_data :
  closed (lex0 (normalize_text cxT)) = false /\ closed (lex0 []) = true /\
  match parse_from_file true cx_split a_s false, parse_from_file true cx_pasted a_s false with
  | Ok (ns1, es1, _), Ok (ns2, es2, _) =>
      map erase_node ns1 <> map erase_node ns2 /\ length es1 = 1%nat /\ es2 = []
  | _, _ => False
  end.
Proof. vm_compute. repeat split. intros H. discriminate H. Qed.

(* an included file with a `.macro` that is not ended: split, the skipping stops with the file;
   pasted, it swallows the includer's next lines *)
Definition cxM : str := «".macro m"» ++ nl ++ «"nop"».
Definition cxm_split : store :=
  [(a_s, inl («".include ""b.s"""» ++ nl ++ «"ret"» ++ nl ++ «".endmacro"» ++ nl ++ «"nop"» ++ nl)); (b_s, inl cxM)].
Definition cxm_pasted : store :=
  [(a_s, inl (normalize_text cxM ++ «"ret"» ++ nl ++ «".endmacro"» ++ nl ++ «"nop"» ++ nl))].
Example C15_paste_needs_closed_macro :
  closed (lex0 (normalize_text cxM)) = false /\
  match parse_from_file true cxm_split a_s false, parse_from_file true cxm_pasted a_s false with
  | Ok (ns1, es1, _), Ok (ns2, es2, _) =>
      length ns1 = 3%nat /\ length ns2 = 2%nat /\ length es1 = 1%nat /\ length es2 = 1%nat
  | _, _ => False
  end.
Proof. vm_compute. repeat split. Qed.

(* the same for what precedes a failing include: A = `.word 1`, B = `2` *)
Definition cxf_with : store := [(a_s, inl (cxT ++ nl ++ «".include ""nope.s"""» ++ nl ++ «"2"» ++ nl))].
Definition cxf_without : store := [(a_s, inl (cxT ++ nl ++ «"2"» ++ nl))].
Example C15_fault_needs_closed :
  closed (lex0 (cxT ++ nl)) = false /\
  match parse_from_file true cxf_with a_s false, parse_from_file true cxf_without a_s false with
  | Ok (ns1, es1, _), Ok (ns2, es2, _) =>
      map erase_node ns1 <> map erase_node ns2 /\ length es1 = 2%nat /\ es2 = []
  | _, _ => False
  end.
Proof. vm_compute. repeat split. intros H. discriminate H. Qed.

(* a second inclusion of the pasted path: "already imported" in the split program, "not found" in
   the pasted one (where b.s is gone) - hence [no_cyclic] *)
Definition cx2_split : store := [(a_s, inl («".include ""b.s"""» ++ nl ++ «".include ""b.s"""» ++ nl)); (b_s, inl «"nop"»)].
Definition cx2_pasted : store := [(a_s, inl (normalize_text «"nop"» ++ «".include ""b.s"""» ++ nl))].
Example C15_paste_needs_no_cyclic :
  match parse_from_file true cx2_split a_s false, parse_from_file true cx2_pasted a_s false with
  | Ok (ns1, es1, _), Ok (ns2, es2, _) =>
      no_cyclic_b b_s es1 = false /\ map erase_node ns1 = map erase_node ns2 /\
      map erase_perr es1 <> map erase_perr es2
  | _, _ => False
  end.
Proof. vm_compute. repeat split. intros H. discriminate H. Qed.

(* examples of closed / open item lists *)
Example C15_closed_examples :
  closed (lex0 («"nop"» ++ nl)) = true /\
  closed (lex0 («".word 1 # a comment ends the list"» ++ nl)) = true /\
  closed (lex0 («".word 1"» ++ nl ++ «"nop"» ++ nl)) = true /\
  closed (lex0 («".word 1"» ++ nl ++ nl)) = false /\
  closed (lex0 («".macro m"» ++ nl ++ «"nop"» ++ nl ++ «".endmacro"» ++ nl)) = true /\
  closed (lex0 («"add t0, t1"» ++ nl)) = true.
Proof. vm_compute. repeat split. Qed.

(* what precedes the directive must end at a statement boundary too: A = `.word 1`, T = `2` *)
Definition cxa_split : store := [(a_s, inl (cxT ++ nl ++ «".include ""b.s"""» ++ nl)); (b_s, inl «"2"»)].
Definition cxa_pasted : store := [(a_s, inl (cxT ++ nl ++ normalize_text «"2"»))].
Example C15_paste_needs_closed_before :
  closed (lex0 (cxT ++ nl)) = false /\ closed (lex0 (normalize_text «"2"»)) = true /\
  match parse_from_file true cxa_split a_s false, parse_from_file true cxa_pasted a_s false with
  | Ok (ns1, es1, _), Ok (ns2, es2, _) =>
      map erase_node ns1 <> map erase_node ns2 /\ length es1 = 1%nat /\ es2 = []
  | _, _ => False
  end.
Proof. vm_compute. repeat split. intros H. discriminate H. Qed.

(* the literal include line of the success example *)
Example C15_include_line_example : include_line b_s exL.
Proof.
  apply (C15_include_line_literal b_s [c_space; c_space] [c_space] [c_space]);
    repeat (constructor; [first [reflexivity | repeat split; intros H; discriminate H]|]); constructor.
Qed.

(* a file that imports nothing: every location of its nodes is in it *)
Example C15_in_file_example :
  match lex_all true (Some 2%N) (normalize_text exC) with
  | Ok items =>
      match drive 5 true ex_split false [items] (mkrs [a_s; b_s; c_s]) [] [] with
      | Ok (ns, es, rs') =>
          imported rs' = [a_s; b_s; c_s] /\ length ns = 1%nat /\ es = [] /\ Forall (node_in_file (Some 2%N)) ns
      | _ => False
      end
  | _ => False
  end.
Proof. vm_compute. repeat split; repeat constructor. Qed.
