(* C04 - convention-conforming programs produce no diagnostics (fact level).
   Statements only; proofs in Proofs/LintProofs.v.

   Every diagnostic the lint pass emits is due: its kind's trigger holds at (one of) its
   location(s).  Hence a graph on which no trigger holds - which is what C01/C02/C03/C11 let one
   establish for a program from its semantics - is reported clean.  The step from "the program
   follows the convention" to "no trigger holds" is not proved in general; it is explored with
   conforming-by-construction programs checked by a dynamic convention monitor. *)
From RV.Model Require Import Base I32 Lexer Isa Parser Cfg Avail Live Lints.
From RV.Spec Require Import CfgSpec LintSpec.
From RV.Proofs Require Import LintProofs.
Open Scope N_scope.

(* the kinds characterised by `trig` (all but the two first-use searches and the three stack-pointer kinds,
   which have their own characterisation below) *)
Definition simple_kind (k : lintcode) : bool :=
  match k with
  | LInvalidUseAfterCall | LUnknownStack | LInvalidStackPointer | LInvalidStackPosition | LNodeInManyFunctions => false
  | _ => true
  end.

Definition C04_due_statement : Prop :=
  forall g x, In x (run_diagnostics g) ->
    match lcode x with
    | LInvalidUseAfterCall =>
        exists i c fid f r, node_at g i c /\ calls_to_from_cfg g c = Some fid /\ nth_opt (gfuncs g) fid = Some f /\
          rs_mem r (rs_inter (rs_diff caller_saved_set (fn_returns g f)) (lout c)) = true
    | LUnknownStack | LInvalidStackPointer | LInvalidStackPosition =>
        exists i c s, first_bad_sp g i c s /\ lcands x = [node_loc c]
    | LNodeInManyFunctions =>
        exists i c, node_at g i c /\ (2 <= length (cfuncs c))%nat
    | LInvalidUseBeforeAssignment =>
        (exists l, lcands x = [l] /\ trig g LInvalidUseBeforeAssignment l) \/
        (exists i c r, node_at g i c /\
           (is_program_entry (cn c) = true \/ exists f, is_function_entry_with_func g i c = Some f) /\
           rs_mem r (lin c) = true)
    | k => exists l, lcands x = [l] /\ trig g k l
    end.
Theorem C04_every_diagnostic_is_due : C04_due_statement.
Proof. exact every_diagnostic_is_due. Qed.
Check C04_every_diagnostic_is_due : C04_due_statement.
Print Assumptions C04_every_diagnostic_is_due.

(* clean facts, clean report *)
Definition facts_clean (g : cfg) : Prop :=
  (forall k l, ~ trig g k l) /\
  (forall i c s, ~ first_bad_sp g i c s) /\
  (forall i c, node_at g i c -> (length (cfuncs c) <= 1)%nat) /\
  (forall i c fid f, node_at g i c -> calls_to_from_cfg g c = Some fid -> nth_opt (gfuncs g) fid = Some f ->
     rs_inter (rs_diff caller_saved_set (fn_returns g f)) (lout c) = 0) /\
  (forall i c, node_at g i c -> is_program_entry (cn c) = true -> rs_diff (lin c) program_args_set = 0) /\
  (forall i c f, node_at g i c -> is_function_entry_with_func g i c = Some f ->
     rs_diff (rs_diff (lin c) (fn_arguments g f)) callee_saved_set = 0).
Definition C04_clean_statement : Prop :=
  forall g, facts_clean g -> run_diagnostics g = [].
Theorem C04_clean_facts_no_diags : C04_clean_statement.
Proof. exact clean_facts_no_diags. Qed.
Check C04_clean_facts_no_diags : C04_clean_statement.
Print Assumptions C04_clean_facts_no_diags.
