(* C03 - the control-flow graph matches the program's control flow (static part).
   Statements only; proofs in Proofs/CfgProofs.v. *)
From RV.Model Require Import Base Lexer Isa Parser Cfg Avail Live Lints.
From RV.Spec Require Import CfgSpec.
From RV.Proofs Require Import CfgProofs.

(* after every stage of the pipeline, for every program and every choice of exits, successors
   and predecessors are exact inverses *)
Definition C03_sym_statement : Prop :=
  forall stage picks ns g, gen_cfg_upto stage picks ns = Ok (SOk g) -> Sym g.
Theorem C03_cfg_sym : C03_sym_statement.
Proof. exact cfg_sym. Qed.
Check C03_cfg_sym : C03_sym_statement.
Print Assumptions C03_cfg_sym.

(* every edge of the finished graph is a fall-through, a jump/branch to the label written in the
   instruction, or the merge of an additional return into its function's exit *)
Definition C03_kinds_statement : Prop :=
  forall picks ns g, gen_full_cfg picks ns = Ok (SOk g) ->
    forall i j ci, node_at g i ci -> In j (nexts ci) -> edge_kind g i j ci.
Theorem C03_cfg_edges_kinds : C03_kinds_statement.
Proof. exact cfg_edges_kinds. Qed.
Check C03_cfg_edges_kinds : C03_kinds_statement.
Print Assumptions C03_cfg_edges_kinds.

(* returns and exit ecalls (a7 known to be 10 or 93) have no successors in the finished graph *)
Definition C03_stop_statement : Prop :=
  forall picks ns g, gen_full_cfg picks ns = Ok (SOk g) ->
    forall i ci, node_at g i ci -> (is_return (cn ci) = true \/ is_program_exit ci = true) -> nexts ci = [].
Theorem C03_edges_stop : C03_stop_statement.
Proof. exact edges_stop. Qed.
Check C03_edges_stop : C03_stop_statement.
Print Assumptions C03_edges_stop.

(* 'unreachable code' is reported exactly on the nodes (other than entries) without any
   predecessor in the finished graph; so an instruction with an incoming edge is never reported *)
Definition C03_unreachable_statement : Prop :=
  forall g l, In l (lint_control_flow g) -> lcode l = LUnreachableCode ->
    exists i c, node_at g i c /\ lcands l = [loc_of_node (cn c)] /\ prevs c = [] /\
                is_any_entry (cn c) = false.
Theorem C03_unreachable_only_without_preds : C03_unreachable_statement.
Proof. exact unreachable_only_without_preds. Qed.
Check C03_unreachable_only_without_preds : C03_unreachable_statement.
Print Assumptions C03_unreachable_only_without_preds.

Definition gen_full_is_upto : Prop := forall picks ns, gen_full_cfg picks ns = gen_cfg_upto 11 picks ns.
Theorem C03_full_is_last_stage : gen_full_is_upto.
Proof. exact full_is_upto. Qed.
Check C03_full_is_last_stage : gen_full_is_upto.
Print Assumptions C03_full_is_last_stage.
