(* C13 - Diagnostics do not depend on how the same program is written.
   Statements only; proofs live in Proofs/SpellLexProofs.v (layout at the lexer),
   Proofs/SpellParseProofs.v (comments and blank lines at the parser) and Proofs/SpellProofs.v
   (spelling tables, literals, optional operands, pseudo-instructions).

   Part 1 (this section): LAYOUT.  The KEY of a lexer item is its token type including the text, or
   its error kind, without position or file (Spec/SpellSpec.v [item_key]).  [klex] is a position-free
   restatement of the lexer; the first theorem says the keys of `lex_all` ARE [klex], for either
   build profile and any file identity, so the lexer never fails and every layout statement can be
   read on [klex].  Separators are space, tab, comma and carriage return ([is_ws], [sep_run]). *)
From RV.Model Require Import Base Lexer.
From RV.Spec Require Import PosSpec LineSpec SpellSpec.
From RV.Proofs Require Import LexProofs SpellLexProofs.
Open Scope N_scope.

(* ---------------------------------------------------------------------------------------------- *)
Definition C13_lex_keys_statement : Prop :=
  forall chk file s, exists items, lex_all chk file s = Ok items /\ keys items = klex s.
Theorem C13_lex_keys : C13_lex_keys_statement.
Proof. exact lex_klex. Qed.
Check C13_lex_keys : C13_lex_keys_statement.
Print Assumptions C13_lex_keys.

(* (a) Two non-empty separator runs at the same place give the same token stream, and the stream
   splits there - PROVIDED the text before the place does not end inside a string, a character
   literal or a comment: the last item of the token stream of [u] alone is neither a string error
   nor a comment ([ends_complete None]).  Without the proviso the statement is false:
   u = `# c` (the run becomes part of the comment text), u = one single quote (quote-space-quote is
   the character 32, quote-tab-quote is 9), u = a double quote and a letter (inside a string). *)
Definition C13_layout_separators_statement : Prop :=
  forall chk file (u v w1 w2 : str) iu,
    sep_run w1 -> sep_run w2 -> w1 <> [] -> w2 <> [] ->
    lex_all chk file u = Ok iu -> ends_complete None (keys iu) ->
    exists i1 i2 iv,
      lex_all chk file (u ++ w1 ++ v) = Ok i1 /\ lex_all chk file (u ++ w2 ++ v) = Ok i2 /\
      lex_all chk file v = Ok iv /\ keys i1 = keys i2 /\ keys i1 = keys iu ++ keys iv.
Theorem C13_layout_separators : C13_layout_separators_statement.
Proof. exact layout_separators. Qed.
Check C13_layout_separators : C13_layout_separators_statement.
Print Assumptions C13_layout_separators.

(* the same with a purely syntactic proviso: [u] is any number of complete lines followed by text
   that contains no quote and no '#' *)
Definition C13_layout_separators_plain_statement : Prop :=
  forall chk file (L t v w1 w2 : str),
    lines_block L -> plain t -> sep_run w1 -> sep_run w2 -> w1 <> [] -> w2 <> [] ->
    exists i1 i2, lex_all chk file ((L ++ t) ++ w1 ++ v) = Ok i1 /\
                  lex_all chk file ((L ++ t) ++ w2 ++ v) = Ok i2 /\ keys i1 = keys i2.
Theorem C13_layout_separators_plain : C13_layout_separators_plain_statement.
Proof. exact layout_separators_plain. Qed.
Check C13_layout_separators_plain : C13_layout_separators_plain_statement.
Print Assumptions C13_layout_separators_plain.

(* (b) A separator run (possibly empty) may be inserted
     - before any character that cannot continue a symbol and is not ':' ([dstart Y]: '(' ')' '#'
       newline, a quote, a separator, ...), when [u] ends with a complete token, or
     - after a self-delimiting token ( '(' ')' newline, a label's ':', a closed string or character
       literal, a rejected character ), whatever follows - provided [u] does not end with a dot
       (a dot glues to a following letter: `(.` ++ `x` contains the directive `.x`). *)
Definition C13_layout_optional_separators_statement : Prop :=
  forall chk file (u w Y : str) iu,
    sep_run w -> lex_all chk file u = Ok iu ->
    (dstart Y /\ ends_complete None (keys iu)) \/ (no_final_dot u /\ ends_selfdelim (keys iu)) ->
    exists i1 i2, lex_all chk file (u ++ w ++ Y) = Ok i1 /\ lex_all chk file (u ++ Y) = Ok i2 /\
                  keys i1 = keys i2.
Theorem C13_layout_optional_separators : C13_layout_optional_separators_statement.
Proof. exact layout_optional_separators. Qed.
Check C13_layout_optional_separators : C13_layout_optional_separators_statement.
Print Assumptions C13_layout_optional_separators.

(* the general cutting theorems behind (a) and (b), on the position-free lexer *)
Definition C13_cut_statement : Prop :=
  forall u Y : str,
    (dstart Y -> ends_complete (hd_opt Y) (klex u) -> klex (u ++ Y) = klex u ++ klex Y) /\
    (no_final_dot u -> ends_selfdelim (klex u) -> klex (u ++ Y) = klex u ++ klex Y) /\
    (lines_block u -> klex (u ++ Y) = klex u ++ klex Y) /\
    (sep_run u -> klex (u ++ Y) = klex Y).
Theorem C13_cut : C13_cut_statement.
Proof.
  intros u Y. split; [apply klex_app_delim|]. split; [apply klex_app_self|].
  split; [apply klex_lines|apply klex_sep].
Qed.
Check C13_cut : C13_cut_statement.
Print Assumptions C13_cut.

(* (c) A comment written before the end of a line adds exactly one Comment item (with that text)
   in front of the line's Newline item; a blank line (with or without separators) inserted between
   complete lines adds exactly one Newline item. *)
Definition C13_layout_comment_statement : Prop :=
  forall chk file (u w body v : str) iu,
    sep_run w -> nonl body -> lex_all chk file u = Ok iu -> ends_complete None (keys iu) ->
    exists i1 i2 iv,
      lex_all chk file (u ++ w ++ c_hash :: body ++ c_nl :: v) = Ok i1 /\
      lex_all chk file (u ++ c_nl :: v) = Ok i2 /\ lex_all chk file v = Ok iv /\
      keys i1 = keys iu ++ KTok (TComment body) :: KTok TNewline :: keys iv /\
      keys i2 = keys iu ++ KTok TNewline :: keys iv.
Theorem C13_layout_comment : C13_layout_comment_statement.
Proof. exact layout_comment. Qed.
Check C13_layout_comment : C13_layout_comment_statement.
Print Assumptions C13_layout_comment.

Definition C13_layout_blank_line_statement : Prop :=
  forall chk file (L1 w L2 : str),
    lines_block L1 -> sep_run w ->
    exists i1 i2 ia ib,
      lex_all chk file (L1 ++ (w ++ [c_nl]) ++ L2) = Ok i1 /\ lex_all chk file (L1 ++ L2) = Ok i2 /\
      lex_all chk file L1 = Ok ia /\ lex_all chk file L2 = Ok ib /\
      keys i1 = keys ia ++ KTok TNewline :: keys ib /\ keys i2 = keys ia ++ keys ib.
Theorem C13_layout_blank_line : C13_layout_blank_line_statement.
Proof. exact layout_blank_line. Qed.
Check C13_layout_blank_line : C13_layout_blank_line_statement.
Print Assumptions C13_layout_blank_line.

(* in a token stream a Comment item is always followed by a Newline item (or is the last item) *)
Definition C13_comment_then_newline_statement : Prop :=
  forall chk file s items pre t it post,
    lex_all chk file s = Ok items -> items = pre ++ LTok t :: it :: post ->
    (exists b, tt t = TComment b) -> exists t', it = LTok t' /\ tt t' = TNewline.
Theorem C13_comment_then_newline : C13_comment_then_newline_statement.
Proof. exact lex_comment_then_newline. Qed.
Check C13_comment_then_newline : C13_comment_then_newline_statement.
Print Assumptions C13_comment_then_newline.

(* A whole text written as pieces, each followed by a separator run: the token stream is the
   concatenation of the pieces' streams, whatever the runs.  ([piece_ok]: the run is made of
   separators; it may be empty only after a self-delimiting token.) *)
Definition C13_layout_render_statement : Prop :=
  forall chk file (l1 l2 : list (str * str)),
    map fst l1 = map fst l2 -> Forall piece_ok l1 -> Forall piece_ok l2 ->
    exists i1 i2, lex_all chk file (render l1) = Ok i1 /\ lex_all chk file (render l2) = Ok i2 /\
                  keys i1 = keys i2.
Theorem C13_layout_render : C13_layout_render_statement.
Proof. exact layout_render. Qed.
Check C13_layout_render : C13_layout_render_statement.
Print Assumptions C13_layout_render.

(* non-vacuity, and the counterexamples that make the provisos necessary *)
Example C13_layout_examples :
  (* hypotheses of (a) hold for u = "add a0", and the two writings differ in positions only *)
  (exists iu, lex_all true None «"add a0"» = Ok iu /\ ends_complete None (keys iu)) /\
  sep_run «", "» /\ sep_run [c_tab; c_cr; c_space] /\
  (exists i1 i2, lex_all true None («"add a0"» ++ «", "» ++ «"a1,a2"») = Ok i1 /\
                 lex_all true None («"add a0"» ++ [c_tab; c_cr; c_space] ++ «"a1,a2"») = Ok i2 /\
                 keys i1 = keys i2 /\ i1 <> i2) /\
  (* `4(sp)`, `4 (sp)`, `4( sp )` *)
  klex «"lw a0,4(sp)"» = klex «"lw a0 , 4 ( sp )"» /\
  (* a label in front of its instruction, or on its own line: one more Newline item, nothing else *)
  klex «"l: ret"» = [KTok (TLabel «"l"»); KTok (TSymbol «"ret"»)] /\
  klex («"l:"» ++ [c_nl] ++ «"ret"») = [KTok (TLabel «"l"»); KTok TNewline; KTok (TSymbol «"ret"»)] /\
  (* why (a) needs its proviso *)
  klex («"# c"» ++ «" "» ++ «"x"») <> klex («"# c"» ++ «"  "» ++ «"x"») /\
  klex («"'"» ++ [c_space] ++ «"'"») <> klex («"'"» ++ [c_tab] ++ «"'"») /\
  (* why (b) needs `no_final_dot` and `dstart` *)
  klex («"(."» ++ «"x"») <> klex «"(."» ++ klex «"x"» /\
  klex («"a"» ++ «":"») <> klex «"a"» ++ klex «":"» /\
  plain «"lw a0, 4(sp)"» /\ piece_ok («"lw"», «" "») /\ piece_ok («"4("», []).
Proof.
  split; [eexists; split; [vm_compute; reflexivity|vm_compute; exact I]|].
  split; [reflexivity|]. split; [reflexivity|].
  split; [eexists _, _; split; [vm_compute; reflexivity|split; [vm_compute; reflexivity|split; [reflexivity|vm_compute; discriminate]]]|].
  split; [reflexivity|]. split; [reflexivity|]. split; [reflexivity|].
  split; [vm_compute; discriminate|]. split; [vm_compute; discriminate|].
  split; [vm_compute; discriminate|]. split; [vm_compute; discriminate|].
  split; [reflexivity|].
  split; [split; [reflexivity|left; split; [discriminate|vm_compute; exact I]]|].
  split; [reflexivity|right; split; [vm_compute; discriminate|vm_compute; exact I]].
Qed.

(* ============================================================================================== *)
(* Part 2: THE PARSER IGNORES COMMENTS AND BLANK LINES (Spec/SpellParseSpec.v).
   [squeeze] removes every Comment item and collapses every run of Newline items; [canon] also drops
   leading Newlines; [same_code l1 l2] := canon l1 = canon l2.
   The naive statement "drive on items and on squeeze items give erase-equal nodes and errors" is
   FALSE (examples below):
     - `.word 1 # c` newline `2`: a comment stops the value list of a data directive, a newline does
       not - hence [data_ok] (H2): where a comment stops a value list no further value follows;
     - `add a0 # c`: the error says `expected register, got <comment>` instead of `got <newline>` -
       hence errors are compared after [norm_err] ([spell_err] = erase_perr after turning a comment
       got-token into a newline token); nodes are erase-equal without caveat;
     - item lists in which a comment is not followed by a newline ([comments_end_lines], H1) - never
       produced by the lexer for a source file ([lexed_comments_end_lines]), so H1 disappears at
       text level.
   [code_ok] := H1 && H2.  Stacks of item lists (open include files) are related pointwise by
   [same_items] (literally equal, or same_code and both code_ok). *)
From RV.Model Require Import I32 Imm Isa Parser Reader.
From RV.Spec Require Import ParamSpec SpellParseSpec.
From RV.Proofs Require Import SpellParseProofs SpellLabelProofs.
Close Scope N_scope.
Open Scope nat_scope.

Definition C13_drive_same_code_statement : Prop :=
  forall chk fs ign f1 f2 st1 st2 rs ns1 ns2 es1 es2 N1 E1 R1 N2 E2 R2,
  Forall2 same_items st1 st2 ->
  map erase_node ns1 = map erase_node ns2 -> map spell_err es1 = map spell_err es2 ->
  drive f1 chk fs ign st1 rs ns1 es1 = Ok (N1, E1, R1) ->
  drive f2 chk fs ign st2 rs ns2 es2 = Ok (N2, E2, R2) ->
  map erase_node N1 = map erase_node N2 /\ map spell_err E1 = map spell_err E2 /\ R1 = R2.
Theorem C13_drive_same_code : C13_drive_same_code_statement.
Proof. exact drive_same_code. Qed.
Check C13_drive_same_code : C13_drive_same_code_statement.
Print Assumptions C13_drive_same_code.

Definition C13_drive_items_same_code_statement : Prop :=
  forall chk fs ign f1 f2 items1 items2 rs ns es N1 E1 R1 N2 E2 R2,
  same_code items1 items2 -> code_ok items1 = true -> code_ok items2 = true ->
  drive f1 chk fs ign [items1] rs ns es = Ok (N1, E1, R1) ->
  drive f2 chk fs ign [items2] rs ns es = Ok (N2, E2, R2) ->
  map erase_node N1 = map erase_node N2 /\ map spell_err E1 = map spell_err E2 /\ R1 = R2.
Theorem C13_drive_items_same_code : C13_drive_items_same_code_statement.
Proof. exact drive_items_same_code. Qed.
Check C13_drive_items_same_code : C13_drive_items_same_code_statement.
Print Assumptions C13_drive_items_same_code.

Definition C13_drive_squeeze_statement : Prop :=
  forall chk fs ign f1 f2 stack rs ns es N1 E1 R1 N2 E2 R2,
  Forall (fun l => code_ok l = true) stack ->
  drive f1 chk fs ign stack rs ns es = Ok (N1, E1, R1) ->
  drive f2 chk fs ign (map squeeze stack) rs ns es = Ok (N2, E2, R2) ->
  map erase_node N1 = map erase_node N2 /\ map spell_err E1 = map spell_err E2 /\ R1 = R2.
Theorem C13_drive_squeeze : C13_drive_squeeze_statement.
Proof. exact drive_squeeze. Qed.
Check C13_drive_squeeze : C13_drive_squeeze_statement.
Print Assumptions C13_drive_squeeze.

Definition C13_parse_file_squeeze_statement : Prop :=
  forall chk fs base ign id text rs0 items f2 N1 E1 R1 N2 E2 R2,
  import_file fs base (mkrs []) = (inr (id, text), rs0) ->
  lex_all chk (Some id) (normalize_text text) = Ok items ->
  code_ok items = true ->
  parse_from_file chk fs base ign = Ok (N1, E1, R1) ->
  drive f2 chk fs ign [squeeze items] rs0 [PProgramEntry (Some id) (mkraw range0 (Some id))] [] = Ok (N2, E2, R2) ->
  map erase_node N1 = map erase_node N2 /\ map spell_err E1 = map spell_err E2 /\ R1 = R2.
Theorem C13_parse_file_squeeze : C13_parse_file_squeeze_statement.
Proof. exact parse_file_squeeze. Qed.
Check C13_parse_file_squeeze : C13_parse_file_squeeze_statement.
Print Assumptions C13_parse_file_squeeze.

Definition C13_parse_text_squeeze_data_statement : Prop :=
  forall chk text items N1 E1,
  lex_all chk (Some 0%N) (normalize_text text) = Ok items ->
  data_ok items = true ->
  parse_from_text chk text = Ok (N1, E1) ->
  exists N2 E2 R2,
    drive (2 * store_size [(base_path, inl text)] + 8) chk [(base_path, inl text)] false [squeeze items]
          (mkrs [base_path]) [PProgramEntry (Some 0%N) (mkraw range0 (Some 0%N))] [] = Ok (N2, E2, R2) /\
    map erase_node N1 = map erase_node N2 /\ map spell_err E1 = map spell_err E2.
Theorem C13_parse_text_squeeze_data : C13_parse_text_squeeze_data_statement.
Proof. exact parse_text_squeeze_data. Qed.
Check C13_parse_text_squeeze_data : C13_parse_text_squeeze_data_statement.
Print Assumptions C13_parse_text_squeeze_data.

Definition C13_parse_texts_same_code_statement : Prop :=
  forall chk text1 text2 items1 items2 N1 E1 N2 E2,
  lex_all chk (Some 0%N) (normalize_text text1) = Ok items1 ->
  lex_all chk (Some 0%N) (normalize_text text2) = Ok items2 ->
  same_code items1 items2 -> data_ok items1 = true -> data_ok items2 = true ->
  parse_from_text chk text1 = Ok (N1, E1) -> parse_from_text chk text2 = Ok (N2, E2) ->
  map erase_node N1 = map erase_node N2 /\ map spell_err E1 = map spell_err E2.
Theorem C13_parse_texts_same_code : C13_parse_texts_same_code_statement.
Proof. exact parse_texts_same_code. Qed.
Check C13_parse_texts_same_code : C13_parse_texts_same_code_statement.
Print Assumptions C13_parse_texts_same_code.

Definition C13_parse_one_statement_statement : Prop :=
  forall l1 l2,
  same_code l1 l2 -> code_ok l1 = true -> code_ok l2 = true ->
  (forall x r, l1 = x :: r -> blank_item x = false) -> (forall x r, l2 = x :: r -> blank_item x = false) ->
  exists x1 r1 x2 r2, parse_one l1 = Ok (x1, r1) /\ parse_one l2 = Ok (x2, r2) /\ same_outcome x1 r1 x2 r2.
Theorem C13_parse_one_statement : C13_parse_one_statement_statement.
Proof. exact parse_one_statement. Qed.
Check C13_parse_one_statement : C13_parse_one_statement_statement.
Print Assumptions C13_parse_one_statement.

Definition C13_lexed_comments_end_lines_statement : Prop :=
  forall chk file text items,
  lex_all chk file (normalize_text text) = Ok items -> comments_end_lines items = true.
Theorem C13_lexed_comments_end_lines : C13_lexed_comments_end_lines_statement.
Proof. exact lexed_comments_end_lines. Qed.
Check C13_lexed_comments_end_lines : C13_lexed_comments_end_lines_statement.
Print Assumptions C13_lexed_comments_end_lines.

Definition C13_lexed_code_ok_statement : Prop :=
  forall chk file text items,
  lex_all chk file (normalize_text text) = Ok items -> data_ok items = true -> code_ok items = true.
Theorem C13_lexed_code_ok : C13_lexed_code_ok_statement.
Proof. exact lexed_code_ok. Qed.
Check C13_lexed_code_ok : C13_lexed_code_ok_statement.
Print Assumptions C13_lexed_code_ok.

Definition C13_no_data_ok_statement : Prop :=
  forall l, no_data l = true -> data_ok l = true.
Theorem C13_no_data_ok : C13_no_data_ok_statement.
Proof. exact no_data_ok. Qed.
Check C13_no_data_ok : C13_no_data_ok_statement.
Print Assumptions C13_no_data_ok.

Definition C13_spell_err_erase_statement : Prop :=
  forall e1 e2,
  erase_perr e1 = erase_perr e2 -> spell_err e1 = spell_err e2.
Theorem C13_spell_err_erase : C13_spell_err_erase_statement.
Proof. exact spell_err_erase. Qed.
Check C13_spell_err_erase : C13_spell_err_erase_statement.
Print Assumptions C13_spell_err_erase.

Definition C13_same_items_squeeze_statement : Prop :=
  forall l,
  code_ok l = true -> same_items l (squeeze l).
Theorem C13_same_items_squeeze : C13_same_items_squeeze_statement.
Proof. exact same_items_squeeze. Qed.
Check C13_same_items_squeeze : C13_same_items_squeeze_statement.
Print Assumptions C13_same_items_squeeze.

Definition C13_code_ok_squeeze_statement : Prop :=
  forall l,
  code_ok (squeeze l) = true.
Theorem C13_code_ok_squeeze : C13_code_ok_squeeze_statement.
Proof. exact code_ok_squeeze. Qed.
Check C13_code_ok_squeeze : C13_code_ok_squeeze_statement.
Print Assumptions C13_code_ok_squeeze.

Example C13_sample_ok :
  match lex_all true (Some 0%N) (normalize_text sample) with
  | Ok items => code_ok items = true /\ no_data items = false /\ length items = 63 /\ length (squeeze items) = 52
  | _ => False
  end.
Proof. exact sample_ok. Qed.

Example C13_data_comment_counterexample :
  match lex_all false (Some 0%N) (lines [«".word 1 # c"»; «"2"»]) with
  | Ok items =>
      code_ok items = false /\ comments_end_lines items = true /\
      match drv items, drv (squeeze items) with
      | Ok (n1, e1, _), Ok (n2, e2, _) =>
          length e1 = 1 /\ length e2 = 0 /\ map erase_node n1 <> map erase_node n2
      | _, _ => False
      end
  | _ => False
  end.
Proof. exact data_comment_counterexample. Qed.

Example C13_data_comment_line_counterexample :
  match lex_all false (Some 0%N) (lines [«".word 1"»; «"# c"»; «"2"»]) with
  | Ok items =>
      code_ok items = false /\ comments_end_lines items = true /\
      match drv items, drv (squeeze items) with
      | Ok (n1, e1, _), Ok (n2, e2, _) =>
          length e1 = 1 /\ length e2 = 0 /\ map erase_node n1 <> map erase_node n2
      | _, _ => False
      end
  | _ => False
  end.
Proof. exact data_comment_line_counterexample. Qed.

Example C13_data_comment_fine :
  match lex_all false (Some 0%N) (lines [«".word 1 # c"»; «"# d"»; «"add a0, a0, a0"»]) with
  | Ok items => code_ok items = true
  | _ => False
  end.
Proof. exact data_comment_fine. Qed.

Example C13_expected_got_counterexample :
  match lex_all false (Some 0%N) (lines [«"add a0 # c"»; «"nop"»]) with
  | Ok items =>
      code_ok items = true /\
      match drv items, drv (squeeze items) with
      | Ok (n1, e1, _), Ok (n2, e2, _) =>
          map erase_node n1 = map erase_node n2 /\ map erase_perr e1 <> map erase_perr e2 /\
          map spell_err e1 = map spell_err e2
      | _, _ => False
      end
  | _ => False
  end.
Proof. exact expected_got_counterexample. Qed.

Example C13_comment_without_newline_counterexample :
  match lex_all false (Some 0%N) (lines [«"add a0, a1 # c"»; «"a2"»]) with
  | Ok items =>
      let items' := firstn 4 items ++ skipn 5 items in      (* add a0 a1 #c a2 <NL> *)
      comments_end_lines items' = false /\ data_ok items' = true /\
      match drv items', drv (squeeze items') with
      | Ok (n1, _, _), Ok (n2, _, _) => length n1 = 0 /\ length n2 = 1
      | _, _ => False
      end
  | _ => False
  end.
Proof. exact comment_without_newline_counterexample. Qed.

Example C13_comment_last_counterexample :
  match lex_all false (Some 0%N) (lines [«"jalr a0 # c"»]) with
  | Ok items =>
      let items' := firstn 3 items in                        (* jalr a0 #c *)
      comments_end_lines items' = false /\
      match drv items', drv (squeeze items') with
      | Ok (n1, e1, _), Ok (n2, e2, _) => length n1 = 1 /\ length n2 = 0 /\ e1 = [] /\ e2 = []
      | _, _ => False
      end
  | _ => False
  end.
Proof. exact comment_last_counterexample. Qed.

Example C13_reworded_comments_same_code :
  match lex_all true (Some 0%N) (lines [«"main: li t0, 2   # counter"»; «"  jalr ra  # return"»; «".word 7 # seven"»]),
        lex_all true (Some 0%N) (lines [«"main: li t0, 2   # COUNTER"»; «"  jalr ra  # go out"»; «".word 7 # 3 + 4"»]) with
  | Ok items1, Ok items2 => same_code items1 items2 /\ items1 <> items2 /\ data_ok items1 = true /\ data_ok items2 = true
  | _, _ => False
  end.
Proof. exact reworded_comments_same_code. Qed.


(* A label on its own line or in front of its instruction: the driver reaches the same state
   (same nodes, errors and remaining input - not only up to erasure).  Needs a VALID label: after an
   invalid one (e.g. a register name) error recovery skips the rest of the line, which is the
   instruction in one writing and nothing in the other (example below). *)

Definition C13_label_own_line_statement : Prop :=
  forall f chk fs ign t0 s l tn rest below rs nodes errs,
  tt t0 = TLabel s -> label_from_str s = Some l -> tt tn = TNewline ->
  drive (S (S f)) chk fs ign ((LTok t0 :: LTok tn :: rest) :: below) rs nodes errs =
  drive (S f) chk fs ign ((LTok t0 :: rest) :: below) rs nodes errs.
Theorem C13_label_own_line : C13_label_own_line_statement.
Proof. exact label_own_line. Qed.
Check C13_label_own_line : C13_label_own_line_statement.
Print Assumptions C13_label_own_line.

(* ============================================================================================== *)
(* Part 3: SPELLING TABLES.  Register names: the numeric name xN and the ABI names of the psABI
   (written down in Spec/SpellNodeSpec.v independently of the parser's table) denote the same
   register, nothing else is a register name, and all names are distinct.  Mnemonics, directives
   and immediates are case-insensitive on EVERY string; register names are case-SENSITIVE
   (an observation, see the example). *)
From RV.Model Require Import I32 Imm Isa Parser Reader Cfg.
From RV.Spec Require Import LitSpec ParamSpec SpellNodeSpec.
From RV.Proofs Require Import ImmProofs SpellProofs.
Close Scope nat_scope.
Open Scope Z_scope.

Definition C13_reg_names_sound_statement : Prop :=
  forall r, (r < 32)%N ->
    reg_from_str (numeric_name r) = Some r /\
    forall a, In a (abi_names r) -> reg_from_str a = Some r.
Theorem C13_reg_names_sound : C13_reg_names_sound_statement.
Proof. exact reg_names_sound. Qed.
Check C13_reg_names_sound : C13_reg_names_sound_statement.
Print Assumptions C13_reg_names_sound.
Example C13_reg_names_sound_ex :
  reg_from_str (numeric_name 8) = Some 8%N /\ abi_names 8 = [«"s0"»; «"fp"»] /\
  reg_from_str «"s0"» = Some 8%N /\ reg_from_str «"fp"» = Some 8%N /\
  numeric_name 8 = «"x8"» /\ numeric_name 31 = «"x31"» /\ numeric_name 10 = «"x10"».
Proof. exact reg_names_sound_ex. Qed.

Definition C13_reg_names_complete_statement : Prop :=
  forall s r, reg_from_str s = Some r ->
    (r < 32)%N /\ (s = numeric_name r \/ In s (abi_names r)).
Theorem C13_reg_names_complete : C13_reg_names_complete_statement.
Proof. exact reg_names_complete. Qed.
Check C13_reg_names_complete : C13_reg_names_complete_statement.
Print Assumptions C13_reg_names_complete.
Example C13_reg_names_complete_ex :
  reg_from_str «"fp"» = Some 8%N /\ (8 < 32)%N /\ In «"fp"» (abi_names 8) /\
  reg_from_str «"x32"» = None /\ reg_from_str «"x08"» = None /\ reg_from_str «"s12"» = None.
Proof. exact reg_names_complete_ex. Qed.

Definition C13_reg_names_nodup_statement : Prop :=
  NoDup (map fst reg_names).
Theorem C13_reg_names_nodup : C13_reg_names_nodup_statement.
Proof. exact reg_names_nodup. Qed.
Check C13_reg_names_nodup : C13_reg_names_nodup_statement.
Print Assumptions C13_reg_names_nodup.
(* no example: not found reg_names_nodup_ex *)

Definition C13_reg_names_disjoint_statement : Prop :=
  forall s1 s2 r1 r2,
  reg_from_str s1 = Some r1 -> reg_from_str s2 = Some r2 -> r1 <> r2 -> s1 <> s2.
Theorem C13_reg_names_disjoint : C13_reg_names_disjoint_statement.
Proof. exact reg_names_disjoint. Qed.
Check C13_reg_names_disjoint : C13_reg_names_disjoint_statement.
Print Assumptions C13_reg_names_disjoint.
(* no example: not found reg_names_disjoint_ex *)

Definition C13_inst_from_str_lower_statement : Prop :=
  forall s,
  inst_from_str s = inst_from_str (lower s).
Theorem C13_inst_from_str_lower : C13_inst_from_str_lower_statement.
Proof. exact inst_from_str_lower. Qed.
Check C13_inst_from_str_lower : C13_inst_from_str_lower_statement.
Print Assumptions C13_inst_from_str_lower.
(* no example: not found inst_from_str_lower_ex *)

Definition C13_inst_from_str_case_statement : Prop :=
  forall s1 s2,
  lower s1 = lower s2 -> inst_from_str s1 = inst_from_str s2.
Theorem C13_inst_from_str_case : C13_inst_from_str_case_statement.
Proof. exact inst_from_str_case. Qed.
Check C13_inst_from_str_case : C13_inst_from_str_case_statement.
Print Assumptions C13_inst_from_str_case.
(* no example: not found inst_from_str_case_ex *)

Definition C13_dir_from_str_lower_statement : Prop :=
  forall s,
  dir_from_str s = dir_from_str (lower s).
Theorem C13_dir_from_str_lower : C13_dir_from_str_lower_statement.
Proof. exact dir_from_str_lower. Qed.
Check C13_dir_from_str_lower : C13_dir_from_str_lower_statement.
Print Assumptions C13_dir_from_str_lower.
(* no example: not found dir_from_str_lower_ex *)

Definition C13_dir_from_str_case_statement : Prop :=
  forall s1 s2,
  lower s1 = lower s2 -> dir_from_str s1 = dir_from_str s2.
Theorem C13_dir_from_str_case : C13_dir_from_str_case_statement.
Proof. exact dir_from_str_case. Qed.
Check C13_dir_from_str_case : C13_dir_from_str_case_statement.
Print Assumptions C13_dir_from_str_case.
(* no example: not found dir_from_str_case_ex *)

Definition C13_inst_name_found_statement : Prop :=
  forall i,
  inst_from_str (inst_name i) = Some i.
Theorem C13_inst_name_found : C13_inst_name_found_statement.
Proof. exact inst_name_found. Qed.
Check C13_inst_name_found : C13_inst_name_found_statement.
Print Assumptions C13_inst_name_found.
(* no example: not found inst_name_found_ex *)

Definition C13_dir_name_found_statement : Prop :=
  forall p, In p dir_names -> dir_from_str (fst p) = Some (snd p).
Theorem C13_dir_name_found : C13_dir_name_found_statement.
Proof. exact dir_name_found. Qed.
Check C13_dir_name_found : C13_dir_name_found_statement.
Print Assumptions C13_dir_name_found.
(* no example: not found dir_name_found_ex *)

Example C13_reg_case_sensitive :
  reg_from_str «"A0"» = None /\ reg_from_str «"a0"» = Some 10%N /\
  reg_from_str «"X10"» = None /\ reg_from_str «"Zero"» = None /\
  inst_from_str «"ADDI"» = Some IAddi /\ inst_from_str «"AdDi"» = Some IAddi /\
  dir_from_str «".TEXT"» = Some DText.
Proof. exact reg_case_sensitive. Qed.

Example C13_case_ex :
  lower «"AdD"» = lower «"add"» /\ inst_from_str «"AdD"» = Some IAdd /\ inst_from_str «"add"» = Some IAdd /\
  lower «".WORD"» = lower «".word"» /\ dir_from_str «".WORD"» = Some DWord /\
  imm_from_str «"0XfF"» = imm_from_str «"0xff"».
Proof. exact case_ex. Qed.


(* ============================================================================================== *)
(* Part 4: IMMEDIATE NOTATION.  Letter case never matters.  Two accepted spellings of the same value
   (decimal / hex / binary / `zero`, sign, leading zeros) are read as the same immediate, EXCEPT that
   a value in 2^31 .. 2^32-1 is accepted in hex/binary (bit pattern) and rejected in decimal - hence
   the hypothesis `fits_i32 v \/ ~ fits32 v \/ is_radix n1 = is_radix n2` (counterexample below).
   A character literal is its code. *)

Definition C13_imm_from_str_lower_statement : Prop :=
  forall s,
  imm_from_str s = imm_from_str (lower s).
Theorem C13_imm_from_str_lower : C13_imm_from_str_lower_statement.
Proof. exact imm_from_str_lower. Qed.
Check C13_imm_from_str_lower : C13_imm_from_str_lower_statement.
Print Assumptions C13_imm_from_str_lower.
(* no example: not found imm_from_str_lower_ex *)

Definition C13_imm_from_str_case_statement : Prop :=
  forall s1 s2,
  lower s1 = lower s2 -> imm_from_str s1 = imm_from_str s2.
Theorem C13_imm_from_str_case : C13_imm_from_str_case_statement.
Proof. exact imm_from_str_case. Qed.
Check C13_imm_from_str_case : C13_imm_from_str_case_statement.
Print Assumptions C13_imm_from_str_case.
(* no example: not found imm_from_str_case_ex *)

Definition C13_imm_same_value_statement : Prop :=
  forall s1 s2 v n1 n2,
  symbol_str s1 -> symbol_str s2 ->
  lit_value s1 = Some (v, n1) -> lit_value s2 = Some (v, n2) ->
  fits_i32 v \/ ~ fits32 v \/ is_radix n1 = is_radix n2 ->
  imm_from_str s1 = imm_from_str s2.
Theorem C13_imm_same_value : C13_imm_same_value_statement.
Proof. exact imm_same_value. Qed.
Check C13_imm_same_value : C13_imm_same_value_statement.
Print Assumptions C13_imm_same_value.
(* no example: not found imm_same_value_ex *)

Definition C13_imm_same_value_i32_statement : Prop :=
  forall s1 s2 v n1 n2,
  symbol_str s1 -> symbol_str s2 ->
  lit_value s1 = Some (v, n1) -> lit_value s2 = Some (v, n2) -> fits_i32 v ->
  imm_from_str s1 = Ok (Some v) /\ imm_from_str s2 = Ok (Some v).
Theorem C13_imm_same_value_i32 : C13_imm_same_value_i32_statement.
Proof. exact imm_same_value_i32. Qed.
Check C13_imm_same_value_i32 : C13_imm_same_value_i32_statement.
Print Assumptions C13_imm_same_value_i32.
(* no example: not found imm_same_value_i32_ex *)

Definition C13_char_literal_same_value_statement : Prop :=
  forall tc ts c s n,
  tt tc = TChar c -> tt ts = TSymbol s -> symbol_str s ->
  lit_value s = Some (Z.of_N c, n) -> fits_i32 (Z.of_N c) ->
  exists wc ws, tok_imm tc = Ok (Some wc) /\ tok_imm ts = Ok (Some ws) /\ wv wc = wv ws.
Theorem C13_char_literal_same_value : C13_char_literal_same_value_statement.
Proof. exact char_literal_same_value. Qed.
Check C13_char_literal_same_value : C13_char_literal_same_value_statement.
Print Assumptions C13_char_literal_same_value.
(* no example: not found char_literal_same_value_ex *)

Example C13_imm_radix_counterexample :
  symbol_str «"4294967295"» /\ symbol_str «"0xFFFFFFFF"» /\
  lit_value «"4294967295"» = Some (4294967295, Dec) /\
  lit_value «"0xFFFFFFFF"» = Some (4294967295, Hex) /\
  imm_from_str «"4294967295"» = Ok None /\ imm_from_str «"0xFFFFFFFF"» = Ok (Some (-1)).
Proof. exact imm_radix_counterexample. Qed.

Example C13_imm_spelling_examples :
  imm_from_str «"10"» = Ok (Some 10) /\ imm_from_str «"0xA"» = Ok (Some 10) /\
  imm_from_str «"0Xa"» = Ok (Some 10) /\ imm_from_str «"0b1010"» = Ok (Some 10) /\
  imm_from_str «"0B1010"» = Ok (Some 10) /\ imm_from_str «"0010"» = Ok (Some 10) /\
  imm_from_str «"0012"» = imm_from_str «"12"» /\ imm_from_str «"0xc"» = imm_from_str «"12"» /\
  imm_from_str «"-0x10"» = Ok (Some (-16)) /\ imm_from_str «"-16"» = Ok (Some (-16)) /\
  imm_from_str «"-0b10000"» = Ok (Some (-16)) /\
  imm_from_str «"zero"» = Ok (Some 0) /\ imm_from_str «"ZERO"» = Ok (Some 0) /\
  imm_from_str «"0x0"» = Ok (Some 0) /\ imm_from_str «"-0"» = Ok (Some 0).
Proof. exact imm_spelling_examples. Qed.

Example C13_imm_same_value_nonvacuous :
  symbol_str «"-0x10"» /\ symbol_str «"-16"» /\
  lit_value «"-0x10"» = Some (-16, Hex) /\ lit_value «"-16"» = Some (-16, Dec) /\ fits_i32 (-16) /\
  imm_from_str «"-0x10"» = imm_from_str «"-16"».
Proof. exact imm_same_value_nonvacuous. Qed.

Example C13_char_literal_example :
  let tc := mktok (TChar 97%N) range0 None in
  let ts := mktok (TSymbol «"0x61"») range0 None in
  symbol_str «"0x61"» /\ lit_value «"0x61"» = Some (Z.of_N 97, Hex) /\
  tok_imm_val tc = Ok (Some 97) /\ tok_imm_val ts = Ok (Some 97).
Proof. exact char_literal_example. Qed.


(* ============================================================================================== *)
(* Part 5: OPTIONAL OPERAND FORMS, at the level of `parse_inst i t0 (items, raw)`.
   [strip_node] forgets every token and range of a node (a synthesized operand carries the
   mnemonic's token, so [erase_node] is too fine); [same_parse a b ra rb]: both parses succeed, with
   strip-equal nodes, leaving ra resp. rb unread.  Operands are quantified as TOKENS with a given
   value ([tok_reg_val t = Some r] ...), so the two sides may also differ in register naming,
   literal notation, mnemonic token, position and what follows.
   Made explicit in the statements: `jalr rs` LOOKS AT the token after rs (the newline) and leaves it
   unread when it is no operand (it used to consume it); quirks: in jalr's second operand place
   the word `zero` is the register, hence `tok_reg ti = None`;
   `i rd, imm` needs a following token to peek at. *)

Definition C13_erase_node_strip_node_statement : Prop :=
  forall n1 n2,
  erase_node n1 = erase_node n2 -> strip_node n1 = strip_node n2.
Theorem C13_erase_node_strip_node : C13_erase_node_strip_node_statement.
Proof. exact erase_node_strip_node. Qed.
Check C13_erase_node_strip_node : C13_erase_node_strip_node_statement.
Print Assumptions C13_erase_node_strip_node.
Example C13_erase_node_strip_node_ex :
  let n1 := PBasic (mkw IEcall (sym_at «"ecall"» 3 0)) (mkraw (mkrange (mkpos 3 4 124) (mkpos 3 9 129)) (Some 0%N)) in
  let n2 := PBasic (mkw IEcall (sym_at «"ecall"» 9 2)) raw_default in
  n1 <> n2 /\ erase_node n1 = erase_node n2 /\ strip_node n1 = strip_node n2.
Proof. exact erase_node_strip_node_ex. Qed.

Example C13_strip_node_ex :
  let n1 := PIArith (mkw IAddi (sym_at «"addi"» 3 0)) (mkw 10%N (sym_at «"a0"» 3 0)) (mkw 0%N (sym_at «"x0"» 3 0))
                    (mkw 5 (sym_at «"5"» 3 0)) (mkraw (mkrange (mkpos 3 4 124) (mkpos 3 20 140)) (Some 0%N)) in
  let n2 := PIArith (mkw IAddi (sym_at «"li"» 7 1)) (mkw 10%N (sym_at «"x10"» 7 1)) (mkw 0%N (sym_at «"0x5"» 7 1))
                    (mkw 5 (sym_at «"0x5"» 7 1)) (mkraw (mkrange (mkpos 7 4 284) (mkpos 7 14 294)) (Some 1%N)) in
  erase_node n1 <> erase_node n2 /\ strip_node n1 = strip_node n2 /\
  kill_reg n1 = kill_reg n2 /\ gen_reg n1 = gen_reg n2 /\ kill_reg n1 = rs_one 10%N.
Proof. exact strip_node_ex. Qed.

Definition C13_load_paren_eq_zero_off_statement : Prop :=
  forall i t0 t0' trd lp trs rp trd' tz lp' trs' rp' rest rest' raw raw' rd rs,
  inst_kind i = KLoad ->
  tok_reg_val trd = Some rd -> is_lparen lp = true -> tok_reg_val trs = Some rs -> is_rparen rp = true ->
  tok_reg_val trd' = Some rd -> tok_imm_val tz = Ok (Some 0) -> is_lparen lp' = true ->
  tok_reg_val trs' = Some rs -> is_rparen rp' = true ->
  same_parse (parse_inst i t0 (LTok trd :: LTok lp :: LTok trs :: LTok rp :: rest, raw))
             (parse_inst i t0' (LTok trd' :: LTok tz :: LTok lp' :: LTok trs' :: LTok rp' :: rest', raw'))
             rest rest'.
Theorem C13_load_paren_eq_zero_off : C13_load_paren_eq_zero_off_statement.
Proof. exact load_paren_eq_zero_off. Qed.
Check C13_load_paren_eq_zero_off : C13_load_paren_eq_zero_off_statement.
Print Assumptions C13_load_paren_eq_zero_off.
Example C13_load_paren_eq_zero_off_ex :
  same_parse (parse_inst ILw (sym «"lw"») ([LTok (sym «"a0"»); LTok lpar; LTok (sym «"sp"»); LTok rpar; LTok nl], None))
             (parse_inst ILw (sym_at «"LW"» 5 1)
                ([LTok (sym «"x10"»); LTok (sym «"0x0"»); LTok lpar; LTok (sym «"x2"»); LTok rpar; LTok nl], Some raw_default))
             [LTok nl] [LTok nl].
Proof. exact load_paren_eq_zero_off_ex. Qed.

Definition C13_load_imm_eq_imm_x0_statement : Prop :=
  forall i t0 t0' trd ti pk trd' ti' lp tzero rp rest rest' raw raw' rd z,
  inst_kind i = KLoad ->
  tok_reg_val trd = Some rd -> tok_imm_val ti = Ok (Some z) -> is_lparen pk = false ->
  tok_reg_val trd' = Some rd -> tok_imm_val ti' = Ok (Some z) -> is_lparen lp = true ->
  tok_reg_val tzero = Some 0%N -> is_rparen rp = true ->
  same_parse (parse_inst i t0 (LTok trd :: LTok ti :: LTok pk :: rest, raw))
             (parse_inst i t0' (LTok trd' :: LTok ti' :: LTok lp :: LTok tzero :: LTok rp :: rest', raw'))
             (LTok pk :: rest) rest'.
Theorem C13_load_imm_eq_imm_x0 : C13_load_imm_eq_imm_x0_statement.
Proof. exact load_imm_eq_imm_x0. Qed.
Check C13_load_imm_eq_imm_x0 : C13_load_imm_eq_imm_x0_statement.
Print Assumptions C13_load_imm_eq_imm_x0.
Example C13_load_imm_eq_imm_x0_ex :
  same_parse (parse_inst ILw (sym «"lw"») ([LTok (sym «"a0"»); LTok (sym «"64"»); LTok nl], None))
             (parse_inst ILw (sym «"lw"») ([LTok (sym «"a0"»); LTok (sym «"0x40"»); LTok lpar; LTok (sym «"zero"»); LTok rpar; LTok nl], None))
             [LTok nl] [LTok nl].
Proof. exact load_imm_eq_imm_x0_ex. Qed.

Definition C13_store_paren_eq_zero_off_statement : Prop :=
  forall i t0 t0' trs2 lp trs1 rp trs2' tz lp' trs1' rp' rest rest' raw raw' rs2 rs1,
  inst_kind i = KStore ->
  tok_reg_val trs2 = Some rs2 -> is_lparen lp = true -> tok_reg_val trs1 = Some rs1 -> is_rparen rp = true ->
  tok_reg_val trs2' = Some rs2 -> tok_imm_val tz = Ok (Some 0) -> is_lparen lp' = true ->
  tok_reg_val trs1' = Some rs1 -> is_rparen rp' = true ->
  same_parse (parse_inst i t0 (LTok trs2 :: LTok lp :: LTok trs1 :: LTok rp :: rest, raw))
             (parse_inst i t0' (LTok trs2' :: LTok tz :: LTok lp' :: LTok trs1' :: LTok rp' :: rest', raw'))
             rest rest'.
Theorem C13_store_paren_eq_zero_off : C13_store_paren_eq_zero_off_statement.
Proof. exact store_paren_eq_zero_off. Qed.
Check C13_store_paren_eq_zero_off : C13_store_paren_eq_zero_off_statement.
Print Assumptions C13_store_paren_eq_zero_off.
Example C13_store_paren_eq_zero_off_ex :
  same_parse (parse_inst ISw (sym «"sw"») ([LTok (sym «"ra"»); LTok lpar; LTok (sym «"sp"»); LTok rpar; LTok nl], None))
             (parse_inst ISw (sym «"sw"») ([LTok (sym «"x1"»); LTok (sym «"0"»); LTok lpar; LTok (sym «"x2"»); LTok rpar; LTok nl], None))
             [LTok nl] [LTok nl].
Proof. exact store_paren_eq_zero_off_ex. Qed.

Definition C13_store_imm_eq_imm_x0_statement : Prop :=
  forall i t0 t0' trs2 ti pk trs2' ti' lp tzero rp rest rest' raw raw' rs2 z,
  inst_kind i = KStore ->
  tok_reg_val trs2 = Some rs2 -> tok_imm_val ti = Ok (Some z) -> is_lparen pk = false -> tok_reg pk = None ->
  tok_reg_val trs2' = Some rs2 -> tok_imm_val ti' = Ok (Some z) -> is_lparen lp = true ->
  tok_reg_val tzero = Some 0%N -> is_rparen rp = true ->
  same_parse (parse_inst i t0 (LTok trs2 :: LTok ti :: LTok pk :: rest, raw))
             (parse_inst i t0' (LTok trs2' :: LTok ti' :: LTok lp :: LTok tzero :: LTok rp :: rest', raw'))
             (LTok pk :: rest) rest'.
Theorem C13_store_imm_eq_imm_x0 : C13_store_imm_eq_imm_x0_statement.
Proof. exact store_imm_eq_imm_x0. Qed.
Check C13_store_imm_eq_imm_x0 : C13_store_imm_eq_imm_x0_statement.
Print Assumptions C13_store_imm_eq_imm_x0.
Example C13_store_imm_eq_imm_x0_ex :
  same_parse (parse_inst ISw (sym «"sw"») ([LTok (sym «"a0"»); LTok (sym «"64"»); LTok nl], None))
             (parse_inst ISw (sym «"sw"») ([LTok (sym «"a0"»); LTok (sym «"0x40"»); LTok lpar; LTok (sym «"zero"»); LTok rpar; LTok nl], None))
             [LTok nl] [LTok nl].
Proof. exact store_imm_eq_imm_x0_ex. Qed.

Definition C13_jalr_paren_eq_zero_off_statement : Prop :=
  forall t0 t0' trd lp trs rp trd' tz lp' trs' rp' rest rest' raw raw' rd rs,
  tok_reg_val trd = Some rd -> is_lparen lp = true -> tok_reg_val trs = Some rs -> is_rparen rp = true ->
  tok_reg_val trd' = Some rd -> tok_imm_val tz = Ok (Some 0) -> tok_reg tz = None -> is_lparen lp' = true ->
  tok_reg_val trs' = Some rs -> is_rparen rp' = true ->
  same_parse (parse_inst IJalr t0 (LTok trd :: LTok lp :: LTok trs :: LTok rp :: rest, raw))
             (parse_inst IJalr t0' (LTok trd' :: LTok tz :: LTok lp' :: LTok trs' :: LTok rp' :: rest', raw'))
             rest rest'.
Theorem C13_jalr_paren_eq_zero_off : C13_jalr_paren_eq_zero_off_statement.
Proof. exact jalr_paren_eq_zero_off. Qed.
Check C13_jalr_paren_eq_zero_off : C13_jalr_paren_eq_zero_off_statement.
Print Assumptions C13_jalr_paren_eq_zero_off.
Example C13_jalr_paren_eq_zero_off_ex :
  same_parse (parse_inst IJalr (sym «"jalr"») ([LTok (sym «"ra"»); LTok lpar; LTok (sym «"t0"»); LTok rpar; LTok nl], None))
             (parse_inst IJalr (sym «"jalr"») ([LTok (sym «"x1"»); LTok (sym «"0"»); LTok lpar; LTok (sym «"x5"»); LTok rpar; LTok nl], None))
             [LTok nl] [LTok nl].
Proof. exact jalr_paren_eq_zero_off_ex. Qed.

Definition C13_jalr_off_paren_eq_rs_imm_statement : Prop :=
  forall t0 t0' trd ti lp trs rp trd' trs' ti' rest rest' raw raw' rd rs z,
  tok_reg_val trd = Some rd -> tok_imm_val ti = Ok (Some z) -> tok_reg ti = None -> is_lparen lp = true ->
  tok_reg_val trs = Some rs -> is_rparen rp = true ->
  tok_reg_val trd' = Some rd -> tok_reg_val trs' = Some rs -> tok_imm_val ti' = Ok (Some z) ->
  same_parse (parse_inst IJalr t0 (LTok trd :: LTok ti :: LTok lp :: LTok trs :: LTok rp :: rest, raw))
             (parse_inst IJalr t0' (LTok trd' :: LTok trs' :: LTok ti' :: rest', raw'))
             rest rest'.
Theorem C13_jalr_off_paren_eq_rs_imm : C13_jalr_off_paren_eq_rs_imm_statement.
Proof. exact jalr_off_paren_eq_rs_imm. Qed.
Check C13_jalr_off_paren_eq_rs_imm : C13_jalr_off_paren_eq_rs_imm_statement.
Print Assumptions C13_jalr_off_paren_eq_rs_imm.
Example C13_jalr_off_paren_eq_rs_imm_ex :
  same_parse (parse_inst IJalr (sym «"jalr"») ([LTok (sym «"ra"»); LTok (sym «"8"»); LTok lpar; LTok (sym «"t0"»); LTok rpar; LTok nl], None))
             (parse_inst IJalr (sym «"jalr"») ([LTok (sym «"x1"»); LTok (sym «"x5"»); LTok (sym «"0b1000"»); LTok nl], None))
             [LTok nl] [LTok nl].
Proof. exact jalr_off_paren_eq_rs_imm_ex. Qed.

Definition C13_jalr_paren_eq_rs_zero_statement : Prop :=
  forall t0 t0' trd lp trs rp trd' trs' tz rest rest' raw raw' rd rs,
  tok_reg_val trd = Some rd -> is_lparen lp = true -> tok_reg_val trs = Some rs -> is_rparen rp = true ->
  tok_reg_val trd' = Some rd -> tok_reg_val trs' = Some rs -> tok_imm_val tz = Ok (Some 0) ->
  same_parse (parse_inst IJalr t0 (LTok trd :: LTok lp :: LTok trs :: LTok rp :: rest, raw))
             (parse_inst IJalr t0' (LTok trd' :: LTok trs' :: LTok tz :: rest', raw'))
             rest rest'.
Theorem C13_jalr_paren_eq_rs_zero : C13_jalr_paren_eq_rs_zero_statement.
Proof. exact jalr_paren_eq_rs_zero. Qed.
Check C13_jalr_paren_eq_rs_zero : C13_jalr_paren_eq_rs_zero_statement.
Print Assumptions C13_jalr_paren_eq_rs_zero.
Example C13_jalr_paren_eq_rs_zero_ex :
  same_parse (parse_inst IJalr (sym «"jalr"») ([LTok (sym «"ra"»); LTok lpar; LTok (sym «"t0"»); LTok rpar; LTok nl], None))
             (parse_inst IJalr (sym «"jalr"») ([LTok (sym «"x1"»); LTok (sym «"x5"»); LTok (sym «"zero"»); LTok nl], None))
             [LTok nl] [LTok nl].
Proof. exact jalr_paren_eq_rs_zero_ex. Qed.

Definition C13_jalr_rs_eq_ra_rs_zero_statement : Prop :=
  forall t0 t0' trs nx tra trs' tz rest rest' raw raw' rs,
  tok_reg_val trs = Some rs -> tok_reg nx = None -> tok_imm nx = Ok None -> is_lparen nx = false ->
  tok_reg_val tra = Some 1%N -> tok_reg_val trs' = Some rs -> tok_imm_val tz = Ok (Some 0) ->
  same_parse (parse_inst IJalr t0 (LTok trs :: LTok nx :: rest, raw))
             (parse_inst IJalr t0' (LTok tra :: LTok trs' :: LTok tz :: rest', raw'))
             (LTok nx :: rest) rest'.
Theorem C13_jalr_rs_eq_ra_rs_zero : C13_jalr_rs_eq_ra_rs_zero_statement.
Proof. exact jalr_rs_eq_ra_rs_zero. Qed.
Check C13_jalr_rs_eq_ra_rs_zero : C13_jalr_rs_eq_ra_rs_zero_statement.
Print Assumptions C13_jalr_rs_eq_ra_rs_zero.
Example C13_jalr_rs_eq_ra_rs_zero_ex :
  same_parse (parse_inst IJalr (sym «"jalr"») ([LTok (sym «"t0"»); LTok nl], None))
             (parse_inst IJalr (sym «"jalr"») ([LTok (sym «"ra"»); LTok (sym «"t0"»); LTok (sym «"0"»); LTok nl], None))
             [LTok nl] [LTok nl].
Proof. exact jalr_rs_eq_ra_rs_zero_ex. Qed.

Definition C13_jalr_rs_imm_eq_ra_rs_imm_statement : Prop :=
  forall t0 t0' trs ti pk tra trs' ti' rest rest' raw raw' rs z,
  tok_reg_val trs = Some rs -> tok_imm_val ti = Ok (Some z) -> tok_reg ti = None -> is_lparen pk = false ->
  tok_reg_val tra = Some 1%N -> tok_reg_val trs' = Some rs -> tok_imm_val ti' = Ok (Some z) ->
  same_parse (parse_inst IJalr t0 (LTok trs :: LTok ti :: LTok pk :: rest, raw))
             (parse_inst IJalr t0' (LTok tra :: LTok trs' :: LTok ti' :: rest', raw'))
             (LTok pk :: rest) rest'.
Theorem C13_jalr_rs_imm_eq_ra_rs_imm : C13_jalr_rs_imm_eq_ra_rs_imm_statement.
Proof. exact jalr_rs_imm_eq_ra_rs_imm. Qed.
Check C13_jalr_rs_imm_eq_ra_rs_imm : C13_jalr_rs_imm_eq_ra_rs_imm_statement.
Print Assumptions C13_jalr_rs_imm_eq_ra_rs_imm.
Example C13_jalr_rs_imm_eq_ra_rs_imm_ex :
  same_parse (parse_inst IJalr (sym «"jalr"») ([LTok (sym «"t0"»); LTok (sym «"-4"»); LTok nl], None))
             (parse_inst IJalr (sym «"jalr"») ([LTok (sym «"ra"»); LTok (sym «"t0"»); LTok (sym «"-0x4"»); LTok nl], None))
             [LTok nl] [LTok nl].
Proof. exact jalr_rs_imm_eq_ra_rs_imm_ex. Qed.

Definition C13_jal_label_eq_ra_label_statement : Prop :=
  forall t0 t0' tl tra tl' rest rest' raw raw' l,
  tok_label_val tl = Some l ->
  tok_reg_val tra = Some 1%N -> tok_label_val tl' = Some l ->
  same_parse (parse_inst IJal t0 (LTok tl :: rest, raw))
             (parse_inst IJal t0' (LTok tra :: LTok tl' :: rest', raw'))
             rest rest'.
Theorem C13_jal_label_eq_ra_label : C13_jal_label_eq_ra_label_statement.
Proof. exact jal_label_eq_ra_label. Qed.
Check C13_jal_label_eq_ra_label : C13_jal_label_eq_ra_label_statement.
Print Assumptions C13_jal_label_eq_ra_label.
Example C13_jal_label_eq_ra_label_ex :
  same_parse (parse_inst IJal (sym «"jal"») ([LTok (sym «"f"»); LTok nl], None))
             (parse_inst IJal (sym «"jal"») ([LTok (sym «"x1"»); LTok (sym «"f"»); LTok nl], None))
             [LTok nl] [LTok nl].
Proof. exact jal_label_eq_ra_label_ex. Qed.

Example C13_jalr_rs_leaves_next :
  outcome (parse_inst IJalr (sym «"jalr"») ([LTok (sym «"t0"»); LTok nl; LTok (sym «"ret"»)], None))
  = Some (PJumpLinkR (sw IJalr) (sw 1%N) (sw 5%N) (sw 0) raw_default, [LTok nl; LTok (sym «"ret"»)]) /\
  outcome (parse_inst IJalr (sym «"jalr"») ([LTok (sym «"ra"»); LTok (sym «"t0"»); LTok (sym «"0"»); LTok nl; LTok (sym «"ret"»)], None))
  = Some (PJumpLinkR (sw IJalr) (sw 1%N) (sw 5%N) (sw 0) raw_default, [LTok nl; LTok (sym «"ret"»)]).
Proof. exact jalr_rs_leaves_next. Qed.

Example C13_quirk_jalr_zero_word :
  outcome (parse_inst IJalr (sym «"jalr"») ([LTok (sym «"ra"»); LTok (sym «"zero"»); LTok lpar; LTok (sym «"t0"»); LTok rpar; LTok nl], None)) = None /\
  outcome (parse_inst ILw (sym «"lw"») ([LTok (sym «"ra"»); LTok (sym «"zero"»); LTok lpar; LTok (sym «"t0"»); LTok rpar; LTok nl], None))
  = Some (PLoad (sw ILw) (sw 1%N) (sw 5%N) (sw 0) raw_default, [LTok nl]) /\
  tok_imm_val (sym «"zero"») = Ok (Some 0) /\ tok_reg_val (sym «"zero"») = Some 0%N.
Proof. exact quirk_jalr_zero_word. Qed.

Example C13_quirk_load_imm_at_eof :
  outcome (parse_inst ILw (sym «"lw"») ([LTok (sym «"a0"»); LTok (sym «"64"»)], None)) = None /\
  outcome (parse_inst ILw (sym «"lw"») ([LTok (sym «"a0"»); LTok (sym «"64"»); LTok nl], None))
  = Some (PLoad (sw ILw) (sw 10%N) (sw 0%N) (sw 64) raw_default, [LTok nl]).
Proof. exact quirk_load_imm_at_eof. Qed.


(* ============================================================================================== *)
(* Part 6: PSEUDO-INSTRUCTIONS.  The analysis sees a node only through its constructor and values:
   strip-equal nodes have the same kill/gen sets, class and node predicates.  Each pseudo-instruction
   parses to a node strip-equal to the node of its expansion in the RISC-V assembly manual, with
   these exceptions (stated separately): `mv` is `add rd,rs,x0` not `addi rd,rs,0` (same kill/gen,
   different class); `call` is the single node of `jal ra,l` (kill = caller-saved set, which does
   not contain ra; the manual's auipc+jalr pair kills {ra}); `la` is a dedicated node whose kill/gen
   equal the composition of auipc+addi; csrw/csrs/csrc read `rs, csr` (register first);
   `sgez rs,l` is parsed as the branch `bge x0,rs,l`. *)

Definition C13_strip_node_genkill_statement : Prop :=
  forall n1 n2,
  strip_node n1 = strip_node n2 -> kill_reg n1 = kill_reg n2 /\ gen_reg n1 = gen_reg n2.
Theorem C13_strip_node_genkill : C13_strip_node_genkill_statement.
Proof. exact strip_node_genkill. Qed.
Check C13_strip_node_genkill : C13_strip_node_genkill_statement.
Print Assumptions C13_strip_node_genkill.
(* no example: not found strip_node_genkill_ex *)

Definition C13_strip_node_properties_statement : Prop :=
  forall n1 n2,
  strip_node n1 = strip_node n2 ->
  node_class n1 = node_class n2 /\
  kill_reg n1 = kill_reg n2 /\ gen_reg n1 = gen_reg n2 /\
  is_return n1 = is_return n2 /\ is_ureturn n1 = is_ureturn n2 /\ is_ecall n1 = is_ecall n2 /\
  is_unconditional_jump n1 = is_unconditional_jump n2 /\ is_instruction n1 = is_instruction n2 /\
  option_map wv (writes_to n1) = option_map wv (writes_to n2) /\
  map wv (reads_from n1) = map wv (reads_from n2) /\
  option_map wv (calls_to n1) = option_map wv (calls_to n2) /\
  option_map wv (jumps_to n1) = option_map wv (jumps_to n2) /\
  stores_to_memory n1 = stores_to_memory n2 /\ reads_from_memory n1 = reads_from_memory n2 /\
  uses_memory_location n1 = uses_memory_location n2.
Theorem C13_strip_node_properties : C13_strip_node_properties_statement.
Proof. exact strip_node_properties. Qed.
Check C13_strip_node_properties : C13_strip_node_properties_statement.
Print Assumptions C13_strip_node_properties.
(* no example: not found strip_node_properties_ex *)

Definition C13_same_parse_genkill_statement : Prop :=
  forall a b ra rb,
  same_parse a b ra rb ->
  exists na nb rawa rawb, a = Ok (inr na, (ra, rawa)) /\ b = Ok (inr nb, (rb, rawb)) /\
    node_class na = node_class nb /\ kill_reg na = kill_reg nb /\ gen_reg na = gen_reg nb.
Theorem C13_same_parse_genkill : C13_same_parse_genkill_statement.
Proof. exact same_parse_genkill. Qed.
Check C13_same_parse_genkill : C13_same_parse_genkill_statement.
Print Assumptions C13_same_parse_genkill.
(* no example: not found same_parse_genkill_ex *)

Definition C13_pseudo_nop_statement : Prop :=
  forall t0 u0 ux1 ux2 uk rest rest' raw raw',
  tok_reg_val ux1 = Some 0%N ->
  tok_reg_val ux2 = Some 0%N ->
  tok_imm_val uk = Ok (Some 0) ->
  same_parse (parse_inst INop t0 (rest, raw))
             (parse_inst IAddi u0 (LTok ux1 :: LTok ux2 :: LTok uk :: rest', raw'))
             rest rest'.
Theorem C13_pseudo_nop : C13_pseudo_nop_statement.
Proof. exact pseudo_nop. Qed.
Check C13_pseudo_nop : C13_pseudo_nop_statement.
Print Assumptions C13_pseudo_nop.
Example C13_pseudo_nop_ex :
  same_parse (parse_inst INop (sym «"x"») ([LTok nl], None))
             (parse_inst IAddi (sym «"y"») ([LTok (sym «"zero"»); LTok (sym «"x0"»); LTok (sym «"0"»); LTok nl], None)) [LTok nl] [LTok nl].
Proof. exact pseudo_nop_ex. Qed.

Definition C13_pseudo_li_statement : Prop :=
  forall t0 u0 t_rd t_z u_rd ux1 u_z rest rest' raw raw' rd z,
  tok_reg_val t_rd = Some rd ->
  tok_imm_val t_z = Ok (Some z) ->
  tok_reg_val u_rd = Some rd ->
  tok_reg_val ux1 = Some 0%N ->
  tok_imm_val u_z = Ok (Some z) ->
  same_parse (parse_inst ILi t0 (LTok t_rd :: LTok t_z :: rest, raw))
             (parse_inst IAddi u0 (LTok u_rd :: LTok ux1 :: LTok u_z :: rest', raw'))
             rest rest'.
Theorem C13_pseudo_li : C13_pseudo_li_statement.
Proof. exact pseudo_li. Qed.
Check C13_pseudo_li : C13_pseudo_li_statement.
Print Assumptions C13_pseudo_li.
Example C13_pseudo_li_ex :
  same_parse (parse_inst ILi (sym «"x"») ([LTok (sym «"a0"»); LTok (sym «"0x10"»); LTok nl], None))
             (parse_inst IAddi (sym «"y"») ([LTok (sym «"x10"»); LTok (sym «"zero"»); LTok (sym «"16"»); LTok nl], None)) [LTok nl] [LTok nl].
Proof. exact pseudo_li_ex. Qed.

Definition C13_pseudo_not_statement : Prop :=
  forall t0 u0 t_rd t_rs u_rd u_rs uk rest rest' raw raw' rd rs,
  tok_reg_val t_rd = Some rd ->
  tok_reg_val t_rs = Some rs ->
  tok_reg_val u_rd = Some rd ->
  tok_reg_val u_rs = Some rs ->
  tok_imm_val uk = Ok (Some (-1)) ->
  same_parse (parse_inst INot t0 (LTok t_rd :: LTok t_rs :: rest, raw))
             (parse_inst IXori u0 (LTok u_rd :: LTok u_rs :: LTok uk :: rest', raw'))
             rest rest'.
Theorem C13_pseudo_not : C13_pseudo_not_statement.
Proof. exact pseudo_not. Qed.
Check C13_pseudo_not : C13_pseudo_not_statement.
Print Assumptions C13_pseudo_not.
Example C13_pseudo_not_ex :
  same_parse (parse_inst INot (sym «"x"») ([LTok (sym «"a0"»); LTok (sym «"t1"»); LTok nl], None))
             (parse_inst IXori (sym «"y"») ([LTok (sym «"x10"»); LTok (sym «"x6"»); LTok (sym «"-1"»); LTok nl], None)) [LTok nl] [LTok nl].
Proof. exact pseudo_not_ex. Qed.

Definition C13_pseudo_neg_statement : Prop :=
  forall t0 u0 t_rd t_rs u_rd ux1 u_rs rest rest' raw raw' rd rs,
  tok_reg_val t_rd = Some rd ->
  tok_reg_val t_rs = Some rs ->
  tok_reg_val u_rd = Some rd ->
  tok_reg_val ux1 = Some 0%N ->
  tok_reg_val u_rs = Some rs ->
  same_parse (parse_inst INeg t0 (LTok t_rd :: LTok t_rs :: rest, raw))
             (parse_inst ISub u0 (LTok u_rd :: LTok ux1 :: LTok u_rs :: rest', raw'))
             rest rest'.
Theorem C13_pseudo_neg : C13_pseudo_neg_statement.
Proof. exact pseudo_neg. Qed.
Check C13_pseudo_neg : C13_pseudo_neg_statement.
Print Assumptions C13_pseudo_neg.
Example C13_pseudo_neg_ex :
  same_parse (parse_inst INeg (sym «"x"») ([LTok (sym «"a0"»); LTok (sym «"t1"»); LTok nl], None))
             (parse_inst ISub (sym «"y"») ([LTok (sym «"x10"»); LTok (sym «"zero"»); LTok (sym «"x6"»); LTok nl], None)) [LTok nl] [LTok nl].
Proof. exact pseudo_neg_ex. Qed.

Definition C13_pseudo_seqz_statement : Prop :=
  forall t0 u0 t_rd t_rs u_rd u_rs uk rest rest' raw raw' rd rs,
  tok_reg_val t_rd = Some rd ->
  tok_reg_val t_rs = Some rs ->
  tok_reg_val u_rd = Some rd ->
  tok_reg_val u_rs = Some rs ->
  tok_imm_val uk = Ok (Some 1) ->
  same_parse (parse_inst ISeqz t0 (LTok t_rd :: LTok t_rs :: rest, raw))
             (parse_inst ISltiu u0 (LTok u_rd :: LTok u_rs :: LTok uk :: rest', raw'))
             rest rest'.
Theorem C13_pseudo_seqz : C13_pseudo_seqz_statement.
Proof. exact pseudo_seqz. Qed.
Check C13_pseudo_seqz : C13_pseudo_seqz_statement.
Print Assumptions C13_pseudo_seqz.
Example C13_pseudo_seqz_ex :
  same_parse (parse_inst ISeqz (sym «"x"») ([LTok (sym «"a0"»); LTok (sym «"t1"»); LTok nl], None))
             (parse_inst ISltiu (sym «"y"») ([LTok (sym «"x10"»); LTok (sym «"x6"»); LTok (sym «"1"»); LTok nl], None)) [LTok nl] [LTok nl].
Proof. exact pseudo_seqz_ex. Qed.

Definition C13_pseudo_snez_statement : Prop :=
  forall t0 u0 t_rd t_rs u_rd ux1 u_rs rest rest' raw raw' rd rs,
  tok_reg_val t_rd = Some rd ->
  tok_reg_val t_rs = Some rs ->
  tok_reg_val u_rd = Some rd ->
  tok_reg_val ux1 = Some 0%N ->
  tok_reg_val u_rs = Some rs ->
  same_parse (parse_inst ISnez t0 (LTok t_rd :: LTok t_rs :: rest, raw))
             (parse_inst ISltu u0 (LTok u_rd :: LTok ux1 :: LTok u_rs :: rest', raw'))
             rest rest'.
Theorem C13_pseudo_snez : C13_pseudo_snez_statement.
Proof. exact pseudo_snez. Qed.
Check C13_pseudo_snez : C13_pseudo_snez_statement.
Print Assumptions C13_pseudo_snez.
Example C13_pseudo_snez_ex :
  same_parse (parse_inst ISnez (sym «"x"») ([LTok (sym «"a0"»); LTok (sym «"t1"»); LTok nl], None))
             (parse_inst ISltu (sym «"y"») ([LTok (sym «"x10"»); LTok (sym «"zero"»); LTok (sym «"x6"»); LTok nl], None)) [LTok nl] [LTok nl].
Proof. exact pseudo_snez_ex. Qed.

Definition C13_pseudo_sltz_statement : Prop :=
  forall t0 u0 t_rd t_rs u_rd u_rs ux1 rest rest' raw raw' rd rs,
  tok_reg_val t_rd = Some rd ->
  tok_reg_val t_rs = Some rs ->
  tok_reg_val u_rd = Some rd ->
  tok_reg_val u_rs = Some rs ->
  tok_reg_val ux1 = Some 0%N ->
  same_parse (parse_inst ISltz t0 (LTok t_rd :: LTok t_rs :: rest, raw))
             (parse_inst ISlt u0 (LTok u_rd :: LTok u_rs :: LTok ux1 :: rest', raw'))
             rest rest'.
Theorem C13_pseudo_sltz : C13_pseudo_sltz_statement.
Proof. exact pseudo_sltz. Qed.
Check C13_pseudo_sltz : C13_pseudo_sltz_statement.
Print Assumptions C13_pseudo_sltz.
Example C13_pseudo_sltz_ex :
  same_parse (parse_inst ISltz (sym «"x"») ([LTok (sym «"a0"»); LTok (sym «"t1"»); LTok nl], None))
             (parse_inst ISlt (sym «"y"») ([LTok (sym «"x10"»); LTok (sym «"x6"»); LTok (sym «"zero"»); LTok nl], None)) [LTok nl] [LTok nl].
Proof. exact pseudo_sltz_ex. Qed.

Definition C13_pseudo_sgtz_statement : Prop :=
  forall t0 u0 t_rd t_rs u_rd ux1 u_rs rest rest' raw raw' rd rs,
  tok_reg_val t_rd = Some rd ->
  tok_reg_val t_rs = Some rs ->
  tok_reg_val u_rd = Some rd ->
  tok_reg_val ux1 = Some 0%N ->
  tok_reg_val u_rs = Some rs ->
  same_parse (parse_inst ISgtz t0 (LTok t_rd :: LTok t_rs :: rest, raw))
             (parse_inst ISlt u0 (LTok u_rd :: LTok ux1 :: LTok u_rs :: rest', raw'))
             rest rest'.
Theorem C13_pseudo_sgtz : C13_pseudo_sgtz_statement.
Proof. exact pseudo_sgtz. Qed.
Check C13_pseudo_sgtz : C13_pseudo_sgtz_statement.
Print Assumptions C13_pseudo_sgtz.
Example C13_pseudo_sgtz_ex :
  same_parse (parse_inst ISgtz (sym «"x"») ([LTok (sym «"a0"»); LTok (sym «"t1"»); LTok nl], None))
             (parse_inst ISlt (sym «"y"») ([LTok (sym «"x10"»); LTok (sym «"zero"»); LTok (sym «"x6"»); LTok nl], None)) [LTok nl] [LTok nl].
Proof. exact pseudo_sgtz_ex. Qed.

Definition C13_pseudo_beqz_statement : Prop :=
  forall t0 u0 t_rs t_l u_rs ux1 u_l rest rest' raw raw' rs l,
  tok_reg_val t_rs = Some rs ->
  tok_label_val t_l = Some l ->
  tok_reg_val u_rs = Some rs ->
  tok_reg_val ux1 = Some 0%N ->
  tok_label_val u_l = Some l ->
  same_parse (parse_inst IBeqz t0 (LTok t_rs :: LTok t_l :: rest, raw))
             (parse_inst IBeq u0 (LTok u_rs :: LTok ux1 :: LTok u_l :: rest', raw'))
             rest rest'.
Theorem C13_pseudo_beqz : C13_pseudo_beqz_statement.
Proof. exact pseudo_beqz. Qed.
Check C13_pseudo_beqz : C13_pseudo_beqz_statement.
Print Assumptions C13_pseudo_beqz.
Example C13_pseudo_beqz_ex :
  same_parse (parse_inst IBeqz (sym «"x"») ([LTok (sym «"t1"»); LTok (sym «"loop"»); LTok nl], None))
             (parse_inst IBeq (sym «"y"») ([LTok (sym «"x6"»); LTok (sym «"zero"»); LTok (sym «"loop"»); LTok nl], None)) [LTok nl] [LTok nl].
Proof. exact pseudo_beqz_ex. Qed.

Definition C13_pseudo_bnez_statement : Prop :=
  forall t0 u0 t_rs t_l u_rs ux1 u_l rest rest' raw raw' rs l,
  tok_reg_val t_rs = Some rs ->
  tok_label_val t_l = Some l ->
  tok_reg_val u_rs = Some rs ->
  tok_reg_val ux1 = Some 0%N ->
  tok_label_val u_l = Some l ->
  same_parse (parse_inst IBnez t0 (LTok t_rs :: LTok t_l :: rest, raw))
             (parse_inst IBne u0 (LTok u_rs :: LTok ux1 :: LTok u_l :: rest', raw'))
             rest rest'.
Theorem C13_pseudo_bnez : C13_pseudo_bnez_statement.
Proof. exact pseudo_bnez. Qed.
Check C13_pseudo_bnez : C13_pseudo_bnez_statement.
Print Assumptions C13_pseudo_bnez.
Example C13_pseudo_bnez_ex :
  same_parse (parse_inst IBnez (sym «"x"») ([LTok (sym «"t1"»); LTok (sym «"loop"»); LTok nl], None))
             (parse_inst IBne (sym «"y"») ([LTok (sym «"x6"»); LTok (sym «"zero"»); LTok (sym «"loop"»); LTok nl], None)) [LTok nl] [LTok nl].
Proof. exact pseudo_bnez_ex. Qed.

Definition C13_pseudo_blez_statement : Prop :=
  forall t0 u0 t_rs t_l ux1 u_rs u_l rest rest' raw raw' rs l,
  tok_reg_val t_rs = Some rs ->
  tok_label_val t_l = Some l ->
  tok_reg_val ux1 = Some 0%N ->
  tok_reg_val u_rs = Some rs ->
  tok_label_val u_l = Some l ->
  same_parse (parse_inst IBlez t0 (LTok t_rs :: LTok t_l :: rest, raw))
             (parse_inst IBge u0 (LTok ux1 :: LTok u_rs :: LTok u_l :: rest', raw'))
             rest rest'.
Theorem C13_pseudo_blez : C13_pseudo_blez_statement.
Proof. exact pseudo_blez. Qed.
Check C13_pseudo_blez : C13_pseudo_blez_statement.
Print Assumptions C13_pseudo_blez.
Example C13_pseudo_blez_ex :
  same_parse (parse_inst IBlez (sym «"x"») ([LTok (sym «"t1"»); LTok (sym «"loop"»); LTok nl], None))
             (parse_inst IBge (sym «"y"») ([LTok (sym «"zero"»); LTok (sym «"x6"»); LTok (sym «"loop"»); LTok nl], None)) [LTok nl] [LTok nl].
Proof. exact pseudo_blez_ex. Qed.

Definition C13_pseudo_bgez_statement : Prop :=
  forall t0 u0 t_rs t_l u_rs ux1 u_l rest rest' raw raw' rs l,
  tok_reg_val t_rs = Some rs ->
  tok_label_val t_l = Some l ->
  tok_reg_val u_rs = Some rs ->
  tok_reg_val ux1 = Some 0%N ->
  tok_label_val u_l = Some l ->
  same_parse (parse_inst IBgez t0 (LTok t_rs :: LTok t_l :: rest, raw))
             (parse_inst IBge u0 (LTok u_rs :: LTok ux1 :: LTok u_l :: rest', raw'))
             rest rest'.
Theorem C13_pseudo_bgez : C13_pseudo_bgez_statement.
Proof. exact pseudo_bgez. Qed.
Check C13_pseudo_bgez : C13_pseudo_bgez_statement.
Print Assumptions C13_pseudo_bgez.
Example C13_pseudo_bgez_ex :
  same_parse (parse_inst IBgez (sym «"x"») ([LTok (sym «"t1"»); LTok (sym «"loop"»); LTok nl], None))
             (parse_inst IBge (sym «"y"») ([LTok (sym «"x6"»); LTok (sym «"zero"»); LTok (sym «"loop"»); LTok nl], None)) [LTok nl] [LTok nl].
Proof. exact pseudo_bgez_ex. Qed.

Definition C13_pseudo_bltz_statement : Prop :=
  forall t0 u0 t_rs t_l u_rs ux1 u_l rest rest' raw raw' rs l,
  tok_reg_val t_rs = Some rs ->
  tok_label_val t_l = Some l ->
  tok_reg_val u_rs = Some rs ->
  tok_reg_val ux1 = Some 0%N ->
  tok_label_val u_l = Some l ->
  same_parse (parse_inst IBltz t0 (LTok t_rs :: LTok t_l :: rest, raw))
             (parse_inst IBlt u0 (LTok u_rs :: LTok ux1 :: LTok u_l :: rest', raw'))
             rest rest'.
Theorem C13_pseudo_bltz : C13_pseudo_bltz_statement.
Proof. exact pseudo_bltz. Qed.
Check C13_pseudo_bltz : C13_pseudo_bltz_statement.
Print Assumptions C13_pseudo_bltz.
Example C13_pseudo_bltz_ex :
  same_parse (parse_inst IBltz (sym «"x"») ([LTok (sym «"t1"»); LTok (sym «"loop"»); LTok nl], None))
             (parse_inst IBlt (sym «"y"») ([LTok (sym «"x6"»); LTok (sym «"zero"»); LTok (sym «"loop"»); LTok nl], None)) [LTok nl] [LTok nl].
Proof. exact pseudo_bltz_ex. Qed.

Definition C13_pseudo_bgtz_statement : Prop :=
  forall t0 u0 t_rs t_l ux1 u_rs u_l rest rest' raw raw' rs l,
  tok_reg_val t_rs = Some rs ->
  tok_label_val t_l = Some l ->
  tok_reg_val ux1 = Some 0%N ->
  tok_reg_val u_rs = Some rs ->
  tok_label_val u_l = Some l ->
  same_parse (parse_inst IBgtz t0 (LTok t_rs :: LTok t_l :: rest, raw))
             (parse_inst IBlt u0 (LTok ux1 :: LTok u_rs :: LTok u_l :: rest', raw'))
             rest rest'.
Theorem C13_pseudo_bgtz : C13_pseudo_bgtz_statement.
Proof. exact pseudo_bgtz. Qed.
Check C13_pseudo_bgtz : C13_pseudo_bgtz_statement.
Print Assumptions C13_pseudo_bgtz.
Example C13_pseudo_bgtz_ex :
  same_parse (parse_inst IBgtz (sym «"x"») ([LTok (sym «"t1"»); LTok (sym «"loop"»); LTok nl], None))
             (parse_inst IBlt (sym «"y"») ([LTok (sym «"zero"»); LTok (sym «"x6"»); LTok (sym «"loop"»); LTok nl], None)) [LTok nl] [LTok nl].
Proof. exact pseudo_bgtz_ex. Qed.

Definition C13_pseudo_bgt_statement : Prop :=
  forall t0 u0 t_rs t_rt t_l u_rt u_rs u_l rest rest' raw raw' rs rt l,
  tok_reg_val t_rs = Some rs ->
  tok_reg_val t_rt = Some rt ->
  tok_label_val t_l = Some l ->
  tok_reg_val u_rt = Some rt ->
  tok_reg_val u_rs = Some rs ->
  tok_label_val u_l = Some l ->
  same_parse (parse_inst IBgt t0 (LTok t_rs :: LTok t_rt :: LTok t_l :: rest, raw))
             (parse_inst IBlt u0 (LTok u_rt :: LTok u_rs :: LTok u_l :: rest', raw'))
             rest rest'.
Theorem C13_pseudo_bgt : C13_pseudo_bgt_statement.
Proof. exact pseudo_bgt. Qed.
Check C13_pseudo_bgt : C13_pseudo_bgt_statement.
Print Assumptions C13_pseudo_bgt.
Example C13_pseudo_bgt_ex :
  same_parse (parse_inst IBgt (sym «"x"») ([LTok (sym «"t1"»); LTok (sym «"s2"»); LTok (sym «"loop"»); LTok nl], None))
             (parse_inst IBlt (sym «"y"») ([LTok (sym «"x18"»); LTok (sym «"x6"»); LTok (sym «"loop"»); LTok nl], None)) [LTok nl] [LTok nl].
Proof. exact pseudo_bgt_ex. Qed.

Definition C13_pseudo_ble_statement : Prop :=
  forall t0 u0 t_rs t_rt t_l u_rt u_rs u_l rest rest' raw raw' rs rt l,
  tok_reg_val t_rs = Some rs ->
  tok_reg_val t_rt = Some rt ->
  tok_label_val t_l = Some l ->
  tok_reg_val u_rt = Some rt ->
  tok_reg_val u_rs = Some rs ->
  tok_label_val u_l = Some l ->
  same_parse (parse_inst IBle t0 (LTok t_rs :: LTok t_rt :: LTok t_l :: rest, raw))
             (parse_inst IBge u0 (LTok u_rt :: LTok u_rs :: LTok u_l :: rest', raw'))
             rest rest'.
Theorem C13_pseudo_ble : C13_pseudo_ble_statement.
Proof. exact pseudo_ble. Qed.
Check C13_pseudo_ble : C13_pseudo_ble_statement.
Print Assumptions C13_pseudo_ble.
Example C13_pseudo_ble_ex :
  same_parse (parse_inst IBle (sym «"x"») ([LTok (sym «"t1"»); LTok (sym «"s2"»); LTok (sym «"loop"»); LTok nl], None))
             (parse_inst IBge (sym «"y"») ([LTok (sym «"x18"»); LTok (sym «"x6"»); LTok (sym «"loop"»); LTok nl], None)) [LTok nl] [LTok nl].
Proof. exact pseudo_ble_ex. Qed.

Definition C13_pseudo_bgtu_statement : Prop :=
  forall t0 u0 t_rs t_rt t_l u_rt u_rs u_l rest rest' raw raw' rs rt l,
  tok_reg_val t_rs = Some rs ->
  tok_reg_val t_rt = Some rt ->
  tok_label_val t_l = Some l ->
  tok_reg_val u_rt = Some rt ->
  tok_reg_val u_rs = Some rs ->
  tok_label_val u_l = Some l ->
  same_parse (parse_inst IBgtu t0 (LTok t_rs :: LTok t_rt :: LTok t_l :: rest, raw))
             (parse_inst IBltu u0 (LTok u_rt :: LTok u_rs :: LTok u_l :: rest', raw'))
             rest rest'.
Theorem C13_pseudo_bgtu : C13_pseudo_bgtu_statement.
Proof. exact pseudo_bgtu. Qed.
Check C13_pseudo_bgtu : C13_pseudo_bgtu_statement.
Print Assumptions C13_pseudo_bgtu.
Example C13_pseudo_bgtu_ex :
  same_parse (parse_inst IBgtu (sym «"x"») ([LTok (sym «"t1"»); LTok (sym «"s2"»); LTok (sym «"loop"»); LTok nl], None))
             (parse_inst IBltu (sym «"y"») ([LTok (sym «"x18"»); LTok (sym «"x6"»); LTok (sym «"loop"»); LTok nl], None)) [LTok nl] [LTok nl].
Proof. exact pseudo_bgtu_ex. Qed.

Definition C13_pseudo_bleu_statement : Prop :=
  forall t0 u0 t_rs t_rt t_l u_rt u_rs u_l rest rest' raw raw' rs rt l,
  tok_reg_val t_rs = Some rs ->
  tok_reg_val t_rt = Some rt ->
  tok_label_val t_l = Some l ->
  tok_reg_val u_rt = Some rt ->
  tok_reg_val u_rs = Some rs ->
  tok_label_val u_l = Some l ->
  same_parse (parse_inst IBleu t0 (LTok t_rs :: LTok t_rt :: LTok t_l :: rest, raw))
             (parse_inst IBgeu u0 (LTok u_rt :: LTok u_rs :: LTok u_l :: rest', raw'))
             rest rest'.
Theorem C13_pseudo_bleu : C13_pseudo_bleu_statement.
Proof. exact pseudo_bleu. Qed.
Check C13_pseudo_bleu : C13_pseudo_bleu_statement.
Print Assumptions C13_pseudo_bleu.
Example C13_pseudo_bleu_ex :
  same_parse (parse_inst IBleu (sym «"x"») ([LTok (sym «"t1"»); LTok (sym «"s2"»); LTok (sym «"loop"»); LTok nl], None))
             (parse_inst IBgeu (sym «"y"») ([LTok (sym «"x18"»); LTok (sym «"x6"»); LTok (sym «"loop"»); LTok nl], None)) [LTok nl] [LTok nl].
Proof. exact pseudo_bleu_ex. Qed.

Definition C13_pseudo_j_statement : Prop :=
  forall t0 u0 t_l ux1 u_l rest rest' raw raw' l,
  tok_label_val t_l = Some l ->
  tok_reg_val ux1 = Some 0%N ->
  tok_label_val u_l = Some l ->
  same_parse (parse_inst IJ t0 (LTok t_l :: rest, raw))
             (parse_inst IJal u0 (LTok ux1 :: LTok u_l :: rest', raw'))
             rest rest'.
Theorem C13_pseudo_j : C13_pseudo_j_statement.
Proof. exact pseudo_j. Qed.
Check C13_pseudo_j : C13_pseudo_j_statement.
Print Assumptions C13_pseudo_j.
Example C13_pseudo_j_ex :
  same_parse (parse_inst IJ (sym «"x"») ([LTok (sym «"loop"»); LTok nl], None))
             (parse_inst IJal (sym «"y"») ([LTok (sym «"zero"»); LTok (sym «"loop"»); LTok nl], None)) [LTok nl] [LTok nl].
Proof. exact pseudo_j_ex. Qed.

Definition C13_pseudo_b_statement : Prop :=
  forall t0 u0 t_l ux1 u_l rest rest' raw raw' l,
  tok_label_val t_l = Some l ->
  tok_reg_val ux1 = Some 0%N ->
  tok_label_val u_l = Some l ->
  same_parse (parse_inst IB t0 (LTok t_l :: rest, raw))
             (parse_inst IJal u0 (LTok ux1 :: LTok u_l :: rest', raw'))
             rest rest'.
Theorem C13_pseudo_b : C13_pseudo_b_statement.
Proof. exact pseudo_b. Qed.
Check C13_pseudo_b : C13_pseudo_b_statement.
Print Assumptions C13_pseudo_b.
Example C13_pseudo_b_ex :
  same_parse (parse_inst IB (sym «"x"») ([LTok (sym «"loop"»); LTok nl], None))
             (parse_inst IJal (sym «"y"») ([LTok (sym «"zero"»); LTok (sym «"loop"»); LTok nl], None)) [LTok nl] [LTok nl].
Proof. exact pseudo_b_ex. Qed.

Definition C13_pseudo_jr_statement : Prop :=
  forall t0 u0 t_rs ux1 u_rs uk rest rest' raw raw' rs,
  tok_reg_val t_rs = Some rs ->
  tok_reg_val ux1 = Some 0%N ->
  tok_reg_val u_rs = Some rs ->
  tok_imm_val uk = Ok (Some 0) ->
  same_parse (parse_inst IJr t0 (LTok t_rs :: rest, raw))
             (parse_inst IJalr u0 (LTok ux1 :: LTok u_rs :: LTok uk :: rest', raw'))
             rest rest'.
Theorem C13_pseudo_jr : C13_pseudo_jr_statement.
Proof. exact pseudo_jr. Qed.
Check C13_pseudo_jr : C13_pseudo_jr_statement.
Print Assumptions C13_pseudo_jr.
Example C13_pseudo_jr_ex :
  same_parse (parse_inst IJr (sym «"x"») ([LTok (sym «"t1"»); LTok nl], None))
             (parse_inst IJalr (sym «"y"») ([LTok (sym «"zero"»); LTok (sym «"x6"»); LTok (sym «"0"»); LTok nl], None)) [LTok nl] [LTok nl].
Proof. exact pseudo_jr_ex. Qed.

Definition C13_pseudo_ret_statement : Prop :=
  forall t0 u0 ux1 ux2 uk rest rest' raw raw',
  tok_reg_val ux1 = Some 0%N ->
  tok_reg_val ux2 = Some 1%N ->
  tok_imm_val uk = Ok (Some 0) ->
  same_parse (parse_inst IRet t0 (rest, raw))
             (parse_inst IJalr u0 (LTok ux1 :: LTok ux2 :: LTok uk :: rest', raw'))
             rest rest'.
Theorem C13_pseudo_ret : C13_pseudo_ret_statement.
Proof. exact pseudo_ret. Qed.
Check C13_pseudo_ret : C13_pseudo_ret_statement.
Print Assumptions C13_pseudo_ret.
Example C13_pseudo_ret_ex :
  same_parse (parse_inst IRet (sym «"x"») ([LTok nl], None))
             (parse_inst IJalr (sym «"y"») ([LTok (sym «"zero"»); LTok (sym «"ra"»); LTok (sym «"0"»); LTok nl], None)) [LTok nl] [LTok nl].
Proof. exact pseudo_ret_ex. Qed.

Definition C13_pseudo_csrr_statement : Prop :=
  forall t0 u0 t_rd t_c u_rd u_c ux1 rest rest' raw raw' rd c,
  tok_reg_val t_rd = Some rd ->
  tok_csr_val t_c = Ok (Some c) ->
  tok_reg_val u_rd = Some rd ->
  tok_csr_val u_c = Ok (Some c) ->
  tok_reg_val ux1 = Some 0%N ->
  same_parse (parse_inst ICsrr t0 (LTok t_rd :: LTok t_c :: rest, raw))
             (parse_inst ICsrrs u0 (LTok u_rd :: LTok u_c :: LTok ux1 :: rest', raw'))
             rest rest'.
Theorem C13_pseudo_csrr : C13_pseudo_csrr_statement.
Proof. exact pseudo_csrr. Qed.
Check C13_pseudo_csrr : C13_pseudo_csrr_statement.
Print Assumptions C13_pseudo_csrr.
Example C13_pseudo_csrr_ex :
  same_parse (parse_inst ICsrr (sym «"x"») ([LTok (sym «"a0"»); LTok (sym «"0x41"»); LTok nl], None))
             (parse_inst ICsrrs (sym «"y"») ([LTok (sym «"x10"»); LTok (sym «"uepc"»); LTok (sym «"zero"»); LTok nl], None)) [LTok nl] [LTok nl].
Proof. exact pseudo_csrr_ex. Qed.

Definition C13_pseudo_csrwi_statement : Prop :=
  forall t0 u0 t_c t_z ux1 u_c u_z rest rest' raw raw' c z,
  tok_csr_val t_c = Ok (Some c) ->
  tok_imm_val t_z = Ok (Some z) ->
  tok_reg_val ux1 = Some 0%N ->
  tok_csr_val u_c = Ok (Some c) ->
  tok_imm_val u_z = Ok (Some z) ->
  same_parse (parse_inst ICsrwi t0 (LTok t_c :: LTok t_z :: rest, raw))
             (parse_inst ICsrrwi u0 (LTok ux1 :: LTok u_c :: LTok u_z :: rest', raw'))
             rest rest'.
Theorem C13_pseudo_csrwi : C13_pseudo_csrwi_statement.
Proof. exact pseudo_csrwi. Qed.
Check C13_pseudo_csrwi : C13_pseudo_csrwi_statement.
Print Assumptions C13_pseudo_csrwi.
Example C13_pseudo_csrwi_ex :
  same_parse (parse_inst ICsrwi (sym «"x"») ([LTok (sym «"0x41"»); LTok (sym «"0x10"»); LTok nl], None))
             (parse_inst ICsrrwi (sym «"y"») ([LTok (sym «"zero"»); LTok (sym «"uepc"»); LTok (sym «"16"»); LTok nl], None)) [LTok nl] [LTok nl].
Proof. exact pseudo_csrwi_ex. Qed.

Definition C13_pseudo_csrsi_statement : Prop :=
  forall t0 u0 t_c t_z ux1 u_c u_z rest rest' raw raw' c z,
  tok_csr_val t_c = Ok (Some c) ->
  tok_imm_val t_z = Ok (Some z) ->
  tok_reg_val ux1 = Some 0%N ->
  tok_csr_val u_c = Ok (Some c) ->
  tok_imm_val u_z = Ok (Some z) ->
  same_parse (parse_inst ICsrsi t0 (LTok t_c :: LTok t_z :: rest, raw))
             (parse_inst ICsrrsi u0 (LTok ux1 :: LTok u_c :: LTok u_z :: rest', raw'))
             rest rest'.
Theorem C13_pseudo_csrsi : C13_pseudo_csrsi_statement.
Proof. exact pseudo_csrsi. Qed.
Check C13_pseudo_csrsi : C13_pseudo_csrsi_statement.
Print Assumptions C13_pseudo_csrsi.
Example C13_pseudo_csrsi_ex :
  same_parse (parse_inst ICsrsi (sym «"x"») ([LTok (sym «"0x41"»); LTok (sym «"0x10"»); LTok nl], None))
             (parse_inst ICsrrsi (sym «"y"») ([LTok (sym «"zero"»); LTok (sym «"uepc"»); LTok (sym «"16"»); LTok nl], None)) [LTok nl] [LTok nl].
Proof. exact pseudo_csrsi_ex. Qed.

Definition C13_pseudo_csrci_statement : Prop :=
  forall t0 u0 t_c t_z ux1 u_c u_z rest rest' raw raw' c z,
  tok_csr_val t_c = Ok (Some c) ->
  tok_imm_val t_z = Ok (Some z) ->
  tok_reg_val ux1 = Some 0%N ->
  tok_csr_val u_c = Ok (Some c) ->
  tok_imm_val u_z = Ok (Some z) ->
  same_parse (parse_inst ICsrci t0 (LTok t_c :: LTok t_z :: rest, raw))
             (parse_inst ICsrrci u0 (LTok ux1 :: LTok u_c :: LTok u_z :: rest', raw'))
             rest rest'.
Theorem C13_pseudo_csrci : C13_pseudo_csrci_statement.
Proof. exact pseudo_csrci. Qed.
Check C13_pseudo_csrci : C13_pseudo_csrci_statement.
Print Assumptions C13_pseudo_csrci.
Example C13_pseudo_csrci_ex :
  same_parse (parse_inst ICsrci (sym «"x"») ([LTok (sym «"0x41"»); LTok (sym «"0x10"»); LTok nl], None))
             (parse_inst ICsrrci (sym «"y"») ([LTok (sym «"zero"»); LTok (sym «"uepc"»); LTok (sym «"16"»); LTok nl], None)) [LTok nl] [LTok nl].
Proof. exact pseudo_csrci_ex. Qed.

Definition C13_pseudo_mv_model_statement : Prop :=
  forall t0 u0 t_rd t_rs u_rd u_rs ux1 rest rest' raw raw' rd rs,
  tok_reg_val t_rd = Some rd ->
  tok_reg_val t_rs = Some rs ->
  tok_reg_val u_rd = Some rd ->
  tok_reg_val u_rs = Some rs ->
  tok_reg_val ux1 = Some 0%N ->
  same_parse (parse_inst IMv t0 (LTok t_rd :: LTok t_rs :: rest, raw))
             (parse_inst IAdd u0 (LTok u_rd :: LTok u_rs :: LTok ux1 :: rest', raw'))
             rest rest'.
Theorem C13_pseudo_mv_model : C13_pseudo_mv_model_statement.
Proof. exact pseudo_mv_model. Qed.
Check C13_pseudo_mv_model : C13_pseudo_mv_model_statement.
Print Assumptions C13_pseudo_mv_model.
Example C13_pseudo_mv_model_ex :
  same_parse (parse_inst IMv (sym «"x"») ([LTok (sym «"a0"»); LTok (sym «"t1"»); LTok nl], None))
             (parse_inst IAdd (sym «"y"») ([LTok (sym «"x10"»); LTok (sym «"x6"»); LTok (sym «"zero"»); LTok nl], None)) [LTok nl] [LTok nl].
Proof. exact pseudo_mv_model_ex. Qed.

Definition C13_pseudo_call_model_statement : Prop :=
  forall t0 u0 t_l ux1 u_l rest rest' raw raw' l,
  tok_label_val t_l = Some l ->
  tok_reg_val ux1 = Some 1%N ->
  tok_label_val u_l = Some l ->
  same_parse (parse_inst ICall t0 (LTok t_l :: rest, raw))
             (parse_inst IJal u0 (LTok ux1 :: LTok u_l :: rest', raw'))
             rest rest'.
Theorem C13_pseudo_call_model : C13_pseudo_call_model_statement.
Proof. exact pseudo_call_model. Qed.
Check C13_pseudo_call_model : C13_pseudo_call_model_statement.
Print Assumptions C13_pseudo_call_model.
Example C13_pseudo_call_model_ex :
  same_parse (parse_inst ICall (sym «"x"») ([LTok (sym «"loop"»); LTok nl], None))
             (parse_inst IJal (sym «"y"») ([LTok (sym «"ra"»); LTok (sym «"loop"»); LTok nl], None)) [LTok nl] [LTok nl].
Proof. exact pseudo_call_model_ex. Qed.

Definition C13_pseudo_csrw_model_statement : Prop :=
  forall t0 u0 t_rs t_c ux1 u_c u_rs rest rest' raw raw' rs c,
  tok_reg_val t_rs = Some rs ->
  tok_csr_val t_c = Ok (Some c) ->
  tok_reg_val ux1 = Some 0%N ->
  tok_csr_val u_c = Ok (Some c) ->
  tok_reg_val u_rs = Some rs ->
  same_parse (parse_inst ICsrw t0 (LTok t_rs :: LTok t_c :: rest, raw))
             (parse_inst ICsrrw u0 (LTok ux1 :: LTok u_c :: LTok u_rs :: rest', raw'))
             rest rest'.
Theorem C13_pseudo_csrw_model : C13_pseudo_csrw_model_statement.
Proof. exact pseudo_csrw_model. Qed.
Check C13_pseudo_csrw_model : C13_pseudo_csrw_model_statement.
Print Assumptions C13_pseudo_csrw_model.
Example C13_pseudo_csrw_model_ex :
  same_parse (parse_inst ICsrw (sym «"x"») ([LTok (sym «"t1"»); LTok (sym «"0x41"»); LTok nl], None))
             (parse_inst ICsrrw (sym «"y"») ([LTok (sym «"zero"»); LTok (sym «"uepc"»); LTok (sym «"x6"»); LTok nl], None)) [LTok nl] [LTok nl].
Proof. exact pseudo_csrw_model_ex. Qed.

Definition C13_pseudo_csrs_model_statement : Prop :=
  forall t0 u0 t_rs t_c ux1 u_c u_rs rest rest' raw raw' rs c,
  tok_reg_val t_rs = Some rs ->
  tok_csr_val t_c = Ok (Some c) ->
  tok_reg_val ux1 = Some 0%N ->
  tok_csr_val u_c = Ok (Some c) ->
  tok_reg_val u_rs = Some rs ->
  same_parse (parse_inst ICsrs t0 (LTok t_rs :: LTok t_c :: rest, raw))
             (parse_inst ICsrrs u0 (LTok ux1 :: LTok u_c :: LTok u_rs :: rest', raw'))
             rest rest'.
Theorem C13_pseudo_csrs_model : C13_pseudo_csrs_model_statement.
Proof. exact pseudo_csrs_model. Qed.
Check C13_pseudo_csrs_model : C13_pseudo_csrs_model_statement.
Print Assumptions C13_pseudo_csrs_model.
Example C13_pseudo_csrs_model_ex :
  same_parse (parse_inst ICsrs (sym «"x"») ([LTok (sym «"t1"»); LTok (sym «"0x41"»); LTok nl], None))
             (parse_inst ICsrrs (sym «"y"») ([LTok (sym «"zero"»); LTok (sym «"uepc"»); LTok (sym «"x6"»); LTok nl], None)) [LTok nl] [LTok nl].
Proof. exact pseudo_csrs_model_ex. Qed.

Definition C13_pseudo_csrc_model_statement : Prop :=
  forall t0 u0 t_rs t_c ux1 u_c u_rs rest rest' raw raw' rs c,
  tok_reg_val t_rs = Some rs ->
  tok_csr_val t_c = Ok (Some c) ->
  tok_reg_val ux1 = Some 0%N ->
  tok_csr_val u_c = Ok (Some c) ->
  tok_reg_val u_rs = Some rs ->
  same_parse (parse_inst ICsrc t0 (LTok t_rs :: LTok t_c :: rest, raw))
             (parse_inst ICsrrc u0 (LTok ux1 :: LTok u_c :: LTok u_rs :: rest', raw'))
             rest rest'.
Theorem C13_pseudo_csrc_model : C13_pseudo_csrc_model_statement.
Proof. exact pseudo_csrc_model. Qed.
Check C13_pseudo_csrc_model : C13_pseudo_csrc_model_statement.
Print Assumptions C13_pseudo_csrc_model.
Example C13_pseudo_csrc_model_ex :
  same_parse (parse_inst ICsrc (sym «"x"») ([LTok (sym «"t1"»); LTok (sym «"0x41"»); LTok nl], None))
             (parse_inst ICsrrc (sym «"y"») ([LTok (sym «"zero"»); LTok (sym «"uepc"»); LTok (sym «"x6"»); LTok nl], None)) [LTok nl] [LTok nl].
Proof. exact pseudo_csrc_model_ex. Qed.

Definition C13_pseudo_sgez_model_statement : Prop :=
  forall t0 u0 t_rs t_l ux1 u_rs u_l rest rest' raw raw' rs l,
  tok_reg_val t_rs = Some rs ->
  tok_label_val t_l = Some l ->
  tok_reg_val ux1 = Some 0%N ->
  tok_reg_val u_rs = Some rs ->
  tok_label_val u_l = Some l ->
  same_parse (parse_inst ISgez t0 (LTok t_rs :: LTok t_l :: rest, raw))
             (parse_inst IBge u0 (LTok ux1 :: LTok u_rs :: LTok u_l :: rest', raw'))
             rest rest'.
Theorem C13_pseudo_sgez_model : C13_pseudo_sgez_model_statement.
Proof. exact pseudo_sgez_model. Qed.
Check C13_pseudo_sgez_model : C13_pseudo_sgez_model_statement.
Print Assumptions C13_pseudo_sgez_model.
Example C13_pseudo_sgez_model_ex :
  same_parse (parse_inst ISgez (sym «"x"») ([LTok (sym «"t1"»); LTok (sym «"loop"»); LTok nl], None))
             (parse_inst IBge (sym «"y"») ([LTok (sym «"zero"»); LTok (sym «"x6"»); LTok (sym «"loop"»); LTok nl], None)) [LTok nl] [LTok nl].
Proof. exact pseudo_sgez_model_ex. Qed.

Definition C13_mv_node_vs_addi_node_statement : Prop :=
  forall i1 i2 rd rs (x0w : wth reg) rd' rs' z rt1 rt2,
  wv x0w = 0%N -> wv rd = wv rd' -> wv rs = wv rs' ->
  kill_reg (PArith i1 rd rs x0w rt1) = kill_reg (PIArith i2 rd' rs' z rt2) /\
  gen_reg (PArith i1 rd rs x0w rt1) = gen_reg (PIArith i2 rd' rs' z rt2) /\
  node_class (PArith i1 rd rs x0w rt1) <> node_class (PIArith i2 rd' rs' z rt2).
Theorem C13_mv_node_vs_addi_node : C13_mv_node_vs_addi_node_statement.
Proof. exact mv_node_vs_addi_node. Qed.
Check C13_mv_node_vs_addi_node : C13_mv_node_vs_addi_node_statement.
Print Assumptions C13_mv_node_vs_addi_node.
(* no example: not found mv_node_vs_addi_node_ex *)

Definition C13_pseudo_mv_official_statement : Prop :=
  forall t0 u0 t_rd t_rs u_rd u_rs uk rest rest' raw raw' rd rs,
  tok_reg_val t_rd = Some rd -> tok_reg_val t_rs = Some rs ->
  tok_reg_val u_rd = Some rd -> tok_reg_val u_rs = Some rs -> tok_imm_val uk = Ok (Some 0) ->
  exists n1 n2 raw1 raw2,
    parse_inst IMv t0 (LTok t_rd :: LTok t_rs :: rest, raw) = Ok (inr n1, (rest, raw1)) /\
    parse_inst IAddi u0 (LTok u_rd :: LTok u_rs :: LTok uk :: rest', raw') = Ok (inr n2, (rest', raw2)) /\
    kill_reg n1 = kill_reg n2 /\ gen_reg n1 = gen_reg n2 /\
    node_class n1 = CArith /\ node_class n2 = CIArith.
Theorem C13_pseudo_mv_official : C13_pseudo_mv_official_statement.
Proof. exact pseudo_mv_official. Qed.
Check C13_pseudo_mv_official : C13_pseudo_mv_official_statement.
Print Assumptions C13_pseudo_mv_official.
Example C13_pseudo_mv_official_ex :
  let n1 := PArith (sw IAdd) (sw 10%N) (sw 6%N) (sw 0%N) raw_default in
  let n2 := PIArith (sw IAddi) (sw 10%N) (sw 6%N) (sw 0) raw_default in
  outcome (parse_inst IMv (sym «"mv"») ([LTok (sym «"a0"»); LTok (sym «"t1"»); LTok nl], None)) = Some (n1, [LTok nl]) /\
  outcome (parse_inst IAddi (sym «"addi"») ([LTok (sym «"a0"»); LTok (sym «"t1"»); LTok (sym «"0"»); LTok nl], None)) = Some (n2, [LTok nl]) /\
  kill_reg n1 = rs_one 10%N /\ kill_reg n2 = rs_one 10%N /\ gen_reg n1 = rs_one 6%N /\ gen_reg n2 = rs_one 6%N /\
  node_class n1 = CArith /\ node_class n2 = CIArith.
Proof. exact pseudo_mv_official_ex. Qed.

Definition C13_call_vs_official_statement : Prop :=
  forall l hi lo,
  let n := PJumpLink (sw IJal) (sw 1%N) (sw l) raw_default in
  let a := official_call_1 hi in let b := official_call_2 lo in
  gen_reg n = rs_empty /\ seq_gen (gen_reg a) (kill_reg a) (gen_reg b) = rs_empty /\
  kill_reg n = caller_saved_set /\ seq_kill (kill_reg a) (kill_reg b) = rs_one 1%N /\
  kill_reg n <> seq_kill (kill_reg a) (kill_reg b) /\
  rs_mem 1%N (kill_reg n) = false.
Theorem C13_call_vs_official : C13_call_vs_official_statement.
Proof. exact call_vs_official. Qed.
Check C13_call_vs_official : C13_call_vs_official_statement.
Print Assumptions C13_call_vs_official.
Example C13_call_vs_official_ex :
  kill_reg (PJumpLink (sw IJal) (sw 1%N) (sw «"f"») raw_default) = 4026793184%N /\
  rs_elems 4026793184%N = [5;6;7;10;11;12;13;14;15;16;17;28;29;30;31]%N /\
  seq_kill (kill_reg (official_call_1 0)) (kill_reg (official_call_2 0)) = 2%N /\ rs_elems 2%N = [1%N].
Proof. exact call_vs_official_ex. Qed.

Definition C13_la_genkill_statement : Prop :=
  forall i rd name rt,
  kill_reg (PLoadAddr i rd name rt) = rs_diff (rs_one (wv rd)) const_zero_set /\
  gen_reg (PLoadAddr i rd name rt) = rs_empty.
Theorem C13_la_genkill : C13_la_genkill_statement.
Proof. exact la_genkill. Qed.
Check C13_la_genkill : C13_la_genkill_statement.
Print Assumptions C13_la_genkill.
(* no example: not found la_genkill_ex *)

Definition C13_la_vs_official_statement : Prop :=
  forall i rd name rt hi lo,
  let a := official_la_1 (wv rd) hi in let b := official_la_2 (wv rd) lo in
  kill_reg (PLoadAddr i rd name rt) = seq_kill (kill_reg a) (kill_reg b) /\
  gen_reg (PLoadAddr i rd name rt) = seq_gen (gen_reg a) (kill_reg a) (gen_reg b).
Theorem C13_la_vs_official : C13_la_vs_official_statement.
Proof. exact la_vs_official. Qed.
Check C13_la_vs_official : C13_la_vs_official_statement.
Print Assumptions C13_la_vs_official.
Example C13_la_vs_official_ex :
  outcome (parse_inst ILa (sym «"la"») ([LTok (sym «"a0"»); LTok (sym «"msg"»); LTok nl], None))
  = Some (PLoadAddr (sw ILa) (sw 10%N) (sw «"msg"») raw_default, [LTok nl]) /\
  kill_reg (PLoadAddr (sw ILa) (sw 10%N) (sw «"msg"») raw_default) = rs_one 10%N /\
  seq_kill (kill_reg (official_la_1 10%N 0)) (kill_reg (official_la_2 10%N 0)) = rs_one 10%N /\
  seq_gen (gen_reg (official_la_1 10%N 0)) (kill_reg (official_la_1 10%N 0)) (gen_reg (official_la_2 10%N 0)) = rs_empty /\
  kill_reg (PLoadAddr (sw ILa) (sw 0%N) (sw «"msg"») raw_default) = rs_empty.
Proof. exact la_vs_official_ex. Qed.

Example C13_quirk_auipc_three_operands :
  inst_kind IAuipc = KIArith /\
  outcome (parse_inst IAuipc (sym «"auipc"») ([LTok (sym «"ra"»); LTok (sym «"0x10"»); LTok nl], None)) = None /\
  outcome (parse_inst IAuipc (sym «"auipc"») ([LTok (sym «"ra"»); LTok (sym «"x0"»); LTok (sym «"0x10"»); LTok nl], None))
  = Some (PIArith (sw IAuipc) (sw 1%N) (sw 0%N) (sw 16) raw_default, [LTok nl]).
Proof. exact quirk_auipc_three_operands. Qed.

Example C13_quirk_sgez_is_branch :
  outcome (parse_inst ISgez (sym «"sgez"») ([LTok (sym «"a0"»); LTok (sym «"done"»); LTok nl], None))
  = Some (PBranch (sw IBge) (sw 0%N) (sw 10%N) (sw «"done"») raw_default, [LTok nl]) /\
  outcome (parse_inst ISgez (sym «"sgez"») ([LTok (sym «"a0"»); LTok (sym «"a1"»); LTok nl], None)) = None.
Proof. exact quirk_sgez_is_branch. Qed.

Example C13_quirk_csrw_operand_order :
  outcome (parse_inst ICsrw (sym «"csrw"») ([LTok (sym «"t0"»); LTok (sym «"uepc"»); LTok nl], None))
  = Some (PCsr (sw ICsrrw) (sw 0%N) (sw 65) (sw 5%N) raw_default, [LTok nl]) /\
  outcome (parse_inst ICsrw (sym «"csrw"») ([LTok (sym «"uepc"»); LTok (sym «"t0"»); LTok nl], None)) = None.
Proof. exact quirk_csrw_operand_order. Qed.

(* ============================================================================================== *)
(* Examples across the parts. *)

Definition C13_nl : str := [c_nl].
Definition C13_run (p : str) : option (list pnode * list parse_error) :=
  match parse_from_text true p with Ok (n, e) => Some (map strip_node n, map erase_perr e) | _ => None end.

(* label on its own line / in front of its instruction: same result; with an INVALID label (a register
   name) the two writings differ - the first loses the `ret` to error recovery *)
Example C13_label_examples :
  C13_run («"l: ret"» ++ C13_nl) = C13_run («"l:"» ++ C13_nl ++ «"ret"» ++ C13_nl) /\
  (exists n e, C13_run («"l: ret"» ++ C13_nl) = Some (n, e) /\ length n = 3%nat /\ e = []) /\
  (exists n1 e1 n2 e2,
     C13_run («"a0: ret"» ++ C13_nl) = Some (n1, e1) /\ C13_run («"a0:"» ++ C13_nl ++ «"ret"» ++ C13_nl) = Some (n2, e2) /\
     length n1 = 1%nat /\ length n2 = 2%nat /\ e1 = e2 /\ length e1 = 1%nat).
Proof.
  split; [vm_compute; reflexivity|].
  split; [eexists _, _; split; [vm_compute; reflexivity|split; reflexivity]|].
  eexists _, _, _, _. split; [vm_compute; reflexivity|]. split; [vm_compute; reflexivity|].
  repeat split; reflexivity.
Qed.

(* everything together: one program written in two ways - spacing, tabs, carriage return, optional
   commas, comments, blank lines, label placement, mnemonic case, numeric/ABI register names,
   decimal/hex immediates, omitted zero offset, pseudo-instruction vs expansion, missing final
   newline - parses to the same nodes up to tokens and ranges, without errors. *)
Definition C13_P1 : str :=
  «"main:"» ++ C13_nl ++ «"  li a0, 10"» ++ C13_nl ++ «"  lw a1, 0(sp)"» ++ C13_nl ++
  «"  bgt a0, a1, main"» ++ C13_nl ++ «"  ret"» ++ C13_nl.
Definition C13_P2 : str :=
  «"main:  LI x10 0xA # ten"» ++ C13_nl ++ C13_nl ++ [c_tab] ++ «"Lw a1 (x2)"» ++ C13_nl ++ «"# c"» ++ C13_nl ++
  «"blt x11,x10,main"» ++ [c_cr] ++ C13_nl ++ «" jalr zero , ra , 0"».
Example C13_end_to_end_example :
  exists n, C13_run C13_P1 = Some (n, []) /\ C13_run C13_P2 = Some (n, []) /\ length n = 6%nat /\
            klex C13_P1 <> klex C13_P2.
Proof.
  eexists. split; [vm_compute; reflexivity|]. split; [vm_compute; reflexivity|].
  split; [reflexivity|vm_compute; discriminate].
Qed.

(* ============================================================================================== *)
(* END TO END.  Two writings of a file whose token streams have the same keys - which is what the layout theorems
   above establish for spacing, tabs, separators and CR - get, through the whole pipeline: the same nodes and parse
   errors up to positions, and for every choice of exits the same diagnostics (kinds, order before sorting, flags),
   each located at the SAME PLACE: the same node index and operand selector, or the parse error of the same index. *)
From RV.Model Require Import Lints.
From RV.Spec Require Import ParamPlaceSpec.
From RV.Proofs Require Import SpellEndProofs.
Definition C13_end_to_end_statement : Prop :=
  forall chk path (t1 t2 : str) ign i1 i2,
    lex_all chk (Some 0%N) (normalize_text t1) = Ok i1 ->
    lex_all chk (Some 0%N) (normalize_text t2) = Ok i2 ->
    keys i1 = keys i2 ->
    forall ns1 es1 rs1 ns2 es2 rs2,
      parse_from_file chk [(path, inl t1)] path ign = Ok (ns1, es1, rs1) ->
      parse_from_file chk [(path, inl t2)] path ign = Ok (ns2, es2, rs2) ->
      map erase_node ns1 = map erase_node ns2 /\ map erase_perr es1 = map erase_perr es2 /\
      forall picks,
        match run_items picks ns1 es1, run_items picks ns2 es2 with
        | Ok d1, Ok d2 =>
            map erase_ditem d1 = map erase_ditem d2 /\
            Forall2 (fun a b => Forall2 (place ns1 ns2 es1 es2) (dlocs a) (dlocs b)) d1 d2
        | Panic _, Panic _ => True | OutOfFuel, OutOfFuel => True | _, _ => False
        end.
Theorem C13_same_keys_same_diagnostics : C13_end_to_end_statement.
Proof. exact same_keys_same_diagnostics. Qed.
Check C13_same_keys_same_diagnostics : C13_end_to_end_statement.
Print Assumptions C13_same_keys_same_diagnostics.
