(* C06 - linting any input terminates without crashing (what is provable of it).
   Statements only; proofs in Proofs/TotalProofs.v.

   The model returns `Panic site` where the Rust code would panic (arithmetic overflow under
   overflow checks, debug assertions, unwrap on None, slicing), and `OutOfFuel` where a loop is not
   known to terminate.  Proved here: lexing and parsing of ANY input - any characters, any include
   graph over the in-memory reader, any reader faults - always return (no panic, no fuel
   exhaustion); the analysis pipeline and the lints never panic; and the only place where the
   pipeline can fail to terminate is one of the two dataflow fixed-point loops.  NOT proved, and
   false of the code today (known findings F-C06-avail-hang, F-C06-live-hang): that those two loops
   terminate. *)
From RV.Model Require Import Base Lexer Isa Parser Reader Cfg Avail Live Lints.
From RV.Proofs Require Import TotalProofs FixProofs.

Definition C06_lex_statement : Prop :=
  forall chk file src, exists items, lex_all chk file src = Ok items.
Theorem C06_lex_total : C06_lex_statement.
Proof. exact lex_total. Qed.
Check C06_lex_total : C06_lex_statement.
Print Assumptions C06_lex_total.

Definition C06_parse_statement : Prop :=
  forall chk (fs : store) base ignore_imports,
    exists nodes errs rs, parse_from_file chk fs base ignore_imports = Ok (nodes, errs, rs).
Theorem C06_parse_total_any_store : C06_parse_statement.
Proof. exact parse_total_any_store. Qed.
Check C06_parse_total_any_store : C06_parse_statement.
Print Assumptions C06_parse_total_any_store.

Definition C06_no_panic_statement : Prop :=
  forall picks nodes errs site,
    gen_full_cfg picks nodes <> Panic site /\ run_items picks nodes errs <> Panic site.
Theorem C06_pipeline_no_panic : C06_no_panic_statement.
Proof. exact pipeline_no_panic. Qed.
Check C06_pipeline_no_panic : C06_no_panic_statement.
Print Assumptions C06_pipeline_no_panic.

(* if the pipeline does not return, one of its (at most) four dataflow runs did not *)
Definition C06_diverge_statement : Prop :=
  forall picks nodes, gen_full_cfg picks nodes = OutOfFuel ->
    exists g, avail_pass g = OutOfFuel \/ liveness_pass g = OutOfFuel.
Theorem C06_only_dataflow_can_diverge : C06_diverge_statement.
Proof. exact only_dataflow_can_diverge. Qed.
Check C06_only_dataflow_can_diverge : C06_diverge_statement.
Print Assumptions C06_only_dataflow_can_diverge.

(* A sweep of the value analysis that changes no fact and meets no new node ends the loop, whatever has
   been visited so far.  (Generalised over the visited set: since the fix of `avail_sweep` - a node seen
   for the first time counts as a change - a sweep from visited = [] sets the flag on every non-empty
   graph, so the statement for [] alone would only speak of the empty graph.) *)
Definition C06_stable_statement : Prop :=
  forall fuel g vis, (0 < fuel)%nat ->
    (let '(_, _, ch) := avail_sweep (seq 0 (length g)) g vis false in ch = false) ->
    exists g', avail_loop fuel g vis = Ok g'.
Theorem C06_stable_sweep_terminates : C06_stable_statement.
Proof. exact stable_sweep_terminates. Qed.
Check C06_stable_sweep_terminates : C06_stable_statement.
Print Assumptions C06_stable_sweep_terminates.

(* A concrete class: on a graph without edges (e.g. straight-line code that was pruned, or a single node;
   whatever facts the nodes hold at the start) the value analysis returns after at most TWO sweeps, i.e.
   with any fuel >= 2: the first sweep visits every node and gives it the facts of its transfer from
   empty ins, the second changes nothing and meets no new node.  (Proofs/FixProofs.v; only the value
   analysis is covered, nothing is claimed of the liveness loop.) *)
Definition C06_edgeless_statement : Prop :=
  forall fuel g, (forall i c, nth_opt g i = Some c -> prevs c = []) ->
    exists g', avail_loop (S (S fuel)) g [] = Ok g'.
Theorem C06_edgeless_two_sweeps : C06_edgeless_statement.
Proof. exact edgeless_two_sweeps. Qed.
Check C06_edgeless_two_sweeps : C06_edgeless_statement.
Print Assumptions C06_edgeless_two_sweeps.

(* non-vacuity.  0: ProgramEntry, 1: `li t0, 5`, 2: `addi t1, t0, 1`, 3: `li t0, 7`, edges 0 -> 1 -> 2 -> 3
   -> 2 (a loop), all facts empty.
   (i) the run returns (after three sweeps: two are not enough, the second still changes node 2, where
   t0 = 5 and t0 = 7 meet); on its result [g] with every node visited the hypothesis of
   C06_stable_sweep_terminates holds (the sweep sets no flag) although the facts are not trivial (t0 = 7
   after node 3), whereas from visited = [] the same sweep sets the flag (every node is new);
   (ii) an edgeless graph of one node needs its two sweeps: the bound of C06_edgeless_two_sweeps is exact. *)
Definition C06_w {A} (a : A) : wth A := mkw a tok_default.
Definition C06_nd (n : pnode) (nx pv : list nat) : cnode := mkcn n [] true nx pv [] [] [] [] [] 0%N 0%N 0%N.
Definition C06_g : list cnode :=
  [ C06_nd (PProgramEntry (Some 0%N) raw_default) [1%nat] [];
    C06_nd (PIArith (C06_w IAddi) (C06_w 5%N) (C06_w 0%N) (C06_w 5%Z) raw_default) [2%nat] [0%nat];
    C06_nd (PIArith (C06_w IAddi) (C06_w 6%N) (C06_w 5%N) (C06_w 1%Z) raw_default) [3%nat] [1%nat; 3%nat];
    C06_nd (PIArith (C06_w IAddi) (C06_w 5%N) (C06_w 0%N) (C06_w 7%Z) raw_default) [2%nat] [2%nat] ].
Example C06_stable_example :
  match avail_loop 3 C06_g [] with
  | Ok g =>
      length g = 4%nat /\
      (let '(_, _, ch) := avail_sweep (seq 0 (length g)) g [0%nat; 1%nat; 2%nat; 3%nat] false in ch = false) /\
      (let '(_, _, ch) := avail_sweep (seq 0 (length g)) g [] false in ch = true) /\
      match nth_opt g 3 with Some c => rm_get 5%N (rout c) = Some (AConst 7) | None => False end
  | _ => False
  end /\
  avail_loop 2 C06_g [] = OutOfFuel /\
  avail_loop 1 [C06_nd (PProgramEntry (Some 0%N) raw_default) [] []] [] = OutOfFuel /\
  (exists g', avail_loop 2 [C06_nd (PProgramEntry (Some 0%N) raw_default) [] []] [] = Ok g').
Proof. vm_compute. repeat split; try reflexivity. eexists; reflexivity. Qed.
