(* C06 - linting any input terminates without crashing (what is provable of it).
   Statements only; proofs in Proofs/TotalProofs.v.

   The model returns `Panic site` where the Rust code would panic (arithmetic overflow under
   overflow checks, debug assertions, unwrap on None, slicing), and `OutOfFuel` where a loop is not
   known to terminate.  Proved here: lexing and parsing of ANY input - any characters, any include
   graph over the in-memory reader, any reader faults - always return (no panic, no fuel
   exhaustion); the analysis pipeline and the lints never panic; and the only place where the
   pipeline can fail to terminate is one of the two dataflow fixed-point loops.  NOT proved, and
   false of the code today (known findings F-C06-avail-hang, F-C06-live-hang): that those two loops
   terminate.  Proved for two classes without back edges (end of this file; Proofs/ForwardProofs.v,
   Proofs/ForwardLiveProofs.v): on forward graphs the value analysis, and on forward graphs without call
   sites the liveness analysis, return within a number of sweeps linear in the size of the graph - NOT
   within two, which is false of both loops. *)
From RV.Model Require Import Base Lexer Isa Parser Reader Cfg Avail Live Lints.
From RV.Spec Require Import FixSpec ForwardSpec.
From RV.Proofs Require Import TotalProofs FixProofs ForwardProofs ForwardLiveProofs.
From Coq Require Import Lia.

Definition C06_lex_statement : Prop :=
  forall chk file src, exists items, lex_all chk file src = Ok items.
Theorem C06_lex_total : C06_lex_statement.
Proof. exact lex_total. Qed.
Check C06_lex_total : C06_lex_statement.
Print Assumptions C06_lex_total.

Definition C06_parse_statement : Prop :=
  forall chk (fs : store) base ignore_imports,
    exists nodes errs rs, parse_from_file chk fs base ignore_imports = Ok (nodes, errs, rs).
Theorem C06_parse_total_any_store : C06_parse_statement.
Proof. exact parse_total_any_store. Qed.
Check C06_parse_total_any_store : C06_parse_statement.
Print Assumptions C06_parse_total_any_store.

Definition C06_no_panic_statement : Prop :=
  forall picks nodes errs site,
    gen_full_cfg picks nodes <> Panic site /\ run_items picks nodes errs <> Panic site.
Theorem C06_pipeline_no_panic : C06_no_panic_statement.
Proof. exact pipeline_no_panic. Qed.
Check C06_pipeline_no_panic : C06_no_panic_statement.
Print Assumptions C06_pipeline_no_panic.

(* if the pipeline does not return, one of its (at most) four dataflow runs did not *)
Definition C06_diverge_statement : Prop :=
  forall picks nodes, gen_full_cfg picks nodes = OutOfFuel ->
    exists g, avail_pass g = OutOfFuel \/ liveness_pass g = OutOfFuel.
Theorem C06_only_dataflow_can_diverge : C06_diverge_statement.
Proof. exact only_dataflow_can_diverge. Qed.
Check C06_only_dataflow_can_diverge : C06_diverge_statement.
Print Assumptions C06_only_dataflow_can_diverge.

(* A sweep of the value analysis that changes no fact and meets no new node ends the loop, whatever has
   been visited so far.  (Generalised over the visited set: since the fix of `avail_sweep` - a node seen
   for the first time counts as a change - a sweep from visited = [] sets the flag on every non-empty
   graph, so the statement for [] alone would only speak of the empty graph.) *)
Definition C06_stable_statement : Prop :=
  forall fuel g vis, (0 < fuel)%nat ->
    (let '(_, _, ch) := avail_sweep (seq 0 (length g)) g vis false in ch = false) ->
    exists g', avail_loop fuel g vis = Ok g'.
Theorem C06_stable_sweep_terminates : C06_stable_statement.
Proof. exact stable_sweep_terminates. Qed.
Check C06_stable_sweep_terminates : C06_stable_statement.
Print Assumptions C06_stable_sweep_terminates.

(* A concrete class: on a graph without edges (e.g. straight-line code that was pruned, or a single node;
   whatever facts the nodes hold at the start) the value analysis returns after at most TWO sweeps, i.e.
   with any fuel >= 2: the first sweep visits every node and gives it the facts of its transfer from
   empty ins, the second changes nothing and meets no new node.  (Proofs/FixProofs.v; only the value
   analysis is covered, nothing is claimed of the liveness loop.) *)
Definition C06_edgeless_statement : Prop :=
  forall fuel g, (forall i c, nth_opt g i = Some c -> prevs c = []) ->
    exists g', avail_loop (S (S fuel)) g [] = Ok g'.
Theorem C06_edgeless_two_sweeps : C06_edgeless_statement.
Proof. exact edgeless_two_sweeps. Qed.
Check C06_edgeless_two_sweeps : C06_edgeless_statement.
Print Assumptions C06_edgeless_two_sweeps.

(* non-vacuity.  0: ProgramEntry, 1: `li t0, 5`, 2: `addi t1, t0, 1`, 3: `li t0, 7`, edges 0 -> 1 -> 2 -> 3
   -> 2 (a loop), all facts empty.
   (i) the run returns (after three sweeps: two are not enough, the second still changes node 2, where
   t0 = 5 and t0 = 7 meet); on its result [g] with every node visited the hypothesis of
   C06_stable_sweep_terminates holds (the sweep sets no flag) although the facts are not trivial (t0 = 7
   after node 3), whereas from visited = [] the same sweep sets the flag (every node is new);
   (ii) an edgeless graph of one node needs its two sweeps: the bound of C06_edgeless_two_sweeps is exact. *)
Definition C06_w {A} (a : A) : wth A := mkw a tok_default.
Definition C06_nd (n : pnode) (nx pv : list nat) : cnode := mkcn n [] true nx pv [] [] [] [] [] 0%N 0%N 0%N.
Definition C06_g : list cnode :=
  [ C06_nd (PProgramEntry (Some 0%N) raw_default) [1%nat] [];
    C06_nd (PIArith (C06_w IAddi) (C06_w 5%N) (C06_w 0%N) (C06_w 5%Z) raw_default) [2%nat] [0%nat];
    C06_nd (PIArith (C06_w IAddi) (C06_w 6%N) (C06_w 5%N) (C06_w 1%Z) raw_default) [3%nat] [1%nat; 3%nat];
    C06_nd (PIArith (C06_w IAddi) (C06_w 5%N) (C06_w 0%N) (C06_w 7%Z) raw_default) [2%nat] [2%nat] ].
Example C06_stable_example :
  match avail_loop 3 C06_g [] with
  | Ok g =>
      length g = 4%nat /\
      (let '(_, _, ch) := avail_sweep (seq 0 (length g)) g [0%nat; 1%nat; 2%nat; 3%nat] false in ch = false) /\
      (let '(_, _, ch) := avail_sweep (seq 0 (length g)) g [] false in ch = true) /\
      match nth_opt g 3 with Some c => rm_get 5%N (rout c) = Some (AConst 7) | None => False end
  | _ => False
  end /\
  avail_loop 2 C06_g [] = OutOfFuel /\
  avail_loop 1 [C06_nd (PProgramEntry (Some 0%N) raw_default) [] []] [] = OutOfFuel /\
  (exists g', avail_loop 2 [C06_nd (PProgramEntry (Some 0%N) raw_default) [] []] [] = Ok g').
Proof. vm_compute. repeat split; try reflexivity. eexists; reflexivity. Qed.

(* ---------------------------------------------------------------------------------------------------
   FORWARD graphs (Spec/ForwardSpec.v): every predecessor of a node has a smaller index - straight-line
   code with forward branches and joins, no back edge.  Whatever facts the nodes hold at the start.

   "Two sweeps suffice on a forward graph" is FALSE of the model: the transfer of a LOAD reads the node's
   own OLD memory outs (`rule_pull_value_from_csr_memory n r2 (mout c)` in `avail_transfer`), i.e. what the
   PREVIOUS sweep stored there, so the value a load pulls out of memory addressed through a csr arrives one
   sweep late, and a chain of k store/load pairs through such memory needs k + 2 sweeps (witness below: the
   straight-line program `li a0, 5; csrr t0, mscratch; sw a0, 0(t0); lw t1, 0(t0)` with empty facts needs
   three).  What holds (Proofs/ForwardProofs.v): the loop returns within (number of loads) + 2 sweeps; two
   sweeps if the graph has no load; hence `avail_pass`, whose fuel is 40 * length + 64, always returns on a
   forward graph and (C12, avail_fix_full) its result satisfies the equations. *)
Definition C06_forward_two_sweeps_false_statement : Prop :=
  ~ (forall fuel g, forward g -> exists g', avail_loop (S (S fuel)) g [] = Ok g').
Theorem C06_forward_two_sweeps_false : C06_forward_two_sweeps_false_statement.
Proof. exact forward_two_sweeps_false. Qed.
Check C06_forward_two_sweeps_false : C06_forward_two_sweeps_false_statement.
Print Assumptions C06_forward_two_sweeps_false.

(* count_pulls g = the number of nodes with `reads_from_memory` (the loads) *)
Definition C06_forward_statement : Prop :=
  forall fuel g, forward g -> exists g', avail_loop (S (S (count_pulls g)) + fuel) g [] = Ok g'.
Theorem C06_forward_sweeps : C06_forward_statement.
Proof. exact forward_sweeps. Qed.
Check C06_forward_sweeps : C06_forward_statement.
Print Assumptions C06_forward_sweeps.

(* the statement that was asked for, under the hypothesis it needs: no node is a load *)
Definition C06_forward_two_sweeps_statement : Prop :=
  forall fuel g, forward g -> (forall i c, nth_opt g i = Some c -> reads_from_memory (cn c) = None) ->
    exists g', avail_loop (S (S fuel)) g [] = Ok g'.
Theorem C06_forward_two_sweeps : C06_forward_two_sweeps_statement.
Proof. exact forward_two_sweeps_noload. Qed.
Check C06_forward_two_sweeps : C06_forward_two_sweeps_statement.
Print Assumptions C06_forward_two_sweeps.

(* no premise about termination or fuel: on a forward graph the pass returns a solution of the equations *)
Definition C06_forward_pass_statement : Prop :=
  forall g, forward (gnodes g) -> exists g', avail_pass g = Ok g' /\ AvailEqns g'.
Theorem C06_forward_pass_returns : C06_forward_pass_statement.
Proof. exact forward_avail_pass_eqns. Qed.
Check C06_forward_pass_returns : C06_forward_pass_statement.
Print Assumptions C06_forward_pass_returns.

(* non-vacuity.  C06_fw: C06_g without the back edge, with a branch and a join, and with stale facts in every
   node: 0: ProgramEntry, 1: `li t0, 5`, 2: `beq a0, x0, L` (to 3 and 4), 3: `addi t1, t0, 1`, 4 (the join of
   2 and 3): `addi t2, t0, 2`.  It is forward and has no load; the pass returns; at the join t0 = 5 and
   t2 = 7 are known, t1 = 6 (known on one path only) and the stale t0 = 99 are not; one sweep is not enough. *)
Definition C06_stale (n : pnode) (nx pv : list nat) : cnode :=
  mkcn n [] true nx pv [] [(5%N, AConst 99); (6%N, AConst 3)] [(5%N, AConst 99)] [(MStack 0, AConst 4)]
       [(MStack 0, AConst 4)] 0%N 0%N 0%N.
Definition C06_fw : list cnode :=
  [ C06_stale (PProgramEntry (Some 0%N) raw_default) [1%nat] [];
    C06_stale (PIArith (C06_w IAddi) (C06_w 5%N) (C06_w 0%N) (C06_w 5%Z) raw_default) [2%nat] [0%nat];
    C06_stale (PBranch (C06_w IBeq) (C06_w 10%N) (C06_w 0%N) (C06_w []) raw_default) [3%nat; 4%nat] [1%nat];
    C06_stale (PIArith (C06_w IAddi) (C06_w 6%N) (C06_w 5%N) (C06_w 1%Z) raw_default) [4%nat] [2%nat];
    C06_stale (PIArith (C06_w IAddi) (C06_w 7%N) (C06_w 5%N) (C06_w 2%Z) raw_default) [] [2%nat; 3%nat] ].
Example C06_forward_example :
  forward C06_fw /\
  (forall i c, nth_opt C06_fw i = Some c -> reads_from_memory (cn c) = None) /\
  match avail_pass (mkcfg C06_fw [] []) with
  | Ok g =>
      match nth_opt (gnodes g) 3, nth_opt (gnodes g) 4 with
      | Some c3, Some c4 =>
          rm_get 6%N (rout c3) = Some (AConst 6) /\
          rm_get 5%N (rin c4) = Some (AConst 5) /\ rm_get 6%N (rin c4) = None /\
          rm_get 7%N (rout c4) = Some (AConst 7) /\ min c4 = []
      | _, _ => False
      end
  | _ => False
  end /\
  avail_loop 1 C06_fw [] = OutOfFuel /\ (exists g', avail_loop 2 C06_fw [] = Ok g').
Proof.
  split; [|split].
  - intros i c E p Hp.
    do 5 (destruct i as [|i]; [cbn in E; inversion E; subst c; cbn in Hp; intuition lia|]).
    cbn in E. discriminate.
  - intros i c E.
    do 5 (destruct i as [|i]; [cbn in E; inversion E; subst c; reflexivity|]).
    cbn in E. discriminate.
  - vm_compute. repeat split; try reflexivity. eexists; reflexivity.
Qed.

(* the bound of C06_forward_sweeps is exact: `fwd_chain` (Proofs/ForwardProofs.v) is the straight-line program
   ProgramEntry; `li a0, 5`; `csrr t0, mscratch`; `sw a0, 0(t0)`; `lw t1, 0(t0)`; `sw t1, 4(t0)`; `lw t2, 4(t0)`
   with empty facts: two loads, four sweeps needed; its first five nodes: one load, three sweeps needed. *)
Example C06_forward_bound_exact :
  forward fwd_chain /\ count_pulls fwd_chain = 2%nat /\
  avail_loop 3 fwd_chain [] = OutOfFuel /\
  match avail_loop 4 fwd_chain [] with
  | Ok g => match nth_opt g 6 with Some c => rm_get 7%N (rout c) = Some (AConst 5) | None => False end
  | _ => False
  end /\
  forward fwd_chain5 /\ count_pulls fwd_chain5 = 1%nat /\
  avail_loop 2 fwd_chain5 [] = OutOfFuel /\ (exists g', avail_loop 3 fwd_chain5 [] = Ok g').
Proof.
  split; [exact fwd_chain_forward|]. split; [reflexivity|]. split; [vm_compute; reflexivity|].
  split; [vm_compute; reflexivity|]. split; [exact (forward_firstn 5 fwd_chain fwd_chain_forward)|].
  split; [reflexivity|]. split; [vm_compute; reflexivity|]. vm_compute. eexists; reflexivity.
Qed.

(* ---------------------------------------------------------------------------------------------------
   The liveness loop on the analogous class (Spec/ForwardSpec.v): `dag` - successors have larger and
   predecessors smaller indices - and no call sites (a call site reads the live_out of the entry and writes
   the live_in of the exit of its function through `gfuncs`, which is not an edge; the known hang
   F-C06-live-hang needs them).  Two sweeps are NOT enough here either: `live_node` computes u_def, a FORWARD
   analysis over the visited predecessors, inside a sweep that runs from the last node to the first, so
   u_def advances one node per sweep along straight-line code.  What holds (Proofs/ForwardLiveProofs.v):
   length + 2 sweeps suffice, hence `liveness_pass` (fuel 70 * length + 64) returns on the class and its
   result satisfies the liveness equations. *)
Definition C06_dag_live_two_sweeps_false_statement : Prop :=
  ~ (forall fuel g ns, dag ns -> no_call_sites g ns -> exists ns', live_loop (S (S fuel)) g ns [] = Ok ns').
Theorem C06_dag_live_two_sweeps_false : C06_dag_live_two_sweeps_false_statement.
Proof. exact dag_live_two_sweeps_false. Qed.
Check C06_dag_live_two_sweeps_false : C06_dag_live_two_sweeps_false_statement.
Print Assumptions C06_dag_live_two_sweeps_false.

Definition C06_dag_live_statement : Prop :=
  forall fuel g ns, dag ns -> no_call_sites g ns ->
    exists ns', live_loop (S (S (length ns)) + fuel) g ns [] = Ok ns'.
Theorem C06_dag_live_sweeps : C06_dag_live_statement.
Proof. exact dag_live_sweeps. Qed.
Check C06_dag_live_sweeps : C06_dag_live_statement.
Print Assumptions C06_dag_live_sweeps.

Definition C06_dag_liveness_pass_statement : Prop :=
  forall g, dag (gnodes g) -> no_call_sites g (gnodes g) -> exists g', liveness_pass g = Ok g' /\ LiveFix g'.
Theorem C06_dag_liveness_pass_returns : C06_dag_liveness_pass_statement.
Proof. exact dag_liveness_pass. Qed.
Check C06_dag_liveness_pass_returns : C06_dag_liveness_pass_statement.
Print Assumptions C06_dag_liveness_pass_returns.

(* non-vacuity: C06_fw (branch and join, see above; its branch goes to a label that is no function) is in the
   class; liveness returns on it; t0 is live into node 3 (`addi t1, t0, 1`) and into the branch, not into
   node 1 (`li t0, 5`) which defines it.  The straight-line program of three nodes `fwd_line3` needs three
   sweeps. *)
Example C06_dag_live_example :
  dag C06_fw /\ no_call_sites (mkcfg C06_fw [] []) C06_fw /\
  match liveness_pass (mkcfg C06_fw [] []) with
  | Ok g =>
      match nth_opt (gnodes g) 1, nth_opt (gnodes g) 2, nth_opt (gnodes g) 3 with
      | Some c1, Some c2, Some c3 =>
          N.testbit (lin c3) 5 = true /\ N.testbit (lin c2) 5 = true /\ N.testbit (lin c1) 5 = false /\
          N.testbit (lout c1) 5 = true /\ N.testbit (udef c3) 5 = true
      | _, _, _ => False
      end
  | _ => False
  end /\
  live_loop 2 fwd_line3 (gnodes fwd_line3) [] = OutOfFuel /\
  (exists ns', live_loop 3 fwd_line3 (gnodes fwd_line3) [] = Ok ns').
Proof.
  split; [|split].
  - intros i c E.
    do 5 (destruct i as [|i]; [cbn in E; inversion E; subst c; cbn; split; intros x Hx; intuition lia|]).
    cbn in E. discriminate.
  - intros i c E.
    do 5 (destruct i as [|i]; [cbn in E; inversion E; subst c; reflexivity|]).
    cbn in E. discriminate.
  - vm_compute. repeat split; try reflexivity. eexists; reflexivity.
Qed.
