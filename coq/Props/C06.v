(* C06 - linting any input terminates without crashing (what is provable of it).
   Statements only; proofs in Proofs/TotalProofs.v.

   The model returns `Panic site` where the Rust code would panic (arithmetic overflow under
   overflow checks, debug assertions, unwrap on None, slicing), and `OutOfFuel` where a loop is not
   known to terminate.  Proved here: lexing and parsing of ANY input - any characters, any include
   graph over the in-memory reader, any reader faults - always return (no panic, no fuel
   exhaustion); the analysis pipeline and the lints never panic; and the only place where the
   pipeline can fail to terminate is one of the two dataflow fixed-point loops.  NOT proved, and
   false of the code today (known findings F-C06-avail-hang, F-C06-live-hang): that those two loops
   terminate. *)
From RV.Model Require Import Base Lexer Isa Parser Reader Cfg Avail Live Lints.
From RV.Proofs Require Import TotalProofs.

Definition C06_lex_statement : Prop :=
  forall chk file src, exists items, lex_all chk file src = Ok items.
Theorem C06_lex_total : C06_lex_statement.
Proof. exact lex_total. Qed.
Check C06_lex_total : C06_lex_statement.
Print Assumptions C06_lex_total.

Definition C06_parse_statement : Prop :=
  forall chk (fs : store) base ignore_imports,
    exists nodes errs rs, parse_from_file chk fs base ignore_imports = Ok (nodes, errs, rs).
Theorem C06_parse_total_any_store : C06_parse_statement.
Proof. exact parse_total_any_store. Qed.
Check C06_parse_total_any_store : C06_parse_statement.
Print Assumptions C06_parse_total_any_store.

Definition C06_no_panic_statement : Prop :=
  forall picks nodes errs site,
    gen_full_cfg picks nodes <> Panic site /\ run_items picks nodes errs <> Panic site.
Theorem C06_pipeline_no_panic : C06_no_panic_statement.
Proof. exact pipeline_no_panic. Qed.
Check C06_pipeline_no_panic : C06_no_panic_statement.
Print Assumptions C06_pipeline_no_panic.

(* if the pipeline does not return, one of its (at most) four dataflow runs did not *)
Definition C06_diverge_statement : Prop :=
  forall picks nodes, gen_full_cfg picks nodes = OutOfFuel ->
    exists g, avail_pass g = OutOfFuel \/ liveness_pass g = OutOfFuel.
Theorem C06_only_dataflow_can_diverge : C06_diverge_statement.
Proof. exact only_dataflow_can_diverge. Qed.
Check C06_only_dataflow_can_diverge : C06_diverge_statement.
Print Assumptions C06_only_dataflow_can_diverge.

(* on a graph without edges (e.g. straight-line code that was pruned, or a single node) both loops
   stop after at most two sweeps; more generally a sweep that changes nothing ends the loop *)
Definition C06_stable_statement : Prop :=
  forall fuel g, (0 < fuel)%nat ->
    (let '(_, _, ch) := avail_sweep (seq 0 (length g)) g [] false in ch = false) ->
    exists g', avail_loop fuel g [] = Ok g'.
Theorem C06_stable_sweep_terminates : C06_stable_statement.
Proof. exact stable_sweep_terminates. Qed.
Check C06_stable_sweep_terminates : C06_stable_statement.
Print Assumptions C06_stable_sweep_terminates.
