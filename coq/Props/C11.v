(* C11 - functions are exactly the call targets and their bodies are what they reach.
   Statements only; proofs in Proofs/FnProofs.v. *)
From RV.Model Require Import Base Lexer Isa Parser Cfg Avail Live Lints.
From RV.Spec Require Import CfgSpec.
From RV.Proofs Require Import FnProofs.

(* the names that make a label a function: targets of `jal ra`/`call`, and installed handlers *)
Definition called_names (ns : list pnode) (handlers : list (wth str)) : list (wth str) :=
  filter_map calls_to ns ++ handlers.

(* (a) A node is a function entry exactly when one of the labels in front of the instruction that
   follows it is a called name; a label owns a function exactly when it sits on such an entry. *)
Definition C11_entries_statement : Prop :=
  forall ns handlers g,
    (* parsed programs contain no function-entry nodes of their own (they are created here) *)
    (forall n, In n ns -> is_function_entry n = false) ->
    cfg_new ns (Some handlers) = inr g ->
    forall i c, node_at g i c ->
      (is_function_entry (cn c) = true -> any_in (clabels c) (called_names ns handlers) = true) /\
      (is_function_entry (cn c) = false -> any_in (clabels c) (called_names ns handlers) = false).
Theorem C11_fn_iff_called : C11_entries_statement.
Proof. exact fn_iff_called. Qed.
Check C11_fn_iff_called : C11_entries_statement.
Print Assumptions C11_fn_iff_called.

Definition C11_labels_statement : Prop :=
  forall picks ns g, gen_full_cfg picks ns = Ok (SOk g) ->
    forall l, (exists fid, assoc_fn l (glabelfn g) = Some fid) <->
              (exists i c, node_at g i c /\ is_function_entry (cn c) = true /\ mem_name l (clabels c) = true).
Theorem C11_label_owns_function : C11_labels_statement.
Proof. exact label_owns_function. Qed.
Check C11_label_owns_function : C11_labels_statement.
Print Assumptions C11_label_owns_function.

(* (b) membership is consistent: a node lists a function iff the function lists the node; every
   listed node is reachable from the function's entry; and when functions share no instruction
   the body is EXACTLY the set reachable from the entry. *)
Definition C11_body_statement : Prop :=
  forall picks ns g, gen_full_cfg picks ns = Ok (SOk g) ->
    forall fid f, nth_opt (gfuncs g) fid = Some f ->
      (forall i c, node_at g i c -> (In fid (cfuncs c) <-> In i (fnodes f))) /\
      (* listed nodes are reachable in the FINISHED graph unless an exit ecall inside the body cut the
         flow after the function was marked (the unguarded form holds right after the markup pass:
         C11_fn_body_markup below) *)
      ((forall i c, In i (fnodes f) -> node_at g i c -> is_program_exit c = false) ->
       forall i, In i (fnodes f) -> reaches g (fentry f) i) /\
      In (fentry f) (fnodes f) /\ In (fexit f) (fnodes f) /\
      (exists c, node_at g (fentry f) c /\ is_function_entry (cn c) = true) /\
      (no_sharing g -> forall i, reaches g (fentry f) i -> In i (fnodes f)).
Theorem C11_fn_body : C11_body_statement.
Proof. exact fn_body. Qed.
Check C11_fn_body : C11_body_statement.
Print Assumptions C11_fn_body.

(* (c) one exit: any return left inside a function's body is its exit; when functions share no
   instruction the exit IS a return, and every other former return of the body is now a merge
   jump whose only successor is the exit. *)
Definition C11_exit_statement : Prop :=
  forall picks ns g,
    (* nobody wrote `jal x0, <return>` by hand (the spelling of a merged return) *)
    (forall n, In n ns -> is_return_merge n = false) ->
    gen_full_cfg picks ns = Ok (SOk g) ->
    forall fid f, nth_opt (gfuncs g) fid = Some f ->
      (forall i c, In i (fnodes f) -> node_at g i c -> is_return (cn c) = true -> i = fexit f) /\
      (no_sharing g -> exists c, node_at g (fexit f) c /\ is_return (cn c) = true) /\
      (no_sharing g -> forall i c, In i (fnodes f) -> node_at g i c -> is_return_merge (cn c) = true ->
                       nexts c = [fexit f]).
Theorem C11_fn_exit : C11_exit_statement.
Proof. exact fn_exit. Qed.
Check C11_fn_exit : C11_exit_statement.
Print Assumptions C11_fn_exit.

(* (d) the overlap diagnostic is given exactly for entries that belong to two or more functions,
   located on the entry's labels *)
Definition shared_entry (g : cfg) (i : nat) (c : cnode) : Prop :=
  (2 <= length (cfuncs c))%nat /\
  exists fid f, In fid (cfuncs c) /\ nth_opt (gfuncs g) fid = Some f /\ fentry f = i.
Definition C11_overlap_statement : Prop :=
  forall g,
    (forall l, In l (lint_overlapping g) ->
       lcode l = LNodeInManyFunctions /\
       exists i c, node_at g i c /\ shared_entry g i c /\ lcands l = map (fun x => loc_of_tok (wt x)) (clabels c)) /\
    (forall i c, node_at g i c -> shared_entry g i c -> clabels c <> [] ->
       exists l, In l (lint_overlapping g) /\ lcands l = map (fun x => loc_of_tok (wt x)) (clabels c)).
Theorem C11_overlap_reported_iff : C11_overlap_statement.
Proof. exact overlap_reported_iff. Qed.
Check C11_overlap_reported_iff : C11_overlap_statement.
Print Assumptions C11_overlap_reported_iff.

(* extra: the body statement exactly as originally written holds for the stage-8 graph *)
Definition C11_body_markup_statement : Prop :=
  forall picks ns g, gen_cfg_upto 8 picks ns = Ok (SOk g) ->
    forall fid f, nth_opt (gfuncs g) fid = Some f ->
      (forall i c, node_at g i c -> (In fid (cfuncs c) <-> In i (fnodes f))) /\
      (forall i, In i (fnodes f) -> reaches g (fentry f) i) /\
      In (fentry f) (fnodes f) /\ In (fexit f) (fnodes f) /\
      (exists c, node_at g (fentry f) c /\ is_function_entry (cn c) = true) /\
      (no_sharing g -> forall i, reaches g (fentry f) i -> In i (fnodes f)).
Theorem C11_fn_body_markup : C11_body_markup_statement.
Proof. exact fn_body_markup. Qed.
Check C11_fn_body_markup : C11_body_markup_statement.
Print Assumptions C11_fn_body_markup.

(* (e) the label map and the function records agree: every pair (l, fid) of `glabelfn` points to an existing
   record, and the ENTRY of that record is a function-entry node that carries l.  (The markup pass appends
   the record `mkfn entry ..` and the pairs for the labels of the node at `entry` together; no later pass
   changes labels, node kinds, records or the map.)  Proofs/FnEntryProofs.v. *)
From Coq Require Import List.
From RV.Model Require Import Reader.
From RV.Proofs Require Import FnEntryProofs.
Import ListNotations.
Definition C11_label_fn_entry_statement : Prop :=
  forall picks ns g, gen_full_cfg picks ns = Ok (SOk g) ->
    forall l fid, In (l, fid) (glabelfn g) ->
      exists f c, nth_opt (gfuncs g) fid = Some f /\ nth_opt (gnodes g) (fentry f) = Some c /\
                  is_function_entry (cn c) = true /\ mem_name l (clabels c) = true.
Theorem C11_label_fn_entry : C11_label_fn_entry_statement.
Proof. exact label_fn_entry. Qed.
Check C11_label_fn_entry : C11_label_fn_entry_statement.
Print Assumptions C11_label_fn_entry.

(* the same for the pair the analyses look up (`assoc_fn`, used by `calls_to_from_cfg`): the function a
   label owns starts at a function entry carrying that label *)
Definition C11_label_fn_entry_assoc_statement : Prop :=
  forall picks ns g, gen_full_cfg picks ns = Ok (SOk g) ->
    forall l fid, assoc_fn l (glabelfn g) = Some fid ->
      exists f c, nth_opt (gfuncs g) fid = Some f /\ node_at g (fentry f) c /\
                  is_function_entry (cn c) = true /\ mem_name l (clabels c) = true.
Theorem C11_label_fn_entry_assoc : C11_label_fn_entry_assoc_statement.
Proof. exact label_fn_entry_assoc. Qed.
Check C11_label_fn_entry_assoc : C11_label_fn_entry_assoc_statement.
Print Assumptions C11_label_fn_entry_assoc.

(* non-vacuity: two functions, the first owned by two labels.  The map has three pairs; each points to the
   record whose entry is the function-entry node carrying the label (f, g -> function 0 at index 5;
   h -> function 1 at index 8) *)
Fixpoint C11_unlines (l : list str) : str :=
  match l with [] => [] | x :: l' => x ++ [c_nl] ++ C11_unlines l' end.
Definition C11_ex_text : str := C11_unlines
  [ «"main:"»; «"    jal f"»; «"    jal h"»; «"    li a7, 10"»; «"    ecall"»;
    «"f:"»; «"g:"»; «"    addi a0, a0, 1"»; «"    ret"»;
    «"h:"»; «"    addi a0, a0, 2"»; «"    ret"» ].
Definition C11_pair_ok (g : cfg) (p : str * nat) : bool :=
  match nth_opt (gfuncs g) (snd p) with
  | Some f => match nth_opt (gnodes g) (fentry f) with
              | Some c => (is_function_entry (cn c) && mem_name (fst p) (clabels c))%bool
              | None => false
              end
  | None => false
  end.
Example C11_example_label_fn_entry :
  match parse_from_text false C11_ex_text with
  | Ok (ns, errs) =>
      errs = [] /\
      match gen_full_cfg [] ns with
      | Ok (SOk g) =>
          glabelfn g = [(«"f"», 0%nat); («"g"», 0%nat); («"h"», 1%nat)] /\
          map fentry (gfuncs g) = [5%nat; 8%nat] /\
          map (fun c => map wv (clabels c)) (gnodes g) =
            [[]; [«"main"»]; []; []; []; [«"f"»; «"g"»]; []; []; [«"h"»]; []; []] /\
          forallb (C11_pair_ok g) (glabelfn g) = true
      | _ => False
      end
  | _ => False
  end.
Proof. vm_compute. repeat split; reflexivity. Qed.
