(* C07, parser level - "a bad line affects only itself": editing, correcting or deleting one
   (malformed) line does not change the nodes and errors produced for the other lines.
   Statements only; proofs in Proofs/LineParseProofs.v.  Vocabulary: Spec/LineSpec.v (lines_block),
   Spec/IncludeSpec.v (closed, open_stmt, entry_node), Spec/ParamSpec.v (erase_node, erase_perr).

   Setting: ONE file (store [(path, inl text)]), imports followed or not ([ign] is universally
   quantified): with a single file every `.include` can only fail - "already imported" for the file
   itself, "not found" for any other path - and yields one error (ign = false) or a node (ign = true).

   ADDED HYPOTHESES (needed, see the Examples C07par_needs_closed_A, _M, _macro): the blocks A and A ++ M end at a
   statement boundary ([closed]), because a data directive (`.word 1`) goes on consuming newlines and
   immediates on the following lines and `.macro` swallows every line up to `.endmacro`. *)
From RV.Model Require Import Base I32 Imm Lexer Isa Parser Reader.
From RV.Spec Require Import ParamSpec LineSpec IncludeSpec.
From RV.Proofs Require Import LineParseProofs.

(* ================================================================================== *)
(* (1) line-locality of the parser                                                      *)

(* Text A ++ M ++ B, A and M blocks of complete lines, the items of A and of A ++ M closed.  The nodes
   of the whole text are, up to positions, the entry node followed by the nodes of A, of M and of B
   parsed alone (each parse starts with its own entry node, which is set apart); the errors are, up
   to positions, the errors of A, of M and of B parsed alone. *)
Definition C07_parse_line_local_statement : Prop :=
  forall chk ign (path A M B : str), lines_block A -> lines_block M ->
    forall ia iam, lex_all chk (Some 0%N) A = Ok ia -> lex_all chk (Some 0%N) (A ++ M) = Ok iam ->
      closed ia = true -> closed iam = true ->
    forall ns es rs nsA esA rsA nsM esM rsM nsB esB rsB,
      parse_from_file chk [(path, inl (A ++ M ++ B))] path ign = Ok (ns, es, rs) ->
      parse_from_file chk [(path, inl A)] path ign = Ok (nsA, esA, rsA) ->
      parse_from_file chk [(path, inl M)] path ign = Ok (nsM, esM, rsM) ->
      parse_from_file chk [(path, inl B)] path ign = Ok (nsB, esB, rsB) ->
      exists bA bM bB,
        nsA = entry_node 0 :: bA /\ nsM = entry_node 0 :: bM /\ nsB = entry_node 0 :: bB /\
        map erase_node ns = map erase_node (entry_node 0 :: bA ++ bM ++ bB) /\
        map erase_perr es = map erase_perr (esA ++ esM ++ esB).
Theorem C07_parse_line_local : C07_parse_line_local_statement.
Proof. exact parse_line_local. Qed.
Check C07_parse_line_local : C07_parse_line_local_statement.
Print Assumptions C07_parse_line_local.

(* given that A is closed, "A ++ M is closed" is "M alone is closed" *)
Definition C07_closed_app_statement : Prop :=
  forall chk file (A M : str) ia im iam, lines_block A -> lines_block M ->
    lex_all chk file A = Ok ia -> lex_all chk file M = Ok im -> lex_all chk file (A ++ M) = Ok iam ->
    closed ia = true -> (closed iam = true <-> closed im = true).
Theorem C07_closed_app : C07_closed_app_statement.
Proof. exact closed_app_iff. Qed.
Check C07_closed_app : C07_closed_app_statement.
Print Assumptions C07_closed_app.

(* strong form: the part of A is EXACTLY the parse of A alone (same positions); the parts of M and
   of B are the parses of M and B alone up to positions *)
Definition C07_parse_line_local_exact_statement : Prop :=
  forall chk ign (path A M B : str), lines_block A -> lines_block M ->
    forall ia im, lex_all chk (Some 0%N) A = Ok ia -> lex_all chk (Some 0%N) M = Ok im ->
      closed ia = true -> closed im = true ->
    forall ns es rs nsA esA rsA nsM esM rsM nsB esB rsB,
      parse_from_file chk [(path, inl (A ++ M ++ B))] path ign = Ok (ns, es, rs) ->
      parse_from_file chk [(path, inl A)] path ign = Ok (nsA, esA, rsA) ->
      parse_from_file chk [(path, inl M)] path ign = Ok (nsM, esM, rsM) ->
      parse_from_file chk [(path, inl B)] path ign = Ok (nsB, esB, rsB) ->
      exists bA bM bB nM nB eM eB,
        nsA = entry_node 0 :: bA /\ nsM = entry_node 0 :: bM /\ nsB = entry_node 0 :: bB /\
        ns = entry_node 0 :: bA ++ nM ++ nB /\ es = esA ++ eM ++ eB /\
        map erase_node nM = map erase_node bM /\ map erase_node nB = map erase_node bB /\
        map erase_perr eM = map erase_perr esM /\ map erase_perr eB = map erase_perr esB.
Theorem C07_parse_line_local_exact : C07_parse_line_local_exact_statement.
Proof. exact parse_line_local_exact. Qed.
Check C07_parse_line_local_exact : C07_parse_line_local_exact_statement.
Print Assumptions C07_parse_line_local_exact.

(* Corollary - the property's second half.  Replace the block M by any other closed block M' (a
   corrected line, another bad line, nothing): whatever M and M' contain, the nodes and errors of the
   two texts have the same A-part (exactly: it is the parse of A alone) and the same B-part up to
   positions; the middle parts are the parses of M and of M' alone up to positions. *)
Definition C07_bad_line_contained_statement : Prop :=
  forall chk ign (path A M M' B : str), lines_block A -> lines_block M -> lines_block M' ->
    forall ia im im', lex_all chk (Some 0%N) A = Ok ia -> lex_all chk (Some 0%N) M = Ok im ->
      lex_all chk (Some 0%N) M' = Ok im' -> closed ia = true -> closed im = true -> closed im' = true ->
    forall ns es rs ns' es' rs',
      parse_from_file chk [(path, inl (A ++ M ++ B))] path ign = Ok (ns, es, rs) ->
      parse_from_file chk [(path, inl (A ++ M' ++ B))] path ign = Ok (ns', es', rs') ->
      exists bA eA nM eM nB eB nM' eM' nB' eB',
        ns = entry_node 0 :: bA ++ nM ++ nB /\ es = eA ++ eM ++ eB /\
        ns' = entry_node 0 :: bA ++ nM' ++ nB' /\ es' = eA ++ eM' ++ eB' /\
        map erase_node nB = map erase_node nB' /\ map erase_perr eB = map erase_perr eB' /\
        (exists rsA, parse_from_file chk [(path, inl A)] path ign = Ok (entry_node 0 :: bA, eA, rsA)) /\
        (exists bM esM rsM, parse_from_file chk [(path, inl M)] path ign = Ok (entry_node 0 :: bM, esM, rsM) /\
           map erase_node nM = map erase_node bM /\ map erase_perr eM = map erase_perr esM) /\
        (exists bM' esM' rsM', parse_from_file chk [(path, inl M')] path ign = Ok (entry_node 0 :: bM', esM', rsM') /\
           map erase_node nM' = map erase_node bM' /\ map erase_perr eM' = map erase_perr esM').
Theorem C07_bad_line_contained : C07_bad_line_contained_statement.
Proof. exact bad_line_contained. Qed.
Check C07_bad_line_contained : C07_bad_line_contained_statement.
Print Assumptions C07_bad_line_contained.

(* the instance M' = nothing: deleting the block M removes exactly M's nodes and errors *)
Definition C07_delete_block_statement : Prop :=
  forall chk ign (path A M B : str), lines_block A -> lines_block M ->
    forall ia im, lex_all chk (Some 0%N) A = Ok ia -> lex_all chk (Some 0%N) M = Ok im ->
      closed ia = true -> closed im = true ->
    forall ns es rs ns' es' rs',
      parse_from_file chk [(path, inl (A ++ M ++ B))] path ign = Ok (ns, es, rs) ->
      parse_from_file chk [(path, inl (A ++ B))] path ign = Ok (ns', es', rs') ->
      exists bA eA nM eM nB eB nB' eB',
        ns = entry_node 0 :: bA ++ nM ++ nB /\ es = eA ++ eM ++ eB /\
        ns' = entry_node 0 :: bA ++ nB' /\ es' = eA ++ eB' /\
        map erase_node nB = map erase_node nB' /\ map erase_perr eB = map erase_perr eB' /\
        (exists bM esM rsM, parse_from_file chk [(path, inl M)] path ign = Ok (entry_node 0 :: bM, esM, rsM) /\
           map erase_node nM = map erase_node bM /\ map erase_perr eM = map erase_perr esM).
Theorem C07_delete_block : C07_delete_block_statement.
Proof. exact delete_block. Qed.
Check C07_delete_block : C07_delete_block_statement.
Print Assumptions C07_delete_block.

(* ================================================================================== *)
(* (2) which blocks (in particular: which single lines) are closed                       *)

(* Sufficient syntactic criterion [line_closed_b] (no parsing involved): the item list is empty or
   ends with a newline token, and no statement that could start anywhere in it is open -
   [open_stmt] of no suffix: every data directive (.byte .half .word .dword .float .double) is
   followed, before the end of the list, by an item that is neither a newline nor an immediate (a
   comment, an instruction, a label, a lexical error ...), and every `.macro` is followed by an
   `.endmacro` or a lexical error.  Anything else the line may contain is irrelevant. *)
Definition C07_line_closed_statement : Prop :=
  forall items, line_closed_b items = true -> closed items = true.
Theorem C07_line_closed : C07_line_closed_statement.
Proof. exact line_closed_b_sound. Qed.
Check C07_line_closed : C07_line_closed_statement.
Print Assumptions C07_line_closed.

(* for the items of a text made of complete lines (one line, or several) the newline condition
   holds by itself: [no_open] alone is enough *)
Definition C07_no_open_closed_statement : Prop :=
  forall chk file (L : str) items, lines_block L -> lex_all chk file L = Ok items ->
    no_open items = true -> closed items = true.
Theorem C07_no_open_closed : C07_no_open_closed_statement.
Proof. exact no_open_closed_text. Qed.
Check C07_no_open_closed : C07_no_open_closed_statement.
Print Assumptions C07_no_open_closed.

(* the plain case: a block of lines with no data directive and no `.macro` token at all *)
Definition C07_plain_line_closed_statement : Prop :=
  forall items, plain_line_b items = true -> closed items = true.
Theorem C07_plain_line_closed : C07_plain_line_closed_statement.
Proof. exact plain_line_b_sound. Qed.
Check C07_plain_line_closed : C07_plain_line_closed_statement.
Print Assumptions C07_plain_line_closed.

(* conversely, a line that IS one open statement (`.word 1`, `.macro m`) is not closed *)
Definition C07_open_not_closed_statement : Prop :=
  forall items, open_stmt items = true -> closed items = false.
Theorem C07_open_not_closed : C07_open_not_closed_statement.
Proof. exact open_not_closed. Qed.
Check C07_open_not_closed : C07_open_not_closed_statement.
Print Assumptions C07_open_not_closed.

(* ================================================================================== *)
(* Examples                                                                             *)

Definition nl : str := [c_nl].
Definition a_s : str := «"a.s"».
Definition lex0 (s : str) : list lexitem :=
  match lex_all true (Some 0%N) s with Ok l => l | _ => [] end.
Definition pf (ign : bool) (t : str) := parse_from_file true [(a_s, inl t)] a_s ign.
(* nodes without the entry node, and errors, positions erased *)
Definition body (r : res (list pnode * list parse_error * rstate)) :=
  match r with Ok (n, e, _) => Some (map erase_node (tl n), map erase_perr e) | _ => None end.
Definition counts (r : res (list pnode * list parse_error * rstate)) :=
  match r with Ok (n, e, _) => Some (length (tl n), length e) | _ => None end.

(* bad lines *)
Definition m_unknown : str := «"  frob t1, t2"» ++ nl.               (* unknown mnemonic *)
Definition m_string : str := «"  .asciz ""abc"» ++ nl.               (* unclosed string *)
Definition m_oper : str := «"  +"» ++ nl.                            (* a lone operator character *)
Definition m_missing : str := «"  add t0, t1"» ++ nl.                (* missing operand *)
Definition m_paren : str := «"  lw t0, 4(sp"» ++ nl.                 (* unclosed parenthesis *)
Definition m_expr : str := «"  li t0, 5 + 3"» ++ nl.                 (* junk after a complete instruction *)
Definition m_char : str := «"  'a"» ++ nl.                           (* unclosed character literal *)
Definition m_selfinc : str := «"  .include ""a.s"""» ++ nl.          (* the file includes itself *)
Definition m_noinc : str := «"  .include ""zz.s"""» ++ nl.           (* include of a missing file *)
Definition m_good : str := «"  addi a0, a0, 1"» ++ nl.               (* the corrected line *)
(* lines that are not closed *)
Definition m_word : str := «"  .word 1"» ++ nl.
Definition m_macro : str := «"  .macro m"» ++ nl.

(* (2) an unknown mnemonic, an unclosed string, a lone operator character, an instruction with a
   missing operand - and more - are closed by themselves, and the criterion says so *)
Example C07par_closed_lines :
  Forall (fun L => closed (lex0 L) = true /\ line_closed_b (lex0 L) = true /\ plain_line_b (lex0 L) = true)
    [m_unknown; m_string; m_oper; m_missing; m_paren; m_expr; m_char; m_selfinc; m_noinc; m_good; []].
Proof. repeat (constructor; [vm_compute; repeat split|]). constructor. Qed.

(* each of these lines, alone, gives no node and exactly one error (m_expr: the `li` node too) *)
Example C07par_bad_lines_counts :
  map (fun L => counts (pf false L)) [m_unknown; m_string; m_oper; m_missing; m_paren; m_expr; m_char; m_selfinc; m_noinc] =
  [Some (0, 1); Some (0, 1); Some (0, 1); Some (0, 1); Some (0, 1); Some (1, 1); Some (0, 1); Some (0, 1); Some (0, 1)]%nat.
Proof. vm_compute. reflexivity. Qed.

(* data directives: open when the line ends after the values, closed when something else follows;
   `.macro` alone is open; an open statement hidden behind an error is skipped with the line, so the
   line is closed although the (sufficient) criterion does not see it *)
Example C07par_data_lines :
  closed (lex0 m_word) = false /\ open_stmt (lex0 m_word) = true /\ line_closed_b (lex0 m_word) = false /\
  closed (lex0 m_macro) = false /\ open_stmt (lex0 m_macro) = true /\
  closed (lex0 («".word 1 # one"» ++ nl)) = true /\ line_closed_b (lex0 («".word 1 # one"» ++ nl)) = true /\
  plain_line_b (lex0 («".word 1 # one"» ++ nl)) = false /\
  closed (lex0 («".word 1"» ++ nl ++ «"nop"» ++ nl)) = true /\ line_closed_b (lex0 («".word 1"» ++ nl ++ «"nop"» ++ nl)) = true /\
  closed (lex0 («".macro m"» ++ nl ++ «"nop"» ++ nl ++ «".endmacro"» ++ nl)) = true /\
  line_closed_b (lex0 («".macro m"» ++ nl ++ «"nop"» ++ nl ++ «".endmacro"» ++ nl)) = true /\
  closed (lex0 («"frob .word 1"» ++ nl)) = true /\ line_closed_b (lex0 («"frob .word 1"» ++ nl)) = false.
Proof. vm_compute. repeat split. Qed.

(* (3) a three-line program; the last line has no final newline *)
Definition exA : str := «"main: li a0, 1"» ++ nl.
Definition exB : str := «"  addi a0, a0, 2"» ++ nl ++ «"  ret"».

(* checked directly, for every bad middle line, imports followed or not: nodes and errors of the
   whole = those of A, of the line, of B *)
Definition local_on (ign : bool) (A M B : str) : Prop :=
  match body (pf ign (A ++ M ++ B)), body (pf ign A), body (pf ign M), body (pf ign B) with
  | Some (n, e), Some (nA, eA), Some (nM, eM), Some (nB, eB) => n = nA ++ nM ++ nB /\ e = eA ++ eM ++ eB
  | _, _, _, _ => False
  end.
Example C07par_three_lines :
  Forall (fun M => local_on false exA M exB /\ local_on true exA M exB)
    [m_unknown; m_string; m_oper; m_missing; m_paren; m_expr; m_char; m_selfinc; m_noinc; m_good; []].
Proof. repeat (constructor; [vm_compute; repeat split|]). constructor. Qed.

(* the shape of the result: label, li / the bad line's error / addi, ret *)
Example C07par_three_lines_counts :
  map (fun M => counts (pf false (exA ++ M ++ exB))) [m_unknown; m_string; m_oper; m_missing; m_good; []] =
  [Some (4, 1); Some (4, 1); Some (4, 1); Some (4, 1); Some (5, 0); Some (4, 0)]%nat.
Proof. vm_compute. reflexivity. Qed.

(* the bad line in the middle: nodes unchanged w.r.t. deleting it, one more error *)
Example C07par_delete_example :
  match pf false (exA ++ m_unknown ++ exB), pf false (exA ++ exB) with
  | Ok (n1, e1, _), Ok (n2, e2, _) =>
      map erase_node n1 = map erase_node n2 /\ length e1 = 1%nat /\ e2 = [] /\
      map (fun e => tok_line (err_token e)) e1 = [1%N] /\
      (* the nodes of the following lines moved down by one line, nothing else *)
      map (fun n => line (rstart (rrange (node_raw n)))) n1 = [0; 0; 0; 2; 3]%N /\
      map (fun n => line (rstart (rrange (node_raw n)))) n2 = [0; 0; 0; 1; 2]%N
  | _, _ => False
  end.
Proof. vm_compute. repeat split. Qed.

(* the theorem's hypotheses are satisfiable: an instance, proved through the theorem *)
Lemma lines_block_check (A : str) : match rev A with [] => true | c :: _ => N.eqb c c_nl end = true -> lines_block A.
Proof.
  destruct (rev A) as [|c r] eqn:Er; intros H.
  - left. rewrite <- (rev_involutive A), Er. reflexivity.
  - apply N.eqb_eq in H. subst c. right. exists (rev r). rewrite <- (rev_involutive A), Er. reflexivity.
Qed.

Example C07par_instance :
  match pf false (exA ++ m_string ++ exB), pf false exA, pf false m_string, pf false exB with
  | Ok (ns, es, _), Ok (nsA, esA, _), Ok (nsM, esM, _), Ok (nsB, esB, _) =>
      exists bA bM bB,
        nsA = entry_node 0 :: bA /\ nsM = entry_node 0 :: bM /\ nsB = entry_node 0 :: bB /\
        map erase_node ns = map erase_node (entry_node 0 :: bA ++ bM ++ bB) /\
        map erase_perr es = map erase_perr (esA ++ esM ++ esB)
  | _, _, _, _ => False
  end.
Proof.
  destruct (pf false (exA ++ m_string ++ exB)) as [[[ns es] rs]| |] eqn:E;
    [|vm_compute in E; discriminate E|vm_compute in E; discriminate E].
  destruct (pf false exA) as [[[nsA esA] rsA]| |] eqn:EA;
    [|vm_compute in EA; discriminate EA|vm_compute in EA; discriminate EA].
  destruct (pf false m_string) as [[[nsM esM] rsM]| |] eqn:EM;
    [|vm_compute in EM; discriminate EM|vm_compute in EM; discriminate EM].
  destruct (pf false exB) as [[[nsB esB] rsB]| |] eqn:EB;
    [|vm_compute in EB; discriminate EB|vm_compute in EB; discriminate EB].
  refine (C07_parse_line_local true false a_s exA m_string exB _ _ (lex0 exA) (lex0 (exA ++ m_string)) _ _ _ _
            ns es rs nsA esA rsA nsM esM rsM nsB esB rsB E EA EM EB).
  - apply lines_block_check. reflexivity.
  - apply lines_block_check. reflexivity.
  - vm_compute. reflexivity.
  - vm_compute. reflexivity.
  - vm_compute. reflexivity.
  - vm_compute. reflexivity.
Qed.

(* replacing the bad line by the corrected one, through the corollary: same A-part, same B-part *)
Example C07par_replace_instance :
  match pf false (exA ++ m_missing ++ exB), pf false (exA ++ m_good ++ exB) with
  | Ok (ns, es, _), Ok (ns', es', _) =>
      exists bA eA nM eM nB eB nM' eM' nB' eB',
        ns = entry_node 0 :: bA ++ nM ++ nB /\ es = eA ++ eM ++ eB /\
        ns' = entry_node 0 :: bA ++ nM' ++ nB' /\ es' = eA ++ eM' ++ eB' /\
        map erase_node nB = map erase_node nB' /\ map erase_perr eB = map erase_perr eB'
  | _, _ => False
  end.
Proof.
  destruct (pf false (exA ++ m_missing ++ exB)) as [[[ns es] rs]| |] eqn:E;
    [|vm_compute in E; discriminate E|vm_compute in E; discriminate E].
  destruct (pf false (exA ++ m_good ++ exB)) as [[[ns' es'] rs']| |] eqn:E';
    [|vm_compute in E'; discriminate E'|vm_compute in E'; discriminate E'].
  destruct (C07_bad_line_contained true false a_s exA m_missing m_good exB
              (lines_block_check exA eq_refl) (lines_block_check m_missing eq_refl) (lines_block_check m_good eq_refl)
              (lex0 exA) (lex0 m_missing) (lex0 m_good)
              ltac:(vm_compute; reflexivity) ltac:(vm_compute; reflexivity) ltac:(vm_compute; reflexivity)
              ltac:(vm_compute; reflexivity) ltac:(vm_compute; reflexivity) ltac:(vm_compute; reflexivity)
              ns es rs ns' es' rs' E E')
    as [bA [eA [nM [eM [nB [eB [nM' [eM' [nB' [eB' [H1 [H2 [H3 [H4 [H5 [H6 _]]]]]]]]]]]]]]]].
  exists bA, eA, nM, eM, nB, eB, nM', eM', nB', eB'. repeat split; assumption.
Qed.

(* -- the added hypotheses are needed ---------------------------------------------------- *)
(* M not closed (A is): M = `.word 1`, B starts with `2`: in the whole text `.word` takes the 2,
   alone it does not and the 2 is a stray token *)
Example C07par_needs_closed_M :
  let B := «"2"» ++ nl ++ «"ret"» in
  closed (lex0 exA) = true /\ closed (lex0 (exA ++ m_word)) = false /\ closed (lex0 m_word) = false /\
  ~ local_on false exA m_word B /\
  counts (pf false (exA ++ m_word ++ B)) = Some (4, 0)%nat /\ counts (pf false B) = Some (1, 1)%nat.
Proof. vm_compute. repeat split. intros [H _]. discriminate H. Qed.

(* A not closed although A ++ M is: A = `.word 1`, M = `2 # two` *)
Example C07par_needs_closed_A :
  let M := «"2 # two"» ++ nl in
  closed (lex0 m_word) = false /\ closed (lex0 (m_word ++ M)) = true /\ closed (lex0 M) = true /\
  ~ local_on false m_word M exB /\
  counts (pf false (m_word ++ M ++ exB)) = Some (3, 0)%nat /\ counts (pf false M) = Some (0, 1)%nat.
Proof. vm_compute. repeat split. intros [H _]. discriminate H. Qed.

(* `.macro` swallows the following lines up to `.endmacro` *)
Example C07par_needs_closed_macro :
  let B := «"nop"» ++ nl ++ «".endmacro"» ++ nl ++ «"ret"» in
  closed (lex0 (exA ++ m_macro)) = false /\ ~ local_on false exA m_macro B /\
  counts (pf false (exA ++ m_macro ++ B)) = Some (3, 1)%nat /\ counts (pf false B) = Some (2, 1)%nat.
Proof. vm_compute. repeat split. intros [H _]. discriminate H. Qed.
