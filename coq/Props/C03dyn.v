(* C03, dynamic clause - every control transfer an execution can make is an edge of the
   control-flow graph (completeness; Props/C03.v has the converse).
   Definitions in Spec/PcSpec.v (`pc_succ` is written from the ISA and the label definitions of the
   program, not from the edges); proofs in Proofs/PcProofs.v.

   Four side conditions had to be added; each is forced by a concrete program (the
   `..._needed` theorems below refute the statement without it):
   - `connected g i` (source): the dead-code pass removes the out-edges of an instruction that has no
     predecessor (code after a return, ...);
   - `connected g j` (target): the same pass ALSO removes the in-edges of every instruction that has
     no successor - one that falls off the end of the program or a `jr`/`jalr x0` computed jump -
     and, cascading backwards, of jumps that lead only there.  Such an instruction is executed,
     loses its predecessor edge, and is reported as unreachable code
     (C03dyn_executed_but_reported_unreachable);
   - `computed_jump (cn ci) = false`: a jalr other than `ret` / a call through ra has no static
     target;
   - `~ early_exit picks ns i`: the termination pass runs twice; an ecall found to be an exit on the
     first value analysis has lost its successor even when the final analysis (the one
     `is_program_exit` reads in the finished graph) no longer knows a7 there. *)
From RV.Model Require Import Base I32 Imm Lexer Isa Parser Reader Cfg Avail Live Lints.
From RV.Spec Require Import CfgSpec PcSpec.
From RV.Proofs Require Import CfgProofs PcProofs.
Open Scope nat_scope.

(* ---- (2) completeness ----------------------------------------------------------------------- *)
Definition C03_transfers_are_edges_statement : Prop :=
  forall picks ns g, gen_full_cfg picks ns = Ok (SOk g) ->
    forall i ci j, node_at g i ci -> connected g i -> computed_jump (cn ci) = false ->
      ~ early_exit picks ns i -> pc_succ g i j -> connected g j -> In j (nexts ci).
Theorem C03_transfers_are_edges : C03_transfers_are_edges_statement.
Proof. exact transfers_are_edges. Qed.
Check C03_transfers_are_edges : C03_transfers_are_edges_statement.
Print Assumptions C03_transfers_are_edges.

(* in the form "has a predecessor or is an entry", for both ends *)
Definition C03dyn_transfers_preds_statement : Prop :=
  forall picks ns g, gen_full_cfg picks ns = Ok (SOk g) ->
    forall i ci j cj, node_at g i ci -> node_at g j cj ->
      (prevs ci <> [] \/ is_any_entry (cn ci) = true) ->
      (prevs cj <> [] \/ is_any_entry (cn cj) = true) ->
      computed_jump (cn ci) = false -> ~ early_exit picks ns i -> pc_succ g i j -> In j (nexts ci).
Theorem C03dyn_transfers_preds : C03dyn_transfers_preds_statement.
Proof. exact transfers_are_edges_preds. Qed.
Check C03dyn_transfers_preds : C03dyn_transfers_preds_statement.
Print Assumptions C03dyn_transfers_preds.

(* the sharp form: a transfer that is not an edge has a completely disconnected end (no predecessor,
   no successor, not a return / entry / ecall); and a disconnected TARGET is a dead end of the
   program text (when the name reserved for rewritten returns is not used as a label) *)
Definition C03dyn_transfer_cases_statement : Prop :=
  forall picks ns g, gen_full_cfg picks ns = Ok (SOk g) ->
    forall i ci j, node_at g i ci -> computed_jump (cn ci) = false -> ~ early_exit picks ns i ->
      pc_succ g i j ->
      In j (nexts ci) \/ disconnected g i \/ (disconnected g j /\ (reserved_free g -> dead_end g j)).
Theorem C03dyn_transfer_cases : C03dyn_transfer_cases_statement.
Proof. exact transfer_cases. Qed.
Check C03dyn_transfer_cases : C03dyn_transfer_cases_statement.
Print Assumptions C03dyn_transfer_cases.

(* ---- (3) executions ----------------------------------------------------------------------- *)
(* every node on a program-counter path from an entry through connected nodes is reachable from
   that entry along graph edges, and is an entry or has a predecessor *)
Definition C03dyn_runs_reach_statement : Prop :=
  forall picks ns g, gen_full_cfg picks ns = Ok (SOk g) ->
    forall e ce, node_at g e ce -> is_any_entry (cn ce) = true ->
    forall j, pc_run picks ns g e j ->
      reaches g e j /\ exists cj, node_at g j cj /\ (is_any_entry (cn cj) = true \/ prevs cj <> []).
Theorem C03dyn_runs_reach : C03dyn_runs_reach_statement.
Proof. exact pc_run_reaches. Qed.
Check C03dyn_runs_reach : C03dyn_runs_reach_statement.
Print Assumptions C03dyn_runs_reach.

(* hence (with C03_unreachable_only_without_preds) every unreachable-code finding is about a node
   that is not on the path *)
Definition C03dyn_runs_not_unreachable_statement : Prop :=
  forall picks ns g, gen_full_cfg picks ns = Ok (SOk g) ->
    forall e ce, node_at g e ce -> is_any_entry (cn ce) = true ->
    forall j, pc_run picks ns g e j ->
    forall l, In l (lint_control_flow g) -> lcode l = LUnreachableCode ->
      exists k c, node_at g k c /\ lcands l = [loc_of_node (cn c)] /\ prevs c = [] /\
                  is_any_entry (cn c) = false /\ k <> j.
Theorem C03dyn_runs_not_unreachable : C03dyn_runs_not_unreachable_statement.
Proof. exact pc_run_not_unreachable. Qed.
Check C03dyn_runs_not_unreachable : C03dyn_runs_not_unreachable_statement.
Print Assumptions C03dyn_runs_not_unreachable.

(* in a program without dead ends (and not using the reserved return-merge name as a label) the paths need no condition
   on the nodes they pass *)
Definition C03dyn_free_runs_statement : Prop :=
  forall picks ns g, gen_full_cfg picks ns = Ok (SOk g) ->
    reserved_free g -> (forall k, ~ dead_end g k) ->
    forall e ce, node_at g e ce -> is_any_entry (cn ce) = true ->
    forall j, pc_run_free picks ns g e j ->
      (reaches g e j /\ exists cj, node_at g j cj /\ (is_any_entry (cn cj) = true \/ prevs cj <> [])) /\
      (forall l, In l (lint_control_flow g) -> lcode l = LUnreachableCode ->
         exists k c, node_at g k c /\ lcands l = [loc_of_node (cn c)] /\ prevs c = [] /\
                     is_any_entry (cn c) = false /\ k <> j).
Theorem C03dyn_free_runs : C03dyn_free_runs_statement.
Proof.
  intros picks ns g H Hf Hd e ce He Hent j Hrun. split.
  - exact (pc_run_free_reaches picks ns g H Hf Hd e ce He Hent j Hrun).
  - exact (pc_run_free_not_unreachable picks ns g H Hf Hd e ce He Hent j Hrun).
Qed.
Check C03dyn_free_runs : C03dyn_free_runs_statement.
Print Assumptions C03dyn_free_runs.

(* a syntactic criterion: no dead ends when every instruction other than a return, an entry, an
   ecall or a rewritten return has somewhere to go *)
Definition C03dyn_no_dead_end_criterion_statement : Prop :=
  forall g,
    (forall j cj, node_at g j cj -> anchor (cn cj) = false -> is_return_merge (cn cj) = false ->
       exists k, may_flow g j k) ->
    forall j, ~ dead_end g j.
Theorem C03dyn_no_dead_end_criterion : C03dyn_no_dead_end_criterion_statement.
Proof. exact no_dead_end_criterion. Qed.
Check C03dyn_no_dead_end_criterion : C03dyn_no_dead_end_criterion_statement.
Print Assumptions C03dyn_no_dead_end_criterion.

(* ---- the definitions mean what they should ------------------------------------------------ *)
(* the node a label denotes (defined from the label sets of the nodes) is the one the analyzer's
   lookup finds *)
Definition C03dyn_label_node_statement : Prop :=
  forall g s j, label_node g s j <-> find_label s (gnodes g) 0 = Some j.
Theorem C03dyn_label_node_is_lookup : C03dyn_label_node_statement.
Proof. intros g s j. rewrite label_node_flab, find_label_flab. reflexivity. Qed.
Check C03dyn_label_node_is_lookup : C03dyn_label_node_statement.
Print Assumptions C03dyn_label_node_is_lookup.

(* ... and no other node carries that label (duplicate labels are rejected when the nodes are built) *)
Definition C03dyn_label_unique_statement : Prop :=
  forall picks ns g, gen_full_cfg picks ns = Ok (SOk g) ->
    forall s j k cj ck, node_at g j cj -> node_at g k ck ->
      mem_name s (clabels cj) = true -> mem_name s (clabels ck) = true -> j = k.
Theorem C03dyn_label_carrier_unique : C03dyn_label_unique_statement.
Proof. exact label_carrier_unique. Qed.
Check C03dyn_label_carrier_unique : C03dyn_label_unique_statement.
Print Assumptions C03dyn_label_carrier_unique.

(* a branch `always_taken` declares never to fall through does hold in every state (x0 = 0) *)
Definition C03dyn_always_taken_statement : Prop :=
  forall i rs1 rs2 (rd : reg -> Z), rd 0%N = 0%Z ->
    always_taken i rs1 rs2 = true -> branch_holds i (rd rs1) (rd rs2) = Some true.
Theorem C03dyn_always_taken_sound : C03dyn_always_taken_statement.
Proof. exact always_taken_sound. Qed.
Check C03dyn_always_taken_sound : C03dyn_always_taken_statement.
Print Assumptions C03dyn_always_taken_sound.

(* ---- examples ------------------------------------------------------------------------------ *)
Fixpoint unlines (l : list str) : str := match l with [] => [] | x :: l' => x ++ [c_nl] ++ unlines l' end.
Definition nodes_of (t : str) : list pnode := match parse_from_text false t with Ok (n, _) => n | _ => [] end.
Definition graph_of (picks : list nat) (t : str) : option cfg :=
  match gen_full_cfg picks (nodes_of t) with Ok (SOk g) => Some g | _ => None end.
Lemma use_graph picks t (chk : cfg -> bool) :
  match graph_of picks t with Some g => chk g | None => false end = true ->
  exists g, gen_full_cfg picks (nodes_of t) = Ok (SOk g) /\ chk g = true.
Proof. unfold graph_of. destruct (gen_full_cfg picks (nodes_of t)) as [[g|e]| |]; try discriminate; eauto. Qed.

Definition pairs (n : nat) : list (nat * nat) := flat_map (fun i => map (fun j => (i, j)) (seq 0 n)) (seq 0 n).
Definition pc_pairs (g : cfg) : list (nat * nat) :=
  filter (fun ij => pc_succ_b g (fst ij) (snd ij)) (pairs (length (gnodes g))).
Definition edge_pairs (g : cfg) : list (nat * nat) :=
  filter (fun ij => match nth_opt (gnodes g) (fst ij) with Some c => memn (snd ij) (nexts c) | None => false end)
         (pairs (length (gnodes g))).
Definition is_edge (g : cfg) (i j : nat) : bool :=
  match nth_opt (gnodes g) i with Some c => memn j (nexts c) | None => false end.

(* a loop, a branch, a call and two returns.  Nodes: 0 program entry, 1 li, 2 jal ra f, 3 li a7,
   4 ecall (exit), 5 entry of f, 6 beq, 7 addi (loop), 8 bne, 9 ret, 10 ret (done) *)
Definition ex_text : str := unlines
  [ «"main:"»; «"    li a0, 5"»; «"    jal ra, f"»; «"    li a7, 10"»; «"    ecall"»;
    «"f:"»; «"    beq a0, zero, done"»;
    «"loop:"»; «"    addi a0, a0, -1"»; «"    bne a0, zero, loop"»; «"    ret"»;
    «"done:"»; «"    ret"» ].

(* the program-counter successors, computed by the checker `pc_succ_b` (proved equivalent to
   `pc_succ`), are edges; the only further edge is the merge of the second return (10 -> 9, or
   9 -> 10 when the traversal meets the other return first) *)
Example C03dyn_example_relation :
  match graph_of [] ex_text, graph_of [10] ex_text with
  | Some g, Some g' =>
      pc_pairs g = [(0,1); (1,2); (2,3); (3,4); (5,6); (6,7); (6,10); (7,8); (8,7); (8,9)] /\
      edge_pairs g = [(0,1); (1,2); (2,3); (3,4); (5,6); (6,7); (6,10); (7,8); (8,7); (8,9); (10,9)] /\
      pc_pairs g' = pc_pairs g /\
      edge_pairs g' = [(0,1); (1,2); (2,3); (3,4); (5,6); (6,7); (6,10); (7,8); (8,7); (8,9); (9,10)] /\
      (* every node satisfies every side condition *)
      forallb (connected_b g) (seq 0 11) = true /\
      forallb (fun i => match nth_opt (gnodes g) i with Some c => negb (computed_jump (cn c)) | None => false end)
              (seq 0 11) = true /\
      (* the one early exit is also a final exit: it has no pc successor *)
      filter (early_exit_b [] (nodes_of ex_text)) (seq 0 11) = [4] /\
      no_dead_end_b g = true /\ reserved_free_b g = true
  | _, _ => False
  end.
Proof. vm_compute. repeat split; reflexivity. Qed.

Example C03dyn_checker_is_pc_succ : forall g i j, pc_succ_b g i j = true <-> pc_succ g i j.
Proof. exact pc_succ_b_spec. Qed.

Ltac in_list := repeat (first [left; reflexivity | right]).
(* after the computation, hide the concrete program so that no later tactic re-evaluates it *)
Ltac hide_nodes t ns := let E := fresh "E" in remember (nodes_of t) as ns eqn:E in *; clear E.

(* the theorem applied: the hypotheses are satisfiable, for the branch 6 -> 10 (to `done`), the
   loop edge 8 -> 7 and the call 2 -> 3 *)
Example C03dyn_example_theorem :
  exists g, gen_full_cfg [] (nodes_of ex_text) = Ok (SOk g) /\
    forall i j, In (i, j) [(6, 10); (8, 7); (2, 3)] ->
      exists ci, node_at g i ci /\ connected g i /\ computed_jump (cn ci) = false /\
                 ~ early_exit [] (nodes_of ex_text) i /\ pc_succ g i j /\ connected g j /\
                 In j (nexts ci).
Proof.
  destruct (use_graph [] ex_text
              (fun g => forallb (fun ij =>
                 match nth_opt (gnodes g) (fst ij) with
                 | Some ci => connected_b g (fst ij) && negb (computed_jump (cn ci))
                              && negb (early_exit_b [] (nodes_of ex_text) (fst ij))
                              && pc_succ_b g (fst ij) (snd ij) && connected_b g (snd ij)
                 | None => false end) [(6, 10); (8, 7); (2, 3)])%bool) as [g [G F]].
  { vm_compute. reflexivity. }
  hide_nodes ex_text ns0.
  exists g. split; auto. intros i j Hij. rewrite forallb_forall in F. specialize (F _ Hij). cbn [fst snd] in F.
  destruct (nth_opt (gnodes g) i) as [ci|] eqn:Hi; [|discriminate].
  repeat (apply Bool.andb_true_iff in F; destruct F as [F ?]).
  assert (H4 : ~ early_exit [] ns0 i) by (apply ee_false; assumption).
  exists ci. split; auto.
  assert (Hc : connected g i) by (apply connected_b_spec; auto).
  assert (Hj : computed_jump (cn ci) = false) by (apply Bool.negb_true_iff; auto).
  assert (Hs : pc_succ g i j) by (apply pc_succ_b_spec; auto).
  assert (Ht : connected g j) by (apply connected_b_spec; auto).
  repeat split; auto.
  exact (C03_transfers_are_edges [] ns0 g G i ci j Hi Hc Hj H4 Hs Ht).
Qed.

(* executions: from the entry of f (node 5) the unrestricted paths reach both returns through the
   loop; by the theorem they are graph-reachable and not what an unreachable-code finding is about *)
Example C03dyn_example_runs :
  exists g, gen_full_cfg [] (nodes_of ex_text) = Ok (SOk g) /\
    pc_run_free [] (nodes_of ex_text) g 5 9 /\ pc_run_free [] (nodes_of ex_text) g 5 10 /\
    reaches g 5 9 /\ reaches g 5 10 /\ lint_control_flow g = [].
Proof.
  destruct (use_graph [] ex_text
              (fun g => forallb (fun ij =>
                 match nth_opt (gnodes g) (fst ij) with
                 | Some ci => negb (computed_jump (cn ci))
                              && negb (early_exit_b [] (nodes_of ex_text) (fst ij))
                              && pc_succ_b g (fst ij) (snd ij)
                 | None => false end) [(5, 6); (6, 7); (7, 8); (8, 7); (8, 9); (6, 10)]
               && no_dead_end_b g && reserved_free_b g
               && match nth_opt (gnodes g) 5 with Some c => is_any_entry (cn c) | None => false end
               && match lint_control_flow g with [] => true | _ => false end)%bool) as [g [G F]].
  { vm_compute. reflexivity. }
  hide_nodes ex_text ns0.
  do 4 (apply Bool.andb_true_iff in F; destruct F as [F ?]).
  rewrite forallb_forall in F.
  assert (Step : forall i j, In (i, j) [(5, 6); (6, 7); (7, 8); (8, 7); (8, 9); (6, 10)] ->
            pc_run_free [] ns0 g 5 i -> pc_run_free [] ns0 g 5 j).
  { intros i j Hij Hr. specialize (F _ Hij). cbn [fst snd] in F.
    destruct (nth_opt (gnodes g) i) as [ci|] eqn:Hi; [|discriminate].
    repeat (apply Bool.andb_true_iff in F; destruct F as [F ?]).
    eapply pc_free_step with (ci := ci); eauto.
    - apply Bool.negb_true_iff; auto.
    - apply ee_false; assumption.
    - apply pc_succ_b_spec; auto. }
  assert (R6 : pc_run_free [] ns0 g 5 6) by (apply (Step 5 6); [in_list|constructor]).
  assert (R7 : pc_run_free [] ns0 g 5 7) by (apply (Step 6 7); [in_list|assumption]).
  assert (R8 : pc_run_free [] ns0 g 5 8) by (apply (Step 7 8); [in_list|assumption]).
  assert (R7' : pc_run_free [] ns0 g 5 7) by (apply (Step 8 7); [in_list|assumption]).
  assert (R9 : pc_run_free [] ns0 g 5 9) by (apply (Step 8 9); [in_list|assumption]).
  assert (R10 : pc_run_free [] ns0 g 5 10) by (apply (Step 6 10); [in_list|assumption]).
  destruct (nth_opt (gnodes g) 5) as [c5|] eqn:H5; [|discriminate].
  assert (Hnde : forall k, ~ dead_end g k) by (apply no_dead_end_b_spec; auto).
  assert (Hfree : reserved_free g) by (apply reserved_free_b_spec; auto).
  exists g. split; auto. split; auto. split; auto.
  split. { apply (C03dyn_free_runs [] _ g G Hfree Hnde 5 c5 H5 ltac:(assumption) 9 R9). }
  split. { apply (C03dyn_free_runs [] _ g G Hfree Hnde 5 c5 H5 ltac:(assumption) 10 R10). }
  destruct (lint_control_flow g); [reflexivity|discriminate].
Qed.

(* the restricted paths: from the program entry (node 0) through the call to the exit ecall *)
Example C03dyn_example_runs_main :
  exists g, gen_full_cfg [] (nodes_of ex_text) = Ok (SOk g) /\
    pc_run [] (nodes_of ex_text) g 0 4 /\ reaches g 0 4.
Proof.
  destruct (use_graph [] ex_text
              (fun g => forallb (fun ij =>
                 match nth_opt (gnodes g) (fst ij) with
                 | Some ci => negb (computed_jump (cn ci))
                              && negb (early_exit_b [] (nodes_of ex_text) (fst ij))
                              && pc_succ_b g (fst ij) (snd ij) && connected_b g (snd ij)
                 | None => false end) [(0, 1); (1, 2); (2, 3); (3, 4)]
               && match nth_opt (gnodes g) 0 with Some c => is_any_entry (cn c) | None => false end)%bool)
    as [g [G F]].
  { vm_compute. reflexivity. }
  hide_nodes ex_text ns0.
  apply Bool.andb_true_iff in F. destruct F as [F H0].
  rewrite forallb_forall in F.
  assert (Step : forall i j, In (i, j) [(0, 1); (1, 2); (2, 3); (3, 4)] ->
            pc_run [] ns0 g 0 i -> pc_run [] ns0 g 0 j).
  { intros i j Hij Hr. specialize (F _ Hij). cbn [fst snd] in F.
    destruct (nth_opt (gnodes g) i) as [ci|] eqn:Hi; [|discriminate].
    do 3 (apply Bool.andb_true_iff in F; destruct F as [F ?]).
    eapply pc_run_step with (ci := ci); eauto.
    - apply Bool.negb_true_iff; auto.
    - apply ee_false; assumption.
    - apply pc_succ_b_spec; auto.
    - apply connected_b_spec; auto. }
  assert (R1 : pc_run [] ns0 g 0 1) by (apply (Step 0 1); [in_list|constructor]).
  assert (R2 : pc_run [] ns0 g 0 2) by (apply (Step 1 2); [in_list|assumption]).
  assert (R3 : pc_run [] ns0 g 0 3) by (apply (Step 2 3); [in_list|assumption]).
  assert (R4 : pc_run [] ns0 g 0 4) by (apply (Step 3 4); [in_list|assumption]).
  destruct (nth_opt (gnodes g) 0) as [c0|] eqn:Hc0; [|discriminate].
  exists g. split; auto. split; auto.
  apply (C03dyn_runs_reach [] ns0 g G 0 c0 Hc0 H0 4 R4).
Qed.

(* ---- each added hypothesis is needed ------------------------------------------------------- *)
Ltac split_andb F := repeat (apply Bool.andb_true_iff in F; destruct F as [F ?]).

(* (A) the target condition.  Nodes: 0 entry, 1 addi, 2 addi, 3 jr t0.  The computed jump has no
   successor, so dead-code elimination cuts the edge 2 -> 3 although the program counter goes from
   2 to 3 *)
Definition tA : str := unlines [ «"main:"»; «"    addi a0, a0, 1"»; «"    addi a1, a1, 1"»; «"    jr t0"» ].

Definition C03dyn_target_condition_needed_statement : Prop :=
  ~ (forall picks ns g, gen_full_cfg picks ns = Ok (SOk g) ->
       forall i ci j, node_at g i ci -> connected g i -> computed_jump (cn ci) = false ->
         ~ early_exit picks ns i -> pc_succ g i j -> In j (nexts ci)).
Theorem C03dyn_target_condition_needed : C03dyn_target_condition_needed_statement.
Proof.
  intros H.
  destruct (use_graph [] tA
              (fun g => match nth_opt (gnodes g) 2 with
                        | Some ci => connected_b g 2 && negb (computed_jump (cn ci))
                                     && negb (early_exit_b [] (nodes_of tA) 2) && pc_succ_b g 2 3
                                     && negb (memn 3 (nexts ci))
                        | None => false end)%bool) as [g [G F]].
  { vm_compute. reflexivity. }
  hide_nodes tA ns0.
  destruct (nth_opt (gnodes g) 2) as [ci|] eqn:Hi; [|discriminate]. split_andb F.
  assert (Hin : In 3 (nexts ci)).
  { apply (H [] _ g G 2 ci 3 Hi).
    - apply connected_b_spec; auto.
    - apply Bool.negb_true_iff; auto.
    - apply ee_false; assumption.
    - apply pc_succ_b_spec; auto. }
  apply memn_In in Hin. apply Bool.negb_true_iff in H0. congruence.
Qed.
Check C03dyn_target_condition_needed : C03dyn_target_condition_needed_statement.
Print Assumptions C03dyn_target_condition_needed.

(* ... and the instruction the program counter reaches is reported as unreachable code: node 3 of
   tA lies on a program-counter path from the program entry (0 -> 1 -> 2 -> 3), yet it is the one
   unreachable-code finding *)
Example C03dyn_executed_but_reported_unreachable :
  match graph_of [] tA with
  | Some g =>
      (pc_succ_b g 0 1 && pc_succ_b g 1 2 && pc_succ_b g 2 3)%bool = true /\
      match nth_opt (gnodes g) 3 with
      | Some c3 => map (fun l => (lcode l, lcands l)) (lint_control_flow g) = [(LUnreachableCode, [loc_of_node (cn c3)])]
      | None => False end /\
      (* it is a dead end, disconnected *)
      connected_b g 3 = false
  | None => False
  end.
Proof. vm_compute. repeat split; reflexivity. Qed.

(* (B) the source condition.  Nodes: 0 entry, 1 ret, 2 addi, 3 addi, 4 ret.  Code after a return has
   no predecessor; its out-edges are removed: 3 -> 4 is a transfer into a connected node (a return)
   but not an edge *)
Definition tB : str := unlines [ «"main:"»; «"    ret"»; «"    addi a0, a0, 1"»; «"    addi a1, a1, 1"»; «"    ret"» ].

Definition C03dyn_source_condition_needed_statement : Prop :=
  ~ (forall picks ns g, gen_full_cfg picks ns = Ok (SOk g) ->
       forall i ci j, node_at g i ci -> computed_jump (cn ci) = false ->
         ~ early_exit picks ns i -> pc_succ g i j -> connected g j -> In j (nexts ci)).
Theorem C03dyn_source_condition_needed : C03dyn_source_condition_needed_statement.
Proof.
  intros H.
  destruct (use_graph [] tB
              (fun g => match nth_opt (gnodes g) 3 with
                        | Some ci => negb (computed_jump (cn ci))
                                     && negb (early_exit_b [] (nodes_of tB) 3) && pc_succ_b g 3 4
                                     && connected_b g 4 && negb (memn 4 (nexts ci))
                        | None => false end)%bool) as [g [G F]].
  { vm_compute. reflexivity. }
  hide_nodes tB ns0.
  destruct (nth_opt (gnodes g) 3) as [ci|] eqn:Hi; [|discriminate]. split_andb F.
  assert (Hin : In 4 (nexts ci)).
  { apply (H [] _ g G 3 ci 4 Hi).
    - apply Bool.negb_true_iff; auto.
    - apply ee_false; assumption.
    - apply pc_succ_b_spec; auto.
    - apply connected_b_spec; auto. }
  apply memn_In in Hin. apply Bool.negb_true_iff in H0. congruence.
Qed.
Check C03dyn_source_condition_needed : C03dyn_source_condition_needed_statement.
Print Assumptions C03dyn_source_condition_needed.

(* (C) early exits.  Nodes: 0 entry, 1 li a7, 2 beq, 3 ecall, 4 addi, 5 ecall (X), 6 addi, 7 ret.
   The first value analysis knows a7 = 10 at both ecalls and the termination pass cuts 3 -> 4 and
   5 -> 6.  Node 4 then has no predecessor, the second value analysis knows nothing at its exit, so
   at the join 5 a7 is no longer known: in the finished graph node 5 is not a program exit, has two
   predecessors, and no successor *)
Definition tC : str := unlines
  [ «"main:"»; «"    li a7, 10"»; «"    beq a0, a1, X"»; «"    ecall"»; «"    addi a0, a0, 0"»;
    «"X:"»; «"    ecall"»; «"    addi a1, a1, 1"»; «"    ret"» ].

Definition C03dyn_early_exit_needed_statement : Prop :=
  ~ (forall picks ns g, gen_full_cfg picks ns = Ok (SOk g) ->
       forall i ci j, node_at g i ci -> connected g i -> computed_jump (cn ci) = false ->
         pc_succ g i j -> connected g j -> In j (nexts ci)).
Theorem C03dyn_early_exit_needed : C03dyn_early_exit_needed_statement.
Proof.
  intros H.
  destruct (use_graph [] tC
              (fun g => match nth_opt (gnodes g) 5 with
                        | Some ci => connected_b g 5 && negb (computed_jump (cn ci))
                                     && pc_succ_b g 5 6 && connected_b g 6 && negb (memn 6 (nexts ci))
                        | None => false end)%bool) as [g [G F]].
  { vm_compute. reflexivity. }
  hide_nodes tC ns0.
  destruct (nth_opt (gnodes g) 5) as [ci|] eqn:Hi; [|discriminate]. split_andb F.
  assert (Hin : In 6 (nexts ci)).
  { apply (H [] _ g G 5 ci 6 Hi).
    - apply connected_b_spec; auto.
    - apply Bool.negb_true_iff; auto.
    - apply pc_succ_b_spec; auto.
    - apply connected_b_spec; auto. }
  apply memn_In in Hin. apply Bool.negb_true_iff in H0. congruence.
Qed.
Check C03dyn_early_exit_needed : C03dyn_early_exit_needed_statement.
Print Assumptions C03dyn_early_exit_needed.

Example C03dyn_early_exit_counterexample :
  match graph_of [] tC with
  | Some g =>
      match nth_opt (gnodes g) 5 with
      | Some c5 => is_ecall (cn c5) = true /\ is_program_exit c5 = false /\ prevs c5 = [2; 4] /\ nexts c5 = []
      | None => False end /\
      early_exit_b [] (nodes_of tC) 5 = true
  | None => False
  end.
Proof. vm_compute. repeat split; reflexivity. Qed.

(* (D) computed jumps.  Nodes: 0 entry, 1 addi, 2 jalr t1, t0, 0, 3 li, 4 ecall.  The graph lets
   the jalr fall through; the machine can go anywhere, e.g. back to 1 *)
Definition tD : str := unlines
  [ «"main:"»; «"    addi a0, a0, 1"»; «"    jalr t1, t0, 0"»; «"    li a7, 10"»; «"    ecall"» ].

Definition C03dyn_computed_jump_needed_statement : Prop :=
  ~ (forall picks ns g, gen_full_cfg picks ns = Ok (SOk g) ->
       forall i ci j, node_at g i ci -> connected g i ->
         ~ early_exit picks ns i -> pc_succ g i j -> connected g j -> In j (nexts ci)).
Theorem C03dyn_computed_jump_needed : C03dyn_computed_jump_needed_statement.
Proof.
  intros H.
  destruct (use_graph [] tD
              (fun g => match nth_opt (gnodes g) 2 with
                        | Some ci => connected_b g 2 && negb (early_exit_b [] (nodes_of tD) 2)
                                     && pc_succ_b g 2 1 && connected_b g 1 && negb (memn 1 (nexts ci))
                        | None => false end)%bool) as [g [G F]].
  { vm_compute. reflexivity. }
  hide_nodes tD ns0.
  destruct (nth_opt (gnodes g) 2) as [ci|] eqn:Hi; [|discriminate]. split_andb F.
  assert (Hin : In 1 (nexts ci)).
  { apply (H [] _ g G 2 ci 1 Hi).
    - apply connected_b_spec; auto.
    - apply ee_false; assumption.
    - apply pc_succ_b_spec; auto.
    - apply connected_b_spec; auto. }
  apply memn_In in Hin. apply Bool.negb_true_iff in H0. congruence.
Qed.
Check C03dyn_computed_jump_needed : C03dyn_computed_jump_needed_statement.
Print Assumptions C03dyn_computed_jump_needed.

(* (E) `beq x0, x0, X` never falls through: reading "a branch may fall through" literally would
   make 1 -> 2 a transfer, which is not an edge (the analyzer treats the instruction as a jump).
   Nodes: 0 entry, 1 beq, 2 addi, 3 li, 4 ecall *)
Definition tE : str := unlines
  [ «"main:"»; «"    beq zero, zero, X"»; «"    addi a0, a0, 0"»; «"X:"»; «"    li a7, 10"»; «"    ecall"» ].
Example C03dyn_always_taken_example :
  match graph_of [] tE with
  | Some g => pc_pairs g = [(0,1); (1,3); (2,3); (3,4)] /\ edge_pairs g = [(0,1); (1,3); (3,4)] /\
              connected_b g 2 = false
  | None => False
  end.
Proof. vm_compute. repeat split; reflexivity. Qed.
