
val fst : ('a1 * 'a2) -> 'a1

val snd : ('a1 * 'a2) -> 'a2

val app : 'a1 list -> 'a1 list -> 'a1 list

type comparison =
| Eq
| Lt
| Gt

val compOpp : comparison -> comparison

val rev : 'a1 list -> 'a1 list

val map : ('a1 -> 'a2) -> 'a1 list -> 'a2 list

type positive =
| XI of positive
| XO of positive
| XH

type n =
| N0
| Npos of positive

type z =
| Z0
| Zpos of positive
| Zneg of positive

module Pos :
 sig
  type mask =
  | IsNul
  | IsPos of positive
  | IsNeg
 end

module Coq_Pos :
 sig
  val succ : positive -> positive

  val add : positive -> positive -> positive

  val add_carry : positive -> positive -> positive

  val pred_double : positive -> positive

  val pred_N : positive -> n

  type mask = Pos.mask =
  | IsNul
  | IsPos of positive
  | IsNeg

  val succ_double_mask : mask -> mask

  val double_mask : mask -> mask

  val double_pred_mask : positive -> mask

  val sub_mask : positive -> positive -> mask

  val sub_mask_carry : positive -> positive -> mask

  val mul : positive -> positive -> positive

  val iter : ('a1 -> 'a1) -> 'a1 -> positive -> 'a1

  val div2 : positive -> positive

  val div2_up : positive -> positive

  val compare_cont : comparison -> positive -> positive -> comparison

  val compare : positive -> positive -> comparison

  val eqb : positive -> positive -> bool

  val coq_Nsucc_double : n -> n

  val coq_Ndouble : n -> n

  val coq_lor : positive -> positive -> positive

  val coq_land : positive -> positive -> n

  val ldiff : positive -> positive -> n

  val coq_lxor : positive -> positive -> n
 end

module N :
 sig
  val succ_double : n -> n

  val double : n -> n

  val succ_pos : n -> positive

  val add : n -> n -> n

  val sub : n -> n -> n

  val mul : n -> n -> n

  val compare : n -> n -> comparison

  val eqb : n -> n -> bool

  val leb : n -> n -> bool

  val pos_div_eucl : positive -> n -> n * n

  val coq_lor : n -> n -> n

  val coq_land : n -> n -> n

  val ldiff : n -> n -> n

  val coq_lxor : n -> n -> n
 end

module Z :
 sig
  val double : z -> z

  val succ_double : z -> z

  val pred_double : z -> z

  val pos_sub : positive -> positive -> z

  val add : z -> z -> z

  val opp : z -> z

  val sub : z -> z -> z

  val mul : z -> z -> z

  val compare : z -> z -> comparison

  val leb : z -> z -> bool

  val ltb : z -> z -> bool

  val eqb : z -> z -> bool

  val of_N : n -> z

  val pos_div_eucl : positive -> z -> z * z

  val div_eucl : z -> z -> z * z

  val div : z -> z -> z

  val modulo : z -> z -> z

  val quotrem : z -> z -> z * z

  val quot : z -> z -> z

  val rem : z -> z -> z

  val div2 : z -> z

  val shiftl : z -> z -> z

  val shiftr : z -> z -> z

  val coq_lor : z -> z -> z

  val coq_land : z -> z -> z

  val coq_lxor : z -> z -> z
 end

type ascii =
| Ascii of bool * bool * bool * bool * bool * bool * bool * bool

val n_of_digits : bool list -> n

val n_of_ascii : ascii -> n

type string =
| EmptyString
| String of ascii * string

type char = n

type str = char list

type 'a res =
| Ok of 'a
| Panic of n
| OutOfFuel

val bind : 'a1 res -> ('a1 -> 'a2 res) -> 'a2 res

val c_minus : char

val c_plus : char

val in_range : n -> n -> n -> bool

val is_ascii_digit : char -> bool

val is_ascii_lower : char -> bool

val is_ascii_upper : char -> bool

val to_lower : char -> char

val lower : str -> str

val str_eqb : str -> str -> bool

val strip_prefix : str -> str -> str option

val s2l : string -> str

val two32 : z

val two31 : z

val i32_min : z

val i32_max : z

val in32b : z -> bool

val to_u32 : z -> z

val wrap32 : z -> z

type mathop =
| MAdd
| MAnd
| MOr
| MSll
| MSlt
| MSltu
| MSra
| MSrl
| MSub
| MXor
| MMul
| MMulh
| MMulhsu
| MMulhu
| MDiv
| MDivu
| MRem
| MRemu

val all_mathops : mathop list

val b2z : bool -> z

val shamt : z -> z

val operate : mathop -> z -> z -> z

val is_whitespace : char -> bool

val trim_start : str -> str

val trim : str -> str

val digit_val : z -> char -> z option

val acc_digits : z -> z -> str -> z option

val parse_unsigned : z -> z -> str -> z option

val u32_from_str_radix : z -> str -> z option

val i64_min : z

val i64_max : z

val parse_i64 : str -> z option

val starts_with : char -> str -> bool

val mul_i64 : z -> z -> z res

val from_signed_magnitude : z -> z -> z option res

val imm_from_str : str -> z option res

val csr_names : (str * z) list

val assoc_str : str -> (str * 'a1) list -> 'a1 option

val csrimm_from_str : str -> z option res

val lui_imm : z -> z option
