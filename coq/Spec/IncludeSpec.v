(* Specification vocabulary for C15 (".include behaves as textual inclusion with per-file
   locations") and the parser half of C13 (the parser depends on WHAT the tokens are, not WHERE
   they are).  Definitions only; proofs in Proofs/Include*.v. *)
From RV.Model Require Import Base I32 Imm Lexer Isa Parser Reader.
From RV.Spec Require Import ParamSpec LineSpec.

(* -- erasure of a statement-level parse error --------------------------------------------- *)
Definition erase_lexerr (e : lexerr) : lexerr :=
  match e with
  | EExpected ex got => EExpected ex (erase_tok got)
  | EIsNewline t => EIsNewline (erase_tok t)
  | EIgnoredWithWarning t => EIgnoredWithWarning (erase_tok t)
  | EIgnoredWithoutWarning => EIgnoredWithoutWarning
  | EUnexpectedToken t => EUnexpectedToken (erase_tok t)
  | EUnexpectedEOF => EUnexpectedEOF
  | ENeedTwoNodes n1 n2 => ENeedTwoNodes (erase_node n1) (erase_node n2)
  | EUnexpectedError t => EUnexpectedError (erase_tok t)
  | EUnknownDirective t => EUnknownDirective (erase_tok t)
  | EUnsupportedDirective t => EUnsupportedDirective (erase_tok t)
  | EInvalidString t _ k => EInvalidString (erase_tok t) pos0 k
  end.

(* the outcome of one statement: an error or a node *)
Definition erase_stmt (x : lexerr + pnode) : lexerr + pnode :=
  match x with inl e => inl (erase_lexerr e) | inr n => inr (erase_node n) end.

(* two item streams that differ only in positions / file identities *)
Definition items_eq (l1 l2 : list lexitem) : Prop := map erase_item l1 = map erase_item l2.

(* two results of [parse_one] that agree up to positions: same outcome (error / node, equal
   after erasure), remaining streams again equal up to positions and of the same length; or
   the same panic; or both out of fuel *)
Definition parse_one_agree (r1 r2 : res ((lexerr + pnode) * list lexitem)) : Prop :=
  match r1, r2 with
  | Ok (x1, rest1), Ok (x2, rest2) =>
      erase_stmt x1 = erase_stmt x2 /\ items_eq rest1 rest2 /\ length rest1 = length rest2
  | Panic s1, Panic s2 => s1 = s2
  | OutOfFuel, OutOfFuel => True
  | _, _ => False
  end.

(* two results of the file driver that agree up to positions *)
Definition drive_agree (r1 r2 : res (list pnode * list parse_error * rstate)) : Prop :=
  match r1, r2 with
  | Ok (n1, e1, s1), Ok (n2, e2, s2) =>
      map erase_node n1 = map erase_node n2 /\ map erase_perr e1 = map erase_perr e2 /\ s1 = s2
  | Panic a, Panic b => a = b
  | OutOfFuel, OutOfFuel => True
  | _, _ => False
  end.

(* -- what the driver does after one statement ---------------------------------------------- *)
(* the items the driver continues with in the current file; None = the file is popped *)
Definition stmt_next (x : lexerr + pnode) (rest : list lexitem) : option (list lexitem) :=
  match x with
  | inr _ => Some rest
  | inl e =>
      match e with
      | EExpected _ got => Some (if is_newline_tok got then rest else recover rest)
      | EIsNewline _ | ENeedTwoNodes _ _ | EIgnoredWithoutWarning => Some rest
      | EUnexpectedEOF => None
      | _ => Some (recover rest)
      end
  end.

(* the parse error the driver records for a statement error *)
Definition err_perr (e : lexerr) : option parse_error :=
  match e with
  | EExpected ex got => Some (PEExpected ex got)
  | EUnexpectedToken got => Some (PEUnexpectedToken got)
  | EUnexpectedError t => Some (PEUnexpectedError t)
  | EUnknownDirective t => Some (PEUnknownDirective t)
  | EIgnoredWithWarning t | EUnsupportedDirective t => Some (PEUnsupported t)
  | EInvalidString t p k => Some (PEInvalidString t p k)
  | EIsNewline _ | EUnexpectedEOF | ENeedTwoNodes _ _ | EIgnoredWithoutWarning => None
  end.
(* the nodes (newest first) the driver records for a statement error *)
Definition err_nodes (e : lexerr) : list pnode :=
  match e with ENeedTwoNodes n1 n2 => [n2; n1] | _ => [] end.

(* -- statement boundaries ------------------------------------------------------------------ *)
(* Two statements of the model read across line ends: a data directive (`.word 1`) keeps
   consuming newlines and immediates, and `.macro` skips everything up to `.endmacro`.  Such a
   statement is OPEN in an item list when it runs into the end of the list: what it does then
   depends on what follows the list. *)

(* an item a data directive's value list continues over *)
Definition dv_cont (it : lexitem) : bool :=
  match it with
  | LTok t =>
      match tt t with
      | TNewline => true
      | _ => match tok_imm t with Ok (Some _) => true | _ => false end
      end
  | _ => false
  end.
(* an item that ends `.macro` skipping: `.endmacro`, or a lexical error *)
Definition macro_stop (it : lexitem) : bool :=
  match it with
  | LTok t =>
      match tt t with
      | TDirective d => match dir_from_str d with Some DEndMacro => true | _ => false end
      | _ => false
      end
  | _ => true
  end.
Definition is_data_dir (d : dirtok) : bool :=
  match d with DByte | DHalf | DWord | DDword | DFloat | DDouble => true | _ => false end.

(* the statement starting at the head of [items] swallows all of [items] *)
Definition open_stmt (items : list lexitem) : bool :=
  match items with
  | LTok t :: l =>
      match tt t with
      | TDirective d =>
          match dir_from_str d with
          | Some DMacro => negb (existsb macro_stop l)
          | Some dt => if is_data_dir dt then forallb dv_cont l else false
          | None => false
          end
      | _ => false
      end
  | _ => false
  end.

(* follow the driver's own statement segmentation of one file (included files are not entered)
   and check that no statement is open *)
Fixpoint closed_from (fuel : nat) (items : list lexitem) : bool :=
  match fuel with
  | O => false
  | S f =>
      match items with
      | [] => true
      | _ =>
          (negb (open_stmt items) &&
           match parse_one items with
           | Ok (x, rest) => match stmt_next x rest with Some items' => closed_from f items' | None => false end
           | _ => false
           end)%bool
      end
  end.
(* [items] ends at a statement boundary *)
Definition closed (items : list lexitem) : bool := closed_from (S (length items)) items.

(* -- the include line ---------------------------------------------------------------------- *)
(* [L] is one line that lexes (in any file, with or without the debug checks) to exactly the three
   tokens `.include`, a string or symbol spelling [p], and the newline *)
Definition include_items (p : str) (il : list lexitem) : Prop :=
  exists d s n, il = [LTok d; LTok s; LTok n] /\
    (exists dn, tt d = TDirective dn /\ dir_from_str dn = Some DInclude) /\
    (tt s = TString p \/ tt s = TSymbol p) /\ tt n = TNewline.
Definition include_line (p : str) (L : str) : Prop :=
  one_line L /\ forall chk file, exists il, lex_all chk file L = Ok il /\ include_items p il.

(* -- runs of the driver, without fuel ------------------------------------------------------ *)
Definition Run (chk : bool) (fs : store) (ign : bool) (stack : list (list lexitem)) (rs : rstate)
  (nodes : list pnode) (errs : list parse_error) (r : list pnode * list parse_error * rstate) : Prop :=
  exists fuel, drive fuel chk fs ign stack rs nodes errs = Ok r.

(* the string a token spells when used as an include path *)
Definition tok_path (t : token) : option str :=
  match tt t with TSymbol s | TString s => Some s | _ => None end.
(* no "already imported" error about path [p] *)
Definition no_cyclic (p : str) (errs : list parse_error) : Prop :=
  forall t, In (PECyclicDependency t) errs -> tok_path t <> Some p.

(* the node every parse starts with: the entry of the base file (file id [id]) *)
Definition entry_node (id : N) : pnode := PProgramEntry (Some id) (mkraw range0 (Some id)).

(* the three tokens of an include line *)
Definition inc_toks (p : str) (d s n : token) : Prop :=
  (exists dn, tt d = TDirective dn /\ dir_from_str dn = Some DInclude) /\
  (tt s = TString p \/ tt s = TSymbol p) /\ tt n = TNewline.

(* an item list as the lexer produces it for a block of complete lines: empty, or ending with a
   newline token *)
Definition nl_terminated (items : list lexitem) : Prop :=
  items = [] \/ exists pre t, items = pre ++ [LTok t] /\ tt t = TNewline.

(* -- the tokens a node is made of ----------------------------------------------------------- *)
Definition dir_tokens (d : dirtype) : list token :=
  match d with
  | DInc p => [wt p]
  | DAl i | DSp i => [wt i]
  | DAsc t _ => [wt t]
  | DDat _ vals => map wt vals
  | DDataSection | DTextSection => []
  end.
Definition node_tokens (n : pnode) : list token :=
  match n with
  | PProgramEntry _ _ | PFuncEntry _ _ _ => []
  | PArith i rd rs1 rs2 _ => [wt i; wt rd; wt rs1; wt rs2]
  | PIArith i rd rs1 imm _ => [wt i; wt rd; wt rs1; wt imm]
  | PLabel name _ => [wt name]
  | PJumpLink i rd name _ => [wt i; wt rd; wt name]
  | PJumpLinkR i rd rs1 imm _ => [wt i; wt rd; wt rs1; wt imm]
  | PBasic i _ => [wt i]
  | PDirective d dt _ => wt d :: dir_tokens dt
  | PBranch i rs1 rs2 name _ => [wt i; wt rs1; wt rs2; wt name]
  | PStore i rs1 rs2 imm _ => [wt i; wt rs1; wt rs2; wt imm]
  | PLoad i rd rs1 imm _ => [wt i; wt rd; wt rs1; wt imm]
  | PLoadAddr i rd name _ => [wt i; wt rd; wt name]
  | PCsr i rd csr rs1 _ => [wt i; wt rd; wt csr; wt rs1]
  | PCsrI i rd csr imm _ => [wt i; wt rd; wt csr; wt imm]
  end.
(* a node all of whose locations are in file [F] *)
Definition node_in_file (F : option N) (n : pnode) : Prop :=
  rfile (node_raw n) = F /\ Forall (fun t => tfile t = F) (node_tokens n).
Definition err_in_file (F : option N) (e : parse_error) : Prop := tfile (err_token e) = F.
