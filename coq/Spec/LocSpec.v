(* C09 beyond the lexer: what it means for the locations of parser nodes, parse errors and
   diagnostics to be exact.  A node is made of the tokens its statement consumed; its raw range is
   the hull of those tokens (from the start of the first to the end of the last); the nodes of a
   file are the statements of disjoint segments of the file's lexer output, in source order. *)
From RV.Model Require Import Base I32 Imm Lexer Isa Parser Reader Cfg Lints.
From RV.Spec Require Import PosSpec LineSpec ParamSpec IncludeSpec.
Open Scope N_scope.

(* ---- statements -------------------------------------------------------------------------- *)
(* the hull of a run of tokens whose first is [tf] and last is [tl] *)
Definition hull (tf tl : token) : rawtok :=
  mkraw (mkrange (rstart (trange tf)) (rend (trange tl))) (tfile tf).

(* [n] is a node of the statement that consumed exactly the tokens [u]: its raw range is their hull and
   every token it carries (instruction, operands, label, directive arguments) is one of them *)
Definition stmt_node (u : list token) (n : pnode) : Prop :=
  match u with
  | [] => False
  | tf :: u' => node_raw n = hull tf (last u' tf) /\ Forall (fun t => In t u) (node_tokens n)
  end.

(* the two nodes `lw rd, label` / `sw rs, label, rt` / `sw rs, imm, rt` expand to *)
Definition expansion_pair (n1 n2 : pnode) : Prop :=
  match n1, n2 with
  | PLoadAddr i1 rd _ _, PLoad _ rd' rs1 imm _ => wv i1 = ILa /\ rd' = rd /\ rs1 = rd /\ wv imm = 0%Z
  | PLoadAddr i1 tmp _ _, PStore _ rs1 _ imm _ => wv i1 = ILa /\ rs1 = tmp /\ wv imm = 0%Z
  | PIArith i1 tmp z _ _, PStore _ rs1 _ imm _ => wv i1 = IAddi /\ rs1 = tmp /\ wv z = X0 /\ wv imm = 0%Z
  | _, _ => False
  end.

(* the nodes [ns] are, in order, the statements of disjoint consecutive segments of the item list;
   between segments lie the items that produce no node (newlines, comments, erroneous lines);
   the only statements with two nodes are the expansions, whose nodes share the segment *)
Inductive segs : list lexitem -> list pnode -> Prop :=
| segs_nil l : segs l []
| segs_one d u rest n ns :
    stmt_node u n -> segs rest ns -> segs (d ++ map LTok u ++ rest) (n :: ns)
| segs_two d u rest n1 n2 ns :
    stmt_node u n1 -> stmt_node u n2 -> expansion_pair n1 n2 -> segs rest ns ->
    segs (d ++ map LTok u ++ rest) (n1 :: n2 :: ns).

(* ---- instruction statements are tight ---------------------------------------------------- *)
(* An INSTRUCTION statement consumes nothing but its mnemonic and its operands: no newline, no comment.
   (A data directive legitimately consumes newlines: `.word 1` <newline> `2`.) *)
Definition is_comment_tok (t : token) : bool := match tt t with TComment _ => true | _ => false end.
Definition operand_tok (t : token) : Prop := is_newline_tok t = false /\ is_comment_tok t = false.

Definition is_instruction_node (n : pnode) : bool :=
  match n with
  | PProgramEntry _ _ | PFuncEntry _ _ _ | PLabel _ _ | PDirective _ _ _ => false
  | _ => true
  end.

(* the token of the instruction field of an instruction node: the mnemonic as written (for a
   pseudo-instruction or an expansion, the mnemonic of the statement the node comes from) *)
Definition mnemonic_tok (n : pnode) : option token :=
  match n with
  | PArith i _ _ _ _ | PIArith i _ _ _ _ | PJumpLink i _ _ _ | PJumpLinkR i _ _ _ _ | PBasic i _
  | PBranch i _ _ _ _ | PStore i _ _ _ _ | PLoad i _ _ _ _ | PLoadAddr i _ _ _ | PCsr i _ _ _ _
  | PCsrI i _ _ _ _ => Some (wt i)
  | PProgramEntry _ _ | PFuncEntry _ _ _ | PLabel _ _ | PDirective _ _ _ => None
  end.

(* [u] are the tokens the statement of the instruction node [n] consumed: the first is the mnemonic, and
   all of them are operand tokens; hence (with [stmt_node u n]) the raw range of [n] runs exactly from the
   mnemonic through the last operand.  Nothing is claimed of the other nodes. *)
Definition stmt_tight (u : list token) (n : pnode) : Prop :=
  is_instruction_node n = true ->
  match u with tf :: _ => mnemonic_tok n = Some tf | [] => False end /\ Forall operand_tok u.

(* [segs] with the tightness of every instruction statement *)
Inductive segs_tight : list lexitem -> list pnode -> Prop :=
| segst_nil l : segs_tight l []
| segst_one d u rest n ns :
    stmt_node u n -> stmt_tight u n -> segs_tight rest ns -> segs_tight (d ++ map LTok u ++ rest) (n :: ns)
| segst_two d u rest n1 n2 ns :
    stmt_node u n1 -> stmt_node u n2 -> expansion_pair n1 n2 -> stmt_tight u n1 -> stmt_tight u n2 ->
    segs_tight rest ns -> segs_tight (d ++ map LTok u ++ rest) (n1 :: n2 :: ns).

(* ---- parse errors ------------------------------------------------------------------------ *)
(* the lexer item a parse error is about: the offending token, or the item the lexer itself rejected *)
Definition err_item (e : parse_error) (it : lexitem) : Prop :=
  match e with
  | PEInvalidString t p k => it = LErrString t p k
  | PEUnexpectedToken t => it = LTok t \/ it = LErrUnexpected t
  | _ => it = LTok (err_token e)
  end.

(* ---- locations --------------------------------------------------------------------------- *)
(* the location of the ProgramEntry node of file [id]: not a piece of text *)
Definition entry_loc (id : N) : loc := mkloc range0 (Some id).

(* ---- include trees ----------------------------------------------------------------------- *)
(* file [k] of a run that imported the paths [imp] (in this order): its text in the store and the
   lexer output the driver parsed (the text is normalised and lexed as file [k]) *)
Definition file_items (chk : bool) (fs : store) (imp : list str) (k : N) (text : str) (items : list lexitem) : Prop :=
  exists path, nth_error imp (N.to_nat k) = Some path /\ assoc_str path fs = Some (inl text) /\
               lex_all chk (Some k) (normalize_text text) = Ok items.

(* the node's raw token is in file [k] *)
Definition in_file (k : N) (n : pnode) : bool :=
  match rfile (node_raw n) with Some j => N.eqb j k | None => false end.

(* the location a parse error gets when the base file itself cannot be read: no token at all *)
Definition no_loc : loc := mkloc range0 None.
