(* Renamings (C14): permuting registers inside one calling-convention class, and renaming labels.

   A class permutation is a bijection `sigma : reg -> reg` that maps temporaries (t0-t6 = x5,x6,x7,
   x28..x31) to temporaries, saved registers (s0-s11 = x8,x9,x18..x27) to saved registers and fixes every
   other number (also the numbers >= 32, which no parsed program contains).  It is given by the list of
   the images of 0..31 (`perm`, `sigma_of`) with the boolean check `valid_perm`, so that examples compute.

   A label renaming is a function `rho : str -> str`; the theorems ask for it to be injective and to
   fix the reserved name "__return__" (the model - like the code - invents a jump to that name when it
   merges the returns of a function).

   Everything the analysis stores is renamed along: operands of nodes, register sets (`perm_set`: the bit of
   `sigma r` in the image is the bit of `r` in the original), abstract values, register-indexed maps
   (re-indexed, and re-sorted since the model keeps them sorted by key), graphs, CFG errors, diagnostics. *)
From Coq Require Import Sorting.Sorted.
From RV.Model Require Import Base I32 Imm Lexer Isa Parser Reader Cfg Avail Live Lints.
Open Scope N_scope.

(* ---- class permutations -------------------------------------------------------------------- *)
Definition is_temp (r : reg) : bool := rs_mem r temporary_set.
Definition is_saved (r : reg) : bool := rs_mem r saved_set.

Record class_perm (s : reg -> reg) : Prop := mk_class_perm {
  cp_inj : forall a b, s a = s b -> a = b;
  cp_surj : forall b, exists a, s a = b;
  cp_temp : forall r, is_temp r = true -> is_temp (s r) = true;
  cp_saved : forall r, is_saved r = true -> is_saved (s r) = true;
  cp_fix : forall r, is_temp r = false -> is_saved r = false -> s r = r }.

(* list-based: the images of 0..31 *)
Definition perm := list reg.
Definition sigma_of (p : perm) (r : reg) : reg := if N.ltb r 32 then nth (N.to_nat r) p r else r.
Definition class_ok (p : perm) (r : reg) : bool :=
  let q := sigma_of p r in
  if is_temp r then is_temp q else if is_saved r then is_saved q else N.eqb q r.
Definition valid_perm (p : perm) : bool :=
  (Nat.eqb (length p) 32
   && forallb (class_ok p) all_regs
   && forallb (fun a => forallb (fun b => implb (N.eqb (sigma_of p a) (sigma_of p b)) (N.eqb a b)) all_regs) all_regs
   && forallb (fun b => existsb (fun a => N.eqb (sigma_of p a) b) all_regs) all_regs)%bool.

Definition id_perm : perm := all_regs.
(* the transposition of a and b *)
Definition swap_perm (a b : reg) (p : perm) : perm :=
  map (fun r => if N.eqb r a then b else if N.eqb r b then a else r) p.

(* ---- register sets ---------------------------------------------------------------------------- *)
(* the bits from 32 on stay (no register has such a number; this keeps `perm_set` a bijection on all
   masks, so that no range side condition is needed anywhere) *)
Definition rs_high (x : regset) : regset := N.shiftl (N.shiftr x 32) 32.
Definition perm_set (s : reg -> reg) (x : regset) : regset :=
  rs_union (rs_of_list (map s (rs_elems x))) (rs_high x).

(* ---- nodes -------------------------------------------------------------------------------------- *)
Definition map_w {A} (f : A -> A) (w : wth A) : wth A := mkw (f (wv w)) (wt w).

Definition rename_regs (s : reg -> reg) (n : pnode) : pnode :=
  let m := map_w s in
  match n with
  | PArith i rd rs1 rs2 rt => PArith i (m rd) (m rs1) (m rs2) rt
  | PIArith i rd rs1 imm rt => PIArith i (m rd) (m rs1) imm rt
  | PJumpLink i rd name rt => PJumpLink i (m rd) name rt
  | PJumpLinkR i rd rs1 imm rt => PJumpLinkR i (m rd) (m rs1) imm rt
  | PBranch i rs1 rs2 name rt => PBranch i (m rs1) (m rs2) name rt
  | PStore i rs1 rs2 imm rt => PStore i (m rs1) (m rs2) imm rt
  | PLoad i rd rs1 imm rt => PLoad i (m rd) (m rs1) imm rt
  | PLoadAddr i rd name rt => PLoadAddr i (m rd) name rt
  | PCsr i rd csr rs1 rt => PCsr i (m rd) csr (m rs1) rt
  | PCsrI i rd csr imm rt => PCsrI i (m rd) csr imm rt
  | PProgramEntry _ _ | PFuncEntry _ _ _ | PLabel _ _ | PBasic _ _ | PDirective _ _ _ => n
  end.

Definition rename_labels (rho : str -> str) (n : pnode) : pnode :=
  let m := map_w rho in
  match n with
  | PLabel name rt => PLabel (m name) rt
  | PJumpLink i rd name rt => PJumpLink i rd (m name) rt
  | PBranch i rs1 rs2 name rt => PBranch i rs1 rs2 (m name) rt
  | PLoadAddr i rd name rt => PLoadAddr i rd (m name) rt
  | _ => n
  end.

(* both at once *)
Definition rn_node (s : reg -> reg) (rho : str -> str) (n : pnode) : pnode :=
  rename_labels rho (rename_regs s n).

(* ---- abstract values and maps ------------------------------------------------------------------- *)
Definition rn_aval (s : reg -> reg) (rho : str -> str) (v : aval) : aval :=
  match v with
  | AConst c => AConst c
  | AAddr l => AAddr (map_w rho l)
  | AMem l off => AMem (rho l) off
  | ARegScalar r off => ARegScalar (s r) off
  | AOrig r off => AOrig (s r) off
  | AMemAtReg r off => AMemAtReg (s r) off
  | AMemAtOrig r off => AMemAtOrig (s r) off
  | AValueInCsr c => AValueInCsr c
  | AMemAtCsr c off => AMemAtCsr c off
  end.

(* a register-indexed map is re-indexed; the model keeps these maps sorted by key, so the image is
   re-sorted (insertion of the renamed entries, the first entry of a key winning as in `rm_get`) *)
Definition rn_regmap (s : reg -> reg) (rho : str -> str) (m : regmap) : regmap :=
  fold_right (fun kv acc => rm_insert (s (fst kv)) (rn_aval s rho (snd kv)) acc) [] m.
(* memory keys mention no register and no label *)
Definition rn_memmap (s : reg -> reg) (rho : str -> str) (m : memmap) : memmap :=
  map (fun kv => (fst kv, rn_aval s rho (snd kv))) m.

(* ---- graphs ------------------------------------------------------------------------------------- *)
Definition rn_cnode (s : reg -> reg) (rho : str -> str) (c : cnode) : cnode :=
  mkcn (rn_node s rho (cn c)) (map (map_w rho) (clabels c)) (ctext c) (nexts c) (prevs c) (cfuncs c)
       (rn_regmap s rho (rin c)) (rn_regmap s rho (rout c)) (rn_memmap s rho (min c)) (rn_memmap s rho (mout c))
       (perm_set s (lin c)) (perm_set s (lout c)) (perm_set s (udef c)).
Definition rn_func (s : reg -> reg) (f : func) : func :=
  mkfn (fentry f) (fexit f) (fnodes f) (perm_set s (fdefs f)).
Definition rn_cfg (s : reg -> reg) (rho : str -> str) (g : cfg) : cfg :=
  mkcfg (map (rn_cnode s rho) (gnodes g)) (map (rn_func s) (gfuncs g))
        (map (fun kv => (rho (fst kv), snd kv)) (glabelfn g)).

Definition rn_cfgerr (s : reg -> reg) (rho : str -> str) (e : cfgerr) : cfgerr :=
  match e with
  | CLabelsNotDefined ls => CLabelsNotDefined (map (map_w rho) ls)
  | CDuplicateLabel l => CDuplicateLabel (map_w rho l)
  | CLabelWithoutInstruction l => CLabelWithoutInstruction (map_w rho l)
  | CFunctionWithoutReturn n ls => CFunctionWithoutReturn (rn_node s rho n) (map (map_w rho) ls)
  | CUnexpectedError => CUnexpectedError
  end.

Definition rn_stage {A} (s : reg -> reg) (rho : str -> str) (f : A -> A) (r : stage_res A) : stage_res A :=
  match r with SOk a => SOk (f a) | SErr e => SErr (rn_cfgerr s rho e) end.
Definition map_res {A B} (f : A -> B) (r : res A) : res B :=
  match r with Ok a => Ok (f a) | Panic k => Panic k | OutOfFuel => OutOfFuel end.

(* diagnostics: a lint carries a code, locations and a flag - nothing to rename; a CFG error carries
   labels; parse errors are not touched (renaming is applied to parsed nodes) *)
Definition rn_dkind (s : reg -> reg) (rho : str -> str) (k : dkind) : dkind :=
  match k with DCfg e => DCfg (rn_cfgerr s rho e) | _ => k end.
Definition rn_ditem (s : reg -> reg) (rho : str -> str) (d : ditem) : ditem :=
  mkd (rn_dkind s rho (dk d)) (dlocs d) (dopt d).

(* ---- side conditions ---------------------------------------------------------------------------- *)
Definition injective {A B} (f : A -> B) : Prop := forall a b, f a = f b -> a = b.
Definition return_name : str := «"<return>"».
Record label_renaming (rho : str -> str) : Prop := mk_label_renaming {
  lr_inj : injective rho;
  lr_ret : rho return_name = return_name }.

(* an example of a label renaming: exchange two names *)
Definition swap_str (a b x : str) : str := if str_eqb x a then b else if str_eqb x b then a else x.

(* the strict string order of the CFG error messages/locations is kept on the names of `ls` *)
Definition monotone_on (rho : str -> str) (ls : list (wth str)) : Prop :=
  forall a b, In a ls -> In b ls -> str_ltb (rho (wv a)) (rho (wv b)) = str_ltb (wv a) (wv b).

(* every register map of the graph is strictly sorted by key (true of every graph the pipeline builds) *)
Definition rsorted (m : regmap) : Prop := StronglySorted (fun a b => fst a < fst b) m.
Definition maps_sorted (g : list cnode) : Prop :=
  forall c, In c g -> rsorted (rin c) /\ rsorted (rout c).
