(* What a source position means, independently of the lexer: the (line, column) of the
   character at raw index r of a text is (number of newlines before r, number of characters
   since the last newline before r).  All zero-based; columns count characters. *)
From RV.Model Require Import Base.
Open Scope N_scope.

Fixpoint pos_walk (s : str) (r : nat) (ln col : N) : N * N :=
  match r, s with
  | O, _ => (ln, col)
  | S r', c :: s' => if N.eqb c c_nl then pos_walk s' r' (ln + 1) 0 else pos_walk s' r' ln (col + 1)
  | S _, [] => (ln, col)
  end.
Definition line_col (src : str) (r : N) : N * N := pos_walk src (N.to_nat r) 0 0.

(* characters raw indices a .. b inclusive *)
Definition slice (src : str) (a b : N) : str :=
  firstn (N.to_nat b + 1 - N.to_nat a) (skipn (N.to_nat a) src).

Definition ends_with_nl (src : str) : Prop := exists pre, src = pre ++ [c_nl].
