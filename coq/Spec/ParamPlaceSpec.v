(* Companion of ParamSpec.v: location erasure of the analysis graph (every fact kept, every embedded
   token/node erased), and the "same place" relation between the locations two equally shaped inputs
   (nodes + parse errors) can be blamed at. *)
From RV.Model Require Import Base I32 Imm Lexer Isa Parser Reader Cfg Lints.
From RV.Spec Require Import ParamSpec.

(* the only abstract value that embeds a token is the address of a label *)
Definition erase_aval (a : aval) : aval := match a with AAddr l => AAddr (erase_w l) | _ => a end.
Definition erase_kv {K} (kv : K * aval) : K * aval := (fst kv, erase_aval (snd kv)).

(* a graph node with its embedded parser node, labels and label-valued facts erased; edges, function
   membership, value maps (keys and values), live sets are kept as they are *)
Definition erase_cnode (c : cnode) : cnode :=
  mkcn (erase_node (cn c)) (map erase_w (clabels c)) (ctext c) (nexts c) (prevs c) (cfuncs c)
       (map erase_kv (rin c)) (map erase_kv (rout c)) (map erase_kv (min c)) (map erase_kv (mout c))
       (lin c) (lout c) (udef c).
Definition erase_cfg (g : cfg) : cfg := mkcfg (map erase_cnode (gnodes g)) (gfuncs g) (glabelfn g).

(* the location of the parse error at the same index of the two error lists *)
Definition parse_place (es1 es2 : list parse_error) (l1 l2 : loc) : Prop :=
  exists i e1 e2, nth_error es1 i = Some e1 /\ nth_error es2 i = Some e2 /\
                  parse_error_loc e1 = l1 /\ parse_error_loc e2 = l2.

(* Every location a diagnostic carries is either a place of an input node (the whole node, or one of its
   operand tokens) or the location of an input parse error.  The nodes the analysis synthesizes do not add
   places: a PFuncEntry carries the range of the instruction it precedes (SelNode of that instruction), the
   `jal x0, <return>` replacing an additional return carries the range of that return (SelNode), and CFG
   errors point at a label token (SelName) or at a function's entry (SelNode). *)
Definition place (ns1 ns2 : list pnode) (es1 es2 : list parse_error) (l1 l2 : loc) : Prop :=
  same_place ns1 ns2 l1 l2 \/ parse_place es1 es2 l1 l2.
