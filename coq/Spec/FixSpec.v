(* Fixed-point equations of the two dataflow analyses, stated on a finished graph with ALL
   predecessors / successors taken into account (the passes themselves only look at the
   predecessors already visited in the current run). *)
From RV.Model Require Import Base Lexer Isa Parser Cfg Avail Live.
From RV.Spec Require Import LiveSpec.
Open Scope N_scope.

Definition all_idx (g : list cnode) : list nat := seq 0 (length g).

(* value analysis: in = meet over all predecessors of their outs; out = transfer(in) *)
Definition AvailEqns (g : cfg) : Prop :=
  forall i c, nth_opt (gnodes g) i = Some c ->
    rm_eqb (rin c) (meet_regs (gnodes g) (prevs c) (all_idx (gnodes g))) = true /\
    mm_eqb (min c) (meet_mems (gnodes g) (prevs c) (all_idx (gnodes g))) = true /\
    (let '(ro, mo) := avail_transfer c (rin c) (min c) in
     rm_eqb (rout c) ro = true /\ mm_eqb (mout c) mo = true).

Definition same_avail_facts (g h : cfg) : Prop :=
  length (gnodes g) = length (gnodes h) /\
  forall i c d, nth_opt (gnodes g) i = Some c -> nth_opt (gnodes h) i = Some d ->
    rm_eqb (rin c) (rin d) = true /\ rm_eqb (rout c) (rout d) = true /\
    mm_eqb (min c) (min d) = true /\ mm_eqb (mout c) (mout d) = true.

(* liveness: exact equations *)
Definition LiveFix (g : cfg) : Prop :=
  let L := stored g in
  forall i c, nth_opt (gnodes g) i = Some c ->
    lout c = rhs_out g L c /\
    (match calls_to_from_cfg g c with
     | Some fid => forall f, nth_opt (gfuncs g) fid = Some f ->
                     lin c = rhs_in g L i c /\ subset (lout c) (Lin L (fexit f))
     | None => if (negb (is_ecall (cn c)) && is_return (cn c))%bool then subset (gen_reg (cn c)) (lin c)
               else lin c = rhs_in g L i c
     end).

Definition same_live_sets (g h : cfg) : Prop :=
  length (gnodes g) = length (gnodes h) /\
  forall i c d, nth_opt (gnodes g) i = Some c -> nth_opt (gnodes h) i = Some d ->
    lin c = lin d /\ lout c = lout d.

Definition same_edges (g h : cfg) : Prop :=
  length (gnodes g) = length (gnodes h) /\
  forall i c d, nth_opt (gnodes g) i = Some c -> nth_opt (gnodes h) i = Some d ->
    nexts c = nexts d /\ prevs c = prevs d.
