(* C13, spelling: the vocabulary needed to say that two ways of WRITING the same instruction are
   the same instruction to the analysis.
   - the register names of the RISC-V ABI, written down independently of the parser's table;
   - what a token denotes as an operand, with the token itself forgotten;
   - a node with every token and source range forgotten (only constructor and values remain);
   - the constructor of a node;
   - sequential composition of gen/kill sets (for pseudo-instructions the manual expands to two
     instructions).
   Definitions only; proofs are in Proofs/SpellProofs.v. *)
From RV.Model Require Import Base I32 Imm Lexer Isa Parser Cfg.
From RV.Spec Require Import LitSpec.

(* ---- register names (RISC-V ABI, psABI table 1) ------------------------------------------- *)
Definition digit_char (d : N) : char := (48 + d)%N.
(* "x" followed by the decimal digits of r (one or two digits for r < 100) *)
Definition numeric_name (r : N) : str :=
  120%N :: (if N.ltb r 10 then [digit_char r] else [digit_char (N.div r 10); digit_char (N.modulo r 10)]).

Definition abi_names (r : N) : list str :=
  match r with
  | 0 => [«"zero"»] | 1 => [«"ra"»] | 2 => [«"sp"»] | 3 => [«"gp"»] | 4 => [«"tp"»]
  | 5 => [«"t0"»] | 6 => [«"t1"»] | 7 => [«"t2"»]
  | 8 => [«"s0"»; «"fp"»] | 9 => [«"s1"»]
  | 10 => [«"a0"»] | 11 => [«"a1"»] | 12 => [«"a2"»] | 13 => [«"a3"»]
  | 14 => [«"a4"»] | 15 => [«"a5"»] | 16 => [«"a6"»] | 17 => [«"a7"»]
  | 18 => [«"s2"»] | 19 => [«"s3"»] | 20 => [«"s4"»] | 21 => [«"s5"»] | 22 => [«"s6"»]
  | 23 => [«"s7"»] | 24 => [«"s8"»] | 25 => [«"s9"»] | 26 => [«"s10"»] | 27 => [«"s11"»]
  | 28 => [«"t3"»] | 29 => [«"t4"»] | 30 => [«"t5"»] | 31 => [«"t6"»]
  | _ => []
  end%N.

(* ---- what an operand token denotes --------------------------------------------------------- *)
Definition res_map {A B} (f : A -> B) (r : res A) : res B :=
  match r with Ok a => Ok (f a) | Panic s => Panic s | OutOfFuel => OutOfFuel end.
Definition tok_reg_val (t : token) : option reg := option_map wv (tok_reg t).
Definition tok_imm_val (t : token) : res (option Z) := res_map (option_map wv) (tok_imm t).
Definition tok_label_val (t : token) : option str := option_map wv (tok_label t).
Definition tok_csr_val (t : token) : res (option Z) := res_map (option_map wv) (tok_csrimm t).

(* radix notations (bit patterns) versus decimal / the word `zero` *)
Definition is_radix (n : notation) : bool := match n with Hex | Bin => true | Dec | ZeroWord => false end.

(* ---- nodes without tokens -------------------------------------------------------------------- *)
(* a value carried by no particular token *)
Definition sw {A} (a : A) : wth A := mkw a tok_default.
Definition strip_w {A} (w : wth A) : wth A := mkw (wv w) tok_default.

Definition strip_dirtype (d : dirtype) : dirtype :=
  match d with
  | DInc p => DInc (strip_w p)
  | DAl i => DAl (strip_w i)
  | DAsc t z => DAsc (strip_w t) z
  | DDataSection => DDataSection
  | DTextSection => DTextSection
  | DDat dt vals => DDat dt (map strip_w vals)
  | DSp i => DSp (strip_w i)
  end.

Definition strip_node (n : pnode) : pnode :=
  match n with
  | PProgramEntry _ _ => PProgramEntry None raw_default
  | PFuncEntry _ _ h => PFuncEntry None raw_default h
  | PArith i rd rs1 rs2 _ => PArith (strip_w i) (strip_w rd) (strip_w rs1) (strip_w rs2) raw_default
  | PIArith i rd rs1 imm _ => PIArith (strip_w i) (strip_w rd) (strip_w rs1) (strip_w imm) raw_default
  | PLabel name _ => PLabel (strip_w name) raw_default
  | PJumpLink i rd name _ => PJumpLink (strip_w i) (strip_w rd) (strip_w name) raw_default
  | PJumpLinkR i rd rs1 imm _ => PJumpLinkR (strip_w i) (strip_w rd) (strip_w rs1) (strip_w imm) raw_default
  | PBasic i _ => PBasic (strip_w i) raw_default
  | PDirective d dt _ => PDirective (strip_w d) (strip_dirtype dt) raw_default
  | PBranch i rs1 rs2 name _ => PBranch (strip_w i) (strip_w rs1) (strip_w rs2) (strip_w name) raw_default
  | PStore i rs1 rs2 imm _ => PStore (strip_w i) (strip_w rs1) (strip_w rs2) (strip_w imm) raw_default
  | PLoad i rd rs1 imm _ => PLoad (strip_w i) (strip_w rd) (strip_w rs1) (strip_w imm) raw_default
  | PLoadAddr i rd name _ => PLoadAddr (strip_w i) (strip_w rd) (strip_w name) raw_default
  | PCsr i rd csr rs1 _ => PCsr (strip_w i) (strip_w rd) (strip_w csr) (strip_w rs1) raw_default
  | PCsrI i rd csr imm _ => PCsrI (strip_w i) (strip_w rd) (strip_w csr) (strip_w imm) raw_default
  end.

Inductive nclass :=
| CProgramEntry | CFuncEntry | CArith | CIArith | CLabel | CJumpLink | CJumpLinkR | CBasic | CDirective
| CBranch | CStore | CLoad | CLoadAddr | CCsr | CCsrI.

Definition node_class (n : pnode) : nclass :=
  match n with
  | PProgramEntry _ _ => CProgramEntry
  | PFuncEntry _ _ _ => CFuncEntry
  | PArith _ _ _ _ _ => CArith
  | PIArith _ _ _ _ _ => CIArith
  | PLabel _ _ => CLabel
  | PJumpLink _ _ _ _ => CJumpLink
  | PJumpLinkR _ _ _ _ _ => CJumpLinkR
  | PBasic _ _ => CBasic
  | PDirective _ _ _ => CDirective
  | PBranch _ _ _ _ _ => CBranch
  | PStore _ _ _ _ _ => CStore
  | PLoad _ _ _ _ _ => CLoad
  | PLoadAddr _ _ _ _ => CLoadAddr
  | PCsr _ _ _ _ _ => CCsr
  | PCsrI _ _ _ _ _ => CCsrI
  end.

(* ---- one statement, two spellings ------------------------------------------------------------ *)
Definition parse_result := res ((lexerr + pnode) * pstate).

(* the statement parses, to a node that is `sn` once tokens are forgotten, leaving `rest` unread *)
Definition parses_to (r : parse_result) (sn : pnode) (rest : list lexitem) : Prop :=
  exists n raw', r = Ok (inr n, (rest, raw')) /\ strip_node n = sn.

(* both parse, to nodes equal up to tokens and ranges, leaving ra resp. rb unread *)
Definition same_parse (a b : parse_result) (ra rb : list lexitem) : Prop :=
  exists na nb rawa rawb,
    a = Ok (inr na, (ra, rawa)) /\ b = Ok (inr nb, (rb, rawb)) /\ strip_node na = strip_node nb.

(* ---- sequential composition of the gen/kill sets of two instructions ------------------------- *)
(* first (g1,k1), then (g2,k2): a register is read-before-written by the pair if the first reads it, or
   the second reads it and the first did not write it; it is written by the pair if either writes it *)
Definition seq_gen (g1 k1 g2 : regset) : regset := rs_union g1 (rs_diff g2 k1).
Definition seq_kill (k1 k2 : regset) : regset := rs_union k1 k2.
