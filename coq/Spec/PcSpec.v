(* C03, dynamic clause: where the program counter can go.

   `pc_succ g i j`: node j is a possible successor of node i, read off the instruction at i and the
   LABEL DEFINITIONS of the program, following the ISA manual and the assembler - never the
   successor lists (`nexts`) of the graph.  One activation of a function is followed: a call is one
   step of the caller (the callee returns to the instruction after the call), a return ends the
   activation.

   The nodes of the finished graph are the instructions of the program in program order (labels
   and directives removed), with a synthetic PFuncEntry inserted in front of the first instruction
   of every called label; the labels written in front of an instruction are the `clabels` of its
   node, and for a called label they are the `clabels` of the synthetic entry. *)
From RV.Model Require Import Base I32 Imm Lexer Isa Parser Cfg Avail Live Lints.
From RV.Spec Require Import CfgSpec.
Open Scope nat_scope.

(* the next node in program order (none after the last one: falling off the end) *)
Definition next_node (g : cfg) (i j : nat) : Prop := j = S i /\ j < length (gnodes g).

(* the node a label denotes: the first node carrying the label - and the only one, duplicate labels
   being rejected (C03dyn_label_carrier_unique).  A label followed by directives only is attached to
   the next instruction, whatever the section; if there is none the graph is not built
   (CLabelWithoutInstruction) *)
Definition label_node (g : cfg) (s : str) (j : nat) : Prop :=
  (exists cj, node_at g j cj /\ mem_name s (clabels cj) = true) /\
  (forall k ck, k < j -> node_at g k ck -> mem_name s (clabels ck) = false).

(* ---- the branch condition of the ISA manual ------------------------------------------------ *)
(* None: not one of the six branch mnemonics *)
Definition branch_holds (i : inst) (a b : Z) : option bool :=
  match i with
  | IBeq => Some (Z.eqb a b)
  | IBne => Some (negb (Z.eqb a b))
  | IBlt => Some (Z.ltb a b)
  | IBge => Some (Z.leb b a)
  | IBltu => Some (Z.ltb (to_u32 a) (to_u32 b))
  | IBgeu => Some (Z.leb (to_u32 b) (to_u32 a))
  | _ => None
  end.
(* a branch comparing x0 with x0 for equality / greater-or-equal never falls through
   (the assembler's `b label` is `beq x0, x0, label`) *)
Definition always_taken (i : inst) (rs1 rs2 : reg) : bool :=
  (N.eqb rs1 0 && N.eqb rs2 0 && (inst_eqb i IBeq || inst_eqb i IBge || inst_eqb i IBgeu))%bool.

(* jalr that is neither `ret` nor an indirect call through ra: the target is a run-time value *)
Definition computed_jump (n : pnode) : bool :=
  match n with
  | PJumpLinkR _ rd _ _ _ => (negb (is_return n) && negb (N.eqb (wv rd) 1))%bool
  | _ => false
  end.

Definition pc_succ (g : cfg) (i j : nat) : Prop :=
  exists ci, node_at g i ci /\
    match cn ci with
    (* conditional branch: fall through (unless the condition is x0 ? x0 and always true) or go to
       the written label *)
    | PBranch ins rs1 rs2 l _ =>
        (always_taken (wv ins) (wv rs1) (wv rs2) = false /\ next_node g i j) \/ label_node g (wv l) j
    (* jal: with rd = ra a call, which comes back to the next instruction; otherwise a jump to the
       written label.  The return-merge jump (`is_return_merge`: jal x0 to a reserved name) is what
       the analyzer rewrites the additional returns of a function into: it is a return of the
       activation, with no successor *)
    | PJumpLink _ rd l _ =>
        if N.eqb (wv rd) 1 then next_node g i j
        else if is_return_merge (cn ci) then False
        else label_node g (wv l) j
    (* jalr: `jalr x0, ra, 0` is the return (no successor); with rd = ra an indirect call; anything
       else is a computed jump, which can go anywhere *)
    | PJumpLinkR _ rd _ _ _ =>
        if is_return (cn ci) then False
        else if N.eqb (wv rd) 1 then next_node g i j
        else exists cj, node_at g j cj
    (* ecall: continues, unless the value analysis knows a7 to be 10 or 93 (program exit);
       uret: return from a handler; ebreak and the rest: next *)
    | PBasic _ _ =>
        if is_return (cn ci) then False
        else if is_ecall (cn ci) then is_program_exit ci = false /\ next_node g i j
        else next_node g i j
    (* every other instruction and the synthetic entries *)
    | _ => next_node g i j
    end.

(* ---- side conditions of the completeness theorem ------------------------------------------- *)
(* returns, entries and ecalls: the nodes an activation starts or may stop at.  The dead-code pass
   leaves them alone. *)
Definition anchor (n : pnode) : bool := (is_return n || is_any_entry n || is_ecall n)%bool.

(* the dead-code pass disconnects a node completely (no predecessor AND no successor) or not at all;
   `connected`: not disconnected *)
Definition disconnected (g : cfg) (k : nat) : Prop :=
  exists c, node_at g k c /\ prevs c = [] /\ nexts c = [] /\ anchor (cn c) = false.
Definition connected (g : cfg) (k : nat) : Prop :=
  exists c, node_at g k c /\ (prevs c <> [] \/ nexts c <> [] \/ anchor (cn c) = true).

(* the termination pass runs twice, on the value analysis before and after function markup; an
   ecall found to be an exit by the FIRST run keeps no successor even if the final analysis no
   longer knows a7 there (see C03dyn_early_exit_counterexample) *)
Definition early_exit (picks : list nat) (ns : list pnode) (i : nat) : Prop :=
  exists g6 c6, gen_cfg_upto 6 picks ns = Ok (SOk g6) /\ node_at g6 i c6 /\ is_program_exit c6 = true.

(* ---- executions ----------------------------------------------------------------------------- *)
(* program-counter paths from node e through connected nodes *)
Inductive pc_run (picks : list nat) (ns : list pnode) (g : cfg) (e : nat) : nat -> Prop :=
| pc_run_refl : pc_run picks ns g e e
| pc_run_step : forall i ci j, pc_run picks ns g e i -> node_at g i ci ->
    computed_jump (cn ci) = false -> ~ early_exit picks ns i ->
    pc_succ g i j -> connected g j -> pc_run picks ns g e j.

(* the same without any condition on the nodes passed *)
Inductive pc_run_free (picks : list nat) (ns : list pnode) (g : cfg) (e : nat) : nat -> Prop :=
| pc_free_refl : pc_run_free picks ns g e e
| pc_free_step : forall i ci j, pc_run_free picks ns g e i -> node_at g i ci ->
    computed_jump (cn ci) = false -> ~ early_exit picks ns i ->
    pc_succ g i j -> pc_run_free picks ns g e j.

(* ---- dead ends -------------------------------------------------------------------------------- *)
(* the syntactic flow relation: every instruction that is not a return or an unconditional jump
   may fall through, every written jump/branch label may be jumped to *)
Definition may_flow (g : cfg) (i j : nat) : Prop :=
  exists ci, node_at g i ci /\
    ((next_node g i j /\ is_return (cn ci) = false /\ is_unconditional_jump (cn ci) = false) \/
     (exists l, jumps_to (cn ci) = Some l /\ label_node g (wv l) j)).

(* a dead end: not an anchor (nor a rewritten return), and every way on leads to a dead end - so
   every path from it ends by falling off the program or at a computed jump *)
Inductive dead_end (g : cfg) : nat -> Prop :=
| dead_end_intro : forall j cj, node_at g j cj -> anchor (cn cj) = false -> is_return_merge (cn cj) = false ->
    (forall k, may_flow g j k -> dead_end g k) -> dead_end g j.

(* the name the analyzer uses for its rewritten returns is not a label of the program *)
Definition is_reserved (l : wth str) : bool :=
  is_return_merge (PJumpLink (mkw IJal (wt l)) (mkw 0%N (wt l)) l raw_default).
Definition reserved_free (g : cfg) : Prop :=
  forall k ck l, node_at g k ck -> In l (clabels ck) -> is_reserved l = false.
