(* RV32IM register-register arithmetic, written from the ISA manual and independently of
   cfg/ops.rs.  A register holds a 32-bit word; `u` reads it as an unsigned number in
   [0, 2^32), `s` as a two's-complement number in [-2^31, 2^31).  Every result is given as
   a word (unsigned residue) and then read back as the signed number the analyzer stores. *)
From Coq Require Import ZArith Bool.
Open Scope Z_scope.

Definition W : Z := 2 ^ 32.
Definition u (x : Z) : Z := x mod W.                       (* word of a signed number *)
Definition s (w : Z) : Z := if w mod W <? 2 ^ 31 then w mod W else w mod W - W.  (* signed reading *)

Inductive op :=
| Add | And | Or | Sll | Slt | Sltu | Sra | Srl | Sub | Xor
| Mul | Mulh | Mulhsu | Mulhu | Div | Divu | Rem | Remu.

(* the low five bits of rs2 give the shift amount (RV32I, "Integer Register-Register Operations") *)
Definition sh (y : Z) : Z := (u y) mod 32.

Definition eval (o : op) (x y : Z) : Z :=
  match o with
  | Add => s (u x + u y)                                  (* overflow ignored, low 32 bits *)
  | Sub => s (u x - u y)
  | And => s (Z.land (u x) (u y))
  | Or  => s (Z.lor (u x) (u y))
  | Xor => s (Z.lxor (u x) (u y))
  | Sll => s (u x * 2 ^ sh y)                             (* logical left shift *)
  | Srl => s (u x / 2 ^ sh y)                             (* logical right shift: zeros shifted in *)
  | Sra => s (s (u x) / 2 ^ sh y)                         (* arithmetic: floor division keeps the sign *)
  | Slt => if s (u x) <? s (u y) then 1 else 0
  | Sltu => if u x <? u y then 1 else 0
  | Mul => s (u x * u y)                                  (* low word of the product *)
  | Mulh => s ((s (u x) * s (u y)) / W)                   (* high word, signed x signed *)
  | Mulhsu => s ((s (u x) * u y) / W)                     (* signed x unsigned *)
  | Mulhu => s ((u x * u y) / W)                          (* unsigned x unsigned *)
  | Div =>                                                (* M extension, table 7.1 *)
      if u y =? 0 then -1
      else if (s (u x) =? - 2 ^ 31) && (s (u y) =? -1) then - 2 ^ 31
      else Z.quot (s (u x)) (s (u y))                     (* rounds towards zero *)
  | Divu => if u y =? 0 then s (W - 1) else s (u x / u y)
  | Rem =>
      if u y =? 0 then s (u x)
      else if (s (u x) =? - 2 ^ 31) && (s (u y) =? -1) then 0
      else Z.rem (s (u x)) (s (u y))                      (* sign of the dividend *)
  | Remu => if u y =? 0 then s (u x) else s (u x mod u y)
  end.
