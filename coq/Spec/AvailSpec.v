(* What the analyzer's claims mean on the machine of Rv32.v.  s0 is the state at entry to the
   activation, s the current state. *)
From RV.Model Require Import Base I32 Lexer Isa Parser Cfg Avail.
From RV.Spec Require Import Rv32.
Open Scope Z_scope.

Section Claims.
  Variable addr_of : str -> Z.

  (* the three kinds of claim the property names; the other value kinds claim nothing, except that
     `ARegScalar r k` ("the current value of register r, plus k") has to be given its meaning
     because the analyzer later turns it into one of the three *)
  Definition holds (s0 s : mstate) (v : aval) (x : Z) : Prop :=
    match v with
    | AConst c => x = c
    | AAddr l => x = wrap32 (addr_of (wv l))
    | AOrig r k => x = wrap32 (rget s0 r + k)
    | ARegScalar r k => x = wrap32 (rget s r + k)
    | _ => True
    end.

  Definition reg_claims (s0 s : mstate) (m : regmap) : Prop :=
    forall r v, rm_get r m = Some v -> holds s0 s v (rget s r).

  (* a stack slot: the 32-bit word at (entry sp + off); claims are made for slots within 1 MiB of the
     entry stack pointer *)
  Definition slot_window (off : Z) : Prop := -1048576 <= off < 1048576.
  Definition mem_claims (s0 s : mstate) (m : memmap) : Prop :=
    forall off v, mm_get (MStack off) m = Some v -> slot_window off ->
      holds s0 s v (load32 s (rget s0 2 + off)).
End Claims.
