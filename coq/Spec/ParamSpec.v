(* Location erasure: the shape of tokens, nodes, parse errors and diagnostics with every source position
   and file identity forgotten.  Used to state that the analysis depends on WHAT was written, not WHERE
   (C13: layout; C15: which file the text lives in), and that every reported location is a location of the
   corresponding node/operand of the input (same instruction, same operand). *)
From RV.Model Require Import Base I32 Imm Lexer Isa Parser Reader Cfg Lints.

Definition erase_tok (t : token) : token := mktok (tt t) range0 None.
Definition erase_w {A} (w : wth A) : wth A := mkw (wv w) (erase_tok (wt w)).
Definition erase_raw (r : rawtok) : rawtok := raw_default.

Definition erase_dirtype (d : dirtype) : dirtype :=
  match d with
  | DInc p => DInc (erase_w p)
  | DAl i => DAl (erase_w i)
  | DAsc t z => DAsc (erase_w t) z
  | DDataSection => DDataSection
  | DTextSection => DTextSection
  | DDat dt vals => DDat dt (map erase_w vals)
  | DSp i => DSp (erase_w i)
  end.

Definition erase_node (n : pnode) : pnode :=
  match n with
  | PProgramEntry _ _ => PProgramEntry None raw_default
  | PFuncEntry _ _ h => PFuncEntry None raw_default h
  | PArith i rd rs1 rs2 _ => PArith (erase_w i) (erase_w rd) (erase_w rs1) (erase_w rs2) raw_default
  | PIArith i rd rs1 imm _ => PIArith (erase_w i) (erase_w rd) (erase_w rs1) (erase_w imm) raw_default
  | PLabel name _ => PLabel (erase_w name) raw_default
  | PJumpLink i rd name _ => PJumpLink (erase_w i) (erase_w rd) (erase_w name) raw_default
  | PJumpLinkR i rd rs1 imm _ => PJumpLinkR (erase_w i) (erase_w rd) (erase_w rs1) (erase_w imm) raw_default
  | PBasic i _ => PBasic (erase_w i) raw_default
  | PDirective d dt _ => PDirective (erase_w d) (erase_dirtype dt) raw_default
  | PBranch i rs1 rs2 name _ => PBranch (erase_w i) (erase_w rs1) (erase_w rs2) (erase_w name) raw_default
  | PStore i rs1 rs2 imm _ => PStore (erase_w i) (erase_w rs1) (erase_w rs2) (erase_w imm) raw_default
  | PLoad i rd rs1 imm _ => PLoad (erase_w i) (erase_w rd) (erase_w rs1) (erase_w imm) raw_default
  | PLoadAddr i rd name _ => PLoadAddr (erase_w i) (erase_w rd) (erase_w name) raw_default
  | PCsr i rd csr rs1 _ => PCsr (erase_w i) (erase_w rd) (erase_w csr) (erase_w rs1) raw_default
  | PCsrI i rd csr imm _ => PCsrI (erase_w i) (erase_w rd) (erase_w csr) (erase_w imm) raw_default
  end.

Definition erase_item (it : lexitem) : lexitem :=
  match it with
  | LTok t => LTok (erase_tok t)
  | LErrString t _ k => LErrString (erase_tok t) pos0 k
  | LErrUnexpected t => LErrUnexpected (erase_tok t)
  end.

Definition erase_perr (e : parse_error) : parse_error :=
  match e with
  | PEExpected ex t => PEExpected ex (erase_tok t)
  | PEUnsupported t => PEUnsupported (erase_tok t)
  | PEUnexpectedToken t => PEUnexpectedToken (erase_tok t)
  | PEUnexpectedError t => PEUnexpectedError (erase_tok t)
  | PEUnknownDirective t => PEUnknownDirective (erase_tok t)
  | PECyclicDependency t => PECyclicDependency (erase_tok t)
  | PEFileNotFound p => PEFileNotFound (erase_w p)
  | PEIOError p => PEIOError (erase_w p)
  | PEInvalidString t _ k => PEInvalidString (erase_tok t) pos0 k
  end.

Definition erase_cfgerr (e : cfgerr) : cfgerr :=
  match e with
  | CLabelsNotDefined ls => CLabelsNotDefined (map erase_w ls)
  | CDuplicateLabel l => CDuplicateLabel (erase_w l)
  | CLabelWithoutInstruction l => CLabelWithoutInstruction (erase_w l)
  | CFunctionWithoutReturn n ls => CFunctionWithoutReturn (erase_node n) (map erase_w ls)
  | CUnexpectedError => CUnexpectedError
  end.

Definition erase_dkind (k : dkind) : dkind :=
  match k with
  | DParse e => DParse (erase_perr e)
  | DCfg e => DCfg (erase_cfgerr e)
  | DLint c => DLint c
  end.

(* a diagnostic with its locations forgotten: kind, number of candidate locations, optional flag *)
Definition erase_ditem (d : ditem) : dkind * nat * bool := (erase_dkind (dk d), length (dlocs d), dopt d).

(* the places of a node a diagnostic may point at *)
Inductive selector := SelNode | SelInst | SelRd | SelRs1 | SelRs2 | SelImm | SelName | SelDirTok | SelDirArg (k : nat).

Definition sel_loc (s : selector) (n : pnode) : option loc :=
  let tk {A} (w : wth A) := Some (loc_of_tok (wt w)) in
  match s, n with
  | SelNode, _ => Some (loc_of_node n)
  | SelInst, (PArith i _ _ _ _ | PIArith i _ _ _ _ | PJumpLink i _ _ _ | PJumpLinkR i _ _ _ _ | PBasic i _
             | PBranch i _ _ _ _ | PStore i _ _ _ _ | PLoad i _ _ _ _ | PLoadAddr i _ _ _ | PCsr i _ _ _ _ | PCsrI i _ _ _ _) => tk i
  | SelRd, (PArith _ rd _ _ _ | PIArith _ rd _ _ _ | PJumpLink _ rd _ _ | PJumpLinkR _ rd _ _ _
           | PLoad _ rd _ _ _ | PLoadAddr _ rd _ _ | PCsr _ rd _ _ _ | PCsrI _ rd _ _ _) => tk rd
  | SelRs1, (PArith _ _ r _ _ | PIArith _ _ r _ _ | PJumpLinkR _ _ r _ _ | PBranch _ r _ _ _ | PStore _ r _ _ _
            | PLoad _ _ r _ _ | PCsr _ _ _ r _) => tk r
  | SelRs2, (PArith _ _ _ r _ | PBranch _ _ r _ _ | PStore _ _ r _ _) => tk r
  | SelImm, (PIArith _ _ _ i _ | PJumpLinkR _ _ _ i _ | PStore _ _ _ i _ | PLoad _ _ _ i _ | PCsrI _ _ _ i _) => tk i
  | SelImm, PCsr _ _ c _ _ => tk c
  | SelName, (PLabel nm _ | PJumpLink _ _ nm _ | PBranch _ _ _ nm _ | PLoadAddr _ _ nm _) => tk nm
  | SelDirTok, PDirective d _ _ => tk d
  | SelDirArg k, PDirective _ (DDat _ vals) _ => option_map (fun w => loc_of_tok (wt w)) (nth_error vals k)
  | SelDirArg _, PDirective _ (DInc p) _ => tk p
  | SelDirArg _, PDirective _ (DAl i) _ | SelDirArg _, PDirective _ (DSp i) _ => tk i
  | SelDirArg _, PDirective _ (DAsc t _) _ => tk t
  | _, _ => None
  end.

(* two locations are "the same place" of two equally shaped programs *)
Definition same_place (ns1 ns2 : list pnode) (l1 l2 : loc) : Prop :=
  exists i s n1 n2, nth_error ns1 i = Some n1 /\ nth_error ns2 i = Some n2 /\
                    sel_loc s n1 = Some l1 /\ sel_loc s n2 = Some l2.
