(* C08, semantic step for pseudo-instructions.

   What each register-to-register pseudo-instruction of the RISC-V assembly manual ("RISC-V
   Assembly Programmer's Manual", table "Pseudoinstructions"; ISA manual vol. I, ch. 25) DOES,
   written as a plain function on the signed 32-bit value of the source register - from the
   manual's column "Meaning", NOT from the column "Base instruction(s)" and not by unfolding
   the parser:

       mv   rd, rs     Copy register
       neg  rd, rs     Two's complement
       not  rd, rs     One's complement
       seqz rd, rs     Set if  = zero
       snez rd, rs     Set if != zero
       sltz rd, rs     Set if  < zero
       sgtz rd, rs     Set if  > zero
       li   rd, imm    Load immediate
       nop             No operation

   and for the branch pseudo-instructions the condition under which the branch is taken:

       beqz rs, l   = zero        bnez rs, l   != zero
       bltz rs, l   <  zero       bgez rs, l   >= zero
       bgtz rs, l   >  zero       blez rs, l   <= zero
       bgt  rs, rt, l   rs >  rt  (signed)     ble  rs, rt, l   rs <= rt  (signed)
       bgtu rs, rt, l   rs >  rt  (unsigned)   bleu rs, rt, l   rs <= rt  (unsigned)

   Registers hold signed 32-bit values (Spec/Rv32.v); the unsigned reading of a value is
   [to_u32]. *)
From RV.Model Require Import Base I32.
Open Scope Z_scope.

(* ---- register results -------------------------------------------------------------------- *)
Definition mv (x : Z) : Z := x.
(* two's complement negation; - i32_min is i32_min again *)
Definition neg (x : Z) : Z := wrap32 (- x).
(* one's complement: every bit flipped.  On a two's-complement number that is -x-1 = Z.lnot x,
   which is again a signed 32-bit number when x is one *)
Definition not (x : Z) : Z := Z.lnot x.
Definition seqz (x : Z) : Z := if x =? 0 then 1 else 0.
Definition snez (x : Z) : Z := if x =? 0 then 0 else 1.
Definition sltz (x : Z) : Z := if x <? 0 then 1 else 0.
Definition sgtz (x : Z) : Z := if 0 <? x then 1 else 0.
Definition li (imm : Z) : Z := imm.

(* ---- branch conditions (rs, and rt for the two-register forms) -------------------------------- *)
Definition beqz (x : Z) : bool := x =? 0.
Definition bnez (x : Z) : bool := negb (x =? 0).
Definition bltz (x : Z) : bool := x <? 0.
Definition bgez (x : Z) : bool := 0 <=? x.
Definition bgtz (x : Z) : bool := 0 <? x.
Definition blez (x : Z) : bool := x <=? 0.
Definition bgt (a b : Z) : bool := b <? a.
Definition ble (a b : Z) : bool := a <=? b.
Definition bgtu (a b : Z) : bool := to_u32 b <? to_u32 a.
Definition bleu (a b : Z) : bool := to_u32 a <=? to_u32 b.
