(* What each diagnostic kind means in terms of the finished graph and its facts: one trigger
   predicate per kind, stated on nodes and facts, not on the lint code.  `trig g k l` reads:
   "kind k is due at location l".  (The facts themselves are given meaning by C01 - value facts are
   true of the machine -, C02 - live sets are the least solution and cover every use -, C03 and
   C11 - edges and functions.) *)
From RV.Model Require Import Base I32 Lexer Isa Parser Cfg Avail Live Lints.
From RV.Spec Require Import CfgSpec.
Open Scope N_scope.

Definition node_loc (c : cnode) : loc := loc_of_node (cn c).
Definition op_loc (w : wth reg) : loc := loc_of_tok (wt w).

Inductive trig (g : cfg) : lintcode -> loc -> Prop :=
| T_save_to_zero : forall i c r, node_at g i c -> writes_to (cn c) = Some r -> wv r = 0 ->
    can_skip_save_checks (cn c) = false -> trig g LSaveToZero (op_loc r)
| T_dead_assignment : forall i c d, node_at g i c -> calls_to_from_cfg g c = None ->
    writes_to (cn c) = Some d -> rs_mem (wv d) (lout c) = false -> can_skip_save_checks (cn c) = false ->
    trig g LDeadAssignment (op_loc d)
| T_invalid_segment : forall i c, node_at g i c -> is_instruction (cn c) = true -> ctext c = false ->
    trig g LInvalidSegment (node_loc c)
| T_unknown_ecall : forall i c, node_at g i c -> is_ecall (cn c) = true -> known_ecall c = None ->
    trig g LUnknownEcall (node_loc c)
| T_unreachable : forall i c, node_at g i c -> is_any_entry (cn c) = false -> prevs c = [] ->
    trig g LUnreachableCode (node_loc c)
| T_first_is_function : forall i c p pc, node_at g i c -> is_function_entry (cn c) = true ->
    In p (prevs c) -> node_at g p pc -> is_program_entry (cn pc) = true -> cfuncs c <> [] ->
    trig g LFirstInstructionIsFunction (node_loc c)
| T_jump_to_function : forall i c p pc, node_at g i c -> is_function_entry (cn c) = true ->
    In p (prevs c) -> node_at g p pc -> is_program_entry (cn pc) = false ->
    is_unconditional_jump (cn pc) = true -> cfuncs c <> [] ->
    trig g LInvalidJumpToFunction (node_loc c)
| T_saved_garbage_read : forall i c rd, node_at g i c -> In rd (reads_from (cn c)) ->
    rs_mem (wv rd) saved_set = true -> uses_memory_location (cn c) = None ->
    is_original_value (rin c) (wv rd) = true -> trig g LInvalidUseBeforeAssignment (op_loc rd)
| T_lost_register : forall i c r, node_at g i c -> writes_to (cn c) = Some r ->
    rs_mem (wv r) saved_set = true -> cfuncs c <> [] ->
    opt_aval_eqb (rm_get (wv r) (rin c)) (Some (AOrig (wv r) 0)) = true ->
    existsb (fun kv => holds_original (wv r) (snd kv)) (mout c) = false ->
    existsb (fun kv => holds_original (wv r) (snd kv)) (rout c) = false ->
    trig g LLostRegisterValue (op_loc r)
| T_overwrite_callee_saved : forall f e r w, In f (gfuncs g) ->
    node_at g (fexit f) e -> In r (rs_elems callee_saved_set) -> is_original_value (rin e) r = false ->
    In w (error_ranges_for_first_store (gnodes g) (fexit f) r) ->
    trig g LOverwriteCalleeSavedRegister w
| T_stack_offset_usage : forall i c off r2 off2, node_at g i c ->
    (* every node before i has a known, valid stack pointer (the lint stops at the first that has not) *)
    (forall j cj, (j <= i)%nat -> node_at g j cj -> exists o, rm_get 2 (rout cj) = Some (AOrig 2 o) /\ (o <= 0)%Z) ->
    rm_get 2 (rout c) = Some (AOrig 2 off) -> uses_memory_location (cn c) = Some (r2, off2) -> r2 = 2 ->
    (0 <= off2 + off)%Z -> trig g LInvalidStackOffsetUsage (node_loc c).

(* the three stack-pointer diagnostics: given at the FIRST node (in program order) whose outgoing
   stack pointer is unknown / not relative to the entry sp / above the entry sp *)
Inductive sp_state := SpFine | SpUnknown | SpInvalid | SpPositive.
Definition sp_state_of (c : cnode) : sp_state :=
  match rm_get 2 (rout c) with
  | None => SpUnknown
  | Some (AOrig r off) => if negb (N.eqb r 2) then SpInvalid else if Z.ltb 0 off then SpPositive else SpFine
  | Some _ => SpInvalid
  end.
Definition first_bad_sp (g : cfg) (i : nat) (c : cnode) (s : sp_state) : Prop :=
  node_at g i c /\ sp_state_of c = s /\ s <> SpFine /\
  forall j cj, (j < i)%nat -> node_at g j cj -> sp_state_of cj = SpFine.
