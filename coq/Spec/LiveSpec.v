(* The liveness equations read off the documented dataflow (docs/argument-guess.md,
   analysis/liveness.rs comments), as predicates on an ARBITRARY assignment L of (live_in,
   live_out) to the nodes of a graph, independently of how the pass computes them.

   Node classes, in the order the analyzer distinguishes them:
     call site   - a `jal ra`/`call`, or a plain jump/branch, whose target label is a function
     ecall       - reads a7 and the known arguments of the call number, clobbers caller-saved
     return      - `ret`/`uret`: reads the callee-saved registers (resp. everything) and whatever
                   some caller of the function reads after the call
     any other   - gen/kill of the instruction (a function entry kills the caller-saved set) *)
From RV.Model Require Import Base Lexer Isa Parser Cfg Avail Live.
Open Scope N_scope.

Definition subset (a b : regset) : Prop := forall r : N, N.testbit a r = true -> N.testbit b r = true.

Record assignment := mkasg { Lin : nat -> regset; Lout : nat -> regset }.

(* the part of live_in(i) that does not come from live_out(i): what node i itself reads *)
Definition node_uses (g : cfg) (L : assignment) (i : nat) (c : cnode) : regset :=
  match calls_to_from_cfg g c with
  | Some fid =>
      match nth_opt (gfuncs g) fid with
      | Some f => rs_union (rs_inter (Lout L (fentry f)) argument_set) (gen_reg (cn c))
      | None => rs_empty
      end
  | None =>
      if is_ecall (cn c) then
        rs_union ecall_always_argument_set
                 (match known_ecall_signature c with Some (args, _) => args | None => rs_empty end)
      else gen_reg (cn c)
  end.

(* what node i overwrites, i.e. what does not flow from live_out(i) to live_in(i) *)
Definition node_kills (g : cfg) (c : cnode) : regset :=
  match calls_to_from_cfg g c with
  | Some _ => kill_reg (cn c)
  | None =>
      if is_ecall (cn c) then caller_saved_set
      else if is_return (cn c) then N.ones 32           (* nothing flows through a return *)
      else kill_reg (cn c)
  end.

(* right-hand sides *)
Definition rhs_out (g : cfg) (L : assignment) (c : cnode) : regset :=
  fold_left (fun acc s => rs_union acc (Lin L s)) (nexts c) rs_empty.
Definition rhs_in (g : cfg) (L : assignment) (i : nat) (c : cnode) : regset :=
  rs_union (node_uses g L i c) (rs_diff (Lout L i) (node_kills g c)).

(* L is closed under the equations (a pre-fixed point): every right-hand side is contained in
   the left-hand side, and every call site pushes its live_out into the callee's exit *)
Definition Closed (g : cfg) (L : assignment) : Prop :=
  forall i c, nth_opt (gnodes g) i = Some c ->
    subset (rhs_out g L c) (Lout L i) /\
    subset (rhs_in g L i c) (Lin L i) /\
    (forall fid f, calls_to_from_cfg g c = Some fid -> nth_opt (gfuncs g) fid = Some f ->
                   subset (Lout L i) (Lin L (fexit f))).

(* the assignment stored in a graph *)
Definition stored (g : cfg) : assignment :=
  mkasg (fun i => match nth_opt (gnodes g) i with Some c => lin c | None => 0 end)
        (fun i => match nth_opt (gnodes g) i with Some c => lout c | None => 0 end).

Definition le_asg (A B : assignment) : Prop :=
  forall i, subset (Lin A i) (Lin B i) /\ subset (Lout A i) (Lout B i).

(* graph edges and paths *)
Definition edge (g : cfg) (a b : nat) : Prop :=
  exists c, nth_opt (gnodes g) a = Some c /\ In b (nexts c).
Inductive path (g : cfg) : list nat -> Prop :=
| path_one : forall a, path g [a]
| path_cons : forall a b rest, edge g a b -> path g (b :: rest) -> path g (a :: b :: rest).

Definition same_structure (g h : cfg) : Prop :=
  gfuncs g = gfuncs h /\ glabelfn g = glabelfn h /\ length (gnodes g) = length (gnodes h) /\
  forall i c d, nth_opt (gnodes g) i = Some c -> nth_opt (gnodes h) i = Some d ->
    cn c = cn d /\ nexts c = nexts d /\ prevs c = prevs d /\ cfuncs c = cfuncs d /\ rin c = rin d.
