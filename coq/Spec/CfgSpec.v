(* What the finished control-flow graph must look like, independently of the passes. *)
From RV.Model Require Import Base Lexer Isa Parser Cfg.

Definition node_at (g : cfg) (i : nat) (c : cnode) : Prop := nth_opt (gnodes g) i = Some c.

(* successor and predecessor relations are exact inverses, and stay inside the graph *)
Definition Sym (g : cfg) : Prop :=
  (forall i j ci, node_at g i ci -> In j (nexts ci) -> exists cj, node_at g j cj /\ In i (prevs cj)) /\
  (forall i j cj, node_at g j cj -> In i (prevs cj) -> exists ci, node_at g i ci /\ In j (nexts ci)).

(* reachability along successor edges *)
Inductive reaches (g : cfg) : nat -> nat -> Prop :=
| reaches_refl : forall a c, node_at g a c -> reaches g a a
| reaches_step : forall a b c d, reaches g a b -> node_at g b c -> In d (nexts c) -> reaches g a d.

(* the node a rewritten extra return becomes: `jal x0, __return__` *)
Definition is_return_merge (n : pnode) : bool :=
  match n with
  | PJumpLink i rd name _ => (inst_eqb (wv i) IJal && N.eqb (wv rd) 0 && str_eqb (wv name) «"<return>"»)%bool
  | _ => false
  end.

(* the three kinds of edge the property allows *)
Inductive edge_kind (g : cfg) (i j : nat) (ci : cnode) : Prop :=
| FallThrough : j = S i -> is_return (cn ci) = false -> is_unconditional_jump (cn ci) = false -> edge_kind g i j ci
| Target : forall l, jumps_to (cn ci) = Some l ->
                     find_label (wv l) (gnodes g) 0 = Some j -> edge_kind g i j ci
| RetMerge : forall fid f, is_return_merge (cn ci) = true -> In fid (cfuncs ci) ->
                           nth_opt (gfuncs g) fid = Some f -> j = fexit f -> nexts ci = [j] -> edge_kind g i j ci.

Definition no_sharing (g : cfg) : Prop :=
  forall i c, node_at g i c -> (length (cfuncs c) <= 1)%nat.
