(* Which instruction does a label name?  Source-level notions on the parser's node list, stated
   without reference to the graph builder. *)
From RV.Model Require Import Base Lexer Isa Parser Cfg.
From RV.Spec Require Import CfgSpec.

(* a node of the parser's stream that becomes a graph node: everything that is neither a label nor a
   directive.  (The `PProgramEntry` the driver puts at position 0 is such a node: the graph builder keeps
   it like an instruction.  Parsed programs contain no `PFuncEntry`; if a hand-made list has one, the
   builder keeps it like an instruction as well.) *)
Definition is_code (n : pnode) : bool :=
  match label_of n with Some _ => false | None => negb (is_directive n) end.

(* index of the first code node of a list *)
Fixpoint first_code (ns : list pnode) : option nat :=
  match ns with
  | [] => None
  | n :: ns' => if is_code n then Some O else option_map S (first_code ns')
  end.

(* position in ns of the first code node at a position > p *)
Definition next_instruction_after (ns : list pnode) (p : nat) : option nat :=
  option_map (fun k => (S p + k)%nat) (first_code (skipn (S p) ns)).

(* position of the first `PLabel` named l *)
Fixpoint label_position (ns : list pnode) (l : str) : option nat :=
  match ns with
  | [] => None
  | n :: ns' =>
      match label_of n with
      | Some x => if str_eqb l (wv x) then Some O else option_map S (label_position ns' l)
      | None => option_map S (label_position ns' l)
      end
  end.

(* how many code nodes stand before position q of the source / how many nodes that are not function
   entries stand before index j of the graph *)
Definition code_rank (ns : list pnode) (q : nat) : nat := length (filter is_code (firstn q ns)).
Definition not_fentry (c : cnode) : bool := negb (is_function_entry (cn c)).
Definition graph_rank (g : list cnode) (j : nat) : nat := length (filter not_fentry (firstn j g)).

(* the names that make a label group a function (as in Props/C11.v) *)
Definition called_names_of (ns : list pnode) (predef : option (list (wth str))) : list (wth str) :=
  filter_map calls_to ns ++ match predef with Some p => p | None => [] end.

(* the graph node `c` at index `j` is the one made from source position `q`: it holds that parser node,
   and (for programs without function entries of their own) it is the (code_rank q)-th of the graph nodes
   that are not function entries *)
Definition node_of_source (ns : list pnode) (g : cfg) (q j : nat) (c : cnode) : Prop :=
  node_at g j c /\ nth_opt ns q = Some (cn c) /\
  ((forall m, In m ns -> is_function_entry m = false) ->
   is_function_entry (cn c) = false /\ graph_rank (gnodes g) j = code_rank ns q).

(* the graph node `ck` at index `k` is where the labels standing before the node (j, c) were put:
   the node itself when none of them is a called name, otherwise the function entry created right
   before it (and then the node itself carries no label) *)
Definition label_home (calls : list (wth str)) (predef : option (list (wth str)))
           (g : cfg) (j : nat) (c : cnode) (k : nat) (ck : cnode) : Prop :=
  node_at g k ck /\
  ((k = j /\ any_in (clabels ck) calls = false) \/
   (S k = j /\ any_in (clabels ck) calls = true /\ clabels c = [] /\
    cn ck = PFuncEntry (rfile (node_raw (cn c))) (node_raw (cn c))
                       (match predef with Some p => any_in (clabels ck) p | None => false end))).

(* the label token `name` of the source is on the graph node made for source position q (or on the
   function entry created right before it) and on no other node of g *)
Definition label_on_instruction (ns : list pnode) (predef : option (list (wth str))) (g : cfg)
           (name : wth str) (q : nat) : Prop :=
  exists j c k ck,
    node_of_source ns g q j c /\
    label_home (called_names_of ns predef) predef g j c k ck /\
    In name (clabels ck) /\
    (forall k' c', node_at g k' c' -> mem_name (wv name) (clabels c') = true -> k' = k).

(* the same with the target given by its name only; `k` is the index of the node that carries it *)
Definition name_on_instruction (ns : list pnode) (predef : option (list (wth str))) (g : cfg)
           (l : str) (q k : nat) : Prop :=
  exists j c ck,
    node_of_source ns g q j c /\
    label_home (called_names_of ns predef) predef g j c k ck /\
    mem_name l (clabels ck) = true /\
    (forall k' c', node_at g k' c' -> mem_name l (clabels c') = true -> k' = k).
