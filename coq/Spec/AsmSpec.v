(* The mnemonic tables of the RISC-V unprivileged ISA (RV32I base + M extension), written from the manual:
   which operation each register-register / register-immediate mnemonic denotes, and the width and signedness
   of each load / store mnemonic.  Independent of parser/inst.rs and of the analyzer's own tables. *)
From RV.Model Require Import Base.
From RV.Spec Require FoldSpec.
Import FoldSpec.

Definition manual_arith : list (str * op) :=
  [(«"add"», Add); («"sub"», Sub); («"and"», And); («"or"», Or); («"xor"», Xor); («"sll"», Sll); («"srl"», Srl);
   («"sra"», Sra); («"slt"», Slt); («"sltu"», Sltu); («"mul"», Mul); («"mulh"», Mulh); («"mulhsu"», Mulhsu);
   («"mulhu"», Mulhu); («"div"», Div); («"divu"», Divu); («"rem"», Rem); («"remu"», Remu);
   («"addi"», Add); («"andi"», And); («"ori"», Or); («"xori"», Xor); («"slli"», Sll); («"srli"», Srl);
   («"srai"», Sra); («"slti"», Slt); («"sltiu"», Sltu)].

(* bytes, sign-extended? *)
Definition manual_loads : list (str * (Z * bool)) :=
  [(«"lb"», (1%Z, true)); («"lbu"», (1%Z, false)); («"lh"», (2%Z, true)); («"lhu"», (2%Z, false)); («"lw"», (4%Z, true))].
Definition manual_stores : list (str * Z) := [(«"sb"», 1%Z); («"sh"», 2%Z); («"sw"», 4%Z)].
