(* What a numeric literal denotes, written from the assembly manual's notation and
   independently of the parser: an optional '-', then `0x` hex digits, `0b` binary
   digits, decimal digits, or the word `zero` (which the project's own tests fix as a
   spelling of 0); letter case is irrelevant.  The value is an unbounded integer. *)
From RV.Model Require Import Base.

Definition hex_digit (c : char) : option Z :=
  if in_range 48 57 c then Some (Z.of_N c - 48)
  else if in_range 97 102 c then Some (Z.of_N c - 87)
  else if in_range 65 70 c then Some (Z.of_N c - 55)
  else None.
Definition dec_digit (c : char) : option Z :=
  if in_range 48 57 c then Some (Z.of_N c - 48) else None.
Definition bin_digit (c : char) : option Z :=
  if in_range 48 49 c then Some (Z.of_N c - 48) else None.

(* positional value: d_0 d_1 ... d_{n-1} denotes sum d_i * radix^(n-1-i) *)
Fixpoint positional (radix : Z) (digit : char -> option Z) (s : str) : option Z :=
  match s with
  | [] => Some 0
  | c :: s' =>
      match digit c, positional radix digit s' with
      | Some d, Some v => Some (d * radix ^ Z.of_nat (length s') + v)
      | _, _ => None
      end
  end.

Definition nonempty (s : str) : bool := match s with [] => false | _ => true end.

Inductive notation := Hex | Bin | Dec | ZeroWord.

(* magnitude and notation of an unsigned literal body *)
Definition body_value (s : str) : option (Z * notation) :=
  match s with
  | 48%N :: x :: ds =>
      if (N.eqb x 120 || N.eqb x 88)%bool then
        if nonempty ds then option_map (fun v => (v, Hex)) (positional 16 hex_digit ds) else None
      else if (N.eqb x 98 || N.eqb x 66)%bool then
        if nonempty ds then option_map (fun v => (v, Bin)) (positional 2 bin_digit ds) else None
      else option_map (fun v => (v, Dec)) (positional 10 dec_digit s)
  | _ =>
      if str_eqb (lower s) «"zero"» then Some (0, ZeroWord)
      else if nonempty s then option_map (fun v => (v, Dec)) (positional 10 dec_digit s) else None
  end.

Definition lit_value (s : str) : option (Z * notation) :=
  match s with
  | 45%N :: s' => option_map (fun '(v, n) => (- v, n)) (body_value s')
  | _ => body_value s
  end.

(* Which values a 32-bit literal may denote: anything with a two's-complement 32-bit
   representation.  Values 2^31..2^32-1 are the unsigned spellings of negative words;
   they are required to be accepted in hex and binary (where writing bit patterns is the
   point) and may be rejected in decimal. *)
Definition fits32 (v : Z) : Prop := -2147483648 <= v < 4294967296.
Definition fits_i32 (v : Z) : Prop := -2147483648 <= v <= 2147483647.
