(* A small RV32IM machine, one function activation at a time, written from the ISA manual and
   the calling convention - independently of the analyzer.

   Control: the machine moves along the edges of the control-flow graph (both outcomes of a
   branch are allowed regardless of the condition, which only makes the set of executions
   larger).  A call is summarised by what a convention-respecting callee may do; an ecall by what
   the environment may do.  Registers hold 32-bit signed values (x0 is always 0); memory is a
   map from byte addresses (taken modulo 2^32) to bytes. *)
From RV.Model Require Import Base I32 Lexer Isa Parser Cfg Avail.
From RV.Spec Require FoldSpec.
Open Scope Z_scope.

Record mstate := mkst { regs : N -> Z; mem : Z -> Z }.

Definition rget (s : mstate) (r : N) : Z := if N.eqb r 0 then 0 else regs s r.
Definition rset (s : mstate) (r : N) (v : Z) : mstate :=
  if N.eqb r 0 then s else mkst (fun x => if N.eqb x r then v else regs s x) (mem s).

Definition ma (a : Z) : Z := a mod 4294967296.            (* a machine address *)
Definition byte_at (s : mstate) (a : Z) : Z := (mem s (ma a)) mod 256.
(* little-endian word / half / byte reads *)
Definition load_u (s : mstate) (a : Z) (w : Z) : Z :=
  if Z.eqb w 1 then byte_at s a
  else if Z.eqb w 2 then byte_at s a + 256 * byte_at s (a + 1)
  else byte_at s a + 256 * byte_at s (a + 1) + 65536 * byte_at s (a + 2) + 16777216 * byte_at s (a + 3).
Definition sext (w : Z) (u : Z) : Z := if Z.ltb u (2 ^ (8 * w - 1)) then u else u - 2 ^ (8 * w).
Definition load32 (s : mstate) (a : Z) : Z := wrap32 (load_u s a 4).
(* a store of w bytes changes exactly those bytes *)
Definition store_rel (s : mstate) (a v w : Z) (s' : mstate) : Prop :=
  regs s' = regs s /\
  (forall k, 0 <= k < w -> byte_at s' (a + k) = (v / 2 ^ (8 * k)) mod 256) /\
  (forall b, (forall k, 0 <= k < w -> ma b <> ma (a + k)) -> mem s' (ma b) = mem s (ma b)).

Definition regs_in32 (s : mstate) : Prop := forall r, in32 (rget s r).

(* arithmetic through the ISA specification of C08 *)
Definition spec_of (m : mathop) : FoldSpec.op :=
  match m with
  | MAdd => FoldSpec.Add | MAnd => FoldSpec.And | MOr => FoldSpec.Or | MSll => FoldSpec.Sll
  | MSlt => FoldSpec.Slt | MSltu => FoldSpec.Sltu | MSra => FoldSpec.Sra | MSrl => FoldSpec.Srl
  | MSub => FoldSpec.Sub | MXor => FoldSpec.Xor | MMul => FoldSpec.Mul | MMulh => FoldSpec.Mulh
  | MMulhsu => FoldSpec.Mulhsu | MMulhu => FoldSpec.Mulhu | MDiv => FoldSpec.Div
  | MDivu => FoldSpec.Divu | MRem => FoldSpec.Rem | MRemu => FoldSpec.Remu
  end.
(* the RV32IM meaning of a mnemonic as an operation on two 32-bit values (None: not an RV32IM
   arithmetic instruction, e.g. the RV64-only *w forms and auipc, whose result is left open) *)
Definition alu (i : inst) : option FoldSpec.op :=
  match i with
  | IAdd | IAddi => Some FoldSpec.Add | ISub => Some FoldSpec.Sub | IAnd | IAndi => Some FoldSpec.And
  | IOr | IOri => Some FoldSpec.Or | IXor | IXori => Some FoldSpec.Xor | ISll | ISlli => Some FoldSpec.Sll
  | ISrl | ISrli => Some FoldSpec.Srl | ISra | ISrai => Some FoldSpec.Sra | ISlt | ISlti => Some FoldSpec.Slt
  | ISltu | ISltiu => Some FoldSpec.Sltu | IMul => Some FoldSpec.Mul | IMulh => Some FoldSpec.Mulh
  | IMulhsu => Some FoldSpec.Mulhsu | IMulhu => Some FoldSpec.Mulhu | IDiv => Some FoldSpec.Div
  | IDivu => Some FoldSpec.Divu | IRem => Some FoldSpec.Rem | IRemu => Some FoldSpec.Remu
  | _ => None
  end.

Definition load_width (i : inst) : Z * bool :=   (* bytes, sign-extended? *)
  match i with ILb => (1, true) | ILbu => (1, false) | ILh => (2, true) | ILhu => (2, false) | _ => (4, true) end.
Definition store_width (i : inst) : Z := match i with ISb => 1 | ISh => 2 | _ => 4 end.

(* registers a convention-respecting callee leaves alone: x0, sp, gp, tp, s0-s11 *)
Definition callee_preserves (r : N) : bool :=
  (N.eqb r 0 || N.eqb r 2 || N.eqb r 3 || N.eqb r 4 || rs_mem r saved_set)%bool.
(* the window of the stack that belongs to the callers: sp and 4 MiB above it *)
Definition above_sp (s : mstate) (a : Z) : Prop := exists k, 0 <= k < 4194304 /\ ma a = ma (rget s 2 + k).

Section Step.
  Variable addr_of : str -> Z.            (* where the assembler put each label *)

  (* what executing node n does to the state (control is handled by `exec`) *)
  Inductive effect (n : pnode) (s s' : mstate) : Prop :=
  | EffArith : forall i rd rs1 rs2 rt, n = PArith i rd rs1 rs2 rt ->
      (match alu (wv i) with
       | Some op => s' = rset s (wv rd) (FoldSpec.eval op (rget s (wv rs1)) (rget s (wv rs2)))
       | None => exists v, in32 v /\ s' = rset s (wv rd) v
       end) -> effect n s s'
  | EffIArith : forall i rd rs1 imm rt, n = PIArith i rd rs1 imm rt ->
      (match alu (wv i) with
       | Some op => s' = rset s (wv rd) (FoldSpec.eval op (rget s (wv rs1)) (wv imm))
       | None => if inst_eqb (wv i) ILui then s' = rset s (wv rd) (wv imm)      (* the parser stores imm << 12 *)
                 else exists v, in32 v /\ s' = rset s (wv rd) v
       end) -> effect n s s'
  | EffLoadAddr : forall i rd name rt, n = PLoadAddr i rd name rt ->
      s' = rset s (wv rd) (wrap32 (addr_of (wv name))) -> effect n s s'
  | EffLoad : forall i rd rs1 imm rt, n = PLoad i rd rs1 imm rt ->
      (let '(w, signed) := load_width (wv i) in
       let u := load_u s (rget s (wv rs1) + wv imm) w in
       s' = rset s (wv rd) (if signed then (if Z.eqb w 4 then wrap32 u else sext w u) else u)) -> effect n s s'
  | EffStore : forall i rs1 rs2 imm rt, n = PStore i rs1 rs2 imm rt ->
      store_rel s (rget s (wv rs1) + wv imm) (to_u32 (rget s (wv rs2))) (store_width (wv i)) s' -> effect n s s'
  | EffBranch : forall i rs1 rs2 name rt, n = PBranch i rs1 rs2 name rt -> s' = s -> effect n s s'
  | EffJump : forall i rd name rt, n = PJumpLink i rd name rt -> N.eqb (wv rd) 1 = false ->
      (exists v, in32 v /\ s' = rset s (wv rd) v) -> effect n s s'          (* the link value *)
  | EffCall : forall i rd name rt, n = PJumpLink i rd name rt -> N.eqb (wv rd) 1 = true ->
      (* the callee, by the convention: *)
      regs_in32 s' ->
      (forall r, callee_preserves r = true -> rget s' r = rget s r) ->
      (forall a, above_sp s a -> mem s' (ma a) = mem s (ma a)) -> effect n s s'
  | EffEcall : forall i rt, n = PBasic i rt -> inst_eqb (wv i) IEcall = true ->
      (* the environment writes only the result registers of the requested service *)
      regs_in32 s' -> mem s' = mem s ->
      (forall r, rs_mem r (match environment_in_outs (rget s 17) with
                           | Some (_, rets) => rets | None => program_args_set end) = false ->
                 rget s' r = rget s r) -> effect n s s'
  | EffEbreak : forall i rt, n = PBasic i rt -> inst_eqb (wv i) IEbreak = true -> s' = s -> effect n s s'
  | EffEntry : is_any_entry n = true -> s' = s -> effect n s s'.

  (* one step of an activation inside graph g: execute node i, continue at a successor *)
  Definition step (g : cfg) (i : nat) (s : mstate) (j : nat) (s' : mstate) : Prop :=
    exists c, nth_opt (gnodes g) i = Some c /\ In j (nexts c) /\ effect (cn c) s s'.

  Inductive run (g : cfg) : nat -> mstate -> nat -> mstate -> Prop :=
  | run_refl : forall i s, run g i s i s
  | run_step : forall i s j s' k s'', run g i s j s' -> step g j s' k s'' -> run g i s k s''.
End Step.
