(* Lines, and what it means to move text: shifting every position of a token / node / error by
   a number of lines and of raw characters (columns are unchanged when whole lines move). *)
From RV.Model Require Import Base Lexer Isa Parser Reader.
Open Scope N_scope.

Definition count_nl (s : str) : N := N.of_nat (length (filter (fun c => N.eqb c c_nl) s)).
Definition len (s : str) : N := N.of_nat (length s).

(* a block of complete lines: empty, or ending with a newline *)
Definition lines_block (s : str) : Prop := s = [] \/ exists pre, s = pre ++ [c_nl].
(* exactly one line: its only newline is its last character *)
Definition one_line (s : str) : Prop := exists body, s = body ++ [c_nl] /\ ~ In c_nl body.

Section Shift.
  Variables (dl dr : N).     (* lines and raw characters to add *)
  Definition sh_pos (p : position) : position := mkpos (line p + dl) (column p) (raw p + dr).
  Definition sh_range (r : range) : range := mkrange (sh_pos (rstart r)) (sh_pos (rend r)).
  Definition sh_tok (t : token) : token := mktok (tt t) (sh_range (trange t)) (tfile t).
  Definition sh_item (it : lexitem) : lexitem :=
    match it with
    | LTok t => LTok (sh_tok t)
    | LErrString t p k => LErrString (sh_tok t) (sh_pos p) k
    | LErrUnexpected t => LErrUnexpected (sh_tok t)
    end.
End Shift.

(* a token that matters: anything but a newline or a comment *)
Definition significant (t : token) : bool :=
  match tt t with TNewline | TComment _ => false | _ => true end.

Definition tok_line (t : token) : N := line (rstart (trange t)).
Definition item_token (it : lexitem) : token :=
  match it with LTok t | LErrString t _ _ | LErrUnexpected t => t end.

(* the raw range of a node covers a token of the same file *)
Definition covers (rt : rawtok) (t : token) : Prop :=
  rfile rt = tfile t /\ raw (rstart (rrange rt)) <= raw (rstart (trange t)) /\
  raw (rend (trange t)) <= raw (rend (rrange rt)).

Definition node_raw (n : pnode) : rawtok :=
  match n with
  | PProgramEntry _ rt | PFuncEntry _ rt _ | PArith _ _ _ _ rt | PIArith _ _ _ _ rt | PLabel _ rt
  | PJumpLink _ _ _ rt | PJumpLinkR _ _ _ _ rt | PBasic _ rt | PDirective _ _ rt | PBranch _ _ _ _ rt
  | PStore _ _ _ _ rt | PLoad _ _ _ _ rt | PLoadAddr _ _ _ rt | PCsr _ _ _ _ rt | PCsrI _ _ _ _ rt => rt
  end.

Definition err_token (e : parse_error) : token :=
  match e with
  | PEExpected _ t | PEUnsupported t | PEUnexpectedToken t | PEUnexpectedError t | PEUnknownDirective t
  | PECyclicDependency t | PEInvalidString t _ _ => t
  | PEFileNotFound p | PEIOError p => wt p
  end.

Definition is_macro_tok (t : token) : bool :=
  match tt t with
  | TDirective d => match dir_from_str d with Some DMacro => true | _ => false end
  | _ => false
  end.
