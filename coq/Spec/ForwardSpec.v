(* Forward graphs: every predecessor of a node has a smaller index (no back edge, no self loop), e.g.
   straight-line code with forward branches and joins.  Used by Props/C06.v (termination of the value
   analysis on this class) and Proofs/ForwardProofs.v. *)
From RV.Model Require Import Base Lexer Isa Parser Cfg Avail Live.
From Coq Require Import List.
Import ListNotations.
Open Scope nat_scope.

Definition forward (g : list cnode) : Prop :=
  forall i c, nth_opt g i = Some c -> forall p, In p (prevs c) -> (p < i)%nat.

(* The only nodes whose transfer reads the node's OLD memory outs (`rule_pull_value_from_csr_memory`):
   the loads.  Each of them can delay the stabilisation of the facts by one sweep. *)
Definition pulls (c : cnode) : bool :=
  match reads_from_memory (cn c) with Some _ => true | None => false end.
Definition count_pulls (g : list cnode) : nat := length (filter pulls g).

(* For the liveness loop: edges in both directions respect the order of the indices, and no node is a
   call site (a call, or a jump/branch to a function label: those link the node to the entry and the exit
   of the function through `gfuncs`, which is not an edge). *)
Definition dag (ns : list cnode) : Prop :=
  forall i c, nth_opt ns i = Some c ->
    (forall s, In s (nexts c) -> (i < s)%nat) /\ (forall p, In p (prevs c) -> (p < i)%nat).
Definition no_call_sites (g : cfg) (ns : list cnode) : Prop :=
  forall i c, nth_opt ns i = Some c -> calls_to_from_cfg g c = None.
