(* C13, parser part: "the parser ignores comments and blank lines".
   Definitions only: what it means for two item lists (lexer outputs) to be the same code written with
   different comments / blank lines, the side conditions under which the parser really cannot tell them
   apart, and the normalisation of parse errors modulo which the diagnostics agree.
   Proofs in Proofs/SpellParseProofs.v. *)
From RV.Model Require Import Base I32 Imm Lexer Isa Parser Reader.
From RV.Spec Require Import LineSpec ParamSpec.
From RV.Proofs Require Import LineProofs.   (* is_nl_item *)

(* ---------------------------------------------------------------------------------- *)
(* comments, blank lines, squeezing                                                     *)

Definition is_comment_item (it : lexitem) : bool :=
  match it with LTok t => match tt t with TComment _ => true | _ => false end | _ => false end.

(* a newline or a comment: what layout is made of *)
Definition blank_item (it : lexitem) : bool := (is_nl_item it || is_comment_item it)%bool.

Definition drop_comments (l : list lexitem) : list lexitem :=
  filter (fun it => negb (is_comment_item it)) l.

(* drop the leading newline items *)
Fixpoint drop_nl (l : list lexitem) : list lexitem :=
  match l with
  | x :: l' => if is_nl_item x then drop_nl l' else l
  | [] => []
  end.

(* every run of consecutive newline items collapses into its first one *)
Fixpoint collapse_nl (l : list lexitem) : list lexitem :=
  match l with
  | [] => []
  | x :: l' => if is_nl_item x then x :: drop_nl (collapse_nl l') else x :: collapse_nl l'
  end.

(* remove every comment, then collapse every run of newlines *)
Definition squeeze (l : list lexitem) : list lexitem := collapse_nl (drop_comments l).
(* ... and forget the blank lines the list starts with *)
Definition canon (l : list lexitem) : list lexitem := drop_nl (squeeze l).

(* the same code, up to comments and blank lines *)
Definition same_code (l1 l2 : list lexitem) : Prop := canon l1 = canon l2.

(* ---------------------------------------------------------------------------------- *)
(* side conditions                                                                      *)

(* H1: every comment is immediately followed by a newline (a comment runs to the end of its line;
   true of what the lexer produces for a text that ends with a newline). *)
Fixpoint comments_end_lines (l : list lexitem) : bool :=
  match l with
  | [] => true
  | x :: l' =>
      ((if is_comment_item x then match l' with y :: _ => is_nl_item y | [] => false end else true)
       && comments_end_lines l')%bool
  end.

(* H2: data directives.  `.word` & co keep reading immediates across newlines, but a comment stops
   them.  So a comment inside a list of values changes what is read.  The condition: where a comment
   stops the values of a data directive, no further value follows it (after the comments and blank
   lines that come next). *)
Definition is_data_item (it : lexitem) : bool :=
  match it with
  | LTok t =>
      match tt t with
      | TDirective d =>
          match dir_from_str d with
          | Some (DByte | DHalf | DWord | DDword | DFloat | DDouble) => true
          | _ => false
          end
      | _ => false
      end
  | _ => false
  end.

Definition is_imm_item (it : lexitem) : bool :=
  match it with
  | LTok t => match tok_imm t with Ok (Some _) => true | _ => false end
  | _ => false
  end.

Fixpoint after_blank (l : list lexitem) : list lexitem :=
  match l with
  | x :: l' => if blank_item x then after_blank l' else l
  | [] => []
  end.

Definition starts_imm (l : list lexitem) : bool :=
  match l with x :: _ => is_imm_item x | [] => false end.

(* [l] is what follows a data directive (or one of its values): walk over the values and newlines; if a
   comment ends the walk, the next thing that is not layout is not a value *)
Fixpoint data_run_ok (l : list lexitem) : bool :=
  match l with
  | [] => true
  | x :: l' =>
      if (is_nl_item x || is_imm_item x)%bool then data_run_ok l'
      else if is_comment_item x then negb (starts_imm (after_blank l'))
      else true
  end.

Fixpoint data_ok (l : list lexitem) : bool :=
  match l with
  | [] => true
  | x :: l' => ((if is_data_item x then data_run_ok l' else true) && data_ok l')%bool
  end.

(* the simple sufficient condition: no data directive at all *)
Definition no_data (l : list lexitem) : bool := forallb (fun it => negb (is_data_item it)) l.

Definition code_ok (l : list lexitem) : bool := (comments_end_lines l && data_ok l)%bool.

(* two item lists the driver may hold at the same place of its stack: literally the same list (the
   items of an included file: read from the store in both runs), or the same code, well-formed *)
Definition same_items (l1 l2 : list lexitem) : Prop :=
  l1 = l2 \/ (same_code l1 l2 /\ code_ok l1 = true /\ code_ok l2 = true).

(* ---------------------------------------------------------------------------------- *)
(* errors: "expected X, got <comment>" and "expected X, got <newline>" are the same diagnostic *)

Definition norm_tok (t : token) : token :=
  match tt t with TComment _ => mktok TNewline (trange t) (tfile t) | _ => t end.

Definition norm_err (e : parse_error) : parse_error :=
  match e with PEExpected ex got => PEExpected ex (norm_tok got) | _ => e end.

(* location-erased, normalised error *)
Definition spell_err (e : parse_error) : parse_error := erase_perr (norm_err e).
