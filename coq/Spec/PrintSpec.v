(* C18 - vocabulary for the statements about the output channels (Model/Printer.v): the pieces of the
   rendered excerpt, the counter line, the decoders of the compact channel.  Definitions only. *)
From Coq Require Import List.
From RV.Model Require Import Base I32 Imm Lexer Parser Reader Cfg Lints Serde Output Printer.
Import ListNotations.
Open Scope N_scope.

(* ---- text ------------------------------------------------------------------------------------ *)
Definition no_nl (s : str) : Prop := ~ In c_nl s.
Definition all_ws (s : str) : bool := forallb is_whitespace s.
(* `str::trim_end` *)
Definition trim_end (s : str) : str := rev (trim_start (rev s)).
(* what the marker line shows under a source character that is not under a caret *)
Definition blank (c : char) : char := if is_whitespace c then c else c_space.

(* ---- the excerpt ------------------------------------------------------------------------------ *)
(* the three lines of an excerpt, given the marker *)
Definition excerpt_with (text : str) (ln : N) (marker : str) : str :=
  let lno := show_N (ln + 1) in
  let spc := repeat c_space (S (length lno)) in
  spc ++ «" |"» ++ [c_nl] ++ [c_space] ++ lno ++ «" | "» ++ trim text ++ [c_nl]
  ++ spc ++ «" | "» ++ marker ++ [c_nl].
(* the marker in general *)
Definition marker_of (text : str) (start end_ : nat) : str :=
  firstn (start - first_non_ws text) (map blank (skipn (first_non_ws text) text))
  ++ repeat c_caret (S end_ - start).

(* the excerpt part of a pretty block *)
Definition excerpt_of (p : pitem) : str :=
  match ptext p with
  | Some t =>
      match nth_error (split_lines t []) (N.to_nat (line (rstart (prange p)))) with
      | Some region => format_region region (line (rstart (prange p)))
                         (N.to_nat (column (rstart (prange p)))) (N.to_nat (column (rend (prange p))))
      | None => []
      end
  | None => []
  end.

(* ---- display_pretty ---------------------------------------------------------------------------- *)
Definition counter_line (others : nat) : str :=
  match others with
  | O => []
  | _ => show_N (N.of_nat others) ++ «" diagnostic"» ++ (if Nat.ltb 1 others then «"s"» else [])
         ++ «" found in other files. To see all errors, run with the `--all-files` option."» ++ [c_nl]
  end.
Definition fmt_of (compact : bool) : pitem -> str := if compact then format_item_compact else format_item.
(* the sort key of a printed item: (file name, range) *)
Definition pkey (p : pitem) : okey := (pfile p, prange p).

(* ---- channels as functions of `fields` ----------------------------------------------------------- *)
Definition fields_t : Type := (str * str * str * N * N * N)%type.
Definition compact_of (f : fields_t) : str :=
  let '(lvl, title, path, ln, c, e) := f in
  lvl ++ «": "» ++ title ++ «" in "» ++ path ++ «" at "» ++ show_N (ln + 1) ++ «" "» ++ show_N (c + 1)
  ++ «":"» ++ show_N (e + 1) ++ [c_nl].
Definition header_of (f : fields_t) : str :=
  let '(lvl, title, path, _, _, _) := f in
  lvl ++ «": "» ++ title ++ [c_nl] ++ «" in file: "» ++ path ++ [c_nl].
(* the part of `fields` the JSON record carries in jlevel / jtitle / jrange *)
Definition jfields (j : jitem) : str * str * N * N * N :=
  (jlevel j, jtitle j, line (rstart (jrange j)), column (rstart (jrange j)), column (rend (jrange j))).
Definition fields_nopath (f : fields_t) : str * str * N * N * N :=
  let '(lvl, title, _, ln, c, e) := f in (lvl, title, ln, c, e).

(* ---- reading the compact channel back ---------------------------------------------------------- *)
(* what a compact line determines: severity, "title in path", zero-based line, column, end column *)
Definition compact_core (p : pitem) : severity * str * N * N * N :=
  (psev p, ptitle p ++ «" in "» ++ path_of p, line (rstart (prange p)), column (rstart (prange p)), column (rend (prange p))).

Fixpoint span_dig (s : str) : str * str :=
  match s with
  | c :: s' => if is_ascii_digit c then let '(d, r) := span_dig s' in (c :: d, r) else ([], s)
  | [] => ([], [])
  end.
(* a decimal number (given reversed), minus one *)
Definition read_num1 (d : str) : option N :=
  match parse_digits (rev d) with
  | Some z => if Z.leb 1 z then Some (Z.to_N (z - 1)) else None
  | None => None
  end.
Definition read_level (s : str) : option (severity * str) :=
  let attempt sev := match strip_prefix (level_name sev ++ «": "») s with Some r => Some (sev, r) | None => None end in
  match attempt SevError with Some x => Some x | None =>
  match attempt SevWarning with Some x => Some x | None =>
  match attempt SevInformation with Some x => Some x | None => attempt SevHint end end end.
(* one line "{level}: {middle} at {L} {C}:{E}\n", read from its end *)
Definition read_compact (s : str) : option (severity * str * N * N * N) :=
  match rev s with
  | c0 :: r0 =>
      if negb (N.eqb c0 c_nl) then None else
      let '(e, r1) := span_dig r0 in
      match r1 with
      | c1 :: r2 =>
          if negb (N.eqb c1 c_colon) then None else
          let '(c, r3) := span_dig r2 in
          match r3 with
          | c2 :: r4 =>
              if negb (N.eqb c2 c_space) then None else
              let '(l, r5) := span_dig r4 in
              match strip_prefix (rev «" at "») r5 with
              | Some r6 =>
                  match read_level (rev r6), read_num1 l, read_num1 c, read_num1 e with
                  | Some (sev, mid), Some ln, Some col, Some ec => Some (sev, mid, ln, col, ec)
                  | _, _, _, _ => None
                  end
              | None => None
              end
          | [] => None
          end
      | [] => None
      end
  | [] => None
  end.
(* the whole compact output: its lines (each with its newline put back), read one by one *)
Definition read_output (s : str) : list (option (severity * str * N * N * N)) :=
  map (fun b => read_compact (b ++ [c_nl])) (removelast (split_lines s [])).
