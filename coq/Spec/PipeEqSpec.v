(* The data-flow equations of the value analysis, one node at a time, and what the last
   ecall-termination step of the pipeline does to them.

   `gen_full_cfg` runs `ecall_terminate` once more AFTER the last `avail_pass`: every ecall whose a7 fact
   is the constant 10 or 93 loses its out-edges.  Removing an edge p -> i changes the equation of i (its
   meet loses out[p]) while the stored facts of i stay what they were: 'stale facts behind a late exit'. *)
From RV.Model Require Import Base Lexer Isa Parser Cfg Avail Live.
From RV.Spec Require Import LiveSpec FixSpec.
Open Scope N_scope.

(* the equation of node i (the body of `AvailEqns`) *)
Definition AvailEqnAt (g : cfg) (i : nat) : Prop :=
  forall c, nth_opt (gnodes g) i = Some c ->
    rm_eqb (rin c) (meet_regs (gnodes g) (prevs c) (all_idx (gnodes g))) = true /\
    mm_eqb (min c) (meet_mems (gnodes g) (prevs c) (all_idx (gnodes g))) = true /\
    (let '(ro, mo) := avail_transfer c (rin c) (min c) in
     rm_eqb (rout c) ro = true /\ mm_eqb (mout c) mo = true).

(* node i of h has a predecessor p that is an exit ecall of h (a7 known to be 10 or 93) with its
   out-edges still in place: `ecall_terminate h` removes the edge p -> i *)
Definition lost_pred (h : cfg) (i : nat) : Prop :=
  exists p cp ci, nth_opt (gnodes h) p = Some cp /\ nth_opt (gnodes h) i = Some ci /\
    is_program_exit cp = true /\ In i (nexts cp) /\ In p (prevs ci).

(* the same instruction and the same value facts at every node *)
Definition same_values (g h : cfg) : Prop :=
  length (gnodes g) = length (gnodes h) /\
  forall i c d, nth_opt (gnodes g) i = Some c -> nth_opt (gnodes h) i = Some d ->
    cn c = cn d /\ rin c = rin d /\ rout c = rout d /\ min c = min d /\ mout c = mout d.

(* every exit ecall is already cut off *)
Definition exits_cut (h : cfg) : Prop :=
  forall p c, nth_opt (gnodes h) p = Some c -> is_program_exit c = true -> nexts c = [].
