(* C13, layout part: what the token stream of a text is when every position is forgotten.

   [item_key] is the KEY of a lexer item: its token type including the text, or the kind of
   lexical error, without any source position or file identity.

   [klex] is a position-free restatement of the lexer (Model/Lexer.v): the same decisions, written
   on the text alone - no cursor, no file, no debug assertion, no fuel except inside string
   literals.  Proofs/SpellLexProofs.v shows that the keys of `lex_all chk file s` are exactly
   [klex s] for every chk, file and s; all layout theorems are then statements about [klex]. *)
From RV.Model Require Import Base Lexer.
Open Scope N_scope.

Inductive key :=
| KTok (ty : ttype)
| KErrString (ty : ttype) (k : strerr)
| KErrUnexpected (ty : ttype).

Definition item_key (it : lexitem) : key :=
  match it with
  | LTok t => KTok (tt t)
  | LErrString t _ k => KErrString (tt t) k
  | LErrUnexpected t => KErrUnexpected (tt t)
  end.
Definition keys (items : list lexitem) : list key := map item_key items.

(* -- separators ------------------------------------------------------------------------ *)
(* the characters the lexer skips between tokens: space, tab, comma, carriage return *)
Definition sep_run (w : str) : Prop := forallb is_ws w = true.

(* a character that ends a symbol / directive and cannot be taken for the ':' of a label *)
Definition delim (c : char) : bool := (negb (is_symbol_item c) && negb (N.eqb c c_colon))%bool.
Definition dstart (Y : str) : Prop := match Y with [] => True | c :: _ => delim c = true end.

(* -- the position-free lexer ----------------------------------------------------------- *)
Fixpoint kskip_ws (s : str) : str :=
  match s with
  | c :: r => if is_ws c then kskip_ws r else s
  | [] => []
  end.

Fixpoint kskip_line (s : str) : str :=
  match s with
  | c :: r => if N.eqb c c_nl then s else kskip_line r
  | [] => []
  end.

(* separators and lone dots *)
Fixpoint kskip (s : str) : str :=
  match s with
  | [] => []
  | c :: r => if is_ws c then kskip r else if lone_dot s then kskip r else s
  end.

Fixpoint kscan (stop : option char -> bool) (s : str) (acc : str) : str * str :=
  match s with
  | [] => (acc, [])
  | c :: r => if stop (hd_opt r) then (c :: acc, s) else kscan stop r (c :: acc)
  end.

Definition simple_escape (e : char) : option char :=
  if N.eqb e c_bslash then Some c_bslash
  else if N.eqb e c_squote then Some c_squote
  else if N.eqb e c_dquote then Some c_dquote
  else if N.eqb e 110 then Some c_nl
  else if N.eqb e 116 then Some c_tab
  else if N.eqb e 114 then Some c_cr
  else if N.eqb e 98 then Some 8
  else if N.eqb e 102 then Some 12
  else if N.eqb e 48 then Some 0
  else None.

Definition hex4 (a1 a2 a3 a4 : char) : option char :=
  match hexval a1, hexval a2, hexval a3, hexval a4 with
  | Some d1, Some d2, Some d3, Some d4 =>
      let code := ((d1 * 16 + d2) * 16 + d3) * 16 + d4 in
      if in_range 55296 57343 code then None else Some code
  | _, _, _, _ => None
  end.

(* [t] is the text after a backslash; the result is the character and the text after the escape *)
Definition kescape (t : str) : option (char * str) :=
  match t with
  | [] => None
  | e :: t' =>
      match simple_escape e with
      | Some ec => Some (ec, t')
      | None =>
          if N.eqb e 117 then
            match t' with
            | a1 :: a2 :: a3 :: a4 :: t'' => option_map (fun c => (c, t'')) (hex4 a1 a2 a3 a4)
            | _ => None
            end
          else None
      end
  end.

(* body of a string literal; inl (text, rest starting at the closing quote) or
   inr (error kind, rest starting at the offending character).  None = out of fuel. *)
Fixpoint kacc (fuel : nat) (s acc : str) : option (str * str + strerr * str) :=
  match fuel with
  | O => None
  | S f =>
      match s with
      | [] => Some (inr (Unclosed, s))
      | c :: t =>
          if N.eqb c c_dquote then Some (inl (rev acc, s))
          else if N.eqb c c_nl then Some (inr (NewlineInString, s))
          else if N.eqb c c_bslash then
            match kescape t with
            | Some (ec, t') => kacc f t' (ec :: acc)
            | None => Some (inr (InvalidEscapeSequence, s))
            end
          else kacc f t (c :: acc)
      end
  end.

(* [s3] is the text after the character of a character literal *)
Definition kchr_cont (cv : char) (s3 : str) : key * str :=
  match s3 with
  | [] => (KErrString (TString []) Unclosed, [])
  | q :: r => if N.eqb q c_squote then (KTok (TChar cv), r) else (KErrString (TString [cv]) Unclosed, s3)
  end.

(* [s1] is the text after the opening quote of a character literal *)
Definition kchr (s1 : str) : key * str :=
  match s1 with
  | [] => (KErrString (TString []) Unclosed, [])
  | c1 :: t =>
      if N.eqb c1 c_bslash then
        match kescape t with
        | Some (ec, t') => kchr_cont ec t'
        | None => (KErrString (TString [c1]) InvalidEscapeSequence, kskip_line s1)
        end
      else if N.eqb c1 c_nl then (KErrString (TString [c1]) NewlineInString, s1)
      else kchr_cont c1 t
  end.

Definition ksym (c : char) (s : str) : key * str :=
  if negb (is_symbol_item c) then (KErrUnexpected (TSymbol [c]), tl s)
  else
    let '(acc, s') := kscan stop_symbol s [] in
    let sym := rev acc in
    match s' with
    | _ :: colon :: r => if N.eqb colon c_colon then (KTok (TLabel sym), r) else (KTok (TSymbol sym), tl s')
    | _ => (KTok (TSymbol sym), tl s')
    end.

(* one token, the text starting at its first character *)
Definition kbody (s : str) : option (key * str) :=
  match s with
  | [] => None
  | c :: r =>
      if N.eqb c c_nl then Some (KTok TNewline, r)
      else if N.eqb c c_lparen then Some (KTok TLParen, r)
      else if N.eqb c c_rparen then Some (KTok TRParen, r)
      else if N.eqb c c_dot then
        let '(acc, s') := kscan stop_directive s [] in Some (KTok (TDirective (rev acc)), tl s')
      else if N.eqb c c_hash then
        let '(acc, s') := kscan stop_comment s [] in Some (KTok (TComment (tl (rev acc))), tl s')
      else if N.eqb c c_dquote then
        match kacc (S (length r)) r [] with
        | Some (inl (text, s2)) => Some (KTok (TString text), tl s2)
        | Some (inr (k, s2)) => Some (KErrString (TString []) k, kskip_line s2)
        | None => None
        end
      else if N.eqb c c_squote then Some (kchr r)
      else Some (ksym c s)
  end.

(* one token: its key and the remaining text *)
Definition knext (s0 : str) : option (key * str) := kbody (kskip s0).

Fixpoint klex_f (fuel : nat) (s : str) : list key :=
  match fuel with
  | O => []
  | S f => match knext s with
           | None => []
           | Some (k, s') => k :: klex_f f s'
           end
  end.
Definition klex (s : str) : list key := klex_f (S (length s)) s.

(* -- where a text may be cut ----------------------------------------------------------- *)
Definition last_opt {A} (l : list A) : option A :=
  match rev l with x :: _ => Some x | [] => None end.

(* The last token of a text is COMPLETE when followed by the character [nx] (None = anything
   from the [delim] class): it is not a string/char error (which either swallowed the rest of
   the line or stopped at the end of the text), and it is not a comment - unless what follows
   is the newline that ends the comment anyway. *)
Definition complete_key (nx : option char) (k : key) : Prop :=
  match k with
  | KErrString _ _ => False
  | KTok (TComment _) => nx = Some c_nl
  | _ => True
  end.
Definition ends_complete (nx : option char) (ks : list key) : Prop :=
  match last_opt ks with Some k => complete_key nx k | None => True end.

(* The last token is SELF-DELIMITING: whatever follows cannot become part of it. *)
Definition selfdelim_key (k : key) : Prop :=
  match k with
  | KTok (TNewline | TLParen | TRParen | TLabel _ | TString _ | TChar _) => True
  | KErrUnexpected _ => True
  | _ => False
  end.
Definition ends_selfdelim (ks : list key) : Prop :=
  match last_opt ks with Some k => selfdelim_key k | None => True end.
Definition no_final_dot (u : str) : Prop :=
  match rev u with c :: _ => c <> c_dot | [] => True end.

(* A syntactic sufficient condition for [ends_complete None]: the text after the last complete
   line contains no quote and no '#', i.e. no string, character literal or comment starts there. *)
Definition plain_char (c : char) : bool :=
  negb (N.eqb c c_dquote || N.eqb c c_squote || N.eqb c c_hash)%bool.
Definition plain (t : str) : Prop := forallb plain_char t = true.

(* A text written as pieces, each followed by a run of separators. *)
Definition render (l : list (str * str)) : str := concat (map (fun pw => fst pw ++ snd pw) l).
(* the separator run after a piece may be empty only if the piece ends with a self-delimiting token *)
Definition piece_ok (pw : str * str) : Prop :=
  sep_run (snd pw) /\
  ((snd pw <> [] /\ ends_complete None (klex (fst pw))) \/
   (no_final_dot (fst pw) /\ ends_selfdelim (klex (fst pw)))).
