(* Proofs for C09: the lexer model (Model/Lexer.v) reports, for every token, a range that
   designates exactly the token's text (Spec/PosSpec.v), and tokens come out in source order. *)
From RV.Model Require Import Base Lexer.
From RV.Spec Require Import PosSpec.
From Coq Require Import Lia ZifyN ZifyNat ZifyBool Sorted.
Open Scope N_scope.

(* ---------------------------------------------------------------------------------- *)
(* The notions used in the statements (same bodies as in Props/C09.v).                  *)

Definition pos_ok (src : str) (p : position) : Prop :=
  line_col src (raw p) = (line p, column p).

Definition range_ok (src : str) (r : range) : Prop :=
  pos_ok src (rstart r) /\ pos_ok src (rend r) /\
  raw (rstart r) <= raw (rend r) /\ raw (rend r) < N.of_nat (length src) /\
  line (rstart r) = line (rend r).

Definition spelling_ok (src : str) (t : token) : Prop :=
  let txt := slice src (raw (rstart (trange t))) (raw (rend (trange t))) in
  match tt t with
  | TLParen => txt = [c_lparen]
  | TRParen => txt = [c_rparen]
  | TNewline => txt = [c_nl]
  | TSymbol s => txt = s
  | TLabel s => txt = s ++ [c_colon]
  | TDirective d => txt = d
  | TComment c => txt = c_hash :: c
  | TString _ => exists body, txt = c_dquote :: body ++ [c_dquote]
  | TChar _ => exists body, txt = c_squote :: body ++ [c_squote]
  end.

Definition item_range (it : lexitem) : range :=
  match it with LTok t => trange t | LErrUnexpected t => trange t | LErrString t _ _ => trange t end.

(* ---------------------------------------------------------------------------------- *)
(* Cursor movement over a list of characters.                                           *)

Definition advs (m : str) (p : cur) : cur := fold_left (fun q c => adv c q) m p.
Definition nonl (m : str) : Prop := Forall (fun x => x <> c_nl) m.
Definition lenN (m : str) : N := N.of_nat (length m).

Lemma advs_app m1 m2 p : advs (m1 ++ m2) p = advs m2 (advs m1 p).
Proof. unfold advs. apply fold_left_app. Qed.

Lemma advs_cons c m p : advs (c :: m) p = advs m (adv c p).
Proof. reflexivity. Qed.

Lemma advs_nil p : advs [] p = p.
Proof. reflexivity. Qed.

Lemma adv_advs_end l m p : adv l (advs m p) = advs (m ++ [l]) p.
Proof. rewrite advs_app. reflexivity. Qed.

Lemma lenN_app a b : lenN (a ++ b) = lenN a + lenN b.
Proof. unfold lenN. rewrite app_length. lia. Qed.

Lemma lenN_cons c a : lenN (c :: a) = 1 + lenN a.
Proof. unfold lenN. cbn [length]. lia. Qed.

Lemma lenN_nil : lenN [] = 0.
Proof. reflexivity. Qed.

Lemma adv_cpos c p : cpos (adv c p) = cpos p + 1.
Proof. unfold adv. destruct (N.eqb c c_nl); reflexivity. Qed.

Lemma advs_cpos m : forall p, cpos (advs m p) = cpos p + lenN m.
Proof.
  induction m as [|c m IH]; intros p.
  - rewrite advs_nil, lenN_nil. lia.
  - rewrite advs_cons, IH, adv_cpos, lenN_cons. lia.
Qed.

Lemma advs_nonl m : forall p, nonl m ->
  advs m p = mkcur (cpos p + lenN m) (crow p) (ccol p + lenN m).
Proof.
  induction m as [|c m IH]; intros p H.
  - rewrite advs_nil, lenN_nil. destruct p as [a b c]; cbn [cpos crow ccol]. f_equal; lia.
  - inversion H as [|? ? Hc Hm]; subst. rewrite advs_cons, (IH _ Hm), lenN_cons.
    unfold adv. destruct (N.eqb c c_nl) eqn:E.
    + apply N.eqb_eq in E. contradiction.
    + cbn [cpos crow ccol]. f_equal; lia.
Qed.

Lemma nonl_app a b : nonl a -> nonl b -> nonl (a ++ b).
Proof. intros. apply Forall_app. split; assumption. Qed.

Lemma nonl_app_inv a b : nonl (a ++ b) -> nonl a /\ nonl b.
Proof. intros H. apply Forall_app in H. exact H. Qed.

Lemma nonl_one x : x <> c_nl -> nonl [x].
Proof. intros. constructor; [assumption|constructor]. Qed.

(* ---------------------------------------------------------------------------------- *)
(* Positions and slices.                                                                 *)

Lemma pos_walk_advs pre s : forall k ln col,
  pos_walk (pre ++ s) (length pre) ln col =
  (crow (advs pre (mkcur k ln col)), ccol (advs pre (mkcur k ln col))).
Proof.
  induction pre as [|c pre IH]; intros k ln col.
  - destruct s; reflexivity.
  - cbn [app length pos_walk]. rewrite advs_cons. unfold adv at 1 2.
    cbn [cpos crow ccol]. destruct (N.eqb c c_nl); apply IH.
Qed.

Lemma pos_ok_advs pre s : pos_ok (pre ++ s) (get_pos (advs pre cur0)).
Proof.
  unfold pos_ok, line_col, get_pos. cbn [raw line column].
  rewrite advs_cpos. unfold cur0 at 1. cbn [cpos].
  replace (N.to_nat (0 + lenN pre)) with (length pre) by (unfold lenN; lia).
  unfold cur0. apply pos_walk_advs.
Qed.

Lemma skipn_pre {A} (pre s : list A) : skipn (length pre) (pre ++ s) = s.
Proof. induction pre; cbn; auto. Qed.

Lemma firstn_pre {A} (m s : list A) : firstn (length m) (m ++ s) = m.
Proof. induction m; cbn; [destruct s|]; congruence. Qed.

Lemma slice_mid pre mid l rest :
  slice (pre ++ mid ++ l :: rest) (lenN pre) (lenN pre + lenN mid) = mid ++ [l].
Proof.
  unfold slice.
  replace (N.to_nat (lenN pre)) with (length pre) by (unfold lenN; lia).
  replace (N.to_nat (lenN pre + lenN mid) + 1 - length pre)%nat with (length (mid ++ [l]))
    by (rewrite app_length; cbn [length]; unfold lenN; lia).
  rewrite skipn_pre.
  replace (mid ++ l :: rest) with ((mid ++ [l]) ++ rest) by (rewrite <- app_assoc; reflexivity).
  apply firstn_pre.
Qed.

Lemma length_lenN (m : str) : N.of_nat (length m) = lenN m.
Proof. reflexivity. Qed.

(* ---------------------------------------------------------------------------------- *)
(* The scanning helpers only move forward over the text.                                *)

Definition Adv (s : str) (p : cur) (s' : str) (p' : cur) : Prop :=
  exists m, s = m ++ s' /\ p' = advs m p.

Lemma Adv_refl s p : Adv s p s p.
Proof. exists []. split; reflexivity. Qed.

Lemma Adv_step c r p s' p' : Adv r (adv c p) s' p' -> Adv (c :: r) p s' p'.
Proof. intros [m [H1 H2]]. exists (c :: m). subst. split; reflexivity. Qed.

Lemma skip_ws_spec : forall s p s' p', skip_ws s p = (s', p') -> Adv s p s' p'.
Proof.
  induction s as [|c r IH]; intros p s' p' H; cbn [skip_ws] in H.
  - inversion H; subst. apply Adv_refl.
  - destruct (is_ws c) eqn:E.
    + apply Adv_step. apply IH. exact H.
    + inversion H; subst. apply Adv_refl.
Qed.

Lemma skip_line_spec : forall s p s' p', skip_line s p = (s', p') -> Adv s p s' p'.
Proof.
  induction s as [|c r IH]; intros p s' p' H; cbn [skip_line] in H.
  - inversion H; subst. apply Adv_refl.
  - destruct (N.eqb c c_nl) eqn:E.
    + inversion H; subst. apply Adv_refl.
    + apply Adv_step. apply IH. exact H.
Qed.

Lemma lone_dot_cons s : lone_dot s = true -> exists c r, s = c :: r.
Proof. destruct s as [|c r]; [discriminate|]. intros _. eauto. Qed.

Lemma skip_dots_spec : forall fuel s p, (length s < fuel)%nat ->
  exists s' p', skip_dots fuel s p = Ok (s', p') /\ Adv s p s' p' /\ lone_dot s' = false.
Proof.
  induction fuel as [|f IH]; intros s p Hf; [lia|].
  cbn [skip_dots]. destruct (lone_dot s) eqn:E.
  - destruct (lone_dot_cons _ E) as [c [r ->]]. cbn [consume].
    destruct (skip_ws r (adv c p)) as [s2 p2] eqn:Ews.
    pose proof (skip_ws_spec _ _ _ _ Ews) as [m [Hm1 Hm2]].
    destruct (IH s2 p2) as [s' [p' [H1 [[m' [H2a H2b]] H3]]]].
    { subst r. cbn [length] in Hf. rewrite app_length in Hf. lia. }
    exists s', p'. split; [exact H1|]. split; [|exact H3].
    exists (c :: m ++ m'). subst. split.
    + cbn [app]. rewrite <- app_assoc. reflexivity.
    + rewrite advs_cons, advs_app. reflexivity.
  - exists s, p. split; [reflexivity|]. split; [apply Adv_refl|exact E].
Qed.

(* scan: P holds of the first character and of every character let through by [stop] *)
Lemma scan_spec stop (P : char -> Prop) (HP : forall x, stop (Some x) = false -> P x) :
  forall r c p acc acc' s' p', P c ->
  scan stop (c :: r) p acc = (acc', s', p') ->
  (exists mid l rest, c :: r = mid ++ l :: rest /\ s' = l :: rest /\ p' = advs mid p /\
      rev acc' = rev acc ++ mid ++ [l] /\ stop (hd_opt rest) = true /\ Forall P (mid ++ [l]))
  \/ (s' = [] /\ p' = advs (c :: r) p /\ rev acc' = rev acc ++ c :: r /\ Forall P (c :: r) /\
      stop None = false).
Proof.
  induction r as [|c2 r2 IH]; intros c p acc acc' s' p' Pc H.
  - cbn [scan hd_opt] in H. destruct (stop None) eqn:E; inversion H; subst.
    + left. exists [], c, []. repeat split; try reflexivity; try assumption.
      constructor; [assumption|constructor].
    + right. repeat split; try reflexivity; try assumption.
      constructor; [assumption|constructor].
  - cbn [scan hd_opt] in H. destruct (stop (Some c2)) eqn:E.
    + inversion H; subst. left. exists [], c, (c2 :: r2).
      repeat split; try reflexivity; try assumption.
      constructor; [assumption|constructor].
    + apply IH in H; [|apply HP; exact E].
      destruct H as [[mid [l [rest [H1 [H2 [H3 [H4 [H5 H6]]]]]]]]|[H1 [H2 [H3 [H4 H5]]]]].
      * left. exists (c :: mid), l, rest. rewrite H1. repeat split; try assumption.
        -- rewrite H4. cbn [rev app]. rewrite <- !app_assoc. reflexivity.
        -- cbn [app]. constructor; assumption.
      * right. repeat split; try assumption.
        -- rewrite H3. cbn [rev]. rewrite <- app_assoc. reflexivity.
        -- constructor; assumption.
Qed.

(* escapes *)
Lemma hexval_nl a : a = c_nl -> hexval a = None.
Proof. intros ->. reflexivity. Qed.

Lemma hexval_nonl a d : hexval a = Some d -> a <> c_nl.
Proof. intros H E. rewrite (hexval_nl _ E) in H. discriminate. Qed.

Lemma unicode_code_spec s p code s4 p4 :
  unicode_code s p = Some (code, s4, p4) ->
  exists b u a1 a2 a3 a4 r, s = b :: u :: a1 :: a2 :: a3 :: a4 :: r /\ s4 = a3 :: a4 :: r /\
    p4 = advs [b; u; a1; a2] p /\ a1 <> c_nl /\ a2 <> c_nl /\ a3 <> c_nl /\ a4 <> c_nl.
Proof.
  unfold unicode_code.
  destruct s as [|b [|u [|a1 [|a2 [|a3 [|a4 r]]]]]]; try discriminate.
  destruct (hexval a1) eqn:E1; [|discriminate].
  destruct (hexval a2) eqn:E2; [|discriminate].
  destruct (hexval a3) eqn:E3; [|discriminate].
  destruct (hexval a4) eqn:E4; [|discriminate].
  destruct (in_range 55296 57343 _); [discriminate|].
  cbn [consume]. intros H. inversion H; subst.
  exists b, u, a1, a2, a3, a4, r. repeat split; eauto using hexval_nonl.
Qed.

Lemma escape_code_spec b t p ec s1 p1 :
  escape_code (b :: t) p = Some (ec, s1, p1) -> b <> c_nl ->
  exists m x rest, b :: t = m ++ x :: rest /\ s1 = x :: rest /\ p1 = advs m p /\
    nonl m /\ x <> c_nl /\ m <> [].
Proof.
  intros H Hb. destruct t as [|c r]; [discriminate|].
  destruct (N.eqb c c_nl) eqn:Enl.
  { apply N.eqb_eq in Enl. subst c. cbv in H. discriminate. }
  apply N.eqb_neq in Enl.
  assert (Hsimple : forall rr, (let '(s1', p1') := consume (b :: c :: r) p in Some (rr, s1', p1')) = Some (ec, s1, p1) ->
     exists m x rest, b :: c :: r = m ++ x :: rest /\ s1 = x :: rest /\ p1 = advs m p /\
       nonl m /\ x <> c_nl /\ m <> []).
  { intros rr Hs. cbn [consume] in Hs. inversion Hs; subst.
    exists [b], c, r. repeat split; auto using nonl_one. discriminate. }
  unfold escape_code in H.
  repeat match type of H with
  | (if N.eqb c 117 then _ else _) = _ => fail 1
  | (if ?X then _ else _) = _ => destruct X; [eapply Hsimple; exact H|]
  end.
  destruct (N.eqb c 117) eqn:Eu; [|discriminate].
  apply N.eqb_eq in Eu.
  destruct (unicode_code (b :: c :: r) p) as [[[rr s1'] p1']|] eqn:Eun; [|discriminate].
  apply unicode_code_spec in Eun.
  destruct Eun as [b' [u [a1 [a2 [a3 [a4 [r' [H1 [H2 [H3 [N1 [N2 [N3 N4]]]]]]]]]]]]].
  subst s1'. cbn [consume] in H. inversion H; subst. inversion H1; subst.
  exists [b'; 117; a1; a2; a3], a4, r'. repeat split.
  - repeat constructor; try assumption; try discriminate.
  - assumption.
  - discriminate.
Qed.

Definition acc_post (s : str) (p : cur) (r : str * str * cur + position * strerr * str * cur) : Prop :=
  match r with
  | inl (_, s2, p2) => exists m rest, s = m ++ c_dquote :: rest /\ s2 = c_dquote :: rest /\
                         p2 = advs m p /\ nonl m
  | inr (epos, _, s2, p2) => epos = get_pos p2 /\ exists m, s = m ++ s2 /\ p2 = advs m p /\ nonl m
  end.

Lemma acc_post_shift m0 rest p r : nonl m0 -> acc_post rest (advs m0 p) r -> acc_post (m0 ++ rest) p r.
Proof.
  intros Hn. destruct r as [[[text s2] p2]|[[[epos k] s2] p2]]; cbn [acc_post].
  - intros [m [rest' [H1 [H2 [H3 H4]]]]]. exists (m0 ++ m), rest'. subst.
    rewrite <- app_assoc, advs_app. auto using nonl_app.
  - intros [He [m [H1 [H2 H3]]]]. split; [exact He|]. exists (m0 ++ m). subst p2 rest.
    rewrite <- app_assoc, advs_app. auto using nonl_app.
Qed.

Lemma acc_string_spec : forall fuel s p acc, (length s < fuel)%nat ->
  exists r, acc_string fuel s p acc = Ok r /\ acc_post s p r.
Proof.
  induction fuel as [|f IH]; intros s p acc Hf; [lia|].
  cbn [acc_string]. destruct s as [|c t].
  - eexists. split; [reflexivity|]. cbn [acc_post]. split; [reflexivity|].
    exists []. repeat split. constructor.
  - destruct (N.eqb c c_dquote) eqn:Eq.
    { apply N.eqb_eq in Eq. subst c. eexists. split; [reflexivity|]. cbn [acc_post].
      exists [], t. repeat split. constructor. }
    destruct (N.eqb c c_nl) eqn:Enl.
    { eexists. split; [reflexivity|]. cbn [acc_post]. split; [reflexivity|].
      exists []. repeat split. constructor. }
    apply N.eqb_neq in Enl.
    destruct (N.eqb c c_bslash) eqn:Eb.
    + destruct (escape_code (c :: t) p) as [[[ec s1] p1]|] eqn:Ee.
      * apply escape_code_spec in Ee; [|exact Enl].
        destruct Ee as [m [x [rest [H1 [H2 [H3 [H4 [H5 H6]]]]]]]].
        subst s1. cbn [consume].
        destruct (IH rest (adv x p1) (ec :: acc)) as [r [Hr1 Hr2]].
        { assert (L : length (c :: t) = length (m ++ x :: rest)) by (rewrite H1; reflexivity).
          rewrite app_length in L. cbn [length] in *. lia. }
        exists r. split; [exact Hr1|]. rewrite H1.
        replace (m ++ x :: rest) with ((m ++ [x]) ++ rest) by (rewrite <- app_assoc; reflexivity).
        apply acc_post_shift; [apply nonl_app; auto using nonl_one|].
        rewrite <- adv_advs_end, <- H3. exact Hr2.
      * eexists. split; [reflexivity|]. cbn [acc_post]. split; [reflexivity|].
        exists []. repeat split. constructor.
    + cbn [consume].
      destruct (IH t (adv c p) (c :: acc)) as [r [Hr1 Hr2]]; [cbn [length] in Hf; lia|].
      exists r. split; [exact Hr1|].
      change (c :: t) with ([c] ++ t). apply acc_post_shift; [auto using nonl_one|exact Hr2].
Qed.

(* ---------------------------------------------------------------------------------- *)
(* [next], cut into one definition per token kind (checked convertible with the model).  *)

Definition rnext := res (option (lexitem * str * cur)).

Definition fin (chk : bool) (t : token) (s' : str) (p' : cur) : rnext :=
  do t' <- check_tok chk t; Ok (Some (LTok t', s', p')).

Definition b_one (chk : bool) (file : option N) (ty : ttype) (s : str) (p : cur) : rnext :=
  let rg := get_range p in let '(s', p') := consume s p in fin chk (mktok ty rg file) s' p'.

Definition b_dot (rec : str -> cur -> rnext) (chk : bool) (file : option N) (s : str) (p : cur) : rnext :=
  let st := get_pos p in
  let '(acc, s', p') := scan stop_directive s p [] in
  let en := get_pos p' in
  let '(s'', p'') := consume s' p' in
  let d := rev acc in
  if str_eqb d [c_dot] then rec s'' p''
  else fin chk (mktok (TDirective d) (mkrange st en) file) s'' p''.

Definition b_hash (chk : bool) (file : option N) (s : str) (p : cur) : rnext :=
  let st := get_pos p in
  let '(acc, s', p') := scan stop_comment s p [] in
  let en := get_pos p' in
  let '(s'', p'') := consume s' p' in
  let body := match rev acc with _ :: b => b | [] => [] end in
  fin chk (mktok (TComment body) (mkrange st en) file) s'' p''.

Definition b_str (chk : bool) (file : option N) (s : str) (p : cur) : rnext :=
  let st := get_pos p in
  let '(s1, p1) := consume s p in
  do r <- acc_string (S (length s1)) s1 p1 [];
  match r with
  | inl (text, s2, p2) =>
      let en := get_pos p2 in
      let '(s3, p3) := consume s2 p2 in
      fin chk (mktok (TString text) (mkrange st en) file) s3 p3
  | inr (epos, k, s2, p2) =>
      let '(s3, p3) := skip_line s2 p2 in
      Ok (Some (LErrString (mktok (TString []) (mkrange st epos) file) epos k, s3, p3))
  end.

Definition chr_cont (file : option N) (st : position) (cv : char) (s2 : str) (p2 : cur) : rnext :=
  let '(s3, p3) := consume s2 p2 in
  match s3 with
  | [] => Ok (Some (invalid_string file [] Unclosed st (get_pos p3), s3, p3))
  | q :: _ =>
      if N.eqb q c_squote then
        let en := get_pos p3 in
        let '(s4, p4) := consume s3 p3 in
        Ok (Some (LTok (mktok (TChar cv) (mkrange st en) file), s4, p4))
      else Ok (Some (invalid_string file [cv] Unclosed st (get_pos p3), s3, p3))
  end.

Definition b_chr (file : option N) (s : str) (p : cur) : rnext :=
  let st := get_pos p in
  let '(s1, p1) := consume s p in
  match s1 with
  | [] => Ok (Some (invalid_string file [] Unclosed st (get_pos p1), s1, p1))
  | c1 :: _ =>
      if N.eqb c1 c_bslash then
        match escape_code s1 p1 with
        | Some (ec, s2, p2) => chr_cont file st ec s2 p2
        | None =>
            let en := get_pos p1 in
            let '(s2, p2) := skip_line s1 p1 in
            Ok (Some (invalid_string file [c1] InvalidEscapeSequence st en, s2, p2))
        end
      else if N.eqb c1 c_nl then
        Ok (Some (invalid_string file [c1] NewlineInString st (get_pos p1), s1, p1))
      else chr_cont file st c1 s1 p1
  end.

Definition b_sym (chk : bool) (file : option N) (c : char) (s : str) (p : cur) : rnext :=
  let st := get_pos p in
  if negb (is_symbol_item c) then
    let '(s', p') := consume s p in
    Ok (Some (LErrUnexpected (mktok (TSymbol [c]) (mkrange st st) file), s', p'))
  else
    let '(acc, s', p') := scan stop_symbol s p [] in
    let sym := rev acc in
    match s' with
    | _ :: colon :: _ =>
        if N.eqb colon c_colon then
          let '(s1, p1) := consume s' p' in
          let en := get_pos p1 in
          let '(s2, p2) := consume s1 p1 in
          Ok (Some (LTok (mktok (TLabel sym) (mkrange st en) file), s2, p2))
        else
          let en := get_pos p' in
          let '(s1, p1) := consume s' p' in
          fin chk (mktok (TSymbol sym) (mkrange st en) file) s1 p1
    | _ =>
        let en := get_pos p' in
        let '(s1, p1) := consume s' p' in
        fin chk (mktok (TSymbol sym) (mkrange st en) file) s1 p1
    end.

Definition body (rec : str -> cur -> rnext) (chk : bool) (file : option N) (s : str) (p : cur) : rnext :=
  match s with
  | [] => Ok None
  | c :: _ =>
      if N.eqb c c_nl then b_one chk file TNewline s p
      else if N.eqb c c_lparen then b_one chk file TLParen s p
      else if N.eqb c c_rparen then b_one chk file TRParen s p
      else if N.eqb c c_dot then b_dot rec chk file s p
      else if N.eqb c c_hash then b_hash chk file s p
      else if N.eqb c c_dquote then b_str chk file s p
      else if N.eqb c c_squote then b_chr file s p
      else b_sym chk file c s p
  end.

Lemma next_unfold f chk file s0 p0 :
  next (S f) chk file s0 p0 =
  let '(s1, p1) := skip_ws s0 p0 in
  do sp <- skip_dots (S (length s1)) s1 p1;
  let '(s, p) := sp in body (next f chk file) chk file s p.
Proof. reflexivity. Qed.

(* ---------------------------------------------------------------------------------- *)
(* What one call of [next] guarantees about the item it returns.                         *)

Definition item_ok (src : str) (file : option N) (it : lexitem) : Prop :=
  match it with
  | LTok t => range_ok src (trange t) /\ spelling_ok src t /\ tfile t = file
  | LErrUnexpected t => range_ok src (trange t) /\ tfile t = file /\
        exists c, tt t = TSymbol [c] /\ slice src (raw (rstart (trange t))) (raw (rend (trange t))) = [c]
  | LErrString t p _ => pos_ok src (rstart (trange t)) /\ pos_ok src p /\ rend (trange t) = p /\
        raw (rstart (trange t)) <= raw p <= N.of_nat (length src) /\
        line (rstart (trange t)) = line p /\ tfile t = file
  end.

(* the item's range lies in the stretch of text [lo, hi) consumed by this call *)
Definition item_in (lo hi : N) (it : lexitem) : Prop :=
  lo <= raw (rstart (item_range it)) /\
  match it with
  | LErrString _ _ _ => raw (rend (item_range it)) <= hi
  | _ => raw (rend (item_range it)) < hi
  end.

Definition no_final_nl (src : str) : Prop := exists q x, src = q ++ [x] /\ x <> c_nl.

Definition out_ok (src : str) (file : option N) (pre s : str) (r : rnext) : Prop :=
  exists it m s' p', r = Ok (Some (it, s', p')) /\ p' = advs (pre ++ m) cur0 /\
    s = m ++ s' /\ m <> [] /\
    ((item_ok src file it /\ item_in (lenN pre) (lenN pre + lenN m) it) \/
     (s' = [] /\ no_final_nl src /\ lenN pre <= raw (rstart (item_range it)))).

Definition spell (ty : ttype) (txt : str) : Prop :=
  match ty with
  | TLParen => txt = [c_lparen]
  | TRParen => txt = [c_rparen]
  | TNewline => txt = [c_nl]
  | TSymbol s => txt = s
  | TLabel s => txt = s ++ [c_colon]
  | TDirective d => txt = d
  | TComment c => txt = c_hash :: c
  | TString _ => exists body, txt = c_dquote :: body ++ [c_dquote]
  | TChar _ => exists body, txt = c_squote :: body ++ [c_squote]
  end.

Lemma spelling_ok_spell src t :
  spell (tt t) (slice src (raw (rstart (trange t))) (raw (rend (trange t)))) -> spelling_ok src t.
Proof. intros H. exact H. Qed.

Lemma geom_weak src pre mid rest : src = pre ++ mid ++ rest -> nonl mid ->
  let p := advs pre cur0 in let p' := advs mid p in
  pos_ok src (get_pos p) /\ pos_ok src (get_pos p') /\
  raw (get_pos p) = lenN pre /\ raw (get_pos p') = lenN pre + lenN mid /\
  line (get_pos p) = line (get_pos p') /\ column (get_pos p) <= column (get_pos p') /\
  lenN src = lenN pre + lenN mid + lenN rest.
Proof.
  intros Hs Hn p p'. subst p p'.
  split; [rewrite Hs; apply pos_ok_advs|].
  split; [rewrite <- advs_app, Hs, app_assoc; apply pos_ok_advs|].
  rewrite (advs_nonl mid _ Hn). unfold get_pos. cbn [raw line column cpos crow ccol].
  rewrite advs_cpos. unfold cur0 at 1 2. cbn [cpos].
  rewrite Hs, !lenN_app. repeat split; lia.
Qed.

Lemma check_tok_ok chk ty r file :
  line (rstart r) = line (rend r) -> column (rstart r) <= column (rend r) ->
  check_tok chk (mktok ty r file) = Ok (mktok ty r file).
Proof.
  intros H1 H2. unfold check_tok. cbn [trange]. destruct chk; [|reflexivity].
  rewrite H1, N.eqb_refl. cbn [negb].
  destruct (N.leb (column (rstart r)) (column (rend r))) eqn:E; [reflexivity|lia].
Qed.

Lemma out_tok chk src file pre mid l rest ty :
  src = pre ++ mid ++ l :: rest -> nonl mid -> spell ty (mid ++ [l]) ->
  let p := advs pre cur0 in
  let t := mktok ty (mkrange (get_pos p) (get_pos (advs mid p))) file in
  check_tok chk t = Ok t /\
  out_ok src file pre (mid ++ l :: rest) (Ok (Some (LTok t, rest, adv l (advs mid p)))).
Proof.
  intros Hs Hn Hsp p t.
  destruct (geom_weak src pre mid (l :: rest) Hs Hn) as [G1 [G2 [G3 [G4 [G5 [G6 G7]]]]]].
  fold p in G1, G2, G3, G4, G5, G6. rewrite lenN_cons in G7.
  split; [apply check_tok_ok; assumption|].
  exists (LTok t), (mid ++ [l]), rest, (adv l (advs mid p)).
  split; [reflexivity|].
  split; [subst p; rewrite adv_advs_end, <- advs_app; reflexivity|].
  split; [rewrite <- app_assoc; reflexivity|].
  split; [destruct mid; discriminate|].
  left. split.
  - cbn [item_ok]. subst t. cbn [trange tfile]. split; [|split; [|reflexivity]].
    + unfold range_ok. cbn [rstart rend]. rewrite length_lenN. repeat split; try assumption; lia.
    + apply spelling_ok_spell. cbn [tt trange rstart rend]. rewrite G3, G4, Hs, slice_mid. exact Hsp.
  - unfold item_in. cbn [item_range]. subst t. cbn [trange rstart rend].
    rewrite lenN_app, lenN_cons, lenN_nil. lia.
Qed.

(* the token reaches the very end of a text without final newline *)
Lemma out_exh chk src file pre m ty :
  src = pre ++ m -> m <> [] -> nonl m ->
  let p := advs pre cur0 in
  let t := mktok ty (mkrange (get_pos p) (get_pos (advs m p))) file in
  check_tok chk t = Ok t /\
  out_ok src file pre m (Ok (Some (LTok t, [], advs m p))).
Proof.
  intros Hs Hm Hn p t.
  assert (Hs' : src = pre ++ m ++ []) by (rewrite app_nil_r; exact Hs).
  destruct (geom_weak src pre m [] Hs' Hn) as [G1 [G2 [G3 [G4 [G5 [G6 G7]]]]]].
  fold p in G1, G2, G3, G4, G5, G6.
  split; [apply check_tok_ok; assumption|].
  exists (LTok t), m, [], (advs m p).
  split; [reflexivity|].
  split; [subst p; rewrite advs_app; reflexivity|].
  split; [rewrite app_nil_r; reflexivity|].
  split; [exact Hm|].
  right. split; [reflexivity|]. split.
  - destruct (exists_last Hm) as [q [x Hq]]. exists (pre ++ q), x. split.
    + rewrite Hs, Hq, app_assoc. reflexivity.
    + rewrite Hq in Hn. apply nonl_app_inv in Hn. destruct Hn as [_ Hx]. inversion Hx; assumption.
  - cbn [item_range]. subst t. cbn [trange rstart]. lia.
Qed.

Lemma out_errstr src file pre mid w s' ty k :
  src = pre ++ mid ++ w ++ s' -> nonl mid -> mid ++ w <> [] ->
  let p := advs pre cur0 in
  out_ok src file pre (mid ++ w ++ s')
    (Ok (Some (LErrString (mktok ty (mkrange (get_pos p) (get_pos (advs mid p))) file)
                 (get_pos (advs mid p)) k, s', advs w (advs mid p)))).
Proof.
  intros Hs Hn Hne p.
  destruct (geom_weak src pre mid (w ++ s') Hs Hn) as [G1 [G2 [G3 [G4 [G5 [G6 G7]]]]]].
  fold p in G1, G2, G3, G4, G5, G6.
  eexists _, (mid ++ w), s', _.
  split; [reflexivity|].
  split; [subst p; rewrite <- !advs_app; reflexivity|].
  split; [rewrite <- app_assoc; reflexivity|].
  split; [exact Hne|].
  left. split.
  - cbn [item_ok trange tfile rstart rend]. rewrite length_lenN.
    repeat split; try assumption; try reflexivity; lia.
  - unfold item_in. cbn [item_range trange rstart rend]. rewrite lenN_app. lia.
Qed.

Lemma out_unexpected src file pre c rest :
  src = pre ++ c :: rest ->
  let p := advs pre cur0 in
  out_ok src file pre (c :: rest)
    (Ok (Some (LErrUnexpected (mktok (TSymbol [c]) (mkrange (get_pos p) (get_pos p)) file), rest, adv c p))).
Proof.
  intros Hs p.
  assert (Hs' : src = pre ++ [] ++ c :: rest) by exact Hs.
  destruct (geom_weak src pre [] (c :: rest) Hs' (Forall_nil _)) as [G1 [G2 [G3 [G4 [G5 [G6 G7]]]]]].
  fold p in G1, G2, G3, G4, G5, G6. rewrite advs_nil in *. rewrite lenN_cons in G7. rewrite lenN_nil in *.
  eexists _, [c], rest, _.
  split; [reflexivity|].
  split; [subst p; rewrite advs_app; reflexivity|].
  split; [reflexivity|].
  split; [discriminate|].
  left. split.
  - cbn [item_ok trange tfile rstart rend tt]. split; [|split; [reflexivity|]].
    + unfold range_ok. cbn [rstart rend]. rewrite length_lenN. repeat split; try assumption; lia.
    + exists c. split; [reflexivity|]. rewrite G3.
      replace (lenN pre) with (lenN pre + lenN []) at 2 by (rewrite lenN_nil; lia).
      rewrite Hs'. rewrite slice_mid. reflexivity.
  - unfold item_in. cbn [item_range trange rstart rend]. rewrite lenN_cons, lenN_nil. lia.
Qed.

Lemma out_ok_weaken src file pre w s r :
  out_ok src file (pre ++ w) s r -> out_ok src file pre (w ++ s) r.
Proof.
  intros [it [m [s' [p' [H1 [H2 [H3 [H4 H5]]]]]]]].
  exists it, (w ++ m), s', p'.
  split; [exact H1|].
  split; [rewrite H2, app_assoc; reflexivity|].
  split; [rewrite H3, app_assoc; reflexivity|].
  split; [destruct w; [exact H4|discriminate]|].
  rewrite lenN_app in H5.
  destruct H5 as [[Ha [Hb Hc]]|[Ha [Hb Hc]]].
  - left. split; [exact Ha|]. unfold item_in. rewrite lenN_app.
    split; [lia|]. destruct it; lia.
  - right. repeat split; try assumption. lia.
Qed.

(* ---------------------------------------------------------------------------------- *)
(* One lemma per token kind.                                                             *)

Lemma sym_item_nonl x : is_symbol_item x = true -> x <> c_nl.
Proof. intros H ->. discriminate. Qed.

Lemma sym_char_nonl x : is_symbol_char x = true -> x <> c_nl.
Proof. intros H ->. discriminate. Qed.

Lemma fin_out chk t s p src file pre s0 :
  check_tok chk t = Ok t -> out_ok src file pre s0 (Ok (Some (LTok t, s, p))) ->
  out_ok src file pre s0 (fin chk t s p).
Proof. intros Hc Ho. unfold fin. rewrite Hc. exact Ho. Qed.

Lemma b_one_ok chk src file pre c rest ty :
  src = pre ++ c :: rest -> spell ty [c] ->
  out_ok src file pre (c :: rest) (b_one chk file ty (c :: rest) (advs pre cur0)).
Proof.
  intros Hs Hsp. unfold b_one, get_range. cbn [consume].
  destruct (out_tok chk src file pre [] c rest ty Hs (Forall_nil _) Hsp) as [Hc Ho].
  rewrite advs_nil in *. apply fin_out; [exact Hc|exact Ho].
Qed.

Lemma str_eqb_long d : (2 <= length d)%nat -> str_eqb d [c_dot] = false.
Proof.
  destruct d as [|a [|b t]]; cbn [length]; try lia. intros _.
  cbn [str_eqb]. apply andb_false_r.
Qed.

Lemma b_dot_ok rec chk src file pre r :
  src = pre ++ c_dot :: r -> lone_dot (c_dot :: r) = false ->
  out_ok src file pre (c_dot :: r) (b_dot rec chk file (c_dot :: r) (advs pre cur0)).
Proof.
  intros Hs Hl. unfold b_dot.
  assert (Hr : exists n r', r = n :: r' /\ is_symbol_char n = true).
  { cbn in Hl. destruct r as [|n r']; [discriminate|]. cbn in Hl.
    exists n, r'. split; [reflexivity|]. destruct (is_symbol_char n); [reflexivity|discriminate]. }
  destruct Hr as [n [r' [Hr Hn]]].
  destruct (scan stop_directive (c_dot :: r) (advs pre cur0) []) as [[acc s'] p'] eqn:Esc.
  apply (scan_spec stop_directive (fun x => x <> c_nl)) in Esc.
  2:{ intros x Hx. cbn in Hx. apply sym_char_nonl. destruct (is_symbol_char x); [reflexivity|discriminate]. }
  2:{ discriminate. }
  destruct Esc as [[mid [l [rest [H1 [H2 [H3 [H4 [H5 H6]]]]]]]]|[H1 [H2 [H3 [H4 H5]]]]].
  - cbn [rev app] in H4. subst s' p'. cbn [consume]. rewrite H4.
    assert (Hmid : mid <> []).
    { intros ->. cbn [app] in H1. inversion H1; subst. cbn in H5. rewrite Hn in H5. discriminate. }
    rewrite str_eqb_long by (rewrite app_length; cbn [length]; destruct mid; [contradiction|cbn [length]; lia]).
    apply nonl_app_inv in H6. destruct H6 as [H6 _].
    rewrite H1 in Hs |- *.
    destruct (out_tok chk src file pre mid l rest (TDirective (mid ++ [l])) Hs H6 eq_refl) as [Hc Ho].
    apply fin_out; [exact Hc|exact Ho].
  - cbn [rev app] in H3. subst s' p'. cbn [consume]. rewrite H3.
    rewrite str_eqb_long by (subst r; cbn [length]; lia).
    destruct (out_exh chk src file pre (c_dot :: r) (TDirective (c_dot :: r)) Hs ltac:(discriminate) H4) as [Hc Ho].
    apply fin_out; [exact Hc|exact Ho].
Qed.

Lemma b_hash_ok chk src file pre r :
  src = pre ++ c_hash :: r ->
  out_ok src file pre (c_hash :: r) (b_hash chk file (c_hash :: r) (advs pre cur0)).
Proof.
  intros Hs. unfold b_hash.
  destruct (scan stop_comment (c_hash :: r) (advs pre cur0) []) as [[acc s'] p'] eqn:Esc.
  apply (scan_spec stop_comment (fun x => x <> c_nl)) in Esc.
  2:{ intros x Hx. cbn in Hx. apply N.eqb_neq. exact Hx. }
  2:{ discriminate. }
  destruct Esc as [[mid [l [rest [H1 [H2 [H3 [H4 [H5 H6]]]]]]]]|[H1 [H2 [H3 [H4 H5]]]]];
    [|discriminate].
  cbn [rev app] in H4. subst s' p'. cbn [consume]. rewrite H4.
  apply nonl_app_inv in H6. destruct H6 as [H6 _].
  rewrite H1 in Hs |- *.
  assert (Hsp : spell (TComment (match mid ++ [l] with _ :: b => b | [] => [] end)) (mid ++ [l])).
  { cbn [spell]. destruct mid as [|a mid'].
    - cbn [app] in *. inversion H1; subst. reflexivity.
    - cbn [app] in *. inversion H1; subst. reflexivity. }
  destruct (out_tok chk src file pre mid l rest _ Hs H6 Hsp) as [Hc Ho].
  apply fin_out; [exact Hc|exact Ho].
Qed.

Lemma b_str_ok chk src file pre r :
  src = pre ++ c_dquote :: r ->
  out_ok src file pre (c_dquote :: r) (b_str chk file (c_dquote :: r) (advs pre cur0)).
Proof.
  intros Hs. unfold b_str. cbn [consume].
  destruct (acc_string_spec (S (length r)) r (adv c_dquote (advs pre cur0)) []) as [res [Hr Hp]]; [lia|].
  rewrite Hr. cbn [bind].
  assert (Hq : nonl [c_dquote]) by (apply nonl_one; discriminate).
  destruct res as [[[text s2] p2]|[[[epos k] s2] p2]]; cbn [acc_post] in Hp.
  - destruct Hp as [m [rest [H1 [H2 [H3 H4]]]]]. subst s2 p2. cbn [consume].
    rewrite H1 in Hs |- *.
    destruct (out_tok chk src file pre (c_dquote :: m) c_dquote rest (TString text) Hs) as [Hc Ho].
    { apply (nonl_app [c_dquote] m); assumption. }
    { cbn [spell]. exists m. reflexivity. }
    apply fin_out; [exact Hc|exact Ho].
  - destruct Hp as [He [m [H1 [H2 H3]]]]. subst epos.
    destruct (skip_line s2 p2) as [s3 p3] eqn:Esl.
    apply skip_line_spec in Esl. destruct Esl as [w [Hw1 Hw2]].
    subst p3 p2 s2. rewrite H1 in Hs |- *.
    pose proof (out_errstr src file pre (c_dquote :: m) w s3 (TString []) k Hs) as Ho.
    apply Ho.
    + apply (nonl_app [c_dquote] m); assumption.
    + discriminate.
Qed.

Lemma chr_cont_ok src file pre mid0 x rest cv :
  src = pre ++ (c_squote :: mid0) ++ x :: rest -> nonl mid0 -> x <> c_nl ->
  out_ok src file pre ((c_squote :: mid0) ++ x :: rest)
    (chr_cont file (get_pos (advs pre cur0)) cv (x :: rest) (advs (c_squote :: mid0) (advs pre cur0))).
Proof.
  intros Hs Hn Hx. unfold chr_cont. cbn [consume]. rewrite adv_advs_end.
  set (mid := c_squote :: mid0) in *.
  assert (Hmid : nonl (mid ++ [x])).
  { apply nonl_app; [|apply nonl_one; exact Hx].
    subst mid. apply (nonl_app [c_squote] mid0); [apply nonl_one; discriminate|exact Hn]. }
  assert (Hs' : src = pre ++ (mid ++ [x]) ++ rest) by (rewrite <- app_assoc; exact Hs).
  assert (Hgoal : forall partial, out_ok src file pre (mid ++ x :: rest)
    (Ok (Some (invalid_string file partial Unclosed (get_pos (advs pre cur0))
                 (get_pos (advs (mid ++ [x]) (advs pre cur0))), rest, advs (mid ++ [x]) (advs pre cur0))))).
  { intros partial. unfold invalid_string.
    pose proof (out_errstr src file pre (mid ++ [x]) [] rest (TString partial) Unclosed) as Ho.
    cbn [app] in Ho. rewrite advs_nil in Ho.
    replace (mid ++ x :: rest) with ((mid ++ [x]) ++ rest) by (rewrite <- app_assoc; reflexivity).
    apply Ho; [exact Hs'|exact Hmid|]. rewrite app_nil_r. subst mid. discriminate. }
  destruct rest as [|q rest'].
  - apply Hgoal.
  - destruct (N.eqb q c_squote) eqn:Eq.
    + apply N.eqb_eq in Eq. subst q. cbn [consume].
      destruct (out_tok true src file pre (mid ++ [x]) c_squote rest' (TChar cv) Hs' Hmid) as [_ Ho].
      { cbn [spell]. exists (mid0 ++ [x]). subst mid. reflexivity. }
      rewrite <- app_assoc in Ho. exact Ho.
    + apply Hgoal.
Qed.

Lemma b_chr_ok src file pre r :
  src = pre ++ c_squote :: r ->
  out_ok src file pre (c_squote :: r) (b_chr file (c_squote :: r) (advs pre cur0)).
Proof.
  intros Hs. unfold b_chr. cbn [consume].
  assert (Hq : nonl [c_squote]) by (apply nonl_one; discriminate).
  assert (Hstop : forall partial k w s', r = w ++ s' ->
    out_ok src file pre (c_squote :: r)
      (Ok (Some (invalid_string file partial k (get_pos (advs pre cur0))
                   (get_pos (adv c_squote (advs pre cur0))), s', advs w (adv c_squote (advs pre cur0)))))).
  { intros partial k w s' Hr. unfold invalid_string. subst r.
    apply (out_errstr src file pre [c_squote] w s' (TString partial) k Hs Hq). discriminate. }
  destruct r as [|c1 r1].
  - apply (Hstop [] Unclosed [] []). reflexivity.
  - destruct (N.eqb c1 c_bslash) eqn:Eb.
    + destruct (escape_code (c1 :: r1) (adv c_squote (advs pre cur0))) as [[[ec s2] p2]|] eqn:Ee.
      * apply escape_code_spec in Ee.
        2:{ apply N.eqb_eq in Eb. subst c1. discriminate. }
        destruct Ee as [m [x [rest [H1 [H2 [H3 [H4 [H5 H6]]]]]]]].
        subst s2 p2. rewrite H1 in Hs |- *.
        apply (chr_cont_ok src file pre m x rest ec Hs H4 H5).
      * destruct (skip_line (c1 :: r1) (adv c_squote (advs pre cur0))) as [s2 p2] eqn:Esl.
        apply skip_line_spec in Esl. destruct Esl as [w [Hw1 Hw2]]. subst p2.
        apply Hstop. exact Hw1.
    + destruct (N.eqb c1 c_nl) eqn:Enl.
      * apply (Hstop [c1] NewlineInString [] (c1 :: r1)). reflexivity.
      * apply N.eqb_neq in Enl.
        apply (chr_cont_ok src file pre [] c1 r1 c1 Hs (Forall_nil _) Enl).
Qed.

Lemma b_sym_ok chk src file pre c r :
  src = pre ++ c :: r ->
  out_ok src file pre (c :: r) (b_sym chk file c (c :: r) (advs pre cur0)).
Proof.
  intros Hs. unfold b_sym.
  destruct (is_symbol_item c) eqn:Ec; cbn [negb].
  2:{ cbn [consume]. apply out_unexpected. exact Hs. }
  destruct (scan stop_symbol (c :: r) (advs pre cur0) []) as [[acc s'] p'] eqn:Esc.
  apply (scan_spec stop_symbol (fun x => x <> c_nl)) in Esc.
  2:{ intros x Hx. cbn in Hx. apply sym_item_nonl. destruct (is_symbol_item x); [reflexivity|discriminate]. }
  2:{ apply sym_item_nonl. exact Ec. }
  destruct Esc as [[mid [l [rest [H1 [H2 [H3 [H4 [H5 H6]]]]]]]]|[H1 [H2 [H3 [H4 H5]]]]].
  - cbn [rev app] in H4. subst s' p'. rewrite H4.
    pose proof H6 as H6'. apply nonl_app_inv in H6. destruct H6 as [H6 _].
    rewrite H1 in Hs |- *.
    assert (Hsym : out_ok src file pre (mid ++ l :: rest)
      (let en := get_pos (advs mid (advs pre cur0)) in
       let '(s1, p1) := consume (l :: rest) (advs mid (advs pre cur0)) in
       fin chk (mktok (TSymbol (mid ++ [l])) (mkrange (get_pos (advs pre cur0)) en) file) s1 p1)).
    { cbn [consume].
      destruct (out_tok chk src file pre mid l rest (TSymbol (mid ++ [l])) Hs H6 eq_refl) as [Hc Ho].
      apply fin_out; [exact Hc|exact Ho]. }
    destruct rest as [|colon rest']; [exact Hsym|].
    destruct (N.eqb colon c_colon) eqn:Ecol; [|exact Hsym].
    apply N.eqb_eq in Ecol. subst colon. cbn [consume]. rewrite adv_advs_end.
    assert (Hs' : src = pre ++ (mid ++ [l]) ++ c_colon :: rest') by (rewrite <- app_assoc; exact Hs).
    destruct (out_tok true src file pre (mid ++ [l]) c_colon rest' (TLabel (mid ++ [l])) Hs' H6' eq_refl) as [_ Ho].
    rewrite <- app_assoc in Ho. exact Ho.
  - cbn [rev app] in H3. subst s' p'. rewrite H3. cbn [consume].
    destruct (out_exh chk src file pre (c :: r) (TSymbol (c :: r)) Hs ltac:(discriminate) H4) as [Hc Ho].
    apply fin_out; [exact Hc|exact Ho].
Qed.

Lemma body_spec rec chk src file pre s :
  src = pre ++ s -> lone_dot s = false ->
  (s = [] /\ body rec chk file s (advs pre cur0) = Ok None) \/
  out_ok src file pre s (body rec chk file s (advs pre cur0)).
Proof.
  intros Hs Hl. destruct s as [|c r]; [left; split; reflexivity|]. right.
  unfold body.
  destruct (N.eqb c c_nl) eqn:E1.
  { apply N.eqb_eq in E1. subst c. apply b_one_ok; [exact Hs|reflexivity]. }
  destruct (N.eqb c c_lparen) eqn:E2.
  { apply N.eqb_eq in E2. subst c. apply b_one_ok; [exact Hs|reflexivity]. }
  destruct (N.eqb c c_rparen) eqn:E3.
  { apply N.eqb_eq in E3. subst c. apply b_one_ok; [exact Hs|reflexivity]. }
  destruct (N.eqb c c_dot) eqn:E4.
  { apply N.eqb_eq in E4. subst c. apply b_dot_ok; assumption. }
  destruct (N.eqb c c_hash) eqn:E5.
  { apply N.eqb_eq in E5. subst c. apply b_hash_ok; assumption. }
  destruct (N.eqb c c_dquote) eqn:E6.
  { apply N.eqb_eq in E6. subst c. apply b_str_ok; assumption. }
  destruct (N.eqb c c_squote) eqn:E7.
  { apply N.eqb_eq in E7. subst c. apply b_chr_ok; assumption. }
  apply b_sym_ok. exact Hs.
Qed.

Lemma next_spec f chk src file pre s0 :
  src = pre ++ s0 ->
  next (S f) chk file s0 (advs pre cur0) = Ok None \/
  out_ok src file pre s0 (next (S f) chk file s0 (advs pre cur0)).
Proof.
  intros Hs. rewrite next_unfold.
  destruct (skip_ws s0 (advs pre cur0)) as [s1 p1] eqn:Ews.
  apply skip_ws_spec in Ews. destruct Ews as [m1 [Hm1 Hp1]].
  destruct (skip_dots_spec (S (length s1)) s1 p1) as [s [p [Hsd [[m2 [Hm2 Hp2]] Hl]]]]; [lia|].
  rewrite Hsd. cbn [bind].
  assert (Hp : p = advs (pre ++ m1 ++ m2) cur0).
  { rewrite Hp2, Hp1, !advs_app. reflexivity. }
  assert (Hs' : src = (pre ++ m1 ++ m2) ++ s).
  { rewrite Hs, Hm1, Hm2, <- !app_assoc. reflexivity. }
  rewrite Hp.
  destruct (body_spec (next f chk file) chk src file (pre ++ m1 ++ m2) s Hs' Hl) as [[_ H]|H].
  - left. exact H.
  - right. apply out_ok_weaken in H.
    replace s0 with ((m1 ++ m2) ++ s) by (rewrite Hm1, Hm2, <- app_assoc; reflexivity).
    exact H.
Qed.

(* ---------------------------------------------------------------------------------- *)
(* The loop.                                                                             *)

Definition before (a b : lexitem) : Prop :=
  raw (rend (item_range a)) < raw (rstart (item_range b)) \/
  (exists t p k, a = LErrString t p k /\ raw (rend (item_range a)) <= raw (rstart (item_range b))).

Definition ended (c : N) (a : lexitem) : Prop :=
  match a with
  | LErrString _ _ _ => raw (rend (item_range a)) <= c
  | _ => raw (rend (item_range a)) < c
  end.

Lemma ended_before c a b : ended c a -> c <= raw (rstart (item_range b)) -> before a b.
Proof.
  unfold ended, before. destruct a as [t|t p k|t]; intros H1 H2; try (left; lia).
  right. exists t, p, k. split; [reflexivity|lia].
Qed.

Lemma ended_mono c c' a : ended c a -> c <= c' -> ended c' a.
Proof. unfold ended. destruct a; lia. Qed.

Lemma item_in_ended lo hi it : item_in lo hi it -> lo <= raw (rstart (item_range it)) /\ ended hi it.
Proof. unfold item_in, ended. destruct it; intros [H1 H2]; split; assumption. Qed.

Lemma ssorted_snoc {A} (R : A -> A -> Prop) l x :
  StronglySorted R l -> Forall (fun a => R a x) l -> StronglySorted R (l ++ [x]).
Proof.
  induction 1 as [|a l Hs IH Hf]; intros Hx; cbn [app].
  - constructor; constructor.
  - inversion Hx; subst. constructor.
    + apply IH. assumption.
    + apply Forall_app. split; [assumption|]. constructor; [assumption|constructor].
Qed.

Lemma ssorted_nth {A} (R : A -> A -> Prop) l : StronglySorted R l ->
  forall i j a b, (i < j)%nat -> nth_error l i = Some a -> nth_error l j = Some b -> R a b.
Proof.
  induction 1 as [|x l Hs IH Hf]; intros i j a b Hij Ha Hb.
  - destruct i; discriminate.
  - destruct j as [|j]; [lia|]. destruct i as [|i]; cbn [nth_error] in Ha, Hb.
    + inversion Ha; subst. apply nth_error_In in Hb.
      rewrite Forall_forall in Hf. apply Hf. exact Hb.
    + apply (IH i j); [lia|assumption|assumption].
Qed.

Lemma no_final_nl_contra src : no_final_nl src -> ends_with_nl src -> False.
Proof.
  intros [q [x [H1 H2]]] [q' H3]. rewrite H3 in H1. apply app_inj_tail in H1.
  destruct H1 as [_ H1]. congruence.
Qed.

Lemma lex_loop_spec chk src file : forall fuel pre s acc,
  src = pre ++ s -> (length s < fuel)%nat ->
  StronglySorted before (rev acc) ->
  (s = [] \/ Forall (ended (lenN pre)) acc) ->
  (ends_with_nl src -> Forall (item_ok src file) acc) ->
  exists items, lex_loop fuel chk file s (advs pre cur0) acc = Ok items /\
    StronglySorted before items /\ (ends_with_nl src -> Forall (item_ok src file) items).
Proof.
  induction fuel as [|f IH]; intros pre s acc Hs Hf Hsort Hend Hok; [lia|].
  cbn [lex_loop].
  destruct (next_spec (length s) chk src file pre s Hs) as [Hn|Hn].
  - rewrite Hn. cbn [bind]. exists (rev acc). split; [reflexivity|]. split; [exact Hsort|].
    intros Hnl. apply Forall_rev. apply Hok. exact Hnl.
  - destruct Hn as [it [m [s' [p' [H1 [H2 [H3 [H4 H5]]]]]]]].
    rewrite H1. cbn [bind]. rewrite H2.
    assert (Hacc : Forall (ended (lenN pre)) acc).
    { destruct Hend as [He|He]; [|exact He]. subst s. destruct m; [contradiction|discriminate]. }
    assert (Hlo : lenN pre <= raw (rstart (item_range it))).
    { destruct H5 as [[_ Hin]|[_ [_ Hlo]]]; [|exact Hlo]. apply item_in_ended in Hin. tauto. }
    apply IH.
    + rewrite Hs, H3, app_assoc. reflexivity.
    + rewrite H3, app_length in Hf. destruct m; [contradiction|cbn [length] in Hf; lia].
    + cbn [rev]. apply ssorted_snoc; [exact Hsort|].
      apply Forall_rev. rewrite Forall_forall in Hacc |- *.
      intros a Ha. apply (ended_before (lenN pre)); [apply Hacc; exact Ha|exact Hlo].
    + destruct H5 as [[_ Hin]|[He _]]; [right|left; exact He].
      apply item_in_ended in Hin. destruct Hin as [_ Hin]. rewrite lenN_app.
      constructor; [exact Hin|].
      rewrite Forall_forall in Hacc |- *. intros a Ha.
      apply (ended_mono (lenN pre)); [apply Hacc; exact Ha|lia].
    + intros Hnl. constructor; [|apply Hok; exact Hnl].
      destruct H5 as [[Hi _]|[_ [Hno _]]]; [exact Hi|].
      exfalso. exact (no_final_nl_contra src Hno Hnl).
Qed.

Lemma lex_all_spec chk src file :
  exists items, lex_all chk file src = Ok items /\
    StronglySorted before items /\ (ends_with_nl src -> Forall (item_ok src file) items).
Proof.
  unfold lex_all.
  apply (lex_loop_spec chk src file (S (S (length src))) [] src []).
  - reflexivity.
  - lia.
  - constructor.
  - right. constructor.
  - intros _. constructor.
Qed.

(* ---------------------------------------------------------------------------------- *)
(* The two C09 theorems.                                                                 *)

Theorem token_range_exact :
  forall (chk : bool) (file : option N) (src : str), ends_with_nl src ->
    exists items, lex_all chk file src = Ok items /\
      forall it, In it items ->
        match it with
        | LTok t => range_ok src (trange t) /\ spelling_ok src t /\ tfile t = file
        | LErrUnexpected t => range_ok src (trange t) /\ tfile t = file /\
                              exists c, tt t = TSymbol [c] /\ slice src (raw (rstart (trange t))) (raw (rend (trange t))) = [c]
        | LErrString t p _ => pos_ok src (rstart (trange t)) /\ pos_ok src p /\ rend (trange t) = p /\
                              raw (rstart (trange t)) <= raw p <= N.of_nat (length src) /\
                              line (rstart (trange t)) = line p /\ tfile t = file
        end.
Proof.
  intros chk file src Hnl.
  destruct (lex_all_spec chk src file) as [items [H1 [_ H3]]].
  exists items. split; [exact H1|].
  intros it Hin. specialize (H3 Hnl). rewrite Forall_forall in H3.
  specialize (H3 it Hin). destruct it; exact H3.
Qed.

Theorem tokens_ordered :
  forall chk file src items, lex_all chk file src = Ok items ->
    forall i j a b, (i < j)%nat -> nth_error items i = Some a -> nth_error items j = Some b ->
      raw (rend (item_range a)) < raw (rstart (item_range b)) \/
      (exists t p k, a = LErrString t p k /\ raw (rend (item_range a)) <= raw (rstart (item_range b))).
Proof.
  intros chk file src items Hl i j a b Hij Ha Hb.
  destruct (lex_all_spec chk src file) as [items' [H1 [H2 _]]].
  rewrite Hl in H1. inversion H1; subst items'.
  exact (ssorted_nth before items H2 i j a b Hij Ha Hb).
Qed.
