(* Location parametricity, part 3: the value analysis of Model/Avail.v. *)
From Coq Require Import List ZArith NArith Bool Lia.
From RV.Model Require Import Base I32 Imm Lexer Isa Parser Reader Cfg Avail Live Lints.
From RV.Proofs Require Import ParamRel ParamCfg.
Import ListNotations.

Section Avail.
Variable P : loc -> loc -> Prop.
Notation Rn := (Rn P). Notation Rw := (Rw P). Notation Rr := (Rr P). Notation Rav := (Rav P). Notation Rt := (Rt P).
Notation Rc := (Rc P). Notation Rcs := (Rcs P). Notation Rg := (Rg P). Notation Rerr := (Rerr P).
Notation Rrm := (Rrm P). Notation Rmm := (Rmm P). Notation Rkv := (Rkv P).

Lemma Rav_refl a : is_addr a = false -> Rav a a. Proof. apply Rav_same. Qed.

Lemma aval_eqb_rel a1 a2 b1 b2 : Rav a1 a2 -> Rav b1 b2 -> aval_eqb a1 b1 = aval_eqb a2 b2.
Proof.
  intros Ha Hb. destruct Ha as [l1 l2 Hl|a Ha]; destruct Hb as [m1 m2 Hm|b Hb]; cbn.
  - rewrite (Rw_wv _ _ _ Hl), (Rw_wv _ _ _ Hm). reflexivity.
  - destruct b; try discriminate Hb; reflexivity.
  - destruct a; try discriminate Ha; reflexivity.
  - reflexivity.
Qed.
Lemma opt_aval_eqb_rel a1 a2 b1 b2 : rel_option Rav a1 a2 -> rel_option Rav b1 b2 -> opt_aval_eqb a1 b1 = opt_aval_eqb a2 b2.
Proof. intros Ha Hb. destruct Ha, Hb; cbn; try reflexivity. apply aval_eqb_rel; assumption. Qed.

Lemma rm_insert_rel r v1 v2 m1 m2 : Rrm m1 m2 -> Rav v1 v2 -> Rrm (rm_insert r v1 m1) (rm_insert r v2 m2).
Proof.
  intros Hm Hv. induction Hm as [|a b m1 m2 Hab Hm IH]; cbn.
  - repeat constructor; exact Hv.
  - destruct Hab as [k a1 a2 Ha]. destruct (N.eqb k r); [|destruct (N.ltb r k)]; repeat (constructor; auto).
Qed.
Lemma mm_insert_rel l v1 v2 m1 m2 : Rmm m1 m2 -> Rav v1 v2 -> Rmm (mm_insert l v1 m1) (mm_insert l v2 m2).
Proof.
  intros Hm Hv. induction Hm as [|a b m1 m2 Hab Hm IH]; cbn.
  - repeat constructor; exact Hv.
  - destruct Hab as [k a1 a2 Ha]. destruct (memloc_eqb k l); [|destruct (memloc_ltb l k)]; repeat (constructor; auto).
Qed.
Lemma rm_meet_rel a1 a2 b1 b2 : Rrm a1 a2 -> Rrm b1 b2 -> Rrm (rm_meet a1 b1) (rm_meet a2 b2).
Proof.
  intros Ha Hb. unfold rm_meet. apply F2_filter; [exact Ha|]. intros x y Hxy. destruct Hxy as [k v1 v2 Hv]. cbn [fst snd].
  apply opt_aval_eqb_rel; [apply rm_get_rel; exact Hb|constructor; exact Hv].
Qed.
Lemma mm_meet_rel a1 a2 b1 b2 : Rmm a1 a2 -> Rmm b1 b2 -> Rmm (mm_meet a1 b1) (mm_meet a2 b2).
Proof.
  intros Ha Hb. unfold mm_meet. apply F2_filter; [exact Ha|]. intros x y Hxy. destruct Hxy as [k v1 v2 Hv]. cbn [fst snd].
  apply opt_aval_eqb_rel; [apply mm_get_rel; exact Hb|constructor; exact Hv].
Qed.
Lemma rm_eqb_rel a1 a2 : Rrm a1 a2 -> forall b1 b2, Rrm b1 b2 -> rm_eqb a1 b1 = rm_eqb a2 b2.
Proof.
  induction 1 as [|x y a1 a2 Hxy Ha IH]; intros b1 b2 Hb; destruct Hb as [|u w b1 b2 Huw Hb]; cbn; try reflexivity.
  - destruct Hxy; reflexivity.
  - destruct Hxy as [k v1 v2 Hv]. destruct Huw as [l w1 w2 Hw]. rewrite (aval_eqb_rel _ _ _ _ Hv Hw), (IH _ _ Hb). reflexivity.
Qed.
Lemma mm_eqb_rel a1 a2 : Rmm a1 a2 -> forall b1 b2, Rmm b1 b2 -> mm_eqb a1 b1 = mm_eqb a2 b2.
Proof.
  induction 1 as [|x y a1 a2 Hxy Ha IH]; intros b1 b2 Hb; destruct Hb as [|u w b1 b2 Huw Hb]; cbn; try reflexivity.
  - destruct Hxy; reflexivity.
  - destruct Hxy as [k v1 v2 Hv]. destruct Huw as [l w1 w2 Hw]. rewrite (aval_eqb_rel _ _ _ _ Hv Hw), (IH _ _ Hb). reflexivity.
Qed.
Lemma rm_remove_set_rel s m1 m2 : Rrm m1 m2 -> Rrm (rm_remove_set s m1) (rm_remove_set s m2).
Proof. intros H. unfold rm_remove_set. apply F2_filter; [exact H|]. intros a b Hab; destruct Hab; reflexivity. Qed.
Lemma rm_extend_originals_rel s m1 m2 : Rrm m1 m2 -> Rrm (rm_extend_originals s m1) (rm_extend_originals s m2).
Proof.
  intros H. unfold rm_extend_originals. apply fold_left_same; [exact H|]. intros x y r Hxy.
  apply rm_insert_rel; [exact Hxy|]. apply Rav_same; reflexivity.
Qed.
Lemma stack_offset_rel m1 m2 : Rrm m1 m2 -> stack_offset m1 = stack_offset m2.
Proof.
  intros H. unfold stack_offset. destruct (rm_get_rel P 2%N _ _ H) as [|a b Hab]; [reflexivity|]. destruct Hab; reflexivity.
Qed.
Lemma is_original_value_rel m1 m2 r : Rrm m1 m2 -> is_original_value m1 r = is_original_value m2 r.
Proof.
  intros H. unfold is_original_value. destruct (rm_get_rel P r _ _ H) as [|a b Hab]; [reflexivity|]. destruct Hab; reflexivity.
Qed.

(* one step through a pair of matches on related scrutinees *)
Ltac rel_match :=
  match goal with
  | |- Forall2 _ (match rm_get ?r ?m1 with _ => _ end) (match rm_get ?r ?m2 with _ => _ end) =>
      let Ha := fresh "Ha" in let a := fresh "a" in
      destruct (rm_get_rel P r m1 m2 ltac:(assumption)) as [|? ? Ha];
      [|destruct Ha as [? ? Ha|a Ha]; [|destruct a; try discriminate Ha]]
  | |- Forall2 _ (match mm_get ?r ?m1 with _ => _ end) (match mm_get ?r ?m2 with _ => _ end) =>
      let Ha := fresh "Ha" in let a := fresh "a" in
      destruct (mm_get_rel P r m1 m2 ltac:(assumption)) as [|? ? Ha]
  | |- Forall2 _ (match ?x with _ => _ end) (match ?x with _ => _ end) => destruct x
  end.
Ltac rel_solve :=
  repeat rel_match; try assumption;
  try (apply rm_insert_rel; [assumption|]); try (apply mm_insert_rel; [assumption|]);
  try assumption; try (apply Rav_refl; reflexivity).

Lemma rule_expand_address_for_load_rel n1 n2 o1 o2 i1 i2 : Rn n1 n2 -> Rrm o1 o2 -> Rrm i1 i2 ->
  Rrm (rule_expand_address_for_load n1 o1 i1) (rule_expand_address_for_load n2 o2 i2).
Proof.
  intros Hn Ho Hi. unfold Rrm in *. destruct Hn; cbn; try assumption. inv_tok. cbn [wv].
  rel_solve. destruct Ha. cbn. apply Rav_same; reflexivity.
Qed.

Lemma rule_value_from_stack_rel n1 n2 o1 o2 m1 m2 : Rn n1 n2 -> Rrm o1 o2 -> Rmm m1 m2 ->
  Rrm (rule_value_from_stack n1 o1 m1) (rule_value_from_stack n2 o2 m2).
Proof.
  intros Hn Ho Hm. unfold rule_value_from_stack, Rrm, Rmm in *.
  destruct (writes_to_rel _ _ _ Hn) as [|d1 d2 Hd]; [exact Ho|]. rewrite (Rw_wv _ _ _ Hd), (loads_word_rel _ _ _ Hn).
  cbv zeta.
  match goal with |- Forall2 _ (match rm_get _ ?a with _ => _ end) (match rm_get _ ?b with _ => _ end) =>
    assert (H1 : Forall2 Rkv a b) by rel_solve end.
  rel_solve.
Qed.

Lemma rule_pull_value_from_csr_memory_rel n1 n2 o1 o2 m1 m2 : Rn n1 n2 -> Rrm o1 o2 -> Rmm m1 m2 ->
  Rrm (rule_pull_value_from_csr_memory n1 o1 m1) (rule_pull_value_from_csr_memory n2 o2 m2).
Proof.
  intros Hn Ho Hm. unfold rule_pull_value_from_csr_memory, Rrm, Rmm in *. rewrite (reads_from_memory_rel _ _ _ Hn).
  destruct (reads_from_memory n2) as [[[r off] dest]|]; [|exact Ho]. rel_solve.
Qed.

Lemma zero_based_rel a1 a2 : Rav a1 a2 -> zero_based a1 = zero_based a2.
Proof. destruct 1; reflexivity. Qed.

Lemma rule_zero_to_const_reg_rel o1 o2 i1 i2 : Rrm o1 o2 -> Rrm i1 i2 ->
  Rrm (rule_zero_to_const_reg o1 i1) (rule_zero_to_const_reg o2 i2).
Proof.
  intros Ho Hi. unfold rule_zero_to_const_reg. apply (fold_left_rel Rrm Rkv); [exact Hi|exact Ho|].
  intros x y c d Hxy Hcd. destruct Hcd as [k a1 a2 Ha]. cbn [fst snd]. rewrite (zero_based_rel _ _ Ha).
  destruct (zero_based a2); [|exact Hxy].
  rewrite (opt_aval_eqb_rel _ _ _ _ (rm_get_rel P k _ _ Hxy) (ro_some _ _ _ Ha)).
  destruct (opt_aval_eqb _ _); [|exact Hxy]. apply rm_insert_rel; [exact Hxy|]. apply Rav_same; reflexivity.
Qed.
Lemma rule_zero_to_const_mem_rel o1 o2 i1 i2 : Rmm o1 o2 -> Rmm i1 i2 ->
  Rmm (rule_zero_to_const_mem o1 i1) (rule_zero_to_const_mem o2 i2).
Proof.
  intros Ho Hi. unfold rule_zero_to_const_mem. apply (fold_left_rel Rmm Rkv); [exact Hi|exact Ho|].
  intros x y c d Hxy Hcd. destruct Hcd as [k a1 a2 Ha]. cbn [fst snd]. rewrite (zero_based_rel _ _ Ha).
  destruct (zero_based a2); [|exact Hxy].
  rewrite (opt_aval_eqb_rel _ _ _ _ (mm_get_rel P k _ _ Hxy) (ro_some _ _ _ Ha)).
  destruct (opt_aval_eqb _ _); [|exact Hxy]. apply mm_insert_rel; [exact Hxy|]. apply Rav_same; reflexivity.
Qed.

Definition math_result (n : pnode) (lhs rhs : option aval) : option aval :=
  match lhs, rhs with
  | Some (AConst x), Some (AConst y) => option_map (fun op => AConst (operate op x y)) (math_op (node_inst n))
  | Some (AOrig r x), Some (AConst y) => option_map (fun op => AOrig r (operate op x y)) (scalar_op (node_inst n))
  | Some (AConst x), Some (AOrig r y) =>
      match scalar_op (node_inst n) with Some MAdd => Some (AOrig r (operate MAdd x y)) | _ => None end
  | _, _ => None
  end.
Definition math_lhs (n : pnode) (rin : regmap) : option aval :=
  match n with
  | PArith _ _ rs1 _ _ => rm_get (wv rs1) rin
  | PIArith _ _ rs1 _ _ => rm_get (wv rs1) rin
  | _ => None end.
Definition math_rhs (n : pnode) (rin : regmap) : option aval :=
  match n with
  | PArith _ _ _ rs2 _ => rm_get (wv rs2) rin
  | PIArith _ _ _ imm _ => Some (AConst (wv imm))
  | _ => None end.
Lemma rule_perform_math_ops_eq n out rin :
  rule_perform_math_ops n out rin =
  match writes_to n with
  | Some dst => match math_result n (math_lhs n rin) (math_rhs n rin) with Some v => rm_insert (wv dst) v out | None => out end
  | None => out
  end.
Proof. reflexivity. Qed.

Lemma math_lhs_rel n1 n2 i1 i2 : Rn n1 n2 -> Rrm i1 i2 -> rel_option Rav (math_lhs n1 i1) (math_lhs n2 i2).
Proof. intros Hn Hi. destruct Hn; cbn; try constructor; inv_tok; cbn [wv]; apply rm_get_rel; exact Hi. Qed.
Lemma math_rhs_rel n1 n2 i1 i2 : Rn n1 n2 -> Rrm i1 i2 -> rel_option Rav (math_rhs n1 i1) (math_rhs n2 i2).
Proof.
  intros Hn Hi. destruct Hn; cbn; try constructor; inv_tok; cbn [wv]; try (apply rm_get_rel; exact Hi).
  apply Rav_same; reflexivity.
Qed.
Lemma math_result_rel n1 n2 l1 l2 r1 r2 : Rn n1 n2 -> rel_option Rav l1 l2 -> rel_option Rav r1 r2 ->
  rel_option Rav (math_result n1 l1 r1) (math_result n2 l2 r2).
Proof.
  intros Hn Hl Hr. unfold math_result. rewrite (node_inst_rel _ _ _ Hn).
  destruct Hl as [|a b Hab]; [constructor|]. destruct Hab as [? ? ?|a Ha]; [constructor|].
  destruct Hr as [|c d Hcd]; [destruct a; constructor|]. destruct Hcd as [? ? ?|c Hc]; [destruct a; constructor|].
  destruct a; try constructor; destruct c; try constructor.
  - destruct (math_op _); cbn; constructor. apply Rav_same; reflexivity.
  - destruct (scalar_op _) as [[]|]; constructor. apply Rav_same; reflexivity.
  - destruct (scalar_op _); cbn; constructor. apply Rav_same; reflexivity.
Qed.
Lemma rule_perform_math_ops_rel n1 n2 o1 o2 i1 i2 : Rn n1 n2 -> Rrm o1 o2 -> Rrm i1 i2 ->
  Rrm (rule_perform_math_ops n1 o1 i1) (rule_perform_math_ops n2 o2 i2).
Proof.
  intros Hn Ho Hi. rewrite !rule_perform_math_ops_eq.
  destruct (writes_to_rel _ _ _ Hn) as [|d1 d2 Hd]; [exact Ho|]. rewrite (Rw_wv _ _ _ Hd).
  destruct (math_result_rel _ _ _ _ _ _ Hn (math_lhs_rel _ _ _ _ Hn Hi) (math_rhs_rel _ _ _ _ Hn Hi)); [exact Ho|].
  apply rm_insert_rel; assumption.
Qed.

Lemma rule_push_value_to_csr_memory_rel n1 n2 m1 m2 o1 o2 : Rn n1 n2 -> Rmm m1 m2 -> Rrm o1 o2 ->
  Rmm (rule_push_value_to_csr_memory n1 m1 o1) (rule_push_value_to_csr_memory n2 m2 o2).
Proof.
  intros Hn Hm Ho. unfold rule_push_value_to_csr_memory, Rrm, Rmm in *. rewrite (stores_to_memory_rel _ _ _ Hn).
  destruct (stores_to_memory n2) as [[src [r off]]|]; [|exact Hm]. rel_solve.
Qed.

Lemma rule_known_values_to_stack_rel m1 m2 i1 i2 : Rmm m1 m2 -> Rrm i1 i2 ->
  Rmm (rule_known_values_to_stack m1 i1) (rule_known_values_to_stack m2 i2).
Proof.
  intros Hm Hi. unfold rule_known_values_to_stack. apply (fold_left_rel Rmm Rkv); [exact Hm|exact Hm|].
  intros x y c d Hxy Hcd. destruct Hcd as [k a1 a2 Ha]. cbn [fst snd]. unfold Rrm, Rmm in *.
  destruct Ha as [? ? ?|a Ha]; [exact Hxy|]. destruct a; try exact Hxy. rel_solve.
Qed.

Lemma set_avail_rel c1 c2 ri1 ri2 ro1 ro2 mi1 mi2 mo1 mo2 : Rc c1 c2 -> Rrm ri1 ri2 -> Rrm ro1 ro2 -> Rmm mi1 mi2 -> Rmm mo1 mo2 ->
  Rc (set_avail c1 ri1 ro1 mi1 mo1) (set_avail c2 ri2 ro2 mi2 mo2).
Proof. destruct 1; intros; constructor; assumption. Qed.

Lemma known_ecall_signature_rel c1 c2 : Rc c1 c2 -> known_ecall_signature c1 = known_ecall_signature c2.
Proof. intros Hc. unfold known_ecall_signature. rewrite (known_ecall_rel _ _ _ Hc). reflexivity. Qed.

Lemma meet_regs_rel g1 g2 ps v : Rcs g1 g2 -> Rrm (meet_regs g1 ps v) (meet_regs g2 ps v).
Proof.
  intros H. unfold meet_regs. destruct (filter _ ps) as [|p ps']; [constructor|].
  apply fold_left_same.
  - destruct (getn_rel _ _ _ p H) as [|c1 c2 Hc]; [constructor|]. apply Rc_rout; exact Hc.
  - intros x y q Hxy. destruct (getn_rel _ _ _ q H) as [|c1 c2 Hc]; [exact Hxy|].
    apply rm_meet_rel; [exact Hxy|]. apply Rc_rout; exact Hc.
Qed.
Lemma meet_mems_rel g1 g2 ps v : Rcs g1 g2 -> Rmm (meet_mems g1 ps v) (meet_mems g2 ps v).
Proof.
  intros H. unfold meet_mems. destruct (filter _ ps) as [|p ps']; [constructor|].
  apply fold_left_same.
  - destruct (getn_rel _ _ _ p H) as [|c1 c2 Hc]; [constructor|]. apply Rc_mout; exact Hc.
  - intros x y q Hxy. destruct (getn_rel _ _ _ q H) as [|c1 c2 Hc]; [exact Hxy|].
    apply mm_meet_rel; [exact Hxy|]. apply Rc_mout; exact Hc.
Qed.

(* ---- the transfer function, cut into pieces ---- *)
Definition at_overwritten (c : cnode) (ri : regmap) (mi : memmap) : regset :=
  let n := cn c in
  let c_in := set_avail c ri (rout c) mi (mout c) in
  let ow1 := kill_reg n in
  let ow2 := match calls_to n with Some _ => rs_union ow1 return_addr_set | None => ow1 end in
  if is_ecall n then
    rs_union ow2 (match known_ecall_signature c_in with Some (_, rets) => rets | None => program_args_set end)
  else ow2.
Definition at_is_stale (ow : regset) (v : aval) : bool := match v with ARegScalar r _ => rs_mem r ow | _ => false end.
Definition at_o7 (n : pnode) (ow : regset) (ri : regmap) : regmap :=
  let o3 := filter (fun kv => (negb (rs_mem (fst kv) ow) && negb (at_is_stale ow (snd kv)))%bool) ri in
  let o4 := match gen_reg_value n with Some (r, v) => rm_insert r v o3 | None => o3 end in
  let o4 := if is_function_entry n then [] else o4 in
  let o5 := if is_handler_function_entry n then rm_extend_originals all_writable_set o4 else o4 in
  let o6 := if is_function_entry n then rm_extend_originals callee_saved_set o5 else o5 in
  if is_program_entry n then rm_extend_originals sp_ra_set o6 else o6.
Definition at_below_sp (n : pnode) (ri : regmap) (l : memloc) : bool :=
  match calls_to n, l with
  | Some _, MStack off => match stack_offset ri with Some sp => Z.ltb off sp | None => true end
  | _, _ => false
  end.
Definition at_stored_bytes (n : pnode) (ri : regmap) : option (option Z * Z) :=
  match n with
  | PStore i rs1 _ imm _ =>
      if N.eqb (wv rs1) 2 then
        Some (option_map (fun sp => sp + wv imm) (stack_offset ri),
              if inst_is i ISb then 1 else if inst_is i ISh then 2 else 4)
      else None
  | _ => None
  end%Z.
Definition at_overlapped (sb : option (option Z * Z)) (l : memloc) : bool :=
  match l, sb with
  | MStack off, Some (Some start, width) => (Z.ltb off (start + width) && Z.ltb start (off + 4))%bool
  | MStack _, Some (None, _) => true
  | _, _ => false
  end.
Definition at_m1 (n : pnode) (ow : regset) (ri : regmap) (mi : memmap) : memmap :=
  let mi_kept := filter (fun kv => (negb (at_is_stale ow (snd kv)) && negb (at_below_sp n ri (fst kv))
                                    && negb (at_overlapped (at_stored_bytes n ri) (fst kv)))%bool) mi in
  if is_any_entry n then []
  else match gen_memory_value n with
       | Some (MStack offset, v) =>
           match stack_offset ri with
           | Some cur => mm_insert (MStack (wrap32 (cur + offset))) v mi_kept
           | None => mi_kept
           end
       | Some (loc, v) => mm_insert loc v mi_kept
       | None => mi_kept
       end.

Lemma avail_transfer_eq c ri mi :
  avail_transfer c ri mi =
  let n := cn c in
  let ow := at_overwritten c ri mi in
  let o7 := at_o7 n ow ri in
  let m1 := at_m1 n ow ri mi in
  let r1 := rule_expand_address_for_load n o7 ri in
  let r2 := rule_value_from_stack n r1 mi in
  let r3 := rule_pull_value_from_csr_memory n r2 (mout c) in
  let r4 := rule_zero_to_const_reg r3 ri in
  let m2 := rule_zero_to_const_mem m1 mi in
  let r5 := rule_perform_math_ops n r4 ri in
  let m3 := rule_push_value_to_csr_memory n m2 r5 in
  let m4 := rule_known_values_to_stack m3 ri in
  (rm_remove_set const_zero_set r5, m4).
Proof. reflexivity. Qed.

Lemma at_overwritten_rel c1 c2 ri1 ri2 mi1 mi2 : Rc c1 c2 -> Rrm ri1 ri2 -> Rmm mi1 mi2 ->
  at_overwritten c1 ri1 mi1 = at_overwritten c2 ri2 mi2.
Proof.
  intros Hc Hri Hmi. unfold at_overwritten. cbv zeta. pose proof (Rc_cn _ _ _ Hc) as Hn.
  rewrite (kill_reg_rel _ _ _ Hn), (is_ecall_rel _ _ _ Hn).
  rewrite (known_ecall_signature_rel (set_avail c1 ri1 (rout c1) mi1 (mout c1)) (set_avail c2 ri2 (rout c2) mi2 (mout c2))).
  - destruct (calls_to_rel _ _ _ Hn); reflexivity.
  - apply set_avail_rel; auto using Rc_rout, Rc_mout.
Qed.
Lemma at_is_stale_rel ow a1 a2 : Rav a1 a2 -> at_is_stale ow a1 = at_is_stale ow a2.
Proof. destruct 1; reflexivity. Qed.

Lemma at_o7_rel n1 n2 ow ri1 ri2 : Rn n1 n2 -> Rrm ri1 ri2 -> Rrm (at_o7 n1 ow ri1) (at_o7 n2 ow ri2).
Proof.
  intros Hn Hri. unfold at_o7. cbv zeta.
  rewrite (is_function_entry_rel _ _ _ Hn), (is_handler_function_entry_rel _ _ _ Hn), (is_program_entry_rel _ _ _ Hn).
  match goal with |- Rrm (if _ then _ else ?a) (if _ then _ else ?b) => assert (H6 : Rrm a b) end.
  { match goal with |- Rrm (if _ then _ else ?a) (if _ then _ else ?b) => assert (H5 : Rrm a b) end.
    { match goal with |- Rrm (if _ then _ else ?a) (if _ then _ else ?b) => assert (H4 : Rrm a b) end.
      { match goal with |- Rrm (if _ then _ else ?a) (if _ then _ else ?b) => assert (H3 : Rrm a b) end.
        { assert (H3 : Rrm (filter (fun kv => (negb (rs_mem (fst kv) ow) && negb (at_is_stale ow (snd kv)))%bool) ri1)
                           (filter (fun kv => (negb (rs_mem (fst kv) ow) && negb (at_is_stale ow (snd kv)))%bool) ri2)).
          { apply F2_filter; [exact Hri|]. intros a b Hab. destruct Hab as [k a1 a2 Ha]. cbn [fst snd].
            rewrite (at_is_stale_rel ow _ _ Ha). reflexivity. }
          destruct (gen_reg_value_rel _ _ _ Hn) as [|a b Hab]; [exact H3|]. destruct Hab as [k a1 a2 Ha].
          apply rm_insert_rel; assumption. }
        destruct (is_function_entry n2); [constructor|exact H3]. }
      destruct (is_handler_function_entry n2); [apply rm_extend_originals_rel|]; exact H4. }
    destruct (is_function_entry n2); [apply rm_extend_originals_rel|]; exact H5. }
  destruct (is_program_entry n2); [apply rm_extend_originals_rel|]; exact H6.
Qed.

Lemma at_below_sp_rel n1 n2 ri1 ri2 l : Rn n1 n2 -> Rrm ri1 ri2 -> at_below_sp n1 ri1 l = at_below_sp n2 ri2 l.
Proof.
  intros Hn Hri. unfold at_below_sp. rewrite (stack_offset_rel _ _ Hri). destruct (calls_to_rel _ _ _ Hn); reflexivity.
Qed.
Lemma at_stored_bytes_rel n1 n2 ri1 ri2 : Rn n1 n2 -> Rrm ri1 ri2 -> at_stored_bytes n1 ri1 = at_stored_bytes n2 ri2.
Proof.
  intros Hn Hri. unfold at_stored_bytes. destruct Hn; try reflexivity. inv_tok. unfold inst_is. cbn [wv].
  rewrite (stack_offset_rel _ _ Hri). reflexivity.
Qed.
Lemma gen_memory_value_noaddr n l v : gen_memory_value n = Some (l, v) -> is_addr v = false.
Proof.
  destruct n; cbn; try discriminate;
    match goal with |- context [if ?b then _ else _] => destruct b end; intros H; inversion H; reflexivity.
Qed.

Lemma at_m1_rel n1 n2 ow ri1 ri2 mi1 mi2 : Rn n1 n2 -> Rrm ri1 ri2 -> Rmm mi1 mi2 ->
  Rmm (at_m1 n1 ow ri1 mi1) (at_m1 n2 ow ri2 mi2).
Proof.
  intros Hn Hri Hmi. unfold at_m1. cbv zeta.
  rewrite (is_any_entry_rel _ _ _ Hn). destruct (is_any_entry n2); [constructor|].
  match goal with |- Rmm (match _ with Some _ => _ | None => ?a end) (match _ with Some _ => _ | None => ?b end) =>
    assert (Hk : Rmm a b) end.
  { apply F2_filter; [exact Hmi|]. intros a b Hab. destruct Hab as [k a1 a2 Ha]. cbn [fst snd].
    rewrite (at_is_stale_rel ow _ _ Ha), (at_below_sp_rel _ _ _ _ k Hn Hri), (at_stored_bytes_rel _ _ _ _ Hn Hri). reflexivity. }
  rewrite (gen_memory_value_rel _ _ _ Hn), (stack_offset_rel _ _ Hri).
  destruct (gen_memory_value n2) as [[l v]|] eqn:E; [|exact Hk].
  pose proof (gen_memory_value_noaddr _ _ _ E) as Hv.
  destruct l; [destruct (stack_offset ri2); [|exact Hk]| |]; apply mm_insert_rel; auto using Rav_refl.
Qed.

Lemma avail_transfer_rel c1 c2 ri1 ri2 mi1 mi2 : Rc c1 c2 -> Rrm ri1 ri2 -> Rmm mi1 mi2 ->
  rel_prod Rrm Rmm (avail_transfer c1 ri1 mi1) (avail_transfer c2 ri2 mi2).
Proof.
  intros Hc Hri Hmi. rewrite !avail_transfer_eq. cbv zeta. pose proof (Rc_cn _ _ _ Hc) as Hn.
  rewrite (at_overwritten_rel _ _ _ _ _ _ Hc Hri Hmi).
  set (ow := at_overwritten c2 ri2 mi2).
  pose proof (at_o7_rel _ _ ow _ _ Hn Hri) as H7.
  pose proof (at_m1_rel _ _ ow _ _ _ _ Hn Hri Hmi) as Hm1.
  pose proof (rule_expand_address_for_load_rel _ _ _ _ _ _ Hn H7 Hri) as H1.
  pose proof (rule_value_from_stack_rel _ _ _ _ _ _ Hn H1 Hmi) as H2.
  pose proof (rule_pull_value_from_csr_memory_rel _ _ _ _ _ _ Hn H2 (Rc_mout _ _ _ Hc)) as H3.
  pose proof (rule_zero_to_const_reg_rel _ _ _ _ H3 Hri) as H4.
  pose proof (rule_zero_to_const_mem_rel _ _ _ _ Hm1 Hmi) as Hm2.
  pose proof (rule_perform_math_ops_rel _ _ _ _ _ _ Hn H4 Hri) as H5.
  pose proof (rule_push_value_to_csr_memory_rel _ _ _ _ _ _ Hn Hm2 H5) as Hm3.
  pose proof (rule_known_values_to_stack_rel _ _ _ _ Hm3 Hri) as Hm4.
  constructor; [apply rm_remove_set_rel; exact H5|exact Hm4].
Qed.

(* ---- the pass ---- *)
Lemma avail_node_rel g1 g2 v i : Rcs g1 g2 -> rel_prod Rcs eq (avail_node g1 v i) (avail_node g2 v i).
Proof.
  intros H. unfold avail_node. destruct (getn_rel _ _ _ i H) as [|c1 c2 Hc]; [constructor; auto|].
  rewrite (Rc_prevs _ _ _ Hc). cbv zeta.
  pose proof (meet_regs_rel _ _ (prevs c2) v H) as Hri. pose proof (meet_mems_rel _ _ (prevs c2) v H) as Hmi.
  destruct (avail_transfer_rel _ _ _ _ _ _ Hc Hri Hmi) as [ro1 ro2 mo1 mo2 Hro Hmo].
  constructor.
  - apply F2_upd; [exact H|]. intros a b Hab. apply set_avail_rel; assumption.
  - rewrite (rm_eqb_rel _ _ Hri _ _ (Rc_rin _ _ _ Hc)), (mm_eqb_rel _ _ Hmi _ _ (Rc_min _ _ _ Hc)),
            (rm_eqb_rel _ _ Hro _ _ (Rc_rout _ _ _ Hc)), (mm_eqb_rel _ _ Hmo _ _ (Rc_mout _ _ _ Hc)). reflexivity.
Qed.

Lemma avail_sweep_rel idx : forall g1 g2 v ch, Rcs g1 g2 ->
  rel_prod (rel_prod Rcs eq) eq (avail_sweep idx g1 v ch) (avail_sweep idx g2 v ch).
Proof.
  induction idx as [|i idx IH]; intros g1 g2 v ch H; cbn [avail_sweep].
  - repeat constructor; exact H.
  - destruct (avail_node_rel _ _ v i H) as [h1 h2 b1 b2 Hh Hb]. subst b2. apply IH; exact Hh.
Qed.

Lemma avail_loop_rel fuel : forall g1 g2 v, Rcs g1 g2 -> rel_res Rcs (avail_loop fuel g1 v) (avail_loop fuel g2 v).
Proof.
  induction fuel as [|f IH]; intros g1 g2 v H; cbn [avail_loop]; [constructor|].
  rewrite (Rcs_length _ _ _ H).
  destruct (avail_sweep_rel (seq 0 (length g2)) _ _ v false H) as [p1 p2 b1 b2 Hp Hb]. subst b2.
  destruct Hp as [h1 h2 v1 v2 Hh Hv]. subst v2.
  destruct b1; [apply IH; exact Hh|constructor; exact Hh].
Qed.

Lemma avail_pass_rel g1 g2 : Rg g1 g2 -> rel_res Rg (avail_pass g1) (avail_pass g2).
Proof.
  destruct 1 as [ns1 ns2 fs lf Hns]. unfold avail_pass, avail_fuel. cbn [gnodes gfuncs glabelfn].
  rewrite (Rcs_length _ _ _ Hns). apply (rel_res_bind Rcs); [apply avail_loop_rel; exact Hns|].
  intros a b Hab. constructor. constructor. exact Hab.
Qed.

Lemma interrupt_handler_names_rel g1 g2 : Rg g1 g2 -> Forall2 Rw (interrupt_handler_names g1) (interrupt_handler_names g2).
Proof.
  destruct 1 as [ns1 ns2 fs lf Hns]. unfold interrupt_handler_names. cbn [gnodes].
  apply dedup_names_rel; [|constructor]. apply (F2_filter_map Rc); [exact Hns|].
  intros c1 c2 Hc. unfold sets_csr_to_value. pose proof (Rc_rin _ _ _ Hc) as Hri.
  destruct (Rc_cn _ _ _ Hc); try constructor; inv_tok; unfold inst_is; cbn [wv].
  - destruct (inst_eqb _ _); [|constructor].
    destruct (rm_get_rel P v _ _ Hri) as [|a b Hab]; [constructor|].
    destruct Hab as [l1 l2 Hl|a Ha]; [destruct (Z.eqb _ 5); constructor; exact Hl|destruct a; try discriminate Ha; constructor].
  - destruct (inst_eqb _ _); constructor.
Qed.
End Avail.
