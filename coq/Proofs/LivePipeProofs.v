(* C02/C12 on the graphs the pipeline returns: the premises of the liveness theorems
   (`all_bottom`, `wf_live` of Props/C02.v; `calls_resolved` of Props/C12.v) are discharged for the
   graph the pipeline hands to `liveness_pass`.

   `gen_full_cfg` = ... function_markup ; avail_pass ; ecall_terminate ; liveness_pass.  The graph right
   before `liveness_pass` is stage 10 of `gen_cfg_upto` (after the last `ecall_terminate`).  This file
   proves:
     pipeline_before_liveness   a successful run factors as stage 10 followed by `liveness_pass`
     stage10_all_bottom         no stage before liveness writes a live set: they are as `new_cnode`
                                created them (empty)
     stage10_wf_live            every function id of the label map is the index of a function record
                                (the markup pass appends both together); a return has no successor
     stage10_calls_resolved     hence every call site resolves to an existing record
     pipeline_live_least / pipeline_live_fix / pipeline_live_covers
                                the theorems of C02/C12 for every pipeline output, premise-free. *)
From Coq Require Import List Arith NArith Lia ZifyNat ZifyBool.
From RV.Model Require Import Base I32 Imm Lexer Isa Parser Cfg Avail Live Lints.
From RV.Spec Require Import CfgSpec LiveSpec FixSpec.
From RV.Proofs Require Import CfgProofs.
From RV.Proofs Require ErrProofs FnProofs LiveProofs FixProofs.
Import ListNotations.
Local Open Scope nat_scope.

(* ===== 1. the live sets of a node, and the passes that never write them ==================== *)

Definition lv (c : cnode) : regset * regset := (lin c, lout c).

Definition bottomN (g : list cnode) : Prop := Forall (fun c => lv c = (0%N, 0%N)) g.

Lemma bottomN_map g g' : map lv g' = map lv g -> bottomN g -> bottomN g'.
Proof.
  unfold bottomN. intros HM HB. rewrite Forall_forall in *. intros c' Hc'.
  apply (in_map lv) in Hc'. rewrite HM in Hc'. apply in_map_iff in Hc'.
  destruct Hc' as [c [Heq Hc]]. rewrite <- Heq. apply HB. exact Hc.
Qed.

Lemma bottomN_all g : bottomN (gnodes g) -> LiveProofs.all_bottom g.
Proof.
  unfold bottomN. intros HB i c Hc. rewrite Forall_forall in HB.
  pose proof (HB c (nth_opt_In _ _ _ Hc)) as E. unfold lv in E. inversion E. split; reflexivity.
Qed.

(* S4: every node is created by `new_cnode`, with empty live sets *)
Lemma cfg_new_bottom ns pd g : cfg_new ns pd = inr g -> bottomN (gnodes g).
Proof.
  unfold cfg_new. intros H. destruct (filter _ _); [|discriminate].
  destruct (build_nodes _ _ _ _ _ _ _) as [e|l] eqn:Hb; [discriminate|].
  inversion H; subst; cbn [gnodes]. unfold bottomN.
  eapply FnProofs.build_nodes_all; [|constructor|exact Hb]. reflexivity.
Qed.

(* the value analysis writes rin/rout/min/mout only *)
Section AvailFrame.
  Context {X : Type} (pr : cnode -> X).
  Hypothesis pr_avail : forall c ri ro mi mo, pr (set_avail c ri ro mi mo) = pr c.

  Lemma avail_node_pr g v i : map pr (fst (avail_node g v i)) = map pr g.
  Proof.
    unfold avail_node. destruct (getn g i); [|reflexivity]. cbv zeta.
    match goal with |- context[avail_transfer ?a ?b ?d] => destruct (avail_transfer a b d) end.
    cbn [fst]. apply map_upd. intros x. apply pr_avail.
  Qed.

  Lemma avail_sweep_pr : forall idx g v ch g' v' ch',
    avail_sweep idx g v ch = (g', v', ch') -> map pr g' = map pr g.
  Proof.
    induction idx as [|i idx IH]; intros g v ch g' v' ch' H; simpl in H.
    - inversion H; reflexivity.
    - destruct (avail_node g v i) as [g1 c1] eqn:Hn. apply IH in H. rewrite H.
      pose proof (avail_node_pr g v i) as Hc. rewrite Hn in Hc. exact Hc.
  Qed.

  Lemma avail_loop_pr : forall fuel g v g', avail_loop fuel g v = Ok g' -> map pr g' = map pr g.
  Proof.
    induction fuel as [|f IH]; intros g v g' H; simpl in H; [discriminate|].
    destruct (avail_sweep _ _ _ _) as [[g1 v1] ch] eqn:Hs. apply avail_sweep_pr in Hs.
    destruct ch.
    - apply IH in H. congruence.
    - inversion H; subst. exact Hs.
  Qed.

  Lemma avail_pass_pr g g' : avail_pass g = Ok g' -> map pr (gnodes g') = map pr (gnodes g).
  Proof.
    unfold avail_pass. intros H.
    destruct (avail_loop _ _ _) as [ns| |] eqn:Hl; simpl in H; inversion H; subst.
    cbn [gnodes]. eapply avail_loop_pr; exact Hl.
  Qed.
End AvailFrame.

(* the markup pass writes cfuncs, and cn/nexts/prevs of the merged returns *)
Section MarkupFrame.
  Context {X : Type} (pr : cnode -> X).
  Hypothesis pr_nexts : forall c v, pr (set_nexts c v) = pr c.
  Hypothesis pr_prevs : forall c v, pr (set_prevs c v) = pr c.
  Hypothesis pr_cn : forall c n, pr (set_cn c n) = pr c.
  Hypothesis pr_cfuncs : forall c v, pr (set_cfuncs c v) = pr c.

  Lemma mark_function_pr G e pick G' :
    mark_function G e pick = inr G' -> map pr (gnodes G') = map pr (gnodes G).
  Proof.
    unfold mark_function. intros H.
    destruct (filter _ (reachable (gnodes G) e)) as [|first rest] eqn:Hr; [discriminate|].
    rewrite <- Hr in H. injection H as HG. rewrite <- HG.
    match goal with |- map pr (gnodes (mkcfg ?a _ _)) = _ => change (map pr a = map pr (gnodes G)) end.
    rewrite ErrProofs.fold_pr.
    - apply ErrProofs.fold_pr. intros g i. apply map_upd. intros c. apply pr_cfuncs.
    - intros g i. destruct (Nat.eqb i _); [reflexivity|].
      destruct (getn g i) as [c|]; [|reflexivity].
      match goal with |- context[getn g ?x] => destruct (getn g x) as [ce|] end; [|reflexivity].
      rewrite map_upd; [|intros c0; apply pr_prevs].
      apply map_upd. intros c0. rewrite pr_cn. apply pr_nexts.
  Qed.

  Lemma markup_loop_pr : forall es picks G G',
    markup_loop es picks G = inr G' -> map pr (gnodes G') = map pr (gnodes G).
  Proof.
    induction es as [|e es IH]; intros picks G G' H; simpl in H.
    - inversion H; reflexivity.
    - destruct (mark_function G e (hd_opt picks)) as [err|G1] eqn:Hm; [discriminate|].
      apply IH in H. rewrite H. eapply mark_function_pr; exact Hm.
  Qed.

  Lemma function_markup_pr picks G G' :
    function_markup picks G = inr G' -> map pr (gnodes G') = map pr (gnodes G).
  Proof. unfold function_markup. apply markup_loop_pr. Qed.
End MarkupFrame.

(* ===== 2. label map and function records grow together ====================================== *)

Definition labels_bound (G : cfg) : Prop :=
  forall l fid, In (l, fid) (glabelfn G) -> fid < length (gfuncs G).

Lemma mark_function_bound G e pick G' :
  mark_function G e pick = inr G' -> labels_bound G -> labels_bound G'.
Proof.
  intros Hm HB l fid Hin.
  destruct (FnProofs.mark_function_spec _ _ _ _ Hm) as [ex [defs [Hgf [Hlf _]]]].
  rewrite Hgf, app_length. cbn [length]. rewrite Hlf in Hin. apply in_app_or in Hin.
  destruct Hin as [Hin|Hin].
  - apply HB in Hin. lia.
  - apply in_map_iff in Hin. destruct Hin as [w [Hw _]]. inversion Hw; subst. lia.
Qed.

Lemma markup_loop_bound : forall es picks G G',
  markup_loop es picks G = inr G' -> labels_bound G -> labels_bound G'.
Proof.
  induction es as [|e es IH]; intros picks G G' H HB; simpl in H.
  - inversion H; subst; exact HB.
  - destruct (mark_function G e (hd_opt picks)) as [err|G1] eqn:Hm; [discriminate|].
    eapply IH; [exact H|]. eapply mark_function_bound; [exact Hm|exact HB].
Qed.

(* ===== 3. the stages of a successful run ==================================================== *)

Lemma full_stages10 picks ns g : gen_full_cfg picks ns = Ok (SOk g) ->
  exists hs h0 h1 h3 h5 h6,
    cfg_new ns (Some hs) = inr h0 /\ directions h0 = inr h1 /\ avail_pass (dead_code h1) = Ok h3 /\
    function_markup picks (ecall_terminate h3) = inr h5 /\ avail_pass h5 = Ok h6 /\
    gen_cfg_upto 10 picks ns = Ok (SOk (ecall_terminate h6)) /\
    liveness_pass (ecall_terminate h6) = Ok g.
Proof.
  rewrite full_is_upto. unfold gen_cfg_upto. FnProofs.eqb_consts. cbv iota.
  destruct (cfg_new ns None) as [e|g0]; [intros; discriminate|].
  destruct (directions g0) as [e|g1]; [intros; discriminate|].
  destruct (avail_pass g1) as [g2| |]; simpl bind; [|intros; discriminate..].
  destruct (cfg_new ns (Some (interrupt_handler_names g2))) as [e|h0] eqn:H3; [intros; discriminate|].
  destruct (directions h0) as [e|h1] eqn:H4; [intros; discriminate|].
  destruct (avail_pass (dead_code h1)) as [h3| |] eqn:H6; simpl bind; [|intros; discriminate..].
  destruct (function_markup picks (ecall_terminate h3)) as [e|h5] eqn:H8; [intros; discriminate|].
  destruct (avail_pass h5) as [h6| |] eqn:H9; simpl bind; [|intros; discriminate..].
  intros H. apply bind_Ok_inv in H. destruct H as [h8 [H11 H]]. inversion H; subst h8.
  exists (interrupt_handler_names g2), h0, h1, h3, h5, h6.
  repeat (split; [first [reflexivity|eassumption]|]). exact H11.
Qed.

(* (1) the graph handed to liveness is stage 10 *)
Theorem pipeline_before_liveness : forall picks ns g, gen_full_cfg picks ns = Ok (SOk g) ->
  exists h, gen_cfg_upto 10 picks ns = Ok (SOk h) /\ liveness_pass h = Ok g.
Proof.
  intros picks ns g H. destruct (full_stages10 _ _ _ H) as [hs [h0 [h1 [h3 [h5 [h6 HH]]]]]].
  exists (ecall_terminate h6). split; apply HH.
Qed.

(* the run that produced a given stage-10 graph, when the whole pipeline succeeds *)
Lemma stage10_of_full picks ns g h : gen_full_cfg picks ns = Ok (SOk g) ->
  gen_cfg_upto 10 picks ns = Ok (SOk h) ->
  exists hs h0 h1 h3 h5 h6,
    cfg_new ns (Some hs) = inr h0 /\ directions h0 = inr h1 /\ avail_pass (dead_code h1) = Ok h3 /\
    function_markup picks (ecall_terminate h3) = inr h5 /\ avail_pass h5 = Ok h6 /\
    h = ecall_terminate h6 /\ liveness_pass h = Ok g.
Proof.
  intros H H10. destruct (full_stages10 _ _ _ H) as [hs [h0 [h1 [h3 [h5 [h6 [A [B [C [D [E [F G]]]]]]]]]]]].
  rewrite H10 in F. inversion F; subst h.
  exists hs, h0, h1, h3, h5, h6. repeat (split; [assumption|]). split; [reflexivity|exact G].
Qed.

(* ===== 4. the three premises at stage 10 ==================================================== *)

(* stage 10 alone determines its history (no need for the last pass to succeed) *)
Lemma upto10_stages picks ns h : gen_cfg_upto 10 picks ns = Ok (SOk h) ->
  exists hs h0 h1 h3 h5 h6,
    cfg_new ns (Some hs) = inr h0 /\ directions h0 = inr h1 /\ avail_pass (dead_code h1) = Ok h3 /\
    function_markup picks (ecall_terminate h3) = inr h5 /\ avail_pass h5 = Ok h6 /\
    gen_cfg_upto 8 picks ns = Ok (SOk h5) /\ h = ecall_terminate h6.
Proof.
  unfold gen_cfg_upto. FnProofs.eqb_consts. cbv iota.
  destruct (cfg_new ns None) as [e|g0]; [intros; discriminate|].
  destruct (directions g0) as [e|g1]; [intros; discriminate|].
  destruct (avail_pass g1) as [g2| |]; simpl bind; [|intros; discriminate..].
  destruct (cfg_new ns (Some (interrupt_handler_names g2))) as [e|h0] eqn:H3; [intros; discriminate|].
  destruct (directions h0) as [e|h1] eqn:H4; [intros; discriminate|].
  destruct (avail_pass (dead_code h1)) as [h3| |] eqn:H6; simpl bind; [|intros; discriminate..].
  destruct (function_markup picks (ecall_terminate h3)) as [e|h5] eqn:H8; [intros; discriminate|].
  destruct (avail_pass h5) as [h6| |] eqn:H9; simpl bind; [|intros; discriminate..].
  intros H. inversion H; subst h.
  exists (interrupt_handler_names g2), h0, h1, h3, h5, h6.
  repeat (split; [first [reflexivity|eassumption]|]). reflexivity.
Qed.

(* (2a) all live sets are empty before the liveness pass *)
Theorem stage10_all_bottom : forall picks ns h, gen_cfg_upto 10 picks ns = Ok (SOk h) ->
  LiveProofs.all_bottom h.
Proof.
  intros picks ns h H.
  destruct (upto10_stages _ _ _ H) as [hs [h0 [h1 [h3 [h5 [h6 [A [B [C [D [E [_ ->]]]]]]]]]]]].
  apply bottomN_all.
  pose proof (cfg_new_bottom _ _ _ A) as B0.
  pose proof (ErrProofs.directions_pr lv (fun _ _ => eq_refl) (fun _ _ => eq_refl) _ _ B) as M1.
  pose proof (ErrProofs.dead_code_pr lv (fun _ _ => eq_refl) (fun _ _ => eq_refl) h1) as M2.
  pose proof (avail_pass_pr lv (fun _ _ _ _ _ => eq_refl) _ _ C) as M3.
  pose proof (ErrProofs.ecall_terminate_pr lv (fun _ _ => eq_refl) (fun _ _ => eq_refl) h3) as M4.
  pose proof (function_markup_pr lv (fun _ _ => eq_refl) (fun _ _ => eq_refl) (fun _ _ => eq_refl)
                (fun _ _ => eq_refl) _ _ _ D) as M5.
  pose proof (avail_pass_pr lv (fun _ _ _ _ _ => eq_refl) _ _ E) as M6.
  pose proof (ErrProofs.ecall_terminate_pr lv (fun _ _ => eq_refl) (fun _ _ => eq_refl) h6) as M7.
  apply (bottomN_map (gnodes h0)); [|exact B0]. congruence.
Qed.

(* (2b, first half) function ids in the label map are indices of function records *)
Theorem stage10_labels_bound : forall picks ns h, gen_cfg_upto 10 picks ns = Ok (SOk h) ->
  labels_bound h.
Proof.
  intros picks ns h H.
  destruct (upto10_stages _ _ _ H) as [hs [h0 [h1 [h3 [h5 [h6 [_ [_ [_ [_ [E [H8 ->]]]]]]]]]]]].
  destruct (FnProofs.upto8_stages _ _ _ H8) as [hs' [h0' [h4 [_ [_ [_ [_ [Gf4 [Gl4 Hm]]]]]]]]].
  assert (B5 : labels_bound h5).
  { unfold function_markup in Hm. eapply markup_loop_bound; [exact Hm|].
    intros l fid Hin. rewrite Gl4 in Hin. destruct Hin. }
  destruct (FnProofs.avail_pass_fl _ _ E) as [Gf6 Gl6].
  intros l fid Hin. cbn [ecall_terminate glabelfn gfuncs] in *.
  rewrite Gl6 in Hin. rewrite Gf6. exact (B5 l fid Hin).
Qed.

(* (2b, second half) a return has no successor.  `upto_inv` states this from stage 11 on only; stage 10
   is reached through stage 9 the same way *)
Theorem stage10_returns_stop : forall picks ns h, gen_cfg_upto 10 picks ns = Ok (SOk h) ->
  forall i c, nth_opt (gnodes h) i = Some c -> is_return (cn c) = true -> nexts c = [].
Proof.
  intros picks ns h H.
  destruct (upto10_stages _ _ _ H) as [hs [h0 [h1 [h3 [h5 [h6 [A [B [C [D [E [_ ->]]]]]]]]]]]].
  pose proof (cfg_new_fresh _ _ _ A) as F3.
  assert (W3 : WF (gnodes h0)) by (eapply fresh_WF; exact F3).
  destruct (directions_pres _ _ B W3) as [W4 _].
  destruct (dead_code_pres h1 W4) as [W5 _].
  destruct (avail_pass_core _ _ C) as [C6 _].
  destruct (core_pres _ _ (coreA_coreB _ _ (eq_sym C6)) W5) as [W6 _].
  destruct (ecall_terminate_pres h3 W6) as [W7 _].
  destruct (function_markup_ok (fun _ => True) _ _ _ D (proj1 W7) (WF_retN _ W7)) as [S8 [R8 _]].
  destruct (avail_pass_core _ _ E) as [C9 _].
  pose proof (coreA_coreB _ _ (eq_sym C9)) as B9.
  pose proof (core_SS _ _ B9 S8) as S9. pose proof (core_retN _ _ B9 R8) as R9.
  destruct (ecall_terminate_post h6 S9) as [_ [Sh10 _]].
  exact (shr_retN _ _ Sh10 R9).
Qed.

Theorem stage10_wf_live : forall picks ns h, gen_cfg_upto 10 picks ns = Ok (SOk h) ->
  LiveProofs.wf_live h.
Proof.
  intros picks ns h H. split.
  - exact (stage10_labels_bound _ _ _ H).
  - exact (stage10_returns_stop _ _ _ H).
Qed.

(* (2c) every call site resolves to an existing function record *)
Lemma labels_bound_resolved G : labels_bound G -> FixProofs.calls_resolved G.
Proof.
  intros HB i c fid _ Hc.
  assert (Hin : exists k, In (k, fid) (glabelfn G)).
  { unfold calls_to_from_cfg in Hc. destruct (calls_to (cn c)) as [name|].
    - eapply LiveProofs.assoc_fn_in; exact Hc.
    - destruct (is_some_jump_to_label (cn c)) as [name|]; [|discriminate].
      eapply LiveProofs.assoc_fn_in; exact Hc. }
  destruct Hin as [k Hin]. apply HB in Hin.
  destruct (nth_opt_some _ _ Hin) as [f Hf]. rewrite Hf. discriminate.
Qed.

Theorem stage10_calls_resolved : forall picks ns h, gen_cfg_upto 10 picks ns = Ok (SOk h) ->
  FixProofs.calls_resolved h.
Proof. intros picks ns h H. apply labels_bound_resolved. exact (stage10_labels_bound _ _ _ H). Qed.

(* ===== 5. the liveness theorems for every pipeline output =================================== *)

(* least solution: the stored live sets are closed under the equations, below every closed assignment,
   and nothing but the live sets and u_def differs from the stage-10 graph *)
Theorem pipeline_live_least : forall picks ns g h, gen_full_cfg picks ns = Ok (SOk g) ->
  gen_cfg_upto 10 picks ns = Ok (SOk h) ->
  liveness_pass h = Ok g /\
  same_structure h g /\ Closed g (stored g) /\ forall L, Closed g L -> le_asg (stored g) L.
Proof.
  intros picks ns g h H H10.
  destruct (pipeline_before_liveness _ _ _ H) as [h' [H10' HL]].
  rewrite H10 in H10'. inversion H10'; subst h'. split; [exact HL|].
  exact (LiveProofs.live_least h g (stage10_all_bottom _ _ _ H10) (stage10_wf_live _ _ _ H10) HL).
Qed.

Theorem pipeline_live_closed : forall picks ns g, gen_full_cfg picks ns = Ok (SOk g) ->
  Closed g (stored g) /\ forall L, Closed g L -> le_asg (stored g) L.
Proof.
  intros picks ns g H. destruct (pipeline_before_liveness _ _ _ H) as [h [H10 _]].
  destruct (pipeline_live_least _ _ _ _ H H10) as [_ [_ HC]]. exact HC.
Qed.

(* exact equations *)
Theorem pipeline_live_fix : forall picks ns g, gen_full_cfg picks ns = Ok (SOk g) -> LiveFix g.
Proof.
  intros picks ns g H. destruct (pipeline_before_liveness _ _ _ H) as [h [H10 HL]].
  exact (FixProofs.live_fix_partial h g (stage10_calls_resolved _ _ _ H10) HL).
Qed.

(* coverage, for the stored live sets, without any `Closed` premise *)
Theorem pipeline_live_covers : forall picks ns g, gen_full_cfg picks ns = Ok (SOk g) ->
  forall p nk ck r, path g (p ++ [nk]) -> nth_opt (gnodes g) nk = Some ck ->
    N.testbit (node_uses g (stored g) nk ck) r = true ->
    (forall i c, In i p -> nth_opt (gnodes g) i = Some c -> N.testbit (node_kills g c) r = false) ->
    (forall i, In i p -> exists c, nth_opt (gnodes g) i = Some c) ->
    forall n0, hd_error (p ++ [nk]) = Some n0 -> N.testbit (Lin (stored g) n0) r = true.
Proof.
  intros picks ns g H. apply LiveProofs.live_covers. apply (pipeline_live_closed _ _ _ H).
Qed.

(* a callee's exit covers what is live after each of its call sites, for the stored sets *)
Theorem pipeline_returns_cover : forall picks ns g, gen_full_cfg picks ns = Ok (SOk g) ->
  forall i c fid f r, nth_opt (gnodes g) i = Some c -> calls_to_from_cfg g c = Some fid ->
    nth_opt (gfuncs g) fid = Some f -> N.testbit (Lout (stored g) i) r = true ->
    N.testbit (Lin (stored g) (fexit f)) r = true.
Proof.
  intros picks ns g H. apply LiveProofs.returns_cover_callers. apply (pipeline_live_closed _ _ _ H).
Qed.

(* the premises hold of the output as well (liveness touches neither edges nor functions) *)
Theorem pipeline_output_wf : forall picks ns g, gen_full_cfg picks ns = Ok (SOk g) ->
  LiveProofs.wf_live g /\ FixProofs.calls_resolved g.
Proof.
  intros picks ns g H. destruct (pipeline_before_liveness _ _ _ H) as [h [H10 HL]].
  destruct (FnProofs.liveness_pass_fl _ _ HL) as [Gf Gl].
  assert (B : labels_bound g).
  { intros l fid Hin. rewrite Gl in Hin. rewrite Gf. exact (stage10_labels_bound _ _ _ H10 l fid Hin). }
  split; [split; [exact B|]|exact (labels_bound_resolved _ B)].
  intros i c Hc Hr. apply (edges_stop _ _ _ H i c Hc). left. exact Hr.
Qed.

(* ===== 6. a function-entry node never has an argument register live on entry ================ *)
(* (the entry node kills the caller-saved set; the arguments of a function are read off the live-OUT
   set of its entry: `fn_arguments`) *)
Lemma entry_not_call G c : is_function_entry (cn c) = true -> calls_to_from_cfg G c = None.
Proof. unfold calls_to_from_cfg. destruct (cn c); simpl; intros Hf; try discriminate; reflexivity. Qed.

Theorem entry_live_in_no_caller_saved : forall g, LiveFix g ->
  forall i c r, nth_opt (gnodes g) i = Some c -> is_function_entry (cn c) = true ->
    N.testbit caller_saved_set r = true -> N.testbit (lin c) r = false.
Proof.
  intros g HF i c r Hc Hfe Hr. destruct (HF i c Hc) as [_ HI].
  rewrite (entry_not_call g c Hfe) in HI.
  assert (E1 : is_ecall (cn c) = false) by (destruct (cn c); simpl in Hfe |- *; try discriminate; reflexivity).
  assert (E2 : is_return (cn c) = false) by (destruct (cn c); simpl in Hfe |- *; try discriminate; reflexivity).
  rewrite E1, E2 in HI. cbn [negb andb] in HI. rewrite HI.
  unfold rhs_in, node_uses, node_kills. rewrite (entry_not_call g c Hfe), E1, E2.
  unfold rs_union, rs_diff. rewrite N.lor_spec, N.ldiff_spec.
  assert (G0 : gen_reg (cn c) = 0%N).
  { destruct (cn c); simpl in Hfe; try discriminate. reflexivity. }
  assert (K0 : kill_reg (cn c) = rs_diff caller_saved_set const_zero_set).
  { destruct (cn c); simpl in Hfe; try discriminate. reflexivity. }
  rewrite G0, K0, N.bits_0. cbn [orb]. unfold rs_diff. rewrite N.ldiff_spec, Hr.
  destruct (N.testbit const_zero_set r) eqn:Hz.
  - (* r = 0 is not caller-saved *)
    exfalso. assert (r = 0%N).
    { destruct r as [|p]; [reflexivity|]. destruct p; vm_compute in Hz; discriminate Hz. }
    subst r. vm_compute in Hr. discriminate Hr.
  - cbn [negb andb]. apply Bool.andb_false_r.
Qed.
