(* C15: lexer facts needed to compare a file that is included with the same text pasted in
   another file: the file identity is only stamped on the tokens ([lex_all_refile]); moving text
   by whole lines keeps the items up to positions; text normalisation and blocks of lines. *)
From RV.Model Require Import Base I32 Imm Lexer Isa Parser Reader.
From RV.Spec Require Import PosSpec ParamSpec LineSpec IncludeSpec.
From RV.Proofs Require Import LexProofs LineProofs TotalProofs IncludeErase.
From Coq Require Import Lia.

(* ================================================================================== *)
(* 1. the file identity is only stamped on the tokens                                    *)

Section Refile.
  Variables (f1 f2 : option N).
  Definition rf_tok (t : token) : token := mktok (tt t) (trange t) f2.
  Definition rf_item (it : lexitem) : lexitem :=
    match it with
    | LTok t => LTok (rf_tok t)
    | LErrString t p k => LErrString (rf_tok t) p k
    | LErrUnexpected t => LErrUnexpected (rf_tok t)
    end.
  Definition rfn (r : rnext) : rnext :=
    match r with
    | Ok (Some (it, s, p)) => Ok (Some (rf_item it, s, p))
    | Ok None => Ok None
    | Panic n => Panic n
    | OutOfFuel => OutOfFuel
    end.

  Lemma fin_rf chk t s p : fin chk (rf_tok t) s p = rfn (fin chk t s p).
  Proof.
    unfold fin, check_tok. destruct chk; [|reflexivity]. cbn [rf_tok trange].
    destruct (negb (N.eqb (line (rstart (trange t))) (line (rend (trange t))))); [reflexivity|].
    destruct (negb (N.leb (column (rstart (trange t))) (column (rend (trange t))))); reflexivity.
  Qed.

  Lemma b_one_rf chk ty s p : b_one chk f2 ty s p = rfn (b_one chk f1 ty s p).
  Proof. unfold b_one. destruct (consume s p) as [s' p']. apply (fin_rf chk (mktok ty (get_range p) f1)). Qed.

  Lemma b_dot_rf rec rec' chk s p :
    (forall s p, rec' s p = rfn (rec s p)) -> b_dot rec' chk f2 s p = rfn (b_dot rec chk f1 s p).
  Proof.
    intros Hrec. unfold b_dot. destruct (scan stop_directive s p []) as [[acc s'] p'].
    destruct (consume s' p') as [s'' p'']. destruct (str_eqb (rev acc) [c_dot]); [apply Hrec|].
    apply (fin_rf chk (mktok (TDirective (rev acc)) (mkrange (get_pos p) (get_pos p')) f1)).
  Qed.

  Lemma b_hash_rf chk s p : b_hash chk f2 s p = rfn (b_hash chk f1 s p).
  Proof.
    unfold b_hash. destruct (scan stop_comment s p []) as [[acc s'] p'].
    destruct (consume s' p') as [s'' p''].
    apply (fin_rf chk (mktok (TComment _) (mkrange (get_pos p) (get_pos p')) f1)).
  Qed.

  Lemma b_str_rf chk s p : b_str chk f2 s p = rfn (b_str chk f1 s p).
  Proof.
    unfold b_str. destruct (consume s p) as [s1 p1].
    destruct (acc_string (S (length s1)) s1 p1 []) as [[[[text s2] p2]|[[[epos k] s2] p2]]| |];
      cbn [bind]; try reflexivity.
    - destruct (consume s2 p2) as [s3 p3].
      apply (fin_rf chk (mktok (TString text) (mkrange (get_pos p) (get_pos p2)) f1)).
    - destruct (skip_line s2 p2) as [s3 p3]. reflexivity.
  Qed.

  Lemma chr_cont_rf st cv s p : chr_cont f2 st cv s p = rfn (chr_cont f1 st cv s p).
  Proof.
    unfold chr_cont. destruct (consume s p) as [s3 p3]. destruct s3 as [|q r]; [reflexivity|].
    destruct (N.eqb q c_squote); [|reflexivity]. destruct (consume (q :: r) p3). reflexivity.
  Qed.

  Lemma b_chr_rf s p : b_chr f2 s p = rfn (b_chr f1 s p).
  Proof.
    unfold b_chr. destruct (consume s p) as [s1 p1]. destruct s1 as [|c1 r1]; [reflexivity|].
    destruct (N.eqb c1 c_bslash).
    - destruct (escape_code (c1 :: r1) p1) as [[[ec s2] p2]|].
      + apply chr_cont_rf.
      + destruct (skip_line (c1 :: r1) p1). reflexivity.
    - destruct (N.eqb c1 c_nl); [reflexivity|]. apply chr_cont_rf.
  Qed.

  Lemma b_sym_rf chk c s p : b_sym chk f2 c s p = rfn (b_sym chk f1 c s p).
  Proof.
    unfold b_sym. destruct (negb (is_symbol_item c)).
    - destruct (consume s p). reflexivity.
    - destruct (scan stop_symbol s p []) as [[acc s'] p'].
      assert (Hsym : (let en := get_pos p' in
                      let '(s1, p1) := consume s' p' in
                      fin chk (mktok (TSymbol (rev acc)) (mkrange (get_pos p) en) f2) s1 p1) =
                     rfn (let en := get_pos p' in
                          let '(s1, p1) := consume s' p' in
                          fin chk (mktok (TSymbol (rev acc)) (mkrange (get_pos p) en) f1) s1 p1)).
      { cbv zeta. destruct (consume s' p') as [s1 p1].
        apply (fin_rf chk (mktok (TSymbol (rev acc)) (mkrange (get_pos p) (get_pos p')) f1)). }
      destruct s' as [|x [|colon r]]; try exact Hsym.
      destruct (N.eqb colon c_colon); [|exact Hsym]. reflexivity.
  Qed.

  Lemma body_rf rec rec' chk s p :
    (forall s p, rec' s p = rfn (rec s p)) -> body rec' chk f2 s p = rfn (body rec chk f1 s p).
  Proof.
    intros Hrec. unfold body. destruct s as [|c r]; [reflexivity|].
    destruct (N.eqb c c_nl); [apply b_one_rf|].
    destruct (N.eqb c c_lparen); [apply b_one_rf|].
    destruct (N.eqb c c_rparen); [apply b_one_rf|].
    destruct (N.eqb c c_dot); [apply b_dot_rf; exact Hrec|].
    destruct (N.eqb c c_hash); [apply b_hash_rf|].
    destruct (N.eqb c c_dquote); [apply b_str_rf|].
    destruct (N.eqb c c_squote); [apply b_chr_rf|].
    apply b_sym_rf.
  Qed.

  Lemma next_rf : forall f chk s p, next f chk f2 s p = rfn (next f chk f1 s p).
  Proof.
    induction f as [|f IH]; intros chk s p; [reflexivity|].
    rewrite !next_unfold. destruct (skip_ws s p) as [s1 p1].
    destruct (skip_dots (S (length s1)) s1 p1) as [[s2 p2]| |]; cbn [bind]; try reflexivity.
    apply body_rf. intros s' p'. apply IH.
  Qed.

  Lemma lex_loop_rf chk : forall f s p acc,
    lex_loop f chk f2 s p (map rf_item acc) = rmap (map rf_item) (lex_loop f chk f1 s p acc).
  Proof.
    induction f as [|f IH]; intros s p acc; [reflexivity|].
    cbn [lex_loop]. rewrite next_rf.
    destruct (next (S (length s)) chk f1 s p) as [[[[it s'] p']|]| |]; cbn [bind rfn rmap]; try reflexivity.
    - apply (IH s' p' (it :: acc)).
    - rewrite map_rev. reflexivity.
  Qed.

  Lemma lex_all_rf chk s : lex_all chk f2 s = rmap (map rf_item) (lex_all chk f1 s).
  Proof. unfold lex_all. apply (lex_loop_rf chk _ s cur0 []). Qed.

  Lemma rf_item_erase it : erase_item (rf_item it) = erase_item it.
  Proof. destruct it; reflexivity. Qed.
End Refile.

(* lexing the same text under two file identities gives the same items up to positions *)
Lemma lex_all_refile chk f1 f2 s i1 i2 :
  lex_all chk f1 s = Ok i1 -> lex_all chk f2 s = Ok i2 -> items_eq i1 i2.
Proof.
  intros H1 H2. rewrite (lex_all_rf f1 f2), H1 in H2. cbn [rmap] in H2. inversion H2; subst.
  unfold items_eq. rewrite map_map. symmetry. apply map_ext. intros it. apply rf_item_erase.
Qed.

(* ================================================================================== *)
(* 2. shifting                                                                          *)

Lemma sh_item_erase dl dr it : erase_item (sh_item dl dr it) = erase_item it.
Proof. destruct it; reflexivity. Qed.

Lemma sh_items_eq dl dr l : items_eq (map (sh_item dl dr) l) l.
Proof. unfold items_eq. rewrite map_map. apply map_ext. intros it. apply sh_item_erase. Qed.

(* ================================================================================== *)
(* 3. blocks of lines and normalisation                                                  *)

Lemma one_line_block L : one_line L -> lines_block L.
Proof. intros [body [-> _]]. right. exists body. reflexivity. Qed.

Lemma lines_block_app X Y : lines_block X -> lines_block Y -> lines_block (X ++ Y).
Proof.
  intros HX [->|[pre ->]]; [rewrite app_nil_r; exact HX|].
  right. exists (X ++ pre). rewrite app_assoc. reflexivity.
Qed.

Lemma normalize_block X : lines_block X -> normalize_text X = X.
Proof.
  intros [->|[pre ->]]; [reflexivity|]. unfold normalize_text. rewrite rev_app_distr. cbn [rev app].
  rewrite N.eqb_refl. reflexivity.
Qed.

Lemma normalize_lines_block T : lines_block (normalize_text T).
Proof. apply lines_block_Lb. apply normalize_Lb. Qed.

Lemma normalize_app X B : lines_block X -> normalize_text (X ++ B) = X ++ normalize_text B.
Proof.
  intros HX. destruct (rev B) as [|c r] eqn:Er.
  - assert (B = []) by (rewrite <- (rev_involutive B), Er; reflexivity). subst B.
    rewrite app_nil_r. cbn [normalize_text rev]. rewrite app_nil_r. apply normalize_block. exact HX.
  - unfold normalize_text. rewrite rev_app_distr, Er. cbn [app].
    destruct (N.eqb c c_nl); [reflexivity|]. rewrite app_assoc. reflexivity.
Qed.

(* ================================================================================== *)
(* 4. lexing blocks                                                                     *)

(* a block of lines followed by anything: the items of the block, then items equal up to
   positions to the items of the rest *)
Lemma lex_block_app chk file A B ia ib :
  lines_block A -> lex_all chk file A = Ok ia -> lex_all chk file B = Ok ib ->
  exists jb, lex_all chk file (A ++ B) = Ok (ia ++ jb) /\ items_eq jb ib /\
             jb = map (sh_item (count_nl A) (len A)) ib.
Proof.
  intros HA Ha Hb. exists (map (sh_item (count_nl A) (len A)) ib).
  split; [apply (lex_line_local chk file A B HA ia ib Ha Hb)|]. split; [apply sh_items_eq|reflexivity].
Qed.

Lemma include_items_eq p il jl : include_items p il -> items_eq il jl -> include_items p jl.
Proof.
  intros [d [s [n [-> [[dn [Hd1 Hd2]] [Hs Hn]]]]]] H. unfold items_eq in H.
  destruct jl as [|[d'| |] [|[s'| |] [|[n'| |] [|]]]]; try discriminate H.
  cbn [map erase_item] in H. unfold erase_tok in H. inversion H as [[E1 E2 E3]].
  exists d', s', n'. split; [reflexivity|]. split; [exists dn; rewrite <- E1; split; assumption|].
  split; [rewrite <- E2; exact Hs|rewrite <- E3; exact Hn].
Qed.
