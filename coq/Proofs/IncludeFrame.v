(* C15: statements do not look past a statement boundary.  If an item list [top] ends at a
   statement boundary ([closed]), then parsing [top ++ X] does on [top] exactly what parsing
   [top] alone does, whatever [X] is ([parse_one_frame]); hence driving the concatenation
   [ia ++ X] is driving [ia] as a file of its own on top of [X] ([run_concat]) - the model's
   form of "include = paste". *)
From RV.Model Require Import Base I32 Imm Lexer Isa Parser Reader.
From RV.Spec Require Import ParamSpec LineSpec IncludeSpec.
From RV.Proofs Require Import LineProofs TotalProofs IncludeErase IncludeLex IncludeRun.
From Coq Require Import Lia.
Open Scope nat_scope.

(* ================================================================================== *)
(* 0. lists that end with a newline token                                                *)

Notation En := ends_nl_item.

Lemma en_nonempty l : En l -> l <> [].
Proof. intros [pre [t [-> _]]]. destruct pre; discriminate. Qed.

Lemma en_tail_ne it l : En (it :: l) -> l <> [] -> En l.
Proof.
  intros [pre [t [H Ht]]] Hne. destruct pre as [|x pre]; cbn [app] in H; inversion H; subst.
  - contradiction.
  - exists pre, t. split; [reflexivity|exact Ht].
Qed.

Lemma en_tail it l : En (it :: l) -> is_nl_item it = false -> En l.
Proof.
  intros H Hit. apply (en_tail_ne it l H). intros ->. destruct H as [pre [t [H Ht]]].
  destruct pre as [|x [|y pre]]; cbn [app] in H; inversion H; subst.
  cbn [is_nl_item] in Hit. rewrite Ht in Hit. discriminate.
Qed.

Lemma last_nl_en top : last_nl top -> top <> [] -> En top.
Proof. intros [->|H] Hne; [contradiction|exact H]. Qed.

Lemma recover_app X : forall l, En l -> recover (l ++ X) = recover l ++ X.
Proof.
  induction l as [|it l IH]; intros H; [exfalso; exact (en_nonempty _ H eq_refl)|].
  destruct (is_nl_item it) eqn:Hit.
  - destruct it as [t| |]; try discriminate. cbn [is_nl_item] in Hit. cbn [app recover].
    destruct (tt t); try discriminate. reflexivity.
  - rewrite <- app_comm_cons. rewrite !(recover_skip _ _ Hit). apply IH. apply (en_tail it l H Hit).
Qed.

(* does the driver skip to the end of the line after this error? *)
Definition rec_err (e : lexerr) : bool :=
  match e with
  | EExpected _ got => negb (is_newline_tok got)
  | EIsNewline _ | ENeedTwoNodes _ _ | EIgnoredWithoutWarning | EUnexpectedEOF => false
  | _ => true
  end.

(* ================================================================================== *)
(* 1. a frame logic for the parser monad                                                *)

Section Frame.
  Variable X : list lexitem.

  Definition appX (st : pstate) : pstate := (fst st ++ X, snd st).
  Definition fmapX {A} (r : res ((lexerr + A) * pstate)) : res ((lexerr + A) * pstate) :=
    match r with Ok (x, st) => Ok (x, appX st) | Panic s => Panic s | OutOfFuel => OutOfFuel end.

  Definition EQ (e : lexerr) (st : pstate) : Prop :=
    (rec_err e = true -> En (fst st)) /\ e <> EUnexpectedEOF.

  (* [m] from [st] does not notice [X] behind the items; [Q] holds of its value and state *)
  Definition FH {A} (m : P A) (st : pstate) (Q : A -> pstate -> Prop) : Prop :=
    m (appX st) = fmapX (m st) /\
    match m st with Ok (inr a, st') => Q a st' | Ok (inl e, st') => EQ e st' | _ => True end.

  Lemma fh_bind {A B} (m : P A) (f : A -> P B) st (Q : A -> pstate -> Prop) (R : B -> pstate -> Prop) :
    FH m st Q -> (forall a st', Q a st' -> FH (f a) st' R) -> FH (pbind m f) st R.
  Proof.
    intros [H1 H2] Hf. unfold FH, pbind. rewrite H1.
    destruct (m st) as [[[e|a] st']| |]; cbn [fmapX].
    - split; [reflexivity|exact H2].
    - exact (Hf a st' H2).
    - split; [reflexivity|exact I].
    - split; [reflexivity|exact I].
  Qed.

  Lemma fh_ret {A} (a : A) st (Q : A -> pstate -> Prop) : Q a st -> FH (ret a) st Q.
  Proof. intros H. split; [reflexivity|exact H]. Qed.

  Lemma fh_fail {A} e st (Q : A -> pstate -> Prop) : EQ e st -> FH (@fail A e) st Q.
  Proof. intros H. split; [reflexivity|exact H]. Qed.

  Lemma fh_get_raw st : FH get_raw st (fun _ st' => st' = st).
  Proof. split; reflexivity. Qed.

  Lemma fh_lift {A} (r : res A) st : FH (lift_res r) st (fun a st' => st' = st /\ r = Ok a).
  Proof. unfold FH, lift_res. destruct r; cbn [fmapX]; split; try reflexivity; try exact I. split; reflexivity. Qed.

  Lemma fh_get_any st : En (fst st) ->
    FH get_any st (fun t st' => is_newline_tok t = false -> En (fst st')).
  Proof.
    destruct st as [l o]. cbn [fst]. intros H. destruct l as [|it l]; [exfalso; exact (en_nonempty _ H eq_refl)|].
    unfold FH, get_any, appX. cbn [fst snd app].
    destruct it as [t|t p k|t]; cbn [item_result fmapX].
    - split; [reflexivity|]. cbn [fst]. intros Ht. apply (en_tail _ _ H). exact Ht.
    - split; [reflexivity|]. split; [|discriminate]. intros _. apply (en_tail _ _ H). reflexivity.
    - split; [reflexivity|]. split; [|discriminate]. intros _. apply (en_tail _ _ H). reflexivity.
  Qed.

  Lemma fh_get_known st t l : fst st = LTok t :: l -> En (fst st) -> is_newline_tok t = false ->
    FH get_any st (fun _ st' => En (fst st')).
  Proof.
    destruct st as [l0 o]. cbn [fst]. intros -> H Ht.
    unfold FH, get_any, appX. cbn [fst snd app item_result fmapX]. split; [reflexivity|].
    apply (en_tail _ _ H). exact Ht.
  Qed.

  Lemma fh_peek_any st : En (fst st) ->
    FH peek_any st (fun t st' => st' = st /\ exists l, fst st = LTok t :: l).
  Proof.
    destruct st as [l o]. cbn [fst]. intros H. destruct l as [|it l]; [exfalso; exact (en_nonempty _ H eq_refl)|].
    unfold FH, peek_any, appX. cbn [fst snd app].
    destruct it as [t|t p k|t]; cbn [item_result fmapX].
    - split; [reflexivity|]. split; [reflexivity|]. exists l. reflexivity.
    - split; [reflexivity|]. split; [|discriminate]. intros _. exact H.
    - split; [reflexivity|]. split; [|discriminate]. intros _. exact H.
  Qed.

  Lemma eq_expected ex t st : (is_newline_tok t = false -> En (fst st)) -> EQ (EExpected ex t) st.
  Proof.
    intros H. split; [|discriminate]. cbn [rec_err]. intros Hre. apply H.
    destruct (is_newline_tok t); [discriminate|reflexivity].
  Qed.

  Notation Pn := (fun (_ : _) (st' : pstate) => En (fst st')).

  Lemma fh_as_reg t st : (is_newline_tok t = false -> En (fst st)) -> FH (as_reg t) st Pn.
  Proof.
    intros H. unfold as_reg. destruct (tok_reg t) as [r|] eqn:E.
    - apply fh_ret. apply H. apply (tok_reg_wt _ _ E).
    - apply fh_fail. apply eq_expected. exact H.
  Qed.
  Lemma fh_as_label t st : (is_newline_tok t = false -> En (fst st)) -> FH (as_label t) st Pn.
  Proof.
    intros H. unfold as_label. destruct (tok_label t) as [r|] eqn:E.
    - apply fh_ret. apply H. apply (tok_label_wt _ _ E).
    - apply fh_fail. apply eq_expected. exact H.
  Qed.
  Lemma fh_as_string t st : (is_newline_tok t = false -> En (fst st)) -> FH (as_string t) st Pn.
  Proof.
    intros H. unfold as_string. destruct (tok_string t) as [r|] eqn:E.
    - apply fh_ret. apply H. apply (tok_string_wt _ _ E).
    - apply fh_fail. apply eq_expected. exact H.
  Qed.
  Lemma fh_as_imm t st : (is_newline_tok t = false -> En (fst st)) -> FH (as_imm t) st Pn.
  Proof.
    intros H. unfold as_imm. eapply fh_bind; [apply fh_lift|]. intros [r|] st' [-> E].
    - apply fh_ret. apply H. apply (tok_imm_wt _ _ E).
    - apply fh_fail. apply eq_expected. exact H.
  Qed.
  Lemma fh_as_csrimm t st : (is_newline_tok t = false -> En (fst st)) -> FH (as_csrimm t) st Pn.
  Proof.
    intros H. unfold as_csrimm. eapply fh_bind; [apply fh_lift|]. intros [r|] st' [-> E].
    - apply fh_ret. apply H. apply (tok_csrimm_wt _ _ E).
    - apply fh_fail. apply eq_expected. exact H.
  Qed.

  Lemma fh_get_reg st : En (fst st) -> FH get_reg st Pn.
  Proof. intros H. unfold get_reg. eapply fh_bind; [apply fh_get_any; exact H|]. intros t st' Ht. apply fh_as_reg. exact Ht. Qed.
  Lemma fh_get_label st : En (fst st) -> FH get_label st Pn.
  Proof. intros H. unfold get_label. eapply fh_bind; [apply fh_get_any; exact H|]. intros t st' Ht. apply fh_as_label. exact Ht. Qed.
  Lemma fh_get_string st : En (fst st) -> FH get_string st Pn.
  Proof. intros H. unfold get_string. eapply fh_bind; [apply fh_get_any; exact H|]. intros t st' Ht. apply fh_as_string. exact Ht. Qed.
  Lemma fh_get_imm st : En (fst st) -> FH get_imm st Pn.
  Proof. intros H. unfold get_imm. eapply fh_bind; [apply fh_get_any; exact H|]. intros t st' Ht. apply fh_as_imm. exact Ht. Qed.
  Lemma fh_get_csrimm st : En (fst st) -> FH get_csrimm st Pn.
  Proof. intros H. unfold get_csrimm. eapply fh_bind; [apply fh_get_any; exact H|]. intros t st' Ht. apply fh_as_csrimm. exact Ht. Qed.
  Lemma fh_expect_rparen st : En (fst st) -> FH expect_rparen st Pn.
  Proof.
    intros H. unfold expect_rparen. eapply fh_bind; [apply fh_get_any; exact H|]. intros t st' Ht.
    destruct (is_rparen t) eqn:E.
    - apply fh_ret. apply Ht. apply is_rparen_nonl. exact E.
    - apply fh_fail. apply eq_expected. exact Ht.
  Qed.

  Ltac fail_tac :=
    apply fh_fail; split;
    [ let Hre := fresh "Hre" in intros Hre; cbn [rec_err] in Hre;
      first [ discriminate Hre | assumption
            | match goal with H : is_newline_tok _ = false -> En _ |- _ =>
                apply H; apply negb_true_iff; exact Hre end ]
    | discriminate ].

  Ltac fstep :=
    cbv beta;
    lazymatch goal with
    | |- FH (pbind get_reg _) _ _ => eapply fh_bind; [apply fh_get_reg; assumption|intros ? ? ?]
    | |- FH (pbind get_imm _) _ _ => eapply fh_bind; [apply fh_get_imm; assumption|intros ? ? ?]
    | |- FH (pbind get_label _) _ _ => eapply fh_bind; [apply fh_get_label; assumption|intros ? ? ?]
    | |- FH (pbind get_csrimm _) _ _ => eapply fh_bind; [apply fh_get_csrimm; assumption|intros ? ? ?]
    | |- FH (pbind get_string _) _ _ => eapply fh_bind; [apply fh_get_string; assumption|intros ? ? ?]
    | |- FH (pbind expect_rparen _) _ _ => eapply fh_bind; [apply fh_expect_rparen; assumption|intros ? ? ?]
    | |- FH (pbind get_raw _) _ _ => eapply fh_bind; [apply fh_get_raw|intros ? ? ->]
    | |- FH (ret _) _ _ => apply fh_ret; exact I
    | |- FH (fail _) _ _ => fail_tac
    end.

  Notation Any := (fun (_ : pnode) (_ : pstate) => True).

  Lemma parse_inst_fh i t0 st : En (fst st) -> FH (parse_inst i t0) st Any.
  Proof.
    intros H. unfold parse_inst. cbv zeta.
    destruct (inst_kind i) eqn:K.
    - repeat fstep.
    - repeat fstep.
    - repeat fstep.
    - (* KJumpLink *)
      eapply fh_bind; [apply fh_get_any; assumption|intros nx st1 Hnx]; cbv beta in Hnx.
      destruct (tok_reg nx) as [r|] eqn:Er.
      + specialize (Hnx (proj2 (tok_reg_wt _ _ Er))). repeat fstep.
      + destruct (tok_label nx) as [nm|] eqn:El; repeat fstep.
    - (* KJumpLinkR *)
      fstep. eapply fh_bind; [apply fh_peek_any; assumption|intros nx st2 [-> [l0 Hnx]]].
      destruct (tok_reg nx) as [r1|] eqn:Er.
      + eapply fh_bind;
          [apply (fh_get_known _ nx l0); [exact Hnx|assumption|apply (tok_reg_wt _ _ Er)]|intros ? ? ?].
        repeat fstep.
      + eapply fh_bind; [apply fh_lift|intros oi st3 [-> Hoi]]. destruct oi as [imm|].
        * eapply fh_bind;
            [apply (fh_get_known _ nx l0); [exact Hnx|assumption|apply (tok_imm_wt _ _ Hoi)]|intros ? st3 Hst3].
          eapply fh_bind; [apply fh_peek_any; assumption|intros pk st4 [-> [l Hl]]].
          destruct (is_lparen pk) eqn:Elp.
          -- eapply fh_bind;
               [apply (fh_get_known _ pk l); [exact Hl|assumption|apply is_lparen_nonl; exact Elp]|intros ? ? ?].
             repeat fstep.
          -- repeat fstep.
        * destruct (is_lparen nx) eqn:Elp.
          -- eapply fh_bind;
               [apply (fh_get_known _ nx l0); [exact Hnx|assumption|apply is_lparen_nonl; exact Elp]|intros ? ? ?].
             repeat fstep.
          -- repeat fstep.
    - (* KLoad *)
      fstep. eapply fh_bind; [apply fh_get_any; assumption|intros nx st2 Hnx]; cbv beta in Hnx.
      eapply fh_bind; [apply fh_lift|intros oi st3 [-> Hoi]]. destruct oi as [imm|].
      + specialize (Hnx (proj2 (tok_imm_wt _ _ Hoi))).
        eapply fh_bind; [apply fh_peek_any; assumption|intros pk st4 [-> [l Hl]]].
        destruct (is_lparen pk) eqn:Elp.
        * eapply fh_bind;
            [apply (fh_get_known _ pk l); [exact Hl|assumption|apply is_lparen_nonl; exact Elp]|intros ? ? ?].
          repeat fstep.
        * repeat fstep.
      + destruct (tok_label nx) as [lb|] eqn:El.
        * repeat fstep.
        * destruct (is_lparen nx) eqn:Elp.
          -- specialize (Hnx (is_lparen_nonl _ Elp)). repeat fstep.
          -- fstep.
    - (* KStore *)
      fstep. eapply fh_bind; [apply fh_get_any; assumption|intros nx st2 Hnx]; cbv beta in Hnx.
      eapply fh_bind; [apply fh_lift|intros oi st3 [-> Hoi]]. destruct oi as [imm|].
      + specialize (Hnx (proj2 (tok_imm_wt _ _ Hoi))).
        eapply fh_bind; [apply fh_peek_any; assumption|intros pk st4 [-> [l Hl]]].
        destruct (is_lparen pk) eqn:Elp.
        * eapply fh_bind;
            [apply (fh_get_known _ pk l); [exact Hl|assumption|apply is_lparen_nonl; exact Elp]|intros ? ? ?].
          repeat fstep.
        * destruct (tok_reg pk) as [tmp|] eqn:Et.
          -- eapply fh_bind;
               [apply (fh_get_known _ pk l); [exact Hl|assumption|apply (tok_reg_wt _ _ Et)]|intros ? ? ?].
             repeat fstep.
          -- repeat fstep.
      + destruct (tok_label nx) as [lb|] eqn:El.
        * specialize (Hnx (proj2 (tok_label_wt _ _ El))). repeat fstep.
        * destruct (is_lparen nx) eqn:Elp.
          -- specialize (Hnx (is_lparen_nonl _ Elp)). repeat fstep.
          -- fstep.
    - repeat fstep.
    - repeat fstep.
    - repeat fstep.
    - repeat fstep.
    - (* KPseudo *) destruct i; repeat fstep.
    - (* KUpperArith *)
      fstep. fstep. destruct (lui_imm (wv a0)); repeat fstep.
  Qed.

  Lemma parse_directive_fh d t0 st : En (fst st) -> is_data_dir d = false -> d <> DMacro ->
    FH (parse_directive d t0) st Any.
  Proof.
    intros H Hd Hm. unfold parse_directive. cbv zeta.
    destruct d; try discriminate Hd; try contradiction; repeat fstep.
  Qed.

  (* -- data directives ----------------------------------------------------------------- *)
  Definition dv_stop (it : lexitem) : bool := negb (dv_cont it).

  Lemma peek_tok {A} (k : token -> P A) t l o : pbind peek_any k (LTok t :: l, o) = k t (LTok t :: l, o).
  Proof. reflexivity. Qed.

  Lemma data_values_frame : forall l o acc f f', existsb dv_stop l = true -> length l < f -> length l < f' ->
    data_values f' acc (l ++ X, o) = fmapX (data_values f acc (l, o)) /\
    (forall e st', data_values f acc (l, o) <> Ok (inl e, st')).
  Proof.
    induction l as [|it l IH]; intros o acc f f' Hs Hf Hf'; [discriminate|].
    destruct f as [|f]; [lia|]. destruct f' as [|f']; [lia|]. cbn [length] in Hf, Hf'.
    cbn [data_values app fst].
    assert (Hret : ret (rev acc) ((it :: l) ++ X, o) = fmapX (ret (rev acc) (it :: l, o)) /\
                   (forall e st', ret (rev acc) (it :: l, o) <> Ok (@inl lexerr _ e, st'))).
    { split; [reflexivity|]. intros e st'. discriminate. }
    destruct it as [t|t p k|t]; [|exact Hret|exact Hret].
    rewrite !peek_tok. cbv beta.
    assert (Hnext : dv_cont (LTok t) = true -> forall acc',
      pbind get_any (fun _ => data_values f' acc') (LTok t :: l ++ X, o) =
      fmapX (pbind get_any (fun _ => data_values f acc') (LTok t :: l, o)) /\
      (forall e st', pbind get_any (fun _ => data_values f acc') (LTok t :: l, o) <> Ok (inl e, st'))).
    { intros Hc acc'. unfold pbind, get_any. cbn [fst snd item_result].
      apply IH; [|lia|lia]. cbn [existsb] in Hs. unfold dv_stop at 1 in Hs. rewrite Hc in Hs. exact Hs. }
    assert (Himm : tt t <> TNewline ->
      pbind (lift_res (tok_imm t))
        (fun r => match r with
                  | Some i => pbind get_any (fun _ => data_values f' (i :: acc))
                  | None => ret (rev acc)
                  end) (LTok t :: l ++ X, o) =
      fmapX (pbind (lift_res (tok_imm t))
        (fun r => match r with
                  | Some i => pbind get_any (fun _ => data_values f (i :: acc))
                  | None => ret (rev acc)
                  end) (LTok t :: l, o)) /\
      (forall e st', pbind (lift_res (tok_imm t))
        (fun r => match r with
                  | Some i => pbind get_any (fun _ => data_values f (i :: acc))
                  | None => ret (rev acc)
                  end) (LTok t :: l, o) <> Ok (inl e, st'))).
    { intros Hnn. unfold pbind at 1 3 5, lift_res.
      destruct (tok_imm t) as [[i|]| |] eqn:Ei.
      - apply Hnext. unfold dv_cont. rewrite Ei. destruct (tt t); reflexivity.
      - exact Hret.
      - split; [reflexivity|]. intros e st'. discriminate.
      - split; [reflexivity|]. intros e st'. discriminate. }
    destruct (tt t) eqn:Et; try (apply Himm; discriminate).
    apply Hnext. unfold dv_cont. rewrite Et. reflexivity.
  Qed.

  Lemma data_fh (d : dirtok) t0 dt l o : existsb dv_stop l = true ->
    FH (pbind remaining (fun n => pbind (data_values (S n) [])
          (fun vals => pbind get_raw (fun rt => ret (PDirective (mkw d t0) (DDat dt vals) rt))))) (l, o) Any.
  Proof.
    intros Hs.
    destruct (data_values_frame l o [] (S (length l)) (S (length (l ++ X))) Hs) as [H1 H2];
      [lia|rewrite app_length; lia|].
    unfold FH. rewrite !remaining_bind. unfold appX. cbn [fst snd]. unfold pbind. rewrite H1.
    destruct (data_values (S (length l)) [] (l, o)) as [[[e|vals] st']| |] eqn:E; cbn [fmapX].
    - exfalso. exact (H2 e st' eq_refl).
    - unfold get_raw, ret, appX. cbn [fmapX fst snd]. split; [reflexivity|exact I].
    - split; [reflexivity|exact I].
    - split; [reflexivity|exact I].
  Qed.

  (* -- .macro -------------------------------------------------------------------------- *)
  Lemma skip_macro_frame : forall l o f f', existsb macro_stop l = true -> En l ->
    length l < f -> length l < f' ->
    skip_macro f' (l ++ X, o) = fmapX (skip_macro f (l, o)) /\
    match skip_macro f (l, o) with
    | Ok (inr _, st') => En (fst st')
    | Ok (inl e, st') => EQ e st'
    | _ => True
    end.
  Proof.
    induction l as [|it l IH]; intros o f f' Hs He Hf Hf'; [discriminate|].
    destruct f as [|f]; [lia|]. destruct f' as [|f']; [lia|]. cbn [length] in Hf, Hf'.
    cbn [skip_macro app]. unfold pbind, get_any. cbn [fst snd].
    destruct it as [t|t p k|t]; cbn [item_result].
    - assert (Hrec : macro_stop (LTok t) = false ->
                skip_macro f' (l ++ X, Some match o with
                                            | Some r => mkraw (mkrange (rstart (rrange r)) (rend (trange t))) (rfile r)
                                            | None => raw_of_token t
                                            end) =
                fmapX (skip_macro f (l, Some match o with
                                            | Some r => mkraw (mkrange (rstart (rrange r)) (rend (trange t))) (rfile r)
                                            | None => raw_of_token t
                                            end)) /\
                match skip_macro f (l, Some match o with
                                            | Some r => mkraw (mkrange (rstart (rrange r)) (rend (trange t))) (rfile r)
                                            | None => raw_of_token t
                                            end) with
                | Ok (inr _, st') => En (fst st')
                | Ok (inl e, st') => EQ e st'
                | _ => True
                end).
      { intros Hm. cbn [existsb] in Hs. rewrite Hm in Hs. cbn [orb] in Hs.
        apply IH; [exact Hs| |lia|lia]. apply (en_tail_ne _ _ He). intros ->. discriminate. }
      assert (Hstop : forall o', macro_stop (LTok t) = true ->
                @Ok ((lexerr + unit) * pstate) (inr Datatypes.tt, (l ++ X, o')) = fmapX (Ok (inr Datatypes.tt, (l, o'))) /\
                En (fst (l, o'))).
      { intros o' Hm. split; [reflexivity|]. cbn [fst]. apply (en_tail _ _ He).
        unfold macro_stop in Hm. cbn [is_nl_item]. destruct (tt t); try discriminate; reflexivity. }
      destruct o as [r|].
      + destruct (tt t) eqn:Et; try (apply Hrec; unfold macro_stop; rewrite Et; reflexivity).
        destruct (dir_from_str s) as [dd|] eqn:Ed.
        * destruct dd; try (apply Hrec; unfold macro_stop; rewrite Et, Ed; reflexivity).
          apply Hstop. unfold macro_stop. rewrite Et, Ed. reflexivity.
        * apply Hrec. unfold macro_stop. rewrite Et, Ed. reflexivity.
      + destruct (tt t) eqn:Et; try (apply Hrec; unfold macro_stop; rewrite Et; reflexivity).
        destruct (dir_from_str s) as [dd|] eqn:Ed.
        * destruct dd; try (apply Hrec; unfold macro_stop; rewrite Et, Ed; reflexivity).
          apply Hstop. unfold macro_stop. rewrite Et, Ed. reflexivity.
        * apply Hrec. unfold macro_stop. rewrite Et, Ed. reflexivity.
    - cbn [fmapX]. split; [reflexivity|]. split; [|discriminate]. intros _. cbn [fst].
      apply (en_tail _ _ He). reflexivity.
    - cbn [fmapX]. split; [reflexivity|]. split; [|discriminate]. intros _. cbn [fst].
      apply (en_tail _ _ He). reflexivity.
  Qed.

  Lemma macro_fh t0 l o : existsb macro_stop l = true -> En l ->
    FH (pbind remaining (fun n => pbind (skip_macro (S n)) (fun _ => @fail pnode (EIgnoredWithWarning t0)))) (l, o) Any.
  Proof.
    intros Hs He.
    destruct (skip_macro_frame l o (S (length l)) (S (length (l ++ X))) Hs He) as [H1 H2];
      [lia|rewrite app_length; lia|].
    unfold FH. rewrite !remaining_bind. unfold appX. cbn [fst snd]. unfold pbind. rewrite H1.
    destruct (skip_macro (S (length l)) (l, o)) as [[[e|u] st']| |] eqn:E; cbn [fmapX fail].
    - split; [reflexivity|exact H2].
    - split; [reflexivity|]. split; [|discriminate]. intros _. exact H2.
    - split; [reflexivity|exact I].
    - split; [reflexivity|exact I].
  Qed.

  (* -- one statement ------------------------------------------------------------------- *)
  Lemma forallb_existsb {A} (f : A -> bool) l : forallb f l = false -> existsb (fun x => negb (f x)) l = true.
  Proof.
    induction l as [|a l IH]; [discriminate|]. cbn [forallb existsb]. destruct (f a); cbn [andb negb orb]; [exact IH|reflexivity].
  Qed.

  Lemma parse_stmt_frame top : En top -> open_stmt top = false -> FH parse_stmt (top, None) Any.
  Proof.
    intros He Hopen. destruct top as [|it l]; [exfalso; exact (en_nonempty _ He eq_refl)|].
    destruct it as [t0|t p k|t].
    2:{ unfold FH, parse_stmt, pbind, get_any, appX. cbn [fst snd app item_result fmapX].
        split; [reflexivity|]. split; [|discriminate]. intros _. apply (en_tail _ _ He). reflexivity. }
    2:{ unfold FH, parse_stmt, pbind, get_any, appX. cbn [fst snd app item_result fmapX].
        split; [reflexivity|]. split; [|discriminate]. intros _. apply (en_tail _ _ He). reflexivity. }
    set (st1 := (l, Some (raw_of_token t0)) : pstate).
    assert (Hred : forall (k : token -> P pnode), FH (k t0) st1 Any -> FH (pbind get_any k) (LTok t0 :: l, None) Any).
    { intros k Hk. exact Hk. }
    unfold parse_stmt. apply Hred. clear Hred.
    assert (Hnl : is_newline_tok t0 = false -> En (fst st1)).
    { intros Hn. cbn [st1 fst]. apply (en_tail _ _ He). exact Hn. }
    unfold is_newline_tok in Hnl.
    destruct (tt t0) as [| | |s|s|d|s|c|s] eqn:Ett.
    - specialize (Hnl eq_refl). fstep.
    - specialize (Hnl eq_refl). fstep.
    - apply fh_fail. split; [discriminate|discriminate].
    - specialize (Hnl eq_refl). destruct (label_from_str s); [repeat fstep|].
      apply fh_fail. apply eq_expected. intros _. exact Hnl.
    - specialize (Hnl eq_refl). destruct (inst_from_str s); [apply parse_inst_fh; exact Hnl|].
      apply fh_fail. apply eq_expected. intros _. exact Hnl.
    - specialize (Hnl eq_refl). cbn [open_stmt] in Hopen. rewrite Ett in Hopen.
      destruct (dir_from_str d) as [dt|]; [|fstep].
      destruct (is_data_dir dt) eqn:Edd.
      + assert (Hs : existsb dv_stop l = true).
        { apply forallb_existsb. destruct dt; try discriminate Edd; exact Hopen. }
        unfold parse_directive. cbv zeta. destruct dt; try discriminate Edd; apply (data_fh _ t0 _ l _ Hs).
      + destruct dt; try discriminate Edd;
          try (apply parse_directive_fh; [exact Hnl|reflexivity|discriminate]).
        (* DMacro *)
        unfold parse_directive. cbv zeta. apply macro_fh; [|exact Hnl].
        apply negb_false_iff in Hopen. exact Hopen.
    - specialize (Hnl eq_refl). fstep.
    - specialize (Hnl eq_refl). fstep.
    - apply fh_fail. split; [discriminate|discriminate].
  Qed.
End Frame.

(* ================================================================================== *)
(* 2. one statement, one driver step                                                    *)

Lemma parse_one_frame top : En top -> open_stmt top = false ->
  exists x rest, parse_one top = Ok (x, rest) /\
    (forall X, parse_one (top ++ X) = Ok (x, rest ++ X)) /\
    match x with inl e => (rec_err e = true -> En rest) /\ e <> EUnexpectedEOF | inr _ => True end.
Proof.
  intros He Hopen.
  assert (Hlast : last_nl top) by (right; exact He).
  destruct (parse_one_shape top Hlast) as [x [rest [Hone _]]].
  exists x, rest. split; [exact Hone|].
  unfold parse_one in Hone |- *.
  destruct (parse_stmt (top, None)) as [[x' [rest' o']]| |] eqn:Es; cbn [bind] in Hone; try discriminate.
  inversion Hone; subst x' rest'. split.
  - intros X. destruct (parse_stmt_frame X top He Hopen) as [H1 _]. unfold appX in H1. cbn [fst snd] in H1.
    rewrite H1, Es. reflexivity.
  - destruct (parse_stmt_frame [] top He Hopen) as [_ H2]. rewrite Es in H2. destruct x; [exact H2|exact I].
Qed.

Lemma stmt_next_frame X x rest :
  match x with inl e => (rec_err e = true -> En rest) /\ e <> EUnexpectedEOF | inr _ => True end ->
  exists top', stmt_next x rest = Some top' /\ stmt_next x (rest ++ X) = Some (top' ++ X).
Proof.
  intros H. destruct x as [e|n]; [|eexists; split; reflexivity].
  destruct H as [H1 H2].
  destruct e; cbn [stmt_next rec_err] in *; try contradiction;
    try (eexists; split; reflexivity);
    try (rewrite (recover_app X rest (H1 eq_refl)); eexists; split; reflexivity).
  destruct (is_newline_tok got); cbn [negb] in H1; [eexists; split; reflexivity|].
  rewrite (recover_app X rest (H1 eq_refl)). eexists; split; reflexivity.
Qed.

Lemma stmt_next_next_top e rest : stmt_next (inl e) rest = next_top e rest.
Proof. destruct e; reflexivity. Qed.

(* the Prop form of [closed]: some amount of fuel shows it *)
Definition closedP (items : list lexitem) : Prop := exists f, closed_from f items = true.

Lemma closed_closedP items : closed items = true -> closedP items.
Proof. intros H. exists (S (length items)). exact H. Qed.

Lemma closedP_nil : closedP [].
Proof. exists 1. reflexivity. Qed.

Lemma closedP_step top : closedP top -> top <> [] ->
  open_stmt top = false /\
  exists x rest top', parse_one top = Ok (x, rest) /\ stmt_next x rest = Some top' /\ closedP top'.
Proof.
  intros [f H] Hne. destruct f as [|f]; [discriminate|]. cbn [closed_from] in H.
  destruct top as [|it l]; [contradiction|]. apply andb_true_iff in H. destruct H as [H1 H2].
  apply negb_true_iff in H1. split; [exact H1|].
  destruct (parse_one (it :: l)) as [[x rest]| |]; try discriminate.
  destruct (stmt_next x rest) as [top'|] eqn:Esn; [|discriminate].
  exists x, rest, top'. split; [reflexivity|]. split; [exact Esn|]. exists f. exact H2.
Qed.

(* one driver step on [top ++ X] when [top] ends at a statement boundary *)
Lemma dstep_frame chk fs ign top rs n e X : En top -> closedP top ->
  match dstep chk fs ign top rs n e with
  | Ok (tops, rs', n', e') =>
      exists pre top', tops = pre ++ [top'] /\
        dstep chk fs ign (top ++ X) rs n e = Ok (pre ++ [top' ++ X], rs', n', e') /\
        last_nl top' /\ closedP top'
  | Panic s => dstep chk fs ign (top ++ X) rs n e = Panic s
  | OutOfFuel => dstep chk fs ign (top ++ X) rs n e = OutOfFuel
  end.
Proof.
  intros He Hc.
  destruct (closedP_step top Hc (en_nonempty _ He)) as [Hopen [x0 [rest0 [top0 [Hp0 [Hn0 Hc0]]]]]].
  destruct (parse_one_frame top He Hopen) as [x [rest [Hone [Hfr Hpost]]]].
  rewrite Hp0 in Hone. inversion Hone; subst x0 rest0. clear Hone.
  destruct (stmt_next_frame X x rest Hpost) as [top' [Hn Hn']]. rewrite Hn0 in Hn. inversion Hn; subst top0. clear Hn.
  assert (Hlast' : last_nl top').
  { destruct (parse_one_shape top (or_intror He)) as [x1 [rest1 [Hone1 Hsh]]].
    rewrite Hp0 in Hone1. inversion Hone1; subst x1 rest1. unfold step_shape in Hsh.
    destruct x as [er|nd].
    - rewrite stmt_next_next_top in Hn0. rewrite Hn0 in Hsh. apply (psuffix_last_nl _ _ Hsh (or_intror He)).
    - cbn [stmt_next] in Hn0. inversion Hn0; subst. apply (psuffix_last_nl _ _ Hsh (or_intror He)). }
  unfold dstep. rewrite Hp0, (Hfr X). cbn [bind].
  destruct x as [er|nd].
  - rewrite Hn0, Hn'. exists [], top'. repeat split; assumption.
  - cbn [stmt_next] in Hn0, Hn'. inversion Hn0; subst top'. clear Hn0 Hn'.
    destruct (if ign then None else include_path nd) as [path|].
    + destruct (import_file fs (wv path) rs) as [[er|[id text]] rs'].
      * exists [], rest. repeat split; assumption.
      * destruct (lex_all chk (Some id) (normalize_text text)) as [items| |]; cbn [bind]; try reflexivity.
        exists [items], rest. repeat split; assumption.
    + exists [], rest. repeat split; assumption.
Qed.

Lemma dstep_nil chk fs ign rs n e : dstep chk fs ign [] rs n e = Ok ([], rs, n, e).
Proof. reflexivity. Qed.

(* ================================================================================== *)
(* 3. include = paste, on the driver: a list of items that ends at a statement boundary, *)
(*    followed by X, is driven like a file of its own on top of X                         *)

Lemma drive_concat chk fs ign : forall f above ia X below rs n e r, last_nl ia -> closedP ia ->
  drive f chk fs ign (above ++ (ia ++ X) :: below) rs n e = Ok r ->
  drive (S f) chk fs ign (above ++ ia :: X :: below) rs n e = Ok r.
Proof.
  induction f as [|f IH]; intros above ia X below rs n e r Hl Hc H; [discriminate|].
  destruct above as [|top above].
  - cbn [app] in H |- *. destruct Hl as [->|He].
    + cbn [app] in H. rewrite drive_S, dstep_nil. cbn [bind app]. exact H.
    + rewrite drive_S in H |- *. pose proof (dstep_frame chk fs ign ia rs n e X He Hc) as Hd.
      destruct (dstep chk fs ign ia rs n e) as [[[[tops rs'] n'] e']| |].
      * destruct Hd as [pre [top' [-> [Hd [Hl' Hc']]]]]. rewrite Hd in H. cbn [bind] in H |- *.
        rewrite <- app_assoc in H |- *. cbn [app] in H |- *. apply (IH pre top' X below _ _ _ _ Hl' Hc' H).
      * rewrite Hd in H. discriminate.
      * rewrite Hd in H. discriminate.
  - cbn [app] in H |- *. rewrite drive_S in H |- *.
    destruct (dstep chk fs ign top rs n e) as [[[[tops rs'] n'] e']| |]; cbn [bind] in H |- *; try discriminate.
    rewrite app_assoc in H |- *. apply (IH (tops ++ above) ia X below _ _ _ _ Hl Hc H).
Qed.

Lemma drive_concat_inv chk fs ign : forall f above ia X below rs n e r, last_nl ia -> closedP ia ->
  drive f chk fs ign (above ++ ia :: X :: below) rs n e = Ok r ->
  drive f chk fs ign (above ++ (ia ++ X) :: below) rs n e = Ok r.
Proof.
  induction f as [|f IH]; intros above ia X below rs n e r Hl Hc H; [discriminate|].
  destruct above as [|top above].
  - cbn [app] in H |- *. destruct Hl as [->|He].
    + cbn [app]. rewrite drive_S, dstep_nil in H. cbn [bind app] in H.
      apply (drive_mono_le _ _ _ f); [exact H|lia].
    + rewrite drive_S in H |- *. pose proof (dstep_frame chk fs ign ia rs n e X He Hc) as Hd.
      destruct (dstep chk fs ign ia rs n e) as [[[[tops rs'] n'] e']| |]; cbn [bind] in H; try discriminate.
      destruct Hd as [pre [top' [-> [Hd [Hl' Hc']]]]]. rewrite Hd. cbn [bind].
      rewrite <- app_assoc in H |- *. cbn [app] in H |- *. apply (IH pre top' X below _ _ _ _ Hl' Hc' H).
  - cbn [app] in H |- *. rewrite drive_S in H |- *.
    destruct (dstep chk fs ign top rs n e) as [[[[tops rs'] n'] e']| |]; cbn [bind] in H |- *; try discriminate.
    rewrite app_assoc in H |- *. apply (IH (tops ++ above) ia X below _ _ _ _ Hl Hc H).
Qed.

Theorem run_concat chk fs ign above ia X below rs n e r : last_nl ia -> closedP ia ->
  (Run chk fs ign (above ++ (ia ++ X) :: below) rs n e r <->
   Run chk fs ign (above ++ ia :: X :: below) rs n e r).
Proof.
  intros Hl Hc. split; intros [f H].
  - exists (S f). apply drive_concat; assumption.
  - exists f. apply drive_concat_inv; assumption.
Qed.

(* ================================================================================== *)
(* 4. being closed does not depend on positions                                          *)

Lemma dv_cont_erased it : dv_cont (erase_item it) = dv_cont it.
Proof.
  destruct it as [t|t p k|t]; try reflexivity. cbn [erase_item dv_cont]. cbn [erase_tok tt].
  rewrite tok_imm_erase. destruct (tt t); try reflexivity; destruct (tok_imm t) as [[i|]| |]; reflexivity.
Qed.
Lemma macro_stop_erased it : macro_stop (erase_item it) = macro_stop it.
Proof. destruct it; reflexivity. Qed.

Lemma forallb_dv_erased l : forallb dv_cont (map erase_item l) = forallb dv_cont l.
Proof. induction l as [|a l IH]; [reflexivity|]. cbn [map forallb]. rewrite dv_cont_erased, IH. reflexivity. Qed.
Lemma existsb_ms_erased l : existsb macro_stop (map erase_item l) = existsb macro_stop l.
Proof. induction l as [|a l IH]; [reflexivity|]. cbn [map existsb]. rewrite macro_stop_erased, IH. reflexivity. Qed.

Lemma open_stmt_erased l : open_stmt (map erase_item l) = open_stmt l.
Proof.
  destruct l as [|it l]; [reflexivity|]. destruct it as [t|t p k|t]; try reflexivity.
  cbn [map erase_item open_stmt]. cbn [erase_tok tt]. destruct (tt t); try reflexivity.
  rewrite forallb_dv_erased, existsb_ms_erased. reflexivity.
Qed.

Lemma closed_from_erased : forall f l, closed_from f (map erase_item l) = closed_from f l.
Proof.
  induction f as [|f IH]; intros l; [reflexivity|]. cbn [closed_from].
  destruct l as [|it l]; [reflexivity|].
  change (map erase_item (it :: l)) with (erase_item it :: map erase_item l).
  change (erase_item it :: map erase_item l) with (map erase_item (it :: l)).
  rewrite open_stmt_erased, parse_one_erased.
  cbn [map]. destruct (parse_one (it :: l)) as [[x rest]| |]; cbn [erase_one]; try reflexivity.
  rewrite stmt_next_erased. destruct (stmt_next x rest); cbn [option_map]; [|reflexivity].
  rewrite IH. reflexivity.
Qed.

Lemma closed_from_items_eq f l1 l2 : items_eq l1 l2 -> closed_from f l1 = closed_from f l2.
Proof. intros H. rewrite <- (closed_from_erased f l1), <- (closed_from_erased f l2), H. reflexivity. Qed.

Lemma closedP_items_eq l1 l2 : items_eq l1 l2 -> closedP l1 -> closedP l2.
Proof. intros H [f Hf]. exists f. rewrite <- (closed_from_items_eq f l1 l2 H). exact Hf. Qed.

Lemma closed_items_eq l1 l2 : items_eq l1 l2 -> closed l1 = closed l2.
Proof. intros H. unfold closed. rewrite (items_eq_length _ _ H). apply closed_from_items_eq. exact H. Qed.

Lemma last_nl_items_eq l1 l2 : items_eq l1 l2 -> last_nl l1 -> last_nl l2.
Proof.
  intros H [->|[pre [t [-> Ht]]]].
  - left. apply items_eq_nil_l. exact H.
  - right. unfold items_eq in H. rewrite map_app in H. cbn [map] in H.
    destruct (exists_last (l := l2)) as [pre2 [x Hx]].
    { intros ->. destruct pre; discriminate. }
    subst l2. rewrite map_app in H. cbn [map] in H. apply app_inj_tail in H. destruct H as [_ H].
    destruct x as [t2| |]; cbn [erase_item] in H; try discriminate.
    exists pre2, t2. split; [reflexivity|]. unfold erase_tok in H. inversion H as [Htt]. congruence.
Qed.
