(* C19 - proofs for the data layer of the `--yaml` dump (Model/Serde.v): the decimal codec,
   MemoryLocation's string codec, AvailableValue, register sets and the per-node record. *)
From RV.Model Require Import Base I32 Lexer Isa Parser Cfg Serde.
From Coq Require Import Lia ZifyN ZifyNat ZifyBool.
From Coq Require Decimal DecimalPos DecimalN.
Open Scope Z_scope.

(* ---- local copies of the helper definitions of Props/C19.v ------------------------------- *)
Definition aval_ok (v : aval) : Prop :=
  match v with
  | ARegScalar r _ | AOrig r _ | AMemAtReg r _ | AMemAtOrig r _ => (r < 32)%N
  | _ => True
  end.
Definition erase_tok (v : aval) : aval :=
  match v with AAddr l => AAddr (mkw (wv l) tok_default) | _ => v end.
Definition memloc_ok (l : memloc) : Prop :=
  match l with
  | MStack off => in32 off
  | MCsr c => 0 <= c < 4294967296
  | MCsrOff c off => 0 <= c < 4294967296 /\ in32 off
  end.
Definition facts_ok (f : facts) : Prop :=
  (forall kv, In kv (f_rin f ++ f_rout f) -> (fst kv < 32)%N /\ aval_ok (snd kv)) /\
  (forall kv, In kv (f_min f ++ f_mout f) -> memloc_ok (fst kv) /\ aval_ok (snd kv)) /\
  (f_lin f < 4294967296)%N /\ (f_lout f < 4294967296)%N /\ (f_udef f < 4294967296)%N.
Definition erase_facts (f : facts) : facts :=
  mkfacts (f_nexts f) (f_prevs f) (f_entry f) (f_exit f)
          (map (fun kv => (fst kv, erase_tok (snd kv))) (f_rin f)) (map (fun kv => (fst kv, erase_tok (snd kv))) (f_rout f))
          (map (fun kv => (fst kv, erase_tok (snd kv))) (f_min f)) (map (fun kv => (fst kv, erase_tok (snd kv))) (f_mout f))
          (f_lin f) (f_lout f) (f_udef f).

Lemma Some_inj {A} (a b : A) : Some a = Some b -> a = b.
Proof. congruence. Qed.

(* ---- strings ------------------------------------------------------------------------------ *)
Lemma str_eqb_refl s : str_eqb s s = true.
Proof. induction s as [|c s IH]; [reflexivity|]. cbn [str_eqb]. now rewrite N.eqb_refl, IH. Qed.

Lemma strip_prefix_app p x : strip_prefix p (p ++ x) = Some x.
Proof. induction p as [|c p IH]; [reflexivity|]. cbn [app strip_prefix]. now rewrite N.eqb_refl. Qed.

(* ---- decimal text -------------------------------------------------------------------------- *)
Definition isdig (c : char) : Prop := (48 <= c <= 57)%N.

Lemma digits_val_cons c s acc :
  isdig c -> digits_val (c :: s) acc = digits_val s (acc * 10 + (Z.of_N c - 48)).
Proof.
  intros H. cbn [digits_val]. unfold is_ascii_digit, in_range.
  replace (N.leb 48 c && N.leb c 57)%bool with true; [reflexivity|].
  unfold isdig in H. lia.
Qed.

Lemma uint_to_str_digits d : Forall isdig (uint_to_str d).
Proof.
  induction d; cbn [uint_to_str]; constructor; auto; unfold isdig; lia.
Qed.

Lemma uint_to_str_nonnil d : d <> Decimal.Nil -> uint_to_str d <> [].
Proof. destruct d; cbn [uint_to_str]; congruence. Qed.

Lemma digits_val_acc d : forall acc z, z = Z.pos acc ->
  digits_val (uint_to_str d) z = Some (Z.pos (Pos.of_uint_acc d acc)).
Proof.
  induction d; intros acc z Hz; cbn [uint_to_str Pos.of_uint_acc];
    try (rewrite digits_val_cons by (unfold isdig; lia); apply IHd; lia).
  cbn [digits_val]. now subst.
Qed.

Lemma digits_val_of_uint d :
  digits_val (uint_to_str d) 0 = Some (Z.of_N (Pos.of_uint d)).
Proof.
  induction d; cbn [uint_to_str Pos.of_uint];
    try (rewrite digits_val_cons by (unfold isdig; lia)).
  - reflexivity.
  - replace (0 * 10 + (Z.of_N 48 - 48)) with 0 by lia. exact IHd.
  - erewrite digits_val_acc; [reflexivity|lia].
  - erewrite digits_val_acc; [reflexivity|lia].
  - erewrite digits_val_acc; [reflexivity|lia].
  - erewrite digits_val_acc; [reflexivity|lia].
  - erewrite digits_val_acc; [reflexivity|lia].
  - erewrite digits_val_acc; [reflexivity|lia].
  - erewrite digits_val_acc; [reflexivity|lia].
  - erewrite digits_val_acc; [reflexivity|lia].
  - erewrite digits_val_acc; [reflexivity|lia].
Qed.

Lemma to_uint_nonnil n : N.to_uint n <> Decimal.Nil.
Proof. destruct n; [discriminate|]. apply DecimalPos.Unsigned.to_uint_nonnil. Qed.

Lemma parse_digits_to_uint n :
  parse_digits (uint_to_str (N.to_uint n)) = Some (Z.of_N n).
Proof.
  unfold parse_digits.
  destruct (uint_to_str (N.to_uint n)) eqn:E.
  - exfalso. revert E. apply uint_to_str_nonnil, to_uint_nonnil.
  - rewrite <- E. rewrite digits_val_of_uint.
    change (Pos.of_uint (N.to_uint n)) with (N.of_uint (N.to_uint n)).
    now rewrite DecimalN.Unsigned.of_to.
Qed.

Lemma show_nat_digits n : Forall isdig (show_nat n).
Proof. apply uint_to_str_digits. Qed.

Lemma parse_show_nat n : 0 <= n -> parse_digits (show_nat n) = Some n.
Proof. intros H. unfold show_nat. rewrite parse_digits_to_uint. f_equal. lia. Qed.

Lemma show_nat_head n : exists c s, show_nat n = c :: s /\ isdig c.
Proof.
  pose proof (show_nat_digits n) as F.
  destruct (show_nat n) as [|c s] eqn:E.
  - exfalso. revert E. apply uint_to_str_nonnil, to_uint_nonnil.
  - exists c, s. split; [reflexivity|]. now inversion F.
Qed.

Lemma isdig_not_plus c : isdig c -> N.eqb c c_plus = false.
Proof. unfold isdig, c_plus. lia. Qed.
Lemma isdig_not_minus c : isdig c -> N.eqb c c_minus = false.
Proof. unfold isdig, c_minus. lia. Qed.

Lemma in32b_true v : in32 v -> in32b v = true.
Proof. unfold in32, in32b, i32_min, i32_max. lia. Qed.

Lemma parse_i32_minus s v :
  parse_digits s = Some v -> in32 (- v) -> parse_i32 (c_minus :: s) = Some (- v).
Proof.
  intros P R. unfold parse_i32. cbv zeta. rewrite N.eqb_refl, P. cbn [option_map].
  now rewrite in32b_true.
Qed.

Lemma parse_i32_plus s v :
  parse_digits s = Some v -> in32 v -> parse_i32 (c_plus :: s) = Some v.
Proof.
  intros P R. unfold parse_i32. cbv zeta.
  change (N.eqb c_plus c_minus) with false. rewrite N.eqb_refl, P. cbv iota.
  now rewrite in32b_true.
Qed.

Lemma parse_i32_digits c s v :
  isdig c -> parse_digits (c :: s) = Some v -> in32 v -> parse_i32 (c :: s) = Some v.
Proof.
  intros D P R. unfold parse_i32. cbv zeta.
  rewrite (isdig_not_minus _ D), (isdig_not_plus _ D), P.
  now rewrite in32b_true.
Qed.

Lemma parse_u32_digits c s v :
  isdig c -> parse_digits (c :: s) = Some v -> v < 4294967296 -> parse_u32 (c :: s) = Some v.
Proof.
  intros D P R. unfold parse_u32. cbv zeta.
  rewrite (isdig_not_plus _ D), P.
  replace (Z.ltb v 4294967296) with true by lia. reflexivity.
Qed.

Lemma parse_u32_show_nat c : 0 <= c < 4294967296 -> parse_u32 (show_nat c) = Some c.
Proof.
  intros H. destruct (show_nat_head c) as (d & s & E & D).
  rewrite E. apply parse_u32_digits; [exact D| |lia].
  rewrite <- E. apply parse_show_nat. lia.
Qed.

Lemma parse_i32_show_int i : in32 i -> parse_i32 (show_int i) = Some i.
Proof.
  intros H. unfold show_int. destruct (Z.ltb_spec i 0) as [L|L].
  - replace i with (- - i) at 2 by lia.
    apply parse_i32_minus; [apply parse_show_nat; lia|].
    now replace (- - i) with i by lia.
  - destruct (show_nat_head i) as (d & s & E & D).
    rewrite E. apply parse_i32_digits; [exact D| |exact H].
    rewrite <- E. now apply parse_show_nat.
Qed.

(* ---- split on '+' --------------------------------------------------------------------------- *)
Definition noplus (s : str) : Prop := Forall (fun c => N.eqb c c_plus = false) s.

Lemma split_plus_noplus s : noplus s -> forall rest cur,
  split_plus (s ++ rest) cur = split_plus rest (rev s ++ cur).
Proof.
  induction 1 as [|c s Hc Hs IH]; intros rest cur; [reflexivity|].
  cbn [app split_plus rev]. rewrite Hc, IH. now rewrite <- app_assoc.
Qed.

Lemma split_plus_two a b : noplus a -> noplus b ->
  split_plus (a ++ [c_plus] ++ b) [] = [a; b].
Proof.
  intros Ha Hb. rewrite (split_plus_noplus a Ha). cbn [app split_plus].
  rewrite N.eqb_refl. rewrite app_nil_r, rev_involutive. f_equal.
  rewrite <- (app_nil_r b) at 1. rewrite (split_plus_noplus b Hb). cbn [split_plus].
  now rewrite app_nil_r, rev_involutive.
Qed.

Lemma digits_noplus s : Forall isdig s -> noplus s.
Proof. apply Forall_impl. intros c. apply isdig_not_plus. Qed.

Lemma show_int_noplus i : noplus (show_int i).
Proof.
  unfold show_int. destruct (Z.ltb i 0).
  - constructor; [reflexivity|]. apply digits_noplus, show_nat_digits.
  - apply digits_noplus, show_nat_digits.
Qed.

(* ---- MemoryLocation ------------------------------------------------------------------------- *)
Lemma sp_so_csr x : strip_prefix «"so"» («"csr+"» ++ x) = None.
Proof. reflexivity. Qed.
Lemma sp_so_csro x : strip_prefix «"so"» («"csro+"» ++ x) = None.
Proof. reflexivity. Qed.
Lemma sp_csr_csro x : strip_prefix «"csr+"» («"csro+"» ++ x) = None.
Proof. reflexivity. Qed.

Lemma memloc_parse_show l : memloc_ok l -> parse_memloc (show_memloc l) = Some l.
Proof.
  destruct l as [i|c|c off]; cbn [memloc_ok]; intros H; unfold parse_memloc, show_memloc.
  - rewrite strip_prefix_app.
    destruct (Z.ltb_spec i 0) as [L|L]; cbn [app].
    + rewrite (parse_i32_minus _ (Z.abs i)).
      * cbn [option_map]. f_equal. f_equal. lia.
      * apply parse_show_nat. lia.
      * replace (- Z.abs i) with i by lia. exact H.
    + rewrite (parse_i32_plus _ (Z.abs i)).
      * cbn [option_map]. f_equal. f_equal. lia.
      * apply parse_show_nat. lia.
      * replace (Z.abs i) with i by lia. exact H.
  - rewrite sp_so_csr, strip_prefix_app, parse_u32_show_nat by exact H. reflexivity.
  - destruct H as [Hc Ho].
    rewrite sp_so_csro, sp_csr_csro, strip_prefix_app.
    rewrite split_plus_two by (apply show_int_noplus || apply digits_noplus, show_nat_digits).
    now rewrite parse_u32_show_nat, parse_i32_show_int.
Qed.

Theorem memloc_roundtrip :
  (forall l, memloc_ok l -> parse_memloc (show_memloc l) = Some l) /\
  (forall l m, memloc_ok l -> memloc_ok m -> show_memloc l = show_memloc m -> l = m).
Proof.
  split; [exact memloc_parse_show|].
  intros l m Hl Hm E. apply Some_inj.
  rewrite <- (memloc_parse_show l Hl), <- (memloc_parse_show m Hm). now rewrite E.
Qed.

(* ---- AvailableValue ------------------------------------------------------------------------- *)
Lemma de_reg_of_N r : (r < 32)%N -> de_reg (Z.of_N r) = Some r.
Proof.
  intros H. unfold de_reg.
  replace (Z.leb 0 (Z.of_N r) && Z.ltb (Z.of_N r) 32)%bool with true by lia.
  now rewrite N2Z.id.
Qed.

Lemma aval_de_ser v : aval_ok v -> de_aval (ser_aval v) = Some (erase_tok v).
Proof.
  destruct v; cbn [aval_ok]; intros H; unfold ser_aval, de_aval, erase_tok;
    try rewrite (de_reg_of_N _ H); reflexivity.
Qed.

Lemma aval_eqb_erase v w : erase_tok v = erase_tok w -> aval_eqb v w = true.
Proof.
  destruct v, w; cbn [erase_tok]; intros E; inversion E; subst; cbn [aval_eqb];
    rewrite ?Z.eqb_refl, ?N.eqb_refl, ?str_eqb_refl; try reflexivity.
  match goal with H : wv _ = wv _ |- _ => rewrite H end. apply str_eqb_refl.
Qed.

Theorem aval_roundtrip :
  (forall v, aval_ok v -> de_aval (ser_aval v) = Some (erase_tok v)) /\
  (forall v w, aval_ok v -> aval_ok w -> ser_aval v = ser_aval w -> aval_eqb v w = true).
Proof.
  split; [exact aval_de_ser|].
  intros v w Hv Hw E. apply aval_eqb_erase. apply Some_inj.
  rewrite <- (aval_de_ser v Hv), <- (aval_de_ser w Hw). now rewrite E.
Qed.

(* ---- lists ---------------------------------------------------------------------------------- *)
Lemma de_list_map {X A B} (g : X -> option B) (f : A -> X) (h : A -> B) l :
  (forall a, In a l -> g (f a) = Some (h a)) -> de_list g (map f l) = Some (map h l).
Proof.
  induction l as [|a l IH]; intros H; [reflexivity|].
  cbn [map de_list]. rewrite (H a (or_introl eq_refl)), IH; [reflexivity|].
  intros b Hb. apply H. now right.
Qed.

(* ---- register sets -------------------------------------------------------------------------- *)
Lemma testbit_rs_of_list l n : N.testbit (rs_of_list l) n = existsb (N.eqb n) l.
Proof.
  induction l as [|r l IH]; cbn [rs_of_list existsb].
  - apply N.bits_0.
  - unfold rs_union, rs_one. rewrite N.lor_spec, IH, N.shiftl_1_l, N.pow2_bits_eqb.
    now rewrite (N.eqb_sym r n).
Qed.

Lemma existsb_filter (p : N -> bool) l n :
  existsb (N.eqb n) (filter p l) = (p n && existsb (N.eqb n) l)%bool.
Proof.
  induction l as [|x l IH]; cbn [filter existsb]; [now rewrite andb_false_r|].
  destruct (N.eqb_spec n x) as [->|Ne].
  - destruct (p x) eqn:Px; cbn [existsb orb andb].
    + now rewrite N.eqb_refl.
    + rewrite IH. reflexivity.
  - destruct (p x); cbn [existsb]; rewrite ?IH.
    + rewrite (proj2 (N.eqb_neq n x) Ne). reflexivity.
    + reflexivity.
Qed.

Lemma in_all_regs r : In r all_regs <-> (r < 32)%N.
Proof.
  split.
  - unfold all_regs. cbn [In]. intros H.
    repeat (destruct H as [H|H]; [subst r; reflexivity|]). contradiction.
  - intros H. rewrite <- (N2Nat.id r). assert (K : (N.to_nat r < 32)%nat) by lia.
    revert K. generalize (N.to_nat r). intros k K.
    do 32 (destruct k as [|k]; [vm_compute; tauto|]). lia.
Qed.

Lemma existsb_all_regs n : existsb (N.eqb n) all_regs = N.ltb n 32.
Proof.
  destruct (N.ltb_spec n 32) as [L|L].
  - apply existsb_exists. exists n. split; [now apply in_all_regs|apply N.eqb_refl].
  - destruct (existsb (N.eqb n) all_regs) eqn:E; [|reflexivity].
    apply existsb_exists in E. destruct E as (x & Hx & Ex).
    apply in_all_regs in Hx. apply N.eqb_eq in Ex. lia.
Qed.

Lemma testbit_high s n : (s < 4294967296)%N -> (32 <= n)%N -> N.testbit s n = false.
Proof.
  intros Hs Hn. destruct (N.eq_dec s 0) as [->|Nz]; [apply N.bits_0|].
  apply N.bits_above_log2.
  apply N.lt_le_trans with 32%N; [|exact Hn].
  apply N.log2_lt_pow2; [lia|]. exact Hs.
Qed.

(* `rs_elems` is only ever opened through this equation: letting the kernel compare the unfolded
   filter over the 32 registers against itself is exponential *)
Lemma rs_elems_eq s : rs_elems s = filter (fun r => N.testbit s r) all_regs.
Proof. reflexivity. Qed.

Lemma elems_lt s r : In r (rs_elems s) -> (r < 32)%N.
Proof.
  rewrite rs_elems_eq. intros Hr. apply filter_In in Hr. destruct Hr as [Hr _].
  apply (proj1 (in_all_regs r)). exact Hr.
Qed.

Lemma rs_of_list_elems s : (s < 4294967296)%N -> rs_of_list (rs_elems s) = s.
Proof.
  intros Hs. apply N.bits_inj. intros n.
  rewrite testbit_rs_of_list, rs_elems_eq.
  rewrite (existsb_filter (fun r => N.testbit s r)), existsb_all_regs.
  destruct (N.ltb_spec n 32) as [L|L].
  - apply andb_true_r.
  - rewrite andb_false_r. symmetry. now apply testbit_high.
Qed.

Theorem regset_roundtrip :
  forall s : regset, (s < 4294967296)%N -> de_regset (ser_regset s) = Some s.
Proof.
  intros s Hs. unfold de_regset, ser_regset.
  rewrite (de_list_map _ _ (fun r => r)).
  - cbn [option_map]. rewrite map_id. f_equal. now apply rs_of_list_elems.
  - intros r Hr. apply de_reg_of_N. exact (elems_lt s r Hr).
Qed.

(* ---- node records --------------------------------------------------------------------------- *)
Lemma idx_roundtrip l : de_idx (ser_idx l) = Some l.
Proof.
  unfold de_idx, ser_idx. rewrite (de_list_map _ _ (fun i => i)); [now rewrite map_id|].
  intros i _. replace (Z.leb 0 (Z.of_nat i)) with true by lia. now rewrite Nat2Z.id.
Qed.

Lemma regmap_roundtrip m :
  (forall kv, In kv m -> (fst kv < 32)%N /\ aval_ok (snd kv)) ->
  de_regmap (ser_regmap m) = Some (map (fun kv => (fst kv, erase_tok (snd kv))) m).
Proof.
  intros H. unfold de_regmap, ser_regmap. apply de_list_map.
  intros kv Hkv. destruct (H kv Hkv) as [Hr Hv]. cbn [fst snd].
  now rewrite de_reg_of_N, aval_de_ser.
Qed.

Lemma memmap_roundtrip m :
  (forall kv, In kv m -> memloc_ok (fst kv) /\ aval_ok (snd kv)) ->
  de_memmap (ser_memmap m) = Some (map (fun kv => (fst kv, erase_tok (snd kv))) m).
Proof.
  intros H. unfold de_memmap, ser_memmap. apply de_list_map.
  intros kv Hkv. destruct (H kv Hkv) as [Hr Hv]. cbn [fst snd].
  now rewrite memloc_parse_show, aval_de_ser.
Qed.

Lemma facts_de_ser f : facts_ok f -> de_facts (ser_facts f) = Some (erase_facts f).
Proof.
  intros (Hr & Hm & Hi & Ho & Hu). unfold ser_facts, de_facts.
  rewrite !idx_roundtrip.
  rewrite (regmap_roundtrip (f_rin f)) by (intros kv K; apply Hr, in_or_app; now left).
  rewrite (regmap_roundtrip (f_rout f)) by (intros kv K; apply Hr, in_or_app; now right).
  rewrite (memmap_roundtrip (f_min f)) by (intros kv K; apply Hm, in_or_app; now left).
  rewrite (memmap_roundtrip (f_mout f)) by (intros kv K; apply Hm, in_or_app; now right).
  rewrite !regset_roundtrip by assumption.
  reflexivity.
Qed.

Theorem facts_roundtrip :
  (forall f, facts_ok f -> de_facts (ser_facts f) = Some (erase_facts f)) /\
  (forall f f', facts_ok f -> facts_ok f' -> ser_facts f = ser_facts f' -> erase_facts f = erase_facts f').
Proof.
  split; [exact facts_de_ser|].
  intros f f' Hf Hf' E. apply Some_inj.
  rewrite <- (facts_de_ser f Hf), <- (facts_de_ser f' Hf'). now rewrite E.
Qed.
