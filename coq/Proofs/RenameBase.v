(* C14, part 1: class permutations, register sets, the tables, per-node functions. *)
From Coq Require Import Lia ZifyBool ZifyN Sorting.Sorted Permutation.
From RV.Model Require Import Base I32 Imm Lexer Isa Parser Reader Cfg Avail Live Lints.
From RV.Spec Require Import RenameSpec.
Open Scope N_scope.

(* ---- generic helpers ------------------------------------------------------------------------ *)
Lemma bool_iff (a b : bool) : (a = true <-> b = true) -> a = b.
Proof. destruct a, b; intros [H1 H2]; try reflexivity; [symmetry; apply H1 | apply H2]; reflexivity. Qed.

Lemma all_regs_seq : all_regs = map N.of_nat (seq 0 32).
Proof. reflexivity. Qed.

Lemma in_all_regs r : In r all_regs <-> r < 32.
Proof.
  rewrite all_regs_seq, in_map_iff. split.
  - intros [k [<- Hk]]. apply in_seq in Hk. lia.
  - intros H. exists (N.to_nat r). split; [apply N2Nat.id | apply in_seq; lia].
Qed.

Lemma forall_regs32 (P : N -> bool) : forallb P all_regs = true -> forall r, r < 32 -> P r = true.
Proof. intros H r Hr. rewrite forallb_forall in H. apply H, in_all_regs, Hr. Qed.

Lemma NoDup_all_regs : NoDup all_regs.
Proof. rewrite all_regs_seq. apply FinFun.Injective_map_NoDup; [intros a b; apply Nat2N.inj | apply seq_NoDup]. Qed.

(* ---- membership in register sets ------------------------------------------------------------ *)
Lemma mem_one r d : rs_mem r (rs_one d) = N.eqb d r.
Proof. unfold rs_mem, rs_one. rewrite N.shiftl_1_l. apply N.pow2_bits_eqb. Qed.
Lemma mem_union r a b : rs_mem r (rs_union a b) = (rs_mem r a || rs_mem r b)%bool.
Proof. apply N.lor_spec. Qed.
Lemma mem_inter r a b : rs_mem r (rs_inter a b) = (rs_mem r a && rs_mem r b)%bool.
Proof. apply N.land_spec. Qed.
Lemma mem_diff r a b : rs_mem r (rs_diff a b) = (rs_mem r a && negb (rs_mem r b))%bool.
Proof. apply N.ldiff_spec. Qed.
Lemma mem_empty r : rs_mem r rs_empty = false.
Proof. apply N.bits_0. Qed.
Lemma mem_0 r : rs_mem r 0 = false.
Proof. apply N.bits_0. Qed.
Lemma mem_of_list r l : rs_mem r (rs_of_list l) = existsb (fun d => N.eqb d r) l.
Proof.
  induction l as [|d l IH]; cbn [rs_of_list existsb]; [apply N.bits_0|].
  rewrite mem_union, mem_one, IH. reflexivity.
Qed.
Lemma mem_high r x : rs_mem r (rs_high x) = (N.leb 32 r && rs_mem r x)%bool.
Proof.
  unfold rs_mem, rs_high. destruct (N.leb 32 r) eqn:E.
  - apply N.leb_le in E. rewrite N.shiftl_spec_high' by exact E. rewrite N.shiftr_spec'.
    replace (r - 32 + 32) with r by lia. reflexivity.
  - apply N.leb_gt in E. rewrite N.shiftl_spec_low by exact E. reflexivity.
Qed.
Lemma in_rs_elems r x : In r (rs_elems x) <-> r < 32 /\ rs_mem r x = true.
Proof. unfold rs_elems. rewrite filter_In, in_all_regs. tauto. Qed.
Lemma NoDup_rs_elems x : NoDup (rs_elems x).
Proof. apply NoDup_filter, NoDup_all_regs. Qed.

Lemma regset_ext a b : (forall r, rs_mem r a = rs_mem r b) -> a = b.
Proof. intros H. apply N.bits_inj. exact H. Qed.

Lemma small_mem x r : x < 4294967296 -> rs_mem r x = true -> r < 32.
Proof.
  intros Hx Hm. destruct (N.ltb_spec r 32) as [H|H]; [exact H|].
  exfalso. destruct (N.eq_dec x 0) as [->|Hz]; [rewrite mem_0 in Hm; discriminate|].
  assert (L : N.log2 x < 32) by (apply N.log2_lt_pow2; [lia|exact Hx]).
  unfold rs_mem in Hm. rewrite N.bits_above_log2 in Hm by lia. discriminate.
Qed.

Lemma temp_lt r : is_temp r = true -> r < 32.
Proof. apply small_mem. reflexivity. Qed.
Lemma saved_lt r : is_saved r = true -> r < 32.
Proof. apply small_mem. reflexivity. Qed.

Lemma eqb_inj (s : reg -> reg) (Hi : forall a b, s a = s b -> a = b) a b : N.eqb (s a) (s b) = N.eqb a b.
Proof.
  destruct (N.eqb_spec a b) as [->|N]; [apply N.eqb_refl|].
  apply N.eqb_neq. intros E. apply N, Hi, E.
Qed.

(* ---- class permutations --------------------------------------------------------------------- *)
Section Perm.
Variable s : reg -> reg.
Hypothesis Hs : class_perm s.

Lemma s_eqb a b : N.eqb (s a) (s b) = N.eqb a b.
Proof. apply eqb_inj, (cp_inj s Hs). Qed.

Lemma s_fix_ge r : 32 <= r -> s r = r.
Proof.
  intros H. apply (cp_fix s Hs).
  - destruct (is_temp r) eqn:E; [apply temp_lt in E; lia | reflexivity].
  - destruct (is_saved r) eqn:E; [apply saved_lt in E; lia | reflexivity].
Qed.

Lemma s_lt r : r < 32 -> s r < 32.
Proof.
  intros H. destruct (is_temp r) eqn:Et.
  - apply temp_lt, (cp_temp s Hs), Et.
  - destruct (is_saved r) eqn:Es.
    + apply saved_lt, (cp_saved s Hs), Es.
    + rewrite (cp_fix s Hs r Et Es). exact H.
Qed.

Lemma s_lt_iff r : s r < 32 <-> r < 32.
Proof.
  split; [|apply s_lt]. intros H. destruct (N.ltb_spec r 32) as [L|L]; [exact L|].
  rewrite (s_fix_ge r L) in H. exact H.
Qed.

Lemma s_fixed_eqb k a : s k = k -> N.eqb (s a) k = N.eqb a k.
Proof. intros E. rewrite <- E at 1. apply s_eqb. Qed.
Lemma s_fixed_eqb' k a : s k = k -> N.eqb k (s a) = N.eqb k a.
Proof. intros E. rewrite (N.eqb_sym k (s a)), (N.eqb_sym k a). apply s_fixed_eqb, E. Qed.

Lemma s_0 : s 0 = 0. Proof. apply (cp_fix s Hs); reflexivity. Qed.
Lemma s_1 : s 1 = 1. Proof. apply (cp_fix s Hs); reflexivity. Qed.
Lemma s_2 : s 2 = 2. Proof. apply (cp_fix s Hs); reflexivity. Qed.
Lemma s_17 : s 17 = 17. Proof. apply (cp_fix s Hs); reflexivity. Qed.

(* the defining property of perm_set *)
Lemma perm_set_spec x r : rs_mem (s r) (perm_set s x) = rs_mem r x.
Proof.
  unfold perm_set. rewrite mem_union, mem_of_list, mem_high.
  destruct (N.ltb_spec r 32) as [L|L].
  - assert (L' : s r < 32) by (apply s_lt, L).
    replace (N.leb 32 (s r)) with false by (symmetry; apply N.leb_gt, L').
    cbn [andb]. rewrite orb_false_r. apply bool_iff. rewrite existsb_exists. split.
    + intros [d [Hd E]]. apply N.eqb_eq in E. apply in_map_iff in Hd. destruct Hd as [q [<- Hq]].
      apply (cp_inj s Hs) in E. subst q. apply in_rs_elems in Hq. apply Hq.
    + intros H. exists (s r). split; [|apply N.eqb_refl]. apply in_map, in_rs_elems. split; assumption.
  - rewrite (s_fix_ge r L). replace (N.leb 32 r) with true by (symmetry; apply N.leb_le, L).
    cbn [andb]. replace (existsb (fun d => N.eqb d r) (map s (rs_elems x))) with false; [reflexivity|].
    symmetry. apply not_true_is_false. intros H. apply existsb_exists in H. destruct H as [d [Hd E]].
    apply N.eqb_eq in E. subst d. apply in_map_iff in Hd. destruct Hd as [q [E Hq]].
    apply in_rs_elems in Hq. destruct Hq as [Hq _]. apply s_lt in Hq. rewrite E in Hq. lia.
Qed.

Lemma perm_set_char x y : (forall r, rs_mem (s r) y = rs_mem r x) -> perm_set s x = y.
Proof.
  intros H. apply regset_ext. intros n. destruct (cp_surj s Hs n) as [r <-].
  rewrite perm_set_spec. symmetry. apply H.
Qed.

Lemma perm_set_union a b : perm_set s (rs_union a b) = rs_union (perm_set s a) (perm_set s b).
Proof. apply perm_set_char. intros r. rewrite !mem_union, !perm_set_spec. reflexivity. Qed.
Lemma perm_set_inter a b : perm_set s (rs_inter a b) = rs_inter (perm_set s a) (perm_set s b).
Proof. apply perm_set_char. intros r. rewrite !mem_inter, !perm_set_spec. reflexivity. Qed.
Lemma perm_set_diff a b : perm_set s (rs_diff a b) = rs_diff (perm_set s a) (perm_set s b).
Proof. apply perm_set_char. intros r. rewrite !mem_diff, !perm_set_spec. reflexivity. Qed.
Lemma perm_set_empty : perm_set s rs_empty = rs_empty.
Proof. apply perm_set_char. intros r. rewrite !mem_empty. reflexivity. Qed.
Lemma perm_set_0 : perm_set s 0 = 0.
Proof. exact perm_set_empty. Qed.
Lemma perm_set_one r : perm_set s (rs_one r) = rs_one (s r).
Proof. apply perm_set_char. intros q. rewrite !mem_one. apply s_eqb. Qed.
Lemma perm_set_of_list l : perm_set s (rs_of_list l) = rs_of_list (map s l).
Proof.
  induction l as [|d l IH]; cbn [rs_of_list map]; [apply perm_set_0|].
  rewrite perm_set_union, perm_set_one, IH. reflexivity.
Qed.

Lemma perm_set_inj a b : perm_set s a = perm_set s b -> a = b.
Proof. intros E. apply regset_ext. intros r. rewrite <- (perm_set_spec a r), <- (perm_set_spec b r), E. reflexivity. Qed.
Lemma perm_set_eqb a b : N.eqb (perm_set s a) (perm_set s b) = N.eqb a b.
Proof.
  destruct (N.eqb_spec a b) as [->|N]; [apply N.eqb_refl|].
  apply N.eqb_neq. intros E. apply N, perm_set_inj, E.
Qed.

Lemma perm_set_invariant S : (forall r, rs_mem (s r) S = rs_mem r S) -> perm_set s S = S.
Proof. apply perm_set_char. Qed.

(* the elements of the image are the images of the elements, in a possibly different order *)
Lemma rs_elems_perm x : Permutation (rs_elems (perm_set s x)) (map s (rs_elems x)).
Proof.
  apply NoDup_Permutation.
  - apply NoDup_rs_elems.
  - apply FinFun.Injective_map_NoDup; [exact (cp_inj s Hs) | apply NoDup_rs_elems].
  - intros n. rewrite in_rs_elems, in_map_iff. split.
    + intros [Hn Hm]. destruct (cp_surj s Hs n) as [r <-]. exists r. split; [reflexivity|].
      apply in_rs_elems. rewrite perm_set_spec in Hm. split; [apply s_lt_iff, Hn | exact Hm].
    + intros [r [<- Hr]]. apply in_rs_elems in Hr. destruct Hr as [Hr Hm].
      rewrite perm_set_spec. split; [apply s_lt, Hr | exact Hm].
Qed.

(* ---- TABLES: sets that are unions of whole classes and of registers outside both classes ----- *)
Definition class_closed (S : regset) : bool :=
  ((N.eqb (rs_inter S temporary_set) temporary_set || N.eqb (rs_inter S temporary_set) 0)
   && (N.eqb (rs_inter S saved_set) saved_set || N.eqb (rs_inter S saved_set) 0))%bool.

Lemma whole_or_none S C a b :
  (N.eqb (rs_inter S C) C || N.eqb (rs_inter S C) 0)%bool = true ->
  rs_mem a C = true -> rs_mem b C = true -> rs_mem a S = rs_mem b S.
Proof.
  intros H Ha Hb. apply orb_true_iff in H. destruct H as [H|H]; apply N.eqb_eq in H.
  - assert (A : rs_mem a (rs_inter S C) = true) by (rewrite H; exact Ha).
    assert (B : rs_mem b (rs_inter S C) = true) by (rewrite H; exact Hb).
    rewrite mem_inter in A, B. apply andb_true_iff in A, B. destruct A as [-> _], B as [-> _]. reflexivity.
  - assert (A : rs_mem a (rs_inter S C) = false) by (rewrite H; apply mem_0).
    assert (B : rs_mem b (rs_inter S C) = false) by (rewrite H; apply mem_0).
    rewrite mem_inter in A, B. rewrite Ha in A. rewrite Hb in B. rewrite andb_true_r in A, B.
    rewrite A, B. reflexivity.
Qed.

Lemma class_closed_mem S : class_closed S = true -> forall r, rs_mem (s r) S = rs_mem r S.
Proof.
  intros H r. apply andb_true_iff in H. destruct H as [Ht Hsv].
  destruct (is_temp r) eqn:Et.
  - apply (whole_or_none S temporary_set); [exact Ht | apply (cp_temp s Hs), Et | exact Et].
  - destruct (is_saved r) eqn:Es.
    + apply (whole_or_none S saved_set); [exact Hsv | apply (cp_saved s Hs), Es | exact Es].
    + rewrite (cp_fix s Hs r Et Es). reflexivity.
Qed.

Lemma class_closed_invariant S : class_closed S = true -> perm_set s S = S.
Proof. intros H. apply perm_set_invariant, class_closed_mem, H. Qed.

(* every register-set constant of Cfg.v / Avail.v / Live.v / Lints.v *)
Definition model_regsets : list regset :=
  [rs_empty; program_args_set; temporary_set; argument_set; return_set; all_writable_set; saved_set; sp_ra_set;
   return_addr_set; caller_saved_set; const_zero_set; callee_saved_set; ecall_always_argument_set;
   rs_one 2 (* fn_to_save *); rs_one 0; rs_one 1; rs_one 17].

Lemma model_regsets_closed : forallb class_closed model_regsets = true.
Proof. vm_compute. reflexivity. Qed.

Lemma tables_invariant S : In S model_regsets -> perm_set s S = S.
Proof.
  intros H. apply class_closed_invariant.
  pose proof model_regsets_closed as F. rewrite forallb_forall in F. apply F, H.
Qed.

Ltac table := apply tables_invariant; cbn [model_regsets In]; tauto.
Lemma ps_program_args : perm_set s program_args_set = program_args_set. Proof. table. Qed.
Lemma ps_temporary : perm_set s temporary_set = temporary_set. Proof. table. Qed.
Lemma ps_argument : perm_set s argument_set = argument_set. Proof. table. Qed.
Lemma ps_return : perm_set s return_set = return_set. Proof. table. Qed.
Lemma ps_all_writable : perm_set s all_writable_set = all_writable_set. Proof. table. Qed.
Lemma ps_saved : perm_set s saved_set = saved_set. Proof. table. Qed.
Lemma ps_sp_ra : perm_set s sp_ra_set = sp_ra_set. Proof. table. Qed.
Lemma ps_return_addr : perm_set s return_addr_set = return_addr_set. Proof. table. Qed.
Lemma ps_caller_saved : perm_set s caller_saved_set = caller_saved_set. Proof. table. Qed.
Lemma ps_const_zero : perm_set s const_zero_set = const_zero_set. Proof. table. Qed.
Lemma ps_callee_saved : perm_set s callee_saved_set = callee_saved_set. Proof. table. Qed.
Lemma ps_ecall_always : perm_set s ecall_always_argument_set = ecall_always_argument_set. Proof. table. Qed.
Lemma ps_one_2 : perm_set s (rs_one 2) = rs_one 2. Proof. table. Qed.

(* membership versions *)
Lemma mem_inv_of S r : perm_set s S = S -> rs_mem (s r) S = rs_mem r S.
Proof. intros E. rewrite <- E at 1. apply perm_set_spec. Qed.

(* the ecall signature table: every set is made of argument registers only *)
Lemma env_closed n a r : environment_in_outs n = Some (a, r) -> class_closed a = true /\ class_closed r = true.
Proof.
  unfold environment_in_outs. intros H.
  destruct n as [|p|p]; try discriminate H.
  do 11 (try (destruct p as [p|p|]; try discriminate H));
  injection H as <- <-; split; vm_compute; reflexivity.
Qed.
Lemma env_invariant n a r : environment_in_outs n = Some (a, r) -> perm_set s a = a /\ perm_set s r = r.
Proof. intros H. apply env_closed in H. destruct H as [A R]. split; apply class_closed_invariant; assumption. Qed.

End Perm.

(* ---- the identity and list-based permutations ------------------------------------------------ *)
Lemma class_perm_id : class_perm (fun r => r).
Proof. constructor; intros; try assumption; try reflexivity. exists b. reflexivity. Qed.

Lemma sigma_of_ge p r : 32 <= r -> sigma_of p r = r.
Proof. intros H. unfold sigma_of. replace (N.ltb r 32) with false by (symmetry; apply N.ltb_ge, H). reflexivity. Qed.

Lemma valid_perm_class p : valid_perm p = true -> class_perm (sigma_of p).
Proof.
  unfold valid_perm. intros H. repeat (apply andb_true_iff in H; destruct H as [H ?]).
  rename H0 into Hsurj, H1 into Hinj, H2 into Hcls. clear H.
  assert (CL : forall r, r < 32 -> class_ok p r = true) by (apply forall_regs32, Hcls).
  assert (LT : forall r, r < 32 -> sigma_of p r < 32).
  { intros r Hr. specialize (CL r Hr). unfold class_ok in CL.
    destruct (is_temp r) eqn:Et; [apply temp_lt, CL|].
    destruct (is_saved r) eqn:Es; [apply saved_lt, CL|]. apply N.eqb_eq in CL. rewrite CL. exact Hr. }
  constructor.
  - intros a b E.
    destruct (N.ltb_spec a 32) as [La|La]; destruct (N.ltb_spec b 32) as [Lb|Lb].
    + pose proof (forall_regs32 _ Hinj a La) as F. cbv beta in F.
      pose proof (forall_regs32 _ F b Lb) as G. cbv beta in G.
      rewrite E, N.eqb_refl in G. cbn [implb] in G. apply N.eqb_eq, G.
    + rewrite (sigma_of_ge p b Lb) in E. specialize (LT a La). lia.
    + rewrite (sigma_of_ge p a La) in E. specialize (LT b Lb). lia.
    + rewrite (sigma_of_ge p a La), (sigma_of_ge p b Lb) in E. exact E.
  - intros b. destruct (N.ltb_spec b 32) as [Lb|Lb].
    + pose proof (forall_regs32 _ Hsurj b Lb) as F. cbv beta in F. apply existsb_exists in F.
      destruct F as [a [_ E]]. exists a. apply N.eqb_eq, E.
    + exists b. apply sigma_of_ge, Lb.
  - intros r Et. pose proof (CL r (temp_lt r Et)) as C. unfold class_ok in C. rewrite Et in C. exact C.
  - intros r Es. pose proof (CL r (saved_lt r Es)) as C. unfold class_ok in C. rewrite Es in C.
    destruct (is_temp r) eqn:Et; [|exact C].
    (* a register is not in both classes *)
    exfalso. assert (F : forallb (fun r => negb (is_temp r && is_saved r)) all_regs = true) by (vm_compute; reflexivity).
    pose proof (forall_regs32 _ F r (saved_lt r Es)) as G. cbv beta in G. rewrite Et, Es in G. discriminate.
  - intros r Et Es. destruct (N.ltb_spec r 32) as [L|L]; [|apply sigma_of_ge, L].
    pose proof (CL r L) as C. unfold class_ok in C. rewrite Et, Es in C. apply N.eqb_eq, C.
Qed.

(* ---- nodes: every per-node function ---------------------------------------------------------- *)
Lemma map_w_id {A} (w : wth A) : map_w (fun x => x) w = w.
Proof. destruct w. reflexivity. Qed.
Lemma rename_regs_id n : rename_regs (fun r => r) n = n.
Proof. destruct n; cbn; rewrite ?map_w_id; reflexivity. Qed.
Lemma rename_labels_id n : rename_labels (fun x => x) n = n.
Proof. destruct n; cbn; rewrite ?map_w_id; reflexivity. Qed.
Lemma rn_node_regs s n : rn_node s (fun x => x) n = rename_regs s n.
Proof. unfold rn_node. apply rename_labels_id. Qed.
Lemma rn_node_labels rho n : rn_node (fun r => r) rho n = rename_labels rho n.
Proof. unfold rn_node. rewrite rename_regs_id. reflexivity. Qed.

Lemma label_renaming_id : label_renaming (fun x => x).
Proof. constructor; [intros a b E; exact E | reflexivity]. Qed.

Lemma str_eqb_eq a : forall b, str_eqb a b = true <-> a = b.
Proof.
  induction a as [|x a IH]; intros [|y b]; cbn [str_eqb]; split; intros H; try reflexivity; try discriminate.
  - apply andb_true_iff in H. destruct H as [H1 H2]. apply N.eqb_eq in H1. apply IH in H2. subst. reflexivity.
  - injection H as -> ->. rewrite N.eqb_refl. apply IH. reflexivity.
Qed.
Lemma str_eqb_inj (rho : str -> str) (Hi : injective rho) a b : str_eqb (rho a) (rho b) = str_eqb a b.
Proof.
  apply bool_iff. rewrite !str_eqb_eq. split; [apply Hi | intros ->; reflexivity].
Qed.

Definition pair3 (s : reg -> reg) (x : reg * (reg * Z)) : reg * (reg * Z) := (s (fst x), (s (fst (snd x)), snd (snd x))).
Definition pairm (s : reg -> reg) (x : (reg * Z) * reg) : (reg * Z) * reg := ((s (fst (fst x)), snd (fst x)), s (snd x)).
Definition pairu (s : reg -> reg) (x : reg * Z) : reg * Z := (s (fst x), snd x).

Section Node.
Variable s : reg -> reg.
Variable rho : str -> str.
Hypothesis Hs : class_perm s.
Hypothesis Hr : label_renaming rho.
Notation rn := (rn_node s rho).

Lemma reg_is_fixed (w : wth reg) k : s k = k -> reg_is (map_w s w) k = reg_is w k.
Proof. intros E. unfold reg_is. cbn [map_w wv]. apply s_fixed_eqb; assumption. Qed.
Lemma reg_is_0 w : reg_is (map_w s w) 0 = reg_is w 0. Proof. apply reg_is_fixed, s_0, Hs. Qed.
Lemma reg_is_1 w : reg_is (map_w s w) 1 = reg_is w 1. Proof. apply reg_is_fixed, s_1, Hs. Qed.

Lemma rn_node_raw n : node_raw (rn n) = node_raw n. Proof. destruct n; reflexivity. Qed.
Lemma rn_is_return n : is_return (rn n) = is_return n.
Proof. destruct n; cbn; rewrite ?reg_is_0, ?reg_is_1; reflexivity. Qed.
Lemma rn_is_ureturn n : is_ureturn (rn n) = is_ureturn n. Proof. destruct n; reflexivity. Qed.
Lemma rn_is_ecall n : is_ecall (rn n) = is_ecall n. Proof. destruct n; reflexivity. Qed.
Lemma rn_might_terminate n : might_terminate (rn n) = might_terminate n. Proof. apply rn_is_ecall. Qed.
Lemma rn_can_skip n : can_skip_save_checks (rn n) = can_skip_save_checks n. Proof. destruct n; reflexivity. Qed.
Lemma rn_is_any_entry n : is_any_entry (rn n) = is_any_entry n. Proof. destruct n; reflexivity. Qed.
Lemma rn_is_function_entry n : is_function_entry (rn n) = is_function_entry n. Proof. destruct n; reflexivity. Qed.
Lemma rn_is_handler n : is_handler_function_entry (rn n) = is_handler_function_entry n. Proof. destruct n; reflexivity. Qed.
Lemma rn_is_program_entry n : is_program_entry (rn n) = is_program_entry n. Proof. destruct n; reflexivity. Qed.
Lemma rn_is_instruction n : is_instruction (rn n) = is_instruction n. Proof. destruct n; reflexivity. Qed.
Lemma rn_is_datasec n : is_datasec (rn n) = is_datasec n. Proof. destruct n; reflexivity. Qed.
Lemma rn_is_textsec n : is_textsec (rn n) = is_textsec n. Proof. destruct n; reflexivity. Qed.
Lemma rn_is_directive n : is_directive (rn n) = is_directive n. Proof. destruct n; reflexivity. Qed.
Lemma rn_loads_word n : loads_word (rn n) = loads_word n. Proof. destruct n; reflexivity. Qed.
Lemma rn_node_inst n : node_inst (rn n) = node_inst n. Proof. destruct n; reflexivity. Qed.
Lemma rn_is_unconditional_jump n : is_unconditional_jump (rn n) = is_unconditional_jump n.
Proof. destruct n; cbn; rewrite ?reg_is_0; reflexivity. Qed.

Lemma rn_stores_to_memory n : stores_to_memory (rn n) = option_map (pair3 s) (stores_to_memory n).
Proof. destruct n; cbn; try reflexivity. rewrite reg_is_0. destruct (reg_is rs2 0); reflexivity. Qed.
Lemma rn_reads_from_memory n : reads_from_memory (rn n) = option_map (pairm s) (reads_from_memory n).
Proof. destruct n; reflexivity. Qed.
Lemma rn_uses_memory_location n : uses_memory_location (rn n) = option_map (pairu s) (uses_memory_location n).
Proof. destruct n; reflexivity. Qed.

Lemma rn_calls_to n : calls_to (rn n) = option_map (map_w rho) (calls_to n).
Proof. destruct n; cbn; try reflexivity. rewrite reg_is_1. destruct (reg_is rd 1); reflexivity. Qed.
Lemma rn_jumps_to n : jumps_to (rn n) = option_map (map_w rho) (jumps_to n).
Proof. destruct n; cbn; try reflexivity. rewrite reg_is_1. destruct (reg_is rd 1); reflexivity. Qed.
Lemma rn_reads_address_of n : reads_address_of (rn n) = option_map (map_w rho) (reads_address_of n).
Proof. destruct n; reflexivity. Qed.
Lemma rn_is_some_jump n : is_some_jump_to_label (rn n) = option_map (map_w rho) (is_some_jump_to_label n).
Proof. destruct n; cbn; try reflexivity. rewrite reg_is_0. destruct (reg_is rd 0); reflexivity. Qed.
Lemma rn_label_of n : label_of (rn n) = option_map (map_w rho) (label_of n).
Proof. destruct n; reflexivity. Qed.

Lemma rn_writes_to n : writes_to (rn n) = option_map (map_w s) (writes_to n).
Proof. destruct n; reflexivity. Qed.
Lemma rn_reads_from_vec n : reads_from_vec (rn n) = map (map_w s) (reads_from_vec n).
Proof. destruct n; reflexivity. Qed.
Lemma rn_reads_from n : reads_from (rn n) = map (map_w s) (reads_from n).
Proof.
  unfold reads_from. rewrite rn_reads_from_vec.
  destruct (reads_from_vec n) as [|a [|b [|c l]]]; try reflexivity.
  cbn [map map_w wv]. rewrite (s_eqb s Hs). destruct (N.eqb (wv a) (wv b)); reflexivity.
Qed.

Lemma rn_kill_reg n : kill_reg (rn n) = perm_set s (kill_reg n).
Proof.
  unfold kill_reg. rewrite (perm_set_diff s Hs), (ps_const_zero s Hs). f_equal.
  rewrite rn_calls_to, rn_is_function_entry, rn_writes_to.
  destruct (calls_to n); cbn [option_map]; [symmetry; apply ps_caller_saved, Hs|].
  destruct (is_function_entry n); [symmetry; apply ps_caller_saved, Hs|].
  destruct (writes_to n); cbn [option_map map_w wv]; [symmetry; apply perm_set_one, Hs | symmetry; apply perm_set_empty, Hs].
Qed.

Lemma rn_gen_reg n : gen_reg (rn n) = perm_set s (gen_reg n).
Proof.
  unfold gen_reg. rewrite (perm_set_diff s Hs), (ps_const_zero s Hs). f_equal.
  rewrite rn_is_ureturn, rn_is_return, rn_reads_from.
  destruct (is_ureturn n); [symmetry; apply ps_all_writable, Hs|].
  destruct (is_return n); [symmetry; apply ps_callee_saved, Hs|].
  rewrite (perm_set_of_list s Hs), !map_map. reflexivity.
Qed.

Definition rn_kv (kv : reg * aval) : reg * aval := (s (fst kv), rn_aval s rho (snd kv)).
Definition rn_mkv (kv : memloc * aval) : memloc * aval := (fst kv, rn_aval s rho (snd kv)).

Lemma rn_gen_memory_value n : gen_memory_value (rn n) = option_map rn_mkv (gen_memory_value n).
Proof.
  destruct n; cbn; try reflexivity.
  - rewrite (s_fixed_eqb s Hs 2 _ (s_2 s Hs)). destruct (N.eqb (wv rs1) 2 && inst_is i ISw)%bool; reflexivity.
  - destruct (inst_is i ICsrrw); reflexivity.
  - destruct (inst_is i ICsrrwi); reflexivity.
Qed.

Lemma rn_gen_reg_value n : gen_reg_value (rn n) = option_map rn_kv (gen_reg_value n).
Proof.
  pose proof (s_fixed_eqb s Hs 0) as Z0. pose proof (s_0 s Hs) as E0.
  destruct n; try reflexivity; unfold gen_reg_value; cbn [rn_node rename_regs rename_labels map_w wv];
    rewrite ?Z0 by exact E0.
  - destruct (N.eqb (wv rs1) 0 && N.eqb (wv rs2) 0)%bool; [|reflexivity].
    rewrite Z0 by exact E0. destruct (N.eqb (wv rd) 0); reflexivity.
  - destruct (N.eqb (wv rs1) 0); [|reflexivity].
    destruct (wv i); try reflexivity; rewrite Z0 by exact E0; destruct (N.eqb (wv rd) 0); reflexivity.
  - destruct (N.eqb (wv rd) 0); reflexivity.
  - destruct (N.eqb (wv rd) 0); reflexivity.
  - destruct (N.eqb (wv rd) 0); reflexivity.
  - destruct (N.eqb (wv rd) 0); reflexivity.
Qed.

End Node.
