(* Proofs for C17: `Imm::from_str` (Model/Imm.v) reads exactly the literals of
   Spec/LitSpec.v, for every Symbol-token string.  Also the `lui` range check and
   `CsrImm::from_str`.  No axioms. *)
From RV.Model Require Import Base I32 Imm.
From RV.Spec Require Import LitSpec.
From Coq Require Import Lia ZifyBool ZifyN.

(* Same bodies as in Props/C17.v (convertible). *)
Definition symbol_char (c : char) : bool :=
  (is_ascii_lower c || is_ascii_upper c || is_ascii_digit c || N.eqb c c_under || N.eqb c c_minus)%bool.
Definition symbol_str (s : str) : Prop := forallb symbol_char s = true.

(* ---------------------------------------------------------------------- *)
(* Characters                                                              *)
(* ---------------------------------------------------------------------- *)

Ltac unfold_chars :=
  unfold symbol_char, is_whitespace, to_lower, is_ascii_digit, is_ascii_lower,
    is_ascii_upper, in_range, c_under, c_minus, c_plus in *.

Lemma symbol_char_lower c : symbol_char c = true -> symbol_char (to_lower c) = true.
Proof.
  unfold to_lower. destruct (is_ascii_upper c) eqn:U; [|auto].
  intros _. unfold_chars. lia.
Qed.

Lemma symbol_not_ws c : symbol_char c = true -> is_whitespace c = false.
Proof. unfold_chars. lia. Qed.

Lemma symbol_not_plus c : symbol_char c = true -> N.eqb c c_plus = false.
Proof. unfold_chars. lia. Qed.

Lemma to_lower_eqb_minus c : N.eqb 45 (to_lower c) = N.eqb c 45.
Proof. unfold to_lower. destruct (is_ascii_upper c) eqn:U; unfold_chars; lia. Qed.

Lemma to_lower_eqb_0 c : N.eqb 48 (to_lower c) = N.eqb c 48.
Proof. unfold to_lower. destruct (is_ascii_upper c) eqn:U; unfold_chars; lia. Qed.

Lemma to_lower_eqb_x c : N.eqb 120 (to_lower c) = (N.eqb c 120 || N.eqb c 88)%bool.
Proof. unfold to_lower. destruct (is_ascii_upper c) eqn:U; unfold_chars; lia. Qed.

Lemma to_lower_eqb_b c : N.eqb 98 (to_lower c) = (N.eqb c 98 || N.eqb c 66)%bool.
Proof. unfold to_lower. destruct (is_ascii_upper c) eqn:U; unfold_chars; lia. Qed.

(* case-split every comparison in the goal, pruning impossible branches *)
Ltac brk :=
  repeat (match goal with
          | |- context[N.leb ?a ?b] => destruct (N.leb_spec a b)
          | |- context[Z.ltb ?a ?b] => destruct (Z.ltb_spec a b)
          end; cbn [andb orb]; try lia).

Lemma digit_val_range r c d : digit_val r c = Some d -> 0 <= d < r.
Proof.
  unfold digit_val, is_ascii_digit, is_ascii_lower, is_ascii_upper, in_range.
  brk; intros HH; try discriminate HH; injection HH as <-; lia.
Qed.

Lemma hex_digit_lower c : digit_val 16 (to_lower c) = hex_digit c.
Proof.
  unfold to_lower, is_ascii_upper, in_range.
  destruct (N.leb_spec 65 c); destruct (N.leb_spec c 90); cbn [andb];
    unfold digit_val, hex_digit, is_ascii_digit, is_ascii_lower, is_ascii_upper, in_range;
    brk; try reflexivity; try (f_equal; lia).
Qed.

Lemma dec_digit_lower c : digit_val 10 (to_lower c) = dec_digit c.
Proof.
  unfold to_lower, is_ascii_upper, in_range.
  destruct (N.leb_spec 65 c); destruct (N.leb_spec c 90); cbn [andb];
    unfold digit_val, dec_digit, is_ascii_digit, is_ascii_lower, is_ascii_upper, in_range;
    brk; try reflexivity; try (f_equal; lia).
Qed.

Lemma bin_digit_lower c : digit_val 2 (to_lower c) = bin_digit c.
Proof.
  unfold to_lower, is_ascii_upper, in_range.
  destruct (N.leb_spec 65 c); destruct (N.leb_spec c 90); cbn [andb];
    unfold digit_val, bin_digit, is_ascii_digit, is_ascii_lower, is_ascii_upper, in_range;
    brk; try reflexivity; try (f_equal; lia).
Qed.

(* ---------------------------------------------------------------------- *)
(* Strings: symbol strings, trim                                           *)
(* ---------------------------------------------------------------------- *)

Lemma symbol_str_cons c s : symbol_str (c :: s) -> symbol_char c = true /\ symbol_str s.
Proof. unfold symbol_str. cbn [forallb]. intros H. apply andb_prop in H. exact H. Qed.

Lemma symbol_str_lower s : symbol_str s -> symbol_str (lower s).
Proof.
  unfold symbol_str, lower. induction s as [|c s IH]; cbn [map forallb]; [auto|].
  intros H. apply andb_prop in H. destruct H as [Hc Hs].
  rewrite (symbol_char_lower c Hc), (IH Hs). reflexivity.
Qed.

Lemma trim_start_id l :
  (forall c, In c l -> is_whitespace c = false) -> trim_start l = l.
Proof.
  destruct l as [|c l]; [reflexivity|]. intros H. cbn [trim_start].
  rewrite (H c (or_introl eq_refl)). reflexivity.
Qed.

Lemma trim_id l : (forall c, In c l -> is_whitespace c = false) -> trim l = l.
Proof.
  intros H. unfold trim. rewrite (trim_start_id l H).
  rewrite trim_start_id.
  - apply rev_involutive.
  - intros c Hc. apply H. apply in_rev. exact Hc.
Qed.

Lemma trim_lower_symbol s : symbol_str s -> trim (lower s) = lower s.
Proof.
  intros Hs. apply trim_id. intros c Hc. apply symbol_not_ws.
  apply symbol_str_lower in Hs. unfold symbol_str in Hs.
  rewrite forallb_forall in Hs. apply Hs. exact Hc.
Qed.

(* ---------------------------------------------------------------------- *)
(* Digit loops against positional notation                                 *)
(* ---------------------------------------------------------------------- *)

Lemma acc_positional r digit (Hd : forall c, digit_val r (to_lower c) = digit c) :
  forall s a,
    acc_digits r a (lower s) =
    option_map (fun v => a * r ^ Z.of_nat (length s) + v) (positional r digit s).
Proof.
  induction s as [|c s IH]; intro a.
  - cbn [lower map acc_digits positional option_map length]. f_equal.
    change (Z.of_nat 0) with 0. rewrite Z.pow_0_r. lia.
  - change (lower (c :: s)) with (to_lower c :: lower s).
    cbn [acc_digits positional]. rewrite Hd.
    destruct (digit c) as [d|]; [|reflexivity].
    rewrite IH. destruct (positional r digit s) as [v|]; cbn [option_map]; [|reflexivity].
    f_equal. cbn [length]. rewrite Nat2Z.inj_succ, Z.pow_succ_r by lia. ring.
Qed.

Lemma positional_nonneg r digit (Hr : 0 <= r)
      (Hd : forall c, digit_val r (to_lower c) = digit c) :
  forall s v, positional r digit s = Some v -> 0 <= v.
Proof.
  induction s as [|c s IH]; cbn [positional]; intros v H.
  - injection H as <-. lia.
  - destruct (digit c) as [d|] eqn:D; [|discriminate H].
    destruct (positional r digit s) as [w|]; [|discriminate H].
    injection H as <-. rewrite <- Hd in D. apply digit_val_range in D.
    specialize (IH w eq_refl).
    assert (0 <= r ^ Z.of_nat (length s)) by (apply Z.pow_nonneg; exact Hr).
    nia.
Qed.

Lemma parse_unsigned_noplus r max c t :
  N.eqb c c_plus = false ->
  parse_unsigned r max (c :: t) =
  match acc_digits r 0 (c :: t) with
  | Some v => if Z.leb v max then Some v else None
  | None => None
  end.
Proof. unfold parse_unsigned. intros ->. reflexivity. Qed.

Lemma parse_i64_nominus c t :
  N.eqb c c_minus = false -> parse_i64 (c :: t) = parse_unsigned 10 i64_max (c :: t).
Proof. unfold parse_i64. intros ->. reflexivity. Qed.

(* ---------------------------------------------------------------------- *)
(* Range facts                                                             *)
(* ---------------------------------------------------------------------- *)

Lemma wrap32_id v : in32 v -> wrap32 v = v.
Proof.
  unfold in32, i32_min, i32_max, wrap32, two32, two31. intros H.
  destruct (Z.ltb_spec (v mod 4294967296) 2147483648) as [L|L];
    pose proof (Z.mod_pos_bound v 4294967296 eq_refl);
    pose proof (Z.div_mod v 4294967296 ltac:(lia)); lia.
Qed.

Lemma mul_i64_ok mul v :
  mul = 1 \/ mul = -1 -> 0 <= v <= i64_max -> mul_i64 mul v = Ok (mul * v).
Proof.
  intros Hm Hv. unfold mul_i64. cbv zeta.
  destruct (Z.leb i64_min (mul * v) && Z.leb (mul * v) i64_max)%bool eqn:E; [reflexivity|].
  exfalso. unfold i64_min, i64_max in *. destruct Hm; subst mul; lia.
Qed.

(* ---------------------------------------------------------------------- *)
(* The three notations, one at a time                                      *)
(* ---------------------------------------------------------------------- *)

Definition wide (v : Z) : option Z :=
  if (Z.leb (-2147483648) v && Z.ltb v 4294967296)%bool then Some (wrap32 v) else None.
Definition narrow (v : Z) : option Z :=
  if in32b v then Some (wrap32 v) else None.

Definition accept (r : option (Z * notation)) : option Z :=
  match r with
  | None => None
  | Some (v, n) => match n with Hex | Bin => wide v | Dec | ZeroWord => narrow v end
  end.

Definition imm_radix (r mul : Z) (t : str) : res (option Z) :=
  if starts_with c_minus t then Ok None
  else match u32_from_str_radix r t with
       | Some i => from_signed_magnitude mul i
       | None => Ok None
       end.

Definition imm_dec (mul : Z) (s : str) : res (option Z) :=
  if starts_with c_minus s then Ok None
  else match parse_i64 s with
       | Some i => do v <- mul_i64 mul i; if in32b v then Ok (Some v) else Ok None
       | None => Ok None
       end.

Definition imm_body (mul : Z) (s : str) : res (option Z) :=
  if str_eqb s «"zero"» then Ok (Some 0)
  else match strip_prefix «"0x"» s with
       | Some stripped => imm_radix 16 mul stripped
       | None =>
           match strip_prefix «"0b"» s with
           | Some stripped => imm_radix 2 mul stripped
           | None => imm_dec mul s
           end
       end.

Lemma imm_from_str_eq s0 :
  imm_from_str s0 =
  match strip_prefix [c_minus] (trim (lower s0)) with
  | Some s' => imm_body (-1) s'
  | None => imm_body 1 (trim (lower s0))
  end.
Proof. unfold imm_from_str. destruct (strip_prefix _ _); reflexivity. Qed.

Lemma starts_with_lower c t :
  starts_with c_minus (to_lower c :: t) = N.eqb c 45.
Proof.
  unfold starts_with, c_minus. rewrite N.eqb_sym. apply to_lower_eqb_minus.
Qed.

Lemma radix_correct r digit mul ds :
  0 <= r -> (forall c, digit_val r (to_lower c) = digit c) ->
  mul = 1 \/ mul = -1 -> symbol_str ds ->
  imm_radix r mul (lower ds) =
  Ok (match (if nonempty ds then positional r digit ds else None) with
      | Some v => wide (mul * v)
      | None => None
      end).
Proof.
  intros Hr Hd Hm Hs. destruct ds as [|c ds]; [reflexivity|].
  unfold imm_radix. change (lower (c :: ds)) with (to_lower c :: lower ds).
  rewrite starts_with_lower. cbn [nonempty].
  destruct (N.eqb_spec c 45) as [->|Hc].
  - cbn [positional]. rewrite <- Hd. reflexivity.
  - apply symbol_str_cons in Hs. destruct Hs as [Hsc _].
    unfold u32_from_str_radix.
    rewrite parse_unsigned_noplus
      by (apply symbol_not_plus, symbol_char_lower; exact Hsc).
    change (to_lower c :: lower ds) with (lower (c :: ds)).
    rewrite (acc_positional r digit Hd).
    destruct (positional r digit (c :: ds)) as [v|] eqn:P; cbn [option_map]; [|reflexivity].
    pose proof (positional_nonneg r digit Hr Hd _ _ P) as Hv.
    replace (0 * r ^ Z.of_nat (length (c :: ds)) + v) with v by lia.
    destruct (Z.leb_spec v 4294967295) as [Hle|Hgt].
    + unfold from_signed_magnitude.
      rewrite mul_i64_ok by (unfold i64_max; auto; lia). cbn [bind].
      unfold wide, i32_min.
      destruct (Z.ltb_spec (mul * v) (-2147483648));
        destruct (Z.leb_spec (-2147483648) (mul * v));
        destruct (Z.ltb_spec (mul * v) 4294967296);
        cbn [andb]; try reflexivity; exfalso; destruct Hm; subst mul; lia.
    + unfold wide.
      destruct (Z.leb_spec (-2147483648) (mul * v));
        destruct (Z.ltb_spec (mul * v) 4294967296);
        cbn [andb]; try reflexivity; exfalso; destruct Hm; subst mul; lia.
Qed.

Lemma dec_correct mul s :
  mul = 1 \/ mul = -1 -> symbol_str s ->
  imm_dec mul (lower s) =
  Ok (match (if nonempty s then positional 10 dec_digit s else None) with
      | Some v => narrow (mul * v)
      | None => None
      end).
Proof.
  intros Hm Hs. destruct s as [|c s]; [reflexivity|].
  unfold imm_dec. change (lower (c :: s)) with (to_lower c :: lower s).
  rewrite starts_with_lower. cbn [nonempty].
  destruct (N.eqb_spec c 45) as [->|Hc].
  - reflexivity.
  - apply symbol_str_cons in Hs. destruct Hs as [Hsc _].
    rewrite parse_i64_nominus
      by (unfold c_minus; rewrite N.eqb_sym, to_lower_eqb_minus; apply N.eqb_neq; exact Hc).
    rewrite parse_unsigned_noplus
      by (apply symbol_not_plus, symbol_char_lower; exact Hsc).
    change (to_lower c :: lower s) with (lower (c :: s)).
    rewrite (acc_positional 10 dec_digit dec_digit_lower).
    destruct (positional 10 dec_digit (c :: s)) as [v|] eqn:P; cbn [option_map]; [|reflexivity].
    pose proof (positional_nonneg 10 dec_digit ltac:(lia) dec_digit_lower _ _ P) as Hv.
    replace (0 * 10 ^ Z.of_nat (length (c :: s)) + v) with v by lia.
    destruct (Z.leb_spec v i64_max) as [Hle|Hgt].
    + rewrite mul_i64_ok by auto. cbn [bind]. unfold narrow.
      destruct (in32b (mul * v)) eqn:B; [|reflexivity].
      rewrite wrap32_id; [reflexivity|].
      unfold in32b, in32 in *. lia.
    + unfold narrow. destruct (in32b (mul * v)) eqn:B; [|reflexivity].
      exfalso. unfold in32b, i32_min, i32_max, i64_max in *. destruct Hm; subst mul; lia.
Qed.

(* ---------------------------------------------------------------------- *)
(* Unfolding the deep pattern matches of the spec                          *)
(* ---------------------------------------------------------------------- *)

Definition fallback (s : str) : option (Z * notation) :=
  if str_eqb (lower s) «"zero"» then Some (0, ZeroWord)
  else if nonempty s then option_map (fun v => (v, Dec)) (positional 10 dec_digit s) else None.

Ltac deep c :=
  let p := fresh "p" in
  destruct c as [|p]; [reflexivity|];
  do 7 (try (destruct p as [p|p|]; try reflexivity)).

Lemma body_value_unfold s :
  body_value s =
  match s with
  | c :: x :: ds =>
      if N.eqb c 48 then
        if (N.eqb x 120 || N.eqb x 88)%bool then
          if nonempty ds then option_map (fun v => (v, Hex)) (positional 16 hex_digit ds) else None
        else if (N.eqb x 98 || N.eqb x 66)%bool then
          if nonempty ds then option_map (fun v => (v, Bin)) (positional 2 bin_digit ds) else None
        else option_map (fun v => (v, Dec)) (positional 10 dec_digit s)
      else fallback s
  | _ => fallback s
  end.
Proof.
  destruct s as [|c [|x ds]]; [reflexivity| |].
  - deep c.
  - deep c.
Qed.

Lemma lit_value_unfold c s :
  lit_value (c :: s) =
  if N.eqb c 45 then option_map (fun '(v, n) => (- v, n)) (body_value s)
  else body_value (c :: s).
Proof. deep c. Qed.

(* ---------------------------------------------------------------------- *)
(* The body (after the sign)                                               *)
(* ---------------------------------------------------------------------- *)

Definition scale (mul : Z) (r : option (Z * notation)) : option (Z * notation) :=
  option_map (fun '(v, n) => (mul * v, n)) r.

Lemma strip0x c t :
  strip_prefix «"0x"» (c :: t) =
  if N.eqb 48 c then match t with x :: t' => if N.eqb 120 x then Some t' else None | [] => None end
  else None.
Proof. reflexivity. Qed.

Lemma strip0b c t :
  strip_prefix «"0b"» (c :: t) =
  if N.eqb 48 c then match t with x :: t' => if N.eqb 98 x then Some t' else None | [] => None end
  else None.
Proof. reflexivity. Qed.

Lemma fallback_correct mul s :
  mul = 1 \/ mul = -1 -> symbol_str s ->
  strip_prefix «"0x"» (lower s) = None -> strip_prefix «"0b"» (lower s) = None ->
  imm_body mul (lower s) = Ok (accept (scale mul (fallback s))).
Proof.
  intros Hm Hs Hx Hb. unfold imm_body, fallback.
  destruct (str_eqb (lower s) «"zero"»).
  - destruct Hm; subst mul; reflexivity.
  - rewrite Hx, Hb, dec_correct by assumption.
    destruct (nonempty s); [|reflexivity].
    destruct (positional 10 dec_digit s); reflexivity.
Qed.

Lemma dec_case_correct mul s :
  mul = 1 \/ mul = -1 -> symbol_str s -> nonempty s = true ->
  str_eqb (lower s) «"zero"» = false ->
  strip_prefix «"0x"» (lower s) = None -> strip_prefix «"0b"» (lower s) = None ->
  imm_body mul (lower s) =
  Ok (accept (scale mul (option_map (fun v => (v, Dec)) (positional 10 dec_digit s)))).
Proof.
  intros Hm Hs Hn Hz Hx Hb. unfold imm_body.
  rewrite Hz, Hx, Hb, dec_correct by assumption. rewrite Hn.
  destruct (positional 10 dec_digit s); reflexivity.
Qed.

Lemma body_correct mul s :
  mul = 1 \/ mul = -1 -> symbol_str s ->
  imm_body mul (lower s) = Ok (accept (scale mul (body_value s))).
Proof.
  intros Hm Hs. rewrite body_value_unfold.
  destruct s as [|c [|x ds]].
  - reflexivity.
  - apply fallback_correct; try assumption.
    + change (lower [c]) with [to_lower c]. rewrite strip0x.
      destruct (N.eqb 48 (to_lower c)); reflexivity.
    + change (lower [c]) with [to_lower c]. rewrite strip0b.
      destruct (N.eqb 48 (to_lower c)); reflexivity.
  - destruct (N.eqb c 48) eqn:Ec.
    + pose proof Hs as Hs0.
      apply symbol_str_cons in Hs. destruct Hs as [_ Hs].
      apply symbol_str_cons in Hs. destruct Hs as [_ Hds].
      assert (Hz : str_eqb (lower (c :: x :: ds)) «"zero"» = false).
      { apply N.eqb_eq in Ec. subst c. reflexivity. }
      assert (H0x : strip_prefix «"0x"» (lower (c :: x :: ds)) =
                    if (N.eqb x 120 || N.eqb x 88)%bool then Some (lower ds) else None).
      { change (lower (c :: x :: ds)) with (to_lower c :: to_lower x :: lower ds).
        rewrite strip0x, to_lower_eqb_0, Ec, to_lower_eqb_x. reflexivity. }
      assert (H0b : strip_prefix «"0b"» (lower (c :: x :: ds)) =
                    if (N.eqb x 98 || N.eqb x 66)%bool then Some (lower ds) else None).
      { change (lower (c :: x :: ds)) with (to_lower c :: to_lower x :: lower ds).
        rewrite strip0b, to_lower_eqb_0, Ec, to_lower_eqb_b. reflexivity. }
      destruct (N.eqb x 120 || N.eqb x 88)%bool eqn:EX.
      * unfold imm_body. rewrite Hz, H0x.
        rewrite (radix_correct 16 hex_digit mul ds ltac:(lia) hex_digit_lower Hm Hds).
        destruct (nonempty ds); [|reflexivity].
        destruct (positional 16 hex_digit ds); reflexivity.
      * destruct (N.eqb x 98 || N.eqb x 66)%bool eqn:EB.
        -- unfold imm_body. rewrite Hz, H0x, H0b.
           rewrite (radix_correct 2 bin_digit mul ds ltac:(lia) bin_digit_lower Hm Hds).
           destruct (nonempty ds); [|reflexivity].
           destruct (positional 2 bin_digit ds); reflexivity.
        -- apply dec_case_correct; try assumption. reflexivity.
    + apply fallback_correct; try assumption.
      * change (lower (c :: x :: ds)) with (to_lower c :: lower (x :: ds)).
        rewrite strip0x, to_lower_eqb_0, Ec. reflexivity.
      * change (lower (c :: x :: ds)) with (to_lower c :: lower (x :: ds)).
        rewrite strip0b, to_lower_eqb_0, Ec. reflexivity.
Qed.

(* ---------------------------------------------------------------------- *)
(* The whole function                                                      *)
(* ---------------------------------------------------------------------- *)

Lemma accept_scale_neg r :
  accept (scale (-1) r) = accept (option_map (fun '(v, n) => (- v, n)) r).
Proof.
  destruct r as [[v n]|]; [|reflexivity]. unfold scale. cbn [option_map].
  replace (-1 * v) with (- v) by lia. reflexivity.
Qed.

Lemma accept_scale_one r : accept (scale 1 r) = accept r.
Proof.
  destruct r as [[v n]|]; [|reflexivity]. unfold scale. cbn [option_map].
  replace (1 * v) with v by lia. reflexivity.
Qed.

Theorem imm_correct s : symbol_str s -> imm_from_str s = Ok (accept (lit_value s)).
Proof.
  intros Hs. rewrite imm_from_str_eq, (trim_lower_symbol s Hs).
  destruct s as [|c s]; [reflexivity|].
  rewrite lit_value_unfold.
  change (lower (c :: s)) with (to_lower c :: lower s).
  change (strip_prefix [c_minus] (to_lower c :: lower s))
    with (if N.eqb 45 (to_lower c) then Some (lower s) else None).
  rewrite to_lower_eqb_minus.
  destruct (N.eqb c 45) eqn:E.
  - apply symbol_str_cons in Hs. destruct Hs as [_ Hs].
    rewrite body_correct by auto. rewrite accept_scale_neg. reflexivity.
  - change (to_lower c :: lower s) with (lower (c :: s)).
    rewrite body_correct by auto. rewrite accept_scale_one. reflexivity.
Qed.

(* ---------------------------------------------------------------------- *)
(* C17                                                                     *)
(* ---------------------------------------------------------------------- *)

Definition imm_statement : Prop :=
  forall s : str, symbol_str s ->
    (exists r, imm_from_str s = Ok r) /\
    (forall i, imm_from_str s = Ok (Some i) ->
       exists v n, lit_value s = Some (v, n) /\ fits32 v /\ i = wrap32 v /\
                   (2147483648 <= v -> n = Hex \/ n = Bin)) /\
    (forall v n, lit_value s = Some (v, n) ->
       (fits_i32 v \/ (fits32 v /\ (n = Hex \/ n = Bin))) -> imm_from_str s = Ok (Some (wrap32 v))) /\
    (lit_value s = None -> imm_from_str s = Ok None) /\
    (forall v n, lit_value s = Some (v, n) -> ~ fits32 v -> imm_from_str s = Ok None).

Lemma wide_some v i : wide v = Some i -> fits32 v /\ i = wrap32 v.
Proof.
  unfold wide, fits32.
  destruct (Z.leb_spec (-2147483648) v); destruct (Z.ltb_spec v 4294967296);
    cbn [andb]; intros HH; try discriminate HH; injection HH as <-; split; [lia|reflexivity].
Qed.

Lemma wide_fits v : fits32 v -> wide v = Some (wrap32 v).
Proof.
  unfold wide, fits32. intros H.
  destruct (Z.leb_spec (-2147483648) v); destruct (Z.ltb_spec v 4294967296);
    cbn [andb]; try reflexivity; exfalso; lia.
Qed.

Lemma wide_nofit v : ~ fits32 v -> wide v = None.
Proof.
  unfold wide, fits32. intros H.
  destruct (Z.leb_spec (-2147483648) v); destruct (Z.ltb_spec v 4294967296);
    cbn [andb]; try reflexivity; exfalso; lia.
Qed.

Lemma narrow_some v i : narrow v = Some i -> fits_i32 v /\ i = wrap32 v.
Proof.
  unfold narrow, in32b, fits_i32, i32_min, i32_max.
  destruct (Z.leb_spec (-2147483648) v); destruct (Z.leb_spec v 2147483647);
    cbn [andb]; intros HH; try discriminate HH; injection HH as <-; split; [lia|reflexivity].
Qed.

Lemma narrow_fits v : fits_i32 v -> narrow v = Some (wrap32 v).
Proof.
  unfold narrow, in32b, fits_i32, i32_min, i32_max. intros H.
  destruct (Z.leb_spec (-2147483648) v); destruct (Z.leb_spec v 2147483647);
    cbn [andb]; try reflexivity; exfalso; lia.
Qed.

Lemma narrow_nofit v : ~ fits32 v -> narrow v = None.
Proof.
  unfold narrow, in32b, fits32, i32_min, i32_max. intros H.
  destruct (Z.leb_spec (-2147483648) v); destruct (Z.leb_spec v 2147483647);
    cbn [andb]; try reflexivity; exfalso; lia.
Qed.

Theorem imm_exact : imm_statement.
Proof.
  intros s Hs. pose proof (imm_correct s Hs) as E.
  split; [|split; [|split; [|split]]].
  - eexists. exact E.
  - intros i Hi. rewrite E in Hi. injection Hi as Hi.
    destruct (lit_value s) as [[v n]|]; [|discriminate Hi].
    exists v, n. split; [reflexivity|]. cbn [accept] in Hi.
    destruct n.
    + apply wide_some in Hi. destruct Hi as [F ->]. auto.
    + apply wide_some in Hi. destruct Hi as [F ->]. auto.
    + apply narrow_some in Hi. destruct Hi as [F ->].
      unfold fits_i32 in F. unfold fits32.
      repeat split; try lia; intros; exfalso; lia.
    + apply narrow_some in Hi. destruct Hi as [F ->].
      unfold fits_i32 in F. unfold fits32.
      repeat split; try lia; intros; exfalso; lia.
  - intros v n L F. rewrite E, L. cbn [accept]. do 2 f_equal.
    assert (F32 : fits32 v).
    { destruct F as [F|[F _]]; [|exact F]. unfold fits_i32 in F. unfold fits32. lia. }
    destruct n.
    + apply wide_fits, F32.
    + apply wide_fits, F32.
    + apply narrow_fits. destruct F as [F|[_ [F|F]]]; [exact F|discriminate F|discriminate F].
    + apply narrow_fits. destruct F as [F|[_ [F|F]]]; [exact F|discriminate F|discriminate F].
  - intros L. rewrite E, L. reflexivity.
  - intros v n L F. rewrite E, L. cbn [accept]. do 2 f_equal.
    destruct n; [apply wide_nofit|apply wide_nofit|apply narrow_nofit|apply narrow_nofit]; exact F.
Qed.

(* lui *)
Definition lui_statement : Prop :=
  forall v, in32 v ->
    (0 <= v < 2 ^ 20 -> lui_imm v = Some (wrap32 (v * 4096))) /\
    (~ (0 <= v < 2 ^ 20) -> lui_imm v = None).

Theorem lui_exact : lui_statement.
Proof.
  intros v _. change (2 ^ 20) with 1048576. unfold lui_imm. split; intros H.
  - rewrite Z.shiftl_mul_pow2 by lia. change (2 ^ 12) with 4096.
    destruct (Z.leb_spec 0 v); destruct (Z.leb_spec v 1048575);
      cbn [andb]; try reflexivity; exfalso; lia.
  - destruct (Z.leb_spec 0 v); destruct (Z.leb_spec v 1048575);
      cbn [andb]; try reflexivity; exfalso; lia.
Qed.

(* CSR operands *)
Definition csr_statement : Prop :=
  forall s, symbol_str s -> assoc_str (lower s) csr_names = None ->
    forall r, imm_from_str s = Ok r ->
      csrimm_from_str s = Ok (option_map to_u32 r).

Theorem csr_exact : csr_statement.
Proof.
  intros s _ Ha r Hr. unfold csrimm_from_str. rewrite Ha, Hr. cbn [bind].
  destruct r; reflexivity.
Qed.
