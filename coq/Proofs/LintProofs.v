(* Proofs for C04 / C05 (lints): every lint function emits exactly what its trigger predicate of
   Spec/LintSpec.v describes.  Each `in_<lint>` lemma below characterises the members of one of
   the eleven lists of `run_diagnostics`; the theorems are assembled from them.

   One statement of Props/C04.v is false of the model as written (case
   LInvalidUseBeforeAssignment of C04_due_statement): see `every_diagnostic_is_due` and the
   comment above it. *)
From RV.Model Require Import Base I32 Lexer Isa Parser Cfg Avail Live Lints.
From RV.Spec Require Import CfgSpec LintSpec.
Require Import Lia ZifyN ZifyNat ZifyBool.
Open Scope N_scope.

(* ---- local copies of the helper definitions of Props/C04.v and Props/C05.v ---------------- *)
Definition reported (g : cfg) (k : lintcode) (l : loc) : Prop :=
  exists x, In x (run_diagnostics g) /\ lcode x = k /\ In l (lcands x).

Definition simple_kind (k : lintcode) : bool :=
  match k with
  | LInvalidUseAfterCall | LUnknownStack | LInvalidStackPointer | LInvalidStackPosition | LNodeInManyFunctions => false
  | _ => true
  end.

Definition facts_clean (g : cfg) : Prop :=
  (forall k l, ~ trig g k l) /\
  (forall i c s, ~ first_bad_sp g i c s) /\
  (forall i c, node_at g i c -> (length (cfuncs c) <= 1)%nat) /\
  (forall i c fid f, node_at g i c -> calls_to_from_cfg g c = Some fid -> nth_opt (gfuncs g) fid = Some f ->
     rs_inter (rs_diff caller_saved_set (fn_returns g f)) (lout c) = 0) /\
  (forall i c, node_at g i c -> is_program_entry (cn c) = true -> rs_diff (lin c) program_args_set = 0) /\
  (forall i c f, node_at g i c -> is_function_entry_with_func g i c = Some f ->
     rs_diff (rs_diff (lin c) (fn_arguments g f)) callee_saved_set = 0).

(* ---- lists ------------------------------------------------------------------------------- *)
Lemma nth_opt_Some_lt {A} (l : list A) i x : nth_opt l i = Some x -> (i < length l)%nat.
Proof.
  revert i; induction l; intros [|i]; simpl; intros H; try discriminate; try lia.
  apply IHl in H. lia.
Qed.

Lemma in_for_nodes g f x :
  In x (for_nodes g f) <-> exists i c, node_at g i c /\ In x (f i c).
Proof.
  unfold for_nodes, indices, node_at. rewrite in_flat_map. split.
  - intros (i & _ & Hin). unfold getn in Hin.
    destruct (nth_opt (gnodes g) i) as [c|] eqn:Hc; [|destruct Hin].
    exists i, c. split; [exact Hc|exact Hin].
  - intros (i & c & Hc & Hin). exists i. split.
    + apply in_seq. apply nth_opt_Some_lt in Hc. lia.
    + unfold getn. rewrite Hc. exact Hin.
Qed.

Lemma in_map_const {A B} (v : B) (l : list A) x :
  In x (map (fun _ => v) l) <-> l <> [] /\ x = v.
Proof.
  split.
  - intros H. apply in_map_iff in H. destruct H as (a & <- & Ha).
    split; [intros ->; destruct Ha|reflexivity].
  - intros [Hne ->]. destruct l as [|a l]; [contradiction|]. left; reflexivity.
Qed.

Lemma in_run_diagnostics g x :
  In x (run_diagnostics g) <->
  In x (lint_save_to_zero g) \/ In x (lint_dead_value g) \/ In x (lint_instruction_in_text g) \/
  In x (lint_ecall g) \/ In x (lint_control_flow g) \/ In x (lint_garbage_input g) \/
  In x (lint_stack g) \/ In x (lint_callee_saved g) \/ In x (lint_callee_saved_garbage_read g) \/
  In x (lint_lost_callee_saved g) \/ In x (lint_overlapping g).
Proof. unfold run_diagnostics. repeat rewrite in_app_iff. reflexivity. Qed.

(* ---- register sets ----------------------------------------------------------------------- *)
Lemma rs_elems_eq s : rs_elems s = filter (fun r => N.testbit s r) all_regs.
Proof. reflexivity. Qed.

Lemma in_existsb r l : existsb (N.eqb r) l = true -> In r l.
Proof.
  intros H. apply existsb_exists in H. destruct H as (x & Hx & He).
  apply N.eqb_eq in He. subst. exact Hx.
Qed.

Lemma in_all_regs r : In r all_regs <-> r < 32.
Proof.
  split.
  - unfold all_regs. intros H. repeat (destruct H as [<-|H]; [lia|]). destruct H.
  - intros H. rewrite <- (N2Nat.id r). assert (Hn : (N.to_nat r < 32)%nat) by lia.
    generalize dependent (N.to_nat r). clear. intros n Hn.
    do 32 (destruct n as [|n]; [apply in_existsb; vm_compute; reflexivity|]). lia.
Qed.

Lemma in_rs_elems r s : In r (rs_elems s) <-> rs_mem r s = true /\ r < 32.
Proof. rewrite rs_elems_eq, filter_In, in_all_regs. unfold rs_mem. tauto. Qed.

Lemma rs_elems_0 : rs_elems 0 = [].
Proof. reflexivity. Qed.

Lemma rs_mem_0 r : rs_mem r 0 = false.
Proof. unfold rs_mem. apply N.bits_0. Qed.

Local Opaque rs_elems callee_saved_set caller_saved_set saved_set program_args_set.

(* ---- usage_lints ------------------------------------------------------------------------- *)
Lemma usage_lints_in code g i regs x :
  In x (usage_lints code g i regs) -> lcode x = code /\ exists r, In r regs.
Proof.
  unfold usage_lints. intros Hin. apply in_flat_map in Hin. destruct Hin as (item & Hitem & Hin).
  cbv zeta in Hin. split; [|exists item; exact Hitem].
  generalize dependent (error_ranges_for_first_usage (gnodes g) i item). intros cands Hin.
  destruct cands as [|o cands]; [destruct Hin|].
  generalize dependent (filter_map (fun x : option loc => x) (o :: cands)). intros ls Hin.
  destruct ls; [destruct Hin|]. destruct Hin as [<-|[]]. reflexivity.
Qed.

Lemma usage_lints_nil code g i : usage_lints code g i [] = [].
Proof. reflexivity. Qed.

Lemma usage_lints_hit code g i regs r :
  In r regs ->
  filter_map (fun x => x) (error_ranges_for_first_usage (gnodes g) i r) <> [] ->
  exists x, In x (usage_lints code g i regs) /\ lcode x = code /\
            lcands x = filter_map (fun x => x) (error_ranges_for_first_usage (gnodes g) i r).
Proof.
  intros Hr Hne. unfold usage_lints.
  remember (error_ranges_for_first_usage (gnodes g) i r) as cands eqn:Ec.
  exists (mklint code (filter_map (fun x => x) cands)
                 (existsb (fun x => match x with None => true | Some _ => false end) cands)).
  split; [|split; reflexivity].
  apply in_flat_map. exists r. split; [exact Hr|]. cbv zeta. rewrite <- Ec.
  destruct cands as [|o cs]; [exfalso; apply Hne; reflexivity|].
  destruct (filter_map (fun x : option loc => x) (o :: cs)) as [|a ls]; [exfalso; apply Hne; reflexivity|].
  left. reflexivity.
Qed.

(* ---- the node-wise lints ----------------------------------------------------------------- *)
Lemma in_save_to_zero g x :
  In x (lint_save_to_zero g) <->
  exists i c r, node_at g i c /\ writes_to (cn c) = Some r /\ wv r = 0 /\
                can_skip_save_checks (cn c) = false /\ x = lint1 LSaveToZero (op_loc r).
Proof.
  unfold lint_save_to_zero. rewrite in_for_nodes. split.
  - intros (i & c & Hc & Hin).
    destruct (writes_to (cn c)) as [r|] eqn:Hw; [|destruct Hin].
    destruct (N.eqb (wv r) 0 && negb (can_skip_save_checks (cn c)))%bool eqn:B; [|destruct Hin].
    destruct Hin as [<-|[]]. apply andb_true_iff in B. destruct B as [B1 B2].
    apply N.eqb_eq in B1. apply negb_true_iff in B2.
    exists i, c, r. auto.
  - intros (i & c & r & Hc & Hw & H0 & Hs & ->). exists i, c. split; [exact Hc|].
    rewrite Hw. replace (N.eqb (wv r) 0) with true by (symmetry; apply N.eqb_eq; exact H0).
    rewrite Hs. left. reflexivity.
Qed.

Lemma in_dead_value g x :
  In x (lint_dead_value g) <->
  (exists i c fid f, node_at g i c /\ calls_to_from_cfg g c = Some fid /\ nth_opt (gfuncs g) fid = Some f /\
     In x (usage_lints LInvalidUseAfterCall g i
             (rs_elems (rs_inter (rs_diff caller_saved_set (fn_returns g f)) (lout c))))) \/
  (exists i c d, node_at g i c /\ calls_to_from_cfg g c = None /\ writes_to (cn c) = Some d /\
     rs_mem (wv d) (lout c) = false /\ can_skip_save_checks (cn c) = false /\
     x = lint1 LDeadAssignment (op_loc d)).
Proof.
  unfold lint_dead_value. rewrite in_for_nodes. split.
  - intros (i & c & Hc & Hin).
    destruct (calls_to_from_cfg g c) as [fid|] eqn:Hcall.
    + destruct (nth_opt (gfuncs g) fid) as [f|] eqn:Hf; [|destruct Hin].
      left. exists i, c, fid, f. auto.
    + destruct (writes_to (cn c)) as [d|] eqn:Hw; [|destruct Hin].
      destruct (negb (rs_mem (wv d) (lout c)) && negb (can_skip_save_checks (cn c)))%bool eqn:B; [|destruct Hin].
      destruct Hin as [<-|[]]. apply andb_true_iff in B. destruct B as [B1 B2].
      apply negb_true_iff in B1. apply negb_true_iff in B2.
      right. exists i, c, d. auto 10.
  - intros [(i & c & fid & f & Hc & Hcall & Hf & Hin)|(i & c & d & Hc & Hcall & Hw & Hm & Hs & ->)];
      exists i, c; (split; [exact Hc|]); rewrite Hcall.
    + rewrite Hf. exact Hin.
    + rewrite Hw, Hm, Hs. left. reflexivity.
Qed.

Lemma in_instruction_in_text g x :
  In x (lint_instruction_in_text g) <->
  exists i c, node_at g i c /\ is_instruction (cn c) = true /\ ctext c = false /\
              x = lint1 LInvalidSegment (node_loc c).
Proof.
  unfold lint_instruction_in_text. rewrite in_for_nodes. split.
  - intros (i & c & Hc & Hin).
    destruct (is_instruction (cn c) && negb (ctext c))%bool eqn:B; [|destruct Hin].
    destruct Hin as [<-|[]]. apply andb_true_iff in B. destruct B as [B1 B2].
    apply negb_true_iff in B2. exists i, c. auto.
  - intros (i & c & Hc & Hi & Ht & ->). exists i, c. split; [exact Hc|].
    rewrite Hi, Ht. left. reflexivity.
Qed.

Lemma in_ecall g x :
  In x (lint_ecall g) <->
  exists i c, node_at g i c /\ is_ecall (cn c) = true /\ known_ecall c = None /\
              x = lint1 LUnknownEcall (node_loc c).
Proof.
  unfold lint_ecall. rewrite in_for_nodes. split.
  - intros (i & c & Hc & Hin).
    destruct (is_ecall (cn c)) eqn:He; [|destruct Hin].
    destruct (known_ecall c) eqn:Hk; [destruct Hin|].
    destruct Hin as [<-|[]]. exists i, c. auto.
  - intros (i & c & Hc & He & Hk & ->). exists i, c. split; [exact Hc|].
    rewrite He, Hk. left. reflexivity.
Qed.

Lemma not_any_entry n : is_any_entry n = false <-> is_function_entry n = false /\ is_program_entry n = false.
Proof. destruct n; simpl; split; try tauto; intros [? ?]; congruence. Qed.

Lemma in_control_flow g x :
  In x (lint_control_flow g) <->
  (exists i c p pc, node_at g i c /\ is_function_entry (cn c) = true /\ In p (prevs c) /\ node_at g p pc /\
     is_program_entry (cn pc) = true /\ cfuncs c <> [] /\
     x = lint1 LFirstInstructionIsFunction (node_loc c)) \/
  (exists i c p pc, node_at g i c /\ is_function_entry (cn c) = true /\ In p (prevs c) /\ node_at g p pc /\
     is_program_entry (cn pc) = false /\ is_unconditional_jump (cn pc) = true /\ cfuncs c <> [] /\
     x = lint1 LInvalidJumpToFunction (node_loc c)) \/
  (exists i c, node_at g i c /\ is_any_entry (cn c) = false /\ prevs c = [] /\
     x = lint1 LUnreachableCode (node_loc c)).
Proof.
  unfold lint_control_flow. rewrite in_for_nodes. split.
  - intros (i & c & Hc & Hin).
    destruct (is_function_entry (cn c)) eqn:Hfe.
    + apply in_flat_map in Hin. destruct Hin as (p & Hp & Hin). unfold getn in Hin.
      destruct (nth_opt (gnodes g) p) as [pc|] eqn:Hpc; [|destruct Hin].
      destruct (is_program_entry (cn pc)) eqn:Hpe.
      * apply in_map_const in Hin. destruct Hin as [Hne ->].
        left. exists i, c, p, pc. auto 10.
      * destruct (is_unconditional_jump (cn pc)) eqn:Huj; [|destruct Hin].
        destruct (cfuncs c) as [|a fs] eqn:Ef; [destruct Hin|]. destruct Hin as [<-|[]].
        right; left. exists i, c, p, pc. rewrite Ef. repeat split; auto. discriminate.
    + destruct (negb (is_program_entry (cn c)) && match prevs c with [] => true | _ :: _ => false end)%bool eqn:B;
        [|destruct Hin].
      destruct Hin as [<-|[]]. apply andb_true_iff in B. destruct B as [B1 B2].
      apply negb_true_iff in B1.
      right; right. exists i, c. split; [exact Hc|]. split; [apply not_any_entry; auto|].
      split; [|reflexivity]. destruct (prevs c); [reflexivity|discriminate B2].
  - intros [(i & c & p & pc & Hc & Hfe & Hp & Hpc & Hpe & Hne & ->)
           |[(i & c & p & pc & Hc & Hfe & Hp & Hpc & Hpe & Huj & Hne & ->)
            |(i & c & Hc & Hae & Hpv & ->)]]; exists i, c; (split; [exact Hc|]).
    + rewrite Hfe. apply in_flat_map. exists p. split; [exact Hp|].
      unfold getn. unfold node_at in Hpc. rewrite Hpc, Hpe. apply in_map_const. auto.
    + rewrite Hfe. apply in_flat_map. exists p. split; [exact Hp|].
      unfold getn. unfold node_at in Hpc. rewrite Hpc, Hpe, Huj.
      destruct (cfuncs c); [contradiction|]. left. reflexivity.
    + apply not_any_entry in Hae. destruct Hae as [Hfe Hpe]. rewrite Hfe, Hpe, Hpv. left. reflexivity.
Qed.

Lemma in_garbage_input g x :
  In x (lint_garbage_input g) <->
  (exists i c, node_at g i c /\ is_program_entry (cn c) = true /\
     In x (usage_lints LInvalidUseBeforeAssignment g i (rs_elems (rs_diff (lin c) program_args_set)))) \/
  (exists i c f, node_at g i c /\ is_program_entry (cn c) = false /\ is_function_entry_with_func g i c = Some f /\
     In x (usage_lints LInvalidUseBeforeAssignment g i
             (rs_elems (rs_diff (rs_diff (lin c) (fn_arguments g f)) callee_saved_set)))).
Proof.
  unfold lint_garbage_input. rewrite in_for_nodes. split.
  - intros (i & c & Hc & Hin).
    destruct (is_program_entry (cn c)) eqn:Hpe.
    + left. exists i, c. auto.
    + destruct (is_function_entry_with_func g i c) as [f|] eqn:Hf; [|destruct Hin].
      right. exists i, c, f. auto.
  - intros [(i & c & Hc & Hpe & Hin)|(i & c & f & Hc & Hpe & Hf & Hin)];
      exists i, c; (split; [exact Hc|]); rewrite Hpe; [exact Hin|]. rewrite Hf. exact Hin.
Qed.

Lemma in_callee_saved g x :
  In x (lint_callee_saved g) <->
  exists f e r w, In f (gfuncs g) /\
    node_at g (fexit f) e /\ In r (rs_elems callee_saved_set) /\ is_original_value (rin e) r = false /\
    In w (error_ranges_for_first_store (gnodes g) (fexit f) r) /\
    x = lint1 LOverwriteCalleeSavedRegister w.
Proof.
  unfold lint_callee_saved. rewrite in_flat_map. split.
  - intros (f & Hf & Hin).
    unfold getn in Hin. destruct (nth_opt (gnodes g) (fexit f)) as [e|] eqn:He; [|destruct Hin].
    apply in_flat_map in Hin. destruct Hin as (r & Hr & Hin).
    destruct (is_original_value (rin e) r) eqn:Ho; [destruct Hin|].
    apply in_map_iff in Hin. destruct Hin as (w & <- & Hw).
    exists f, e, r, w. auto 10.
  - intros (f & e & r & w & Hf & He & Hr & Ho & Hw & ->).
    exists f. split; [exact Hf|].
    unfold getn. unfold node_at in He. rewrite He.
    apply in_flat_map. exists r. split; [exact Hr|]. rewrite Ho.
    apply in_map. exact Hw.
Qed.

Lemma in_garbage_read g x :
  In x (lint_callee_saved_garbage_read g) <->
  exists i c rd, node_at g i c /\ In rd (reads_from (cn c)) /\ rs_mem (wv rd) saved_set = true /\
    uses_memory_location (cn c) = None /\ is_original_value (rin c) (wv rd) = true /\
    x = lint1 LInvalidUseBeforeAssignment (op_loc rd).
Proof.
  unfold lint_callee_saved_garbage_read. rewrite in_for_nodes. split.
  - intros (i & c & Hc & Hin). apply in_flat_map in Hin. destruct Hin as (rd & Hrd & Hin).
    destruct (rs_mem (wv rd) saved_set
              && match uses_memory_location (cn c) with None => true | Some _ => false end
              && is_original_value (rin c) (wv rd))%bool eqn:B; [|destruct Hin].
    destruct Hin as [<-|[]].
    apply andb_true_iff in B. destruct B as [B B3]. apply andb_true_iff in B. destruct B as [B1 B2].
    exists i, c, rd. split; [exact Hc|]. split; [exact Hrd|]. split; [exact B1|].
    split; [|split; [exact B3|reflexivity]].
    destruct (uses_memory_location (cn c)); [discriminate B2|reflexivity].
  - intros (i & c & rd & Hc & Hrd & Hs & Hu & Ho & ->). exists i, c. split; [exact Hc|].
    apply in_flat_map. exists rd. split; [exact Hrd|]. rewrite Hs, Hu, Ho. left. reflexivity.
Qed.

Lemma in_lost g x :
  In x (lint_lost_callee_saved g) <->
  exists i c r, node_at g i c /\ writes_to (cn c) = Some r /\ rs_mem (wv r) saved_set = true /\
    cfuncs c <> [] /\ opt_aval_eqb (rm_get (wv r) (rin c)) (Some (AOrig (wv r) 0)) = true /\
    existsb (fun kv => holds_original (wv r) (snd kv)) (mout c) = false /\
    existsb (fun kv => holds_original (wv r) (snd kv)) (rout c) = false /\
    x = lint1 LLostRegisterValue (op_loc r).
Proof.
  unfold lint_lost_callee_saved. rewrite in_for_nodes. split.
  - intros (i & c & Hc & Hin).
    destruct (writes_to (cn c)) as [r|] eqn:Hw; [|destruct Hin].
    destruct (rs_mem (wv r) saved_set && negb match cfuncs c with [] => true | _ :: _ => false end
              && opt_aval_eqb (rm_get (wv r) (rin c)) (Some (AOrig (wv r) 0)))%bool eqn:B; [|destruct Hin].
    destruct (existsb (fun kv => holds_original (wv r) (snd kv)) (mout c)
              || existsb (fun kv => holds_original (wv r) (snd kv)) (rout c))%bool eqn:E; [destruct Hin|].
    destruct Hin as [<-|[]].
    apply andb_true_iff in B. destruct B as [B B3]. apply andb_true_iff in B. destruct B as [B1 B2].
    apply orb_false_iff in E. destruct E as [E1 E2].
    exists i, c, r. split; [exact Hc|]. split; [exact Hw|]. split; [exact B1|].
    split; [|auto]. intros E. rewrite E in B2. discriminate B2.
  - intros (i & c & r & Hc & Hw & Hs & Hne & Ho & E1 & E2 & ->). exists i, c. split; [exact Hc|].
    rewrite Hw, Hs, Ho, E1, E2. destruct (cfuncs c); [contradiction|]. left. reflexivity.
Qed.

Lemma in_overlapping g x :
  In x (lint_overlapping g) ->
  lcode x = LNodeInManyFunctions /\ exists i c, node_at g i c /\ (2 <= length (cfuncs c))%nat.
Proof.
  unfold lint_overlapping. rewrite in_for_nodes. intros (i & c & Hc & Hin).
  destruct (Nat.ltb 1 (length (cfuncs c))
            && match is_function_entry_with_func g i c with Some _ => true | None => false end)%bool eqn:B;
    [|destruct Hin].
  apply andb_true_iff in B. destruct B as [B1 _]. apply Nat.ltb_lt in B1.
  destruct (clabels c) as [|a ls]; [destruct Hin|]. destruct Hin as [<-|[]].
  split; [reflexivity|]. exists i, c. split; [exact Hc|lia].
Qed.

(* ---- the stack lint ---------------------------------------------------------------------- *)
Definition sp_code (s : sp_state) : lintcode :=
  match s with
  | SpUnknown => LUnknownStack | SpInvalid => LInvalidStackPointer
  | SpPositive => LInvalidStackPosition | SpFine => LUnknownStack
  end.

Lemma sp_fine_iff c :
  sp_state_of c = SpFine <-> exists o, rm_get 2 (rout c) = Some (AOrig 2 o) /\ (o <= 0)%Z.
Proof.
  unfold sp_state_of. split.
  - destruct (rm_get 2 (rout c)) as [[| | | |r off| | | |]|]; try discriminate.
    destruct (N.eqb r 2) eqn:Er; simpl; [|discriminate].
    destruct (Z.ltb 0 off) eqn:Eo; [discriminate|]. intros _.
    apply N.eqb_eq in Er. subst r. exists off. split; [reflexivity|lia].
  - intros (o & -> & Ho). simpl. destruct (Z.ltb 0 o) eqn:Eo; [lia|reflexivity].
Qed.

Lemma stack_loop_fine c rest o :
  rm_get 2 (rout c) = Some (AOrig 2 o) -> (o <= 0)%Z ->
  stack_loop (c :: rest) =
  match uses_memory_location (cn c) with
  | Some (r2, off2) =>
      if (N.eqb r2 2 && Z.leb 0 (off2 + o))%bool then [lint1 LInvalidStackOffsetUsage (loc_of_node (cn c))] else []
  | None => []
  end ++ stack_loop rest.
Proof.
  intros H Ho. cbn [stack_loop]. rewrite H. simpl negb. cbv iota.
  destruct (Z.ltb 0 o) eqn:Eo; [lia|reflexivity].
Qed.

Lemma stack_loop_bad c rest :
  sp_state_of c <> SpFine ->
  stack_loop (c :: rest) = [lint1 (sp_code (sp_state_of c)) (loc_of_node (cn c))].
Proof.
  unfold sp_state_of. cbn [stack_loop].
  destruct (rm_get 2 (rout c)) as [[| | | |r off| | | |]|]; try reflexivity.
  destruct (negb (N.eqb r 2)); [reflexivity|].
  destruct (Z.ltb 0 off); [reflexivity|]. intros H. exfalso. apply H. reflexivity.
Qed.

Lemma sp_state_dec (s : sp_state) : s = SpFine \/ s <> SpFine.
Proof. destruct s; [left; reflexivity|right; discriminate..]. Qed.

Lemma in_stack_loop l x :
  In x (stack_loop l) ->
  (exists i c, nth_opt l i = Some c /\ sp_state_of c <> SpFine /\
     (forall j cj, (j < i)%nat -> nth_opt l j = Some cj -> sp_state_of cj = SpFine) /\
     x = lint1 (sp_code (sp_state_of c)) (node_loc c)) \/
  (exists i c off r2 off2, nth_opt l i = Some c /\
     (forall j cj, (j <= i)%nat -> nth_opt l j = Some cj -> sp_state_of cj = SpFine) /\
     rm_get 2 (rout c) = Some (AOrig 2 off) /\ uses_memory_location (cn c) = Some (r2, off2) /\ r2 = 2 /\
     (0 <= off2 + off)%Z /\ x = lint1 LInvalidStackOffsetUsage (node_loc c)).
Proof.
  induction l as [|c rest IH]; [intros []|]. intros Hin.
  destruct (sp_state_dec (sp_state_of c)) as [Hs|Hs].
  - destruct (proj1 (sp_fine_iff c) Hs) as (o & Hr & Ho).
    rewrite (stack_loop_fine c rest o Hr Ho) in Hin. apply in_app_iff in Hin. destruct Hin as [Hin|Hin].
    + destruct (uses_memory_location (cn c)) as [[r2 off2]|] eqn:Hu; [|destruct Hin].
      destruct (N.eqb r2 2 && Z.leb 0 (off2 + o))%bool eqn:B; [|destruct Hin].
      destruct Hin as [<-|[]]. apply andb_true_iff in B. destruct B as [B1 B2].
      apply N.eqb_eq in B1. right. exists 0%nat, c, o, r2, off2.
      split; [reflexivity|]. split.
      { intros j cj Hj Hcj. assert (j = 0)%nat by lia. subst j. simpl in Hcj. congruence. }
      split; [exact Hr|]. split; [exact Hu|]. split; [exact B1|]. split; [lia|reflexivity].
    + destruct (IH Hin) as [(i & ci & Hci & Hbad & Hbefore & ->)
                           |(i & ci & off & r2 & off2 & Hci & Hbefore & Hr' & Hu & H2 & Hsum & ->)].
      * left. exists (S i), ci. split; [exact Hci|]. split; [exact Hbad|]. split; [|reflexivity].
        intros [|j] cj Hj Hcj; simpl in Hcj; [congruence|]. apply (Hbefore j cj); [lia|exact Hcj].
      * right. exists (S i), ci, off, r2, off2. split; [exact Hci|]. split; [|auto 10].
        intros [|j] cj Hj Hcj; simpl in Hcj; [congruence|]. apply (Hbefore j cj); [lia|exact Hcj].
  - rewrite (stack_loop_bad c rest Hs) in Hin. destruct Hin as [<-|[]].
    left. exists 0%nat, c. split; [reflexivity|]. split; [exact Hs|]. split; [|reflexivity].
    intros j cj Hj. lia.
Qed.

Lemma stack_loop_first_bad l : forall i c,
  nth_opt l i = Some c -> sp_state_of c <> SpFine ->
  (forall j cj, (j < i)%nat -> nth_opt l j = Some cj -> sp_state_of cj = SpFine) ->
  In (lint1 (sp_code (sp_state_of c)) (node_loc c)) (stack_loop l).
Proof.
  induction l as [|a rest IH]; intros [|i] c Hc Hbad Hbefore; simpl in Hc; try discriminate.
  - injection Hc as ->. rewrite (stack_loop_bad c rest Hbad). left. reflexivity.
  - assert (Ha : sp_state_of a = SpFine) by (apply (Hbefore 0%nat a); [lia|reflexivity]).
    destruct (proj1 (sp_fine_iff a) Ha) as (o & Hr & Ho).
    rewrite (stack_loop_fine a rest o Hr Ho). apply in_app_iff. right.
    apply (IH i c Hc Hbad). intros j cj Hj Hcj. apply (Hbefore (S j) cj); [lia|exact Hcj].
Qed.

Lemma stack_loop_offset l : forall i c off off2,
  nth_opt l i = Some c ->
  (forall j cj, (j <= i)%nat -> nth_opt l j = Some cj -> sp_state_of cj = SpFine) ->
  rm_get 2 (rout c) = Some (AOrig 2 off) -> uses_memory_location (cn c) = Some (2, off2) ->
  (0 <= off2 + off)%Z ->
  In (lint1 LInvalidStackOffsetUsage (node_loc c)) (stack_loop l).
Proof.
  induction l as [|a rest IH]; intros [|i] c off off2 Hc Hbefore Hr Hu Hsum; simpl in Hc; try discriminate.
  - injection Hc as ->.
    assert (Ha : sp_state_of c = SpFine) by (apply (Hbefore 0%nat c); [lia|reflexivity]).
    destruct (proj1 (sp_fine_iff c) Ha) as (o & Hr' & Ho).
    rewrite (stack_loop_fine c rest o Hr' Ho). apply in_app_iff. left.
    rewrite Hu. assert (o = off) by congruence. subst o.
    replace (Z.leb 0 (off2 + off)) with true by (symmetry; apply Z.leb_le; exact Hsum).
    left. reflexivity.
  - assert (Ha : sp_state_of a = SpFine) by (apply (Hbefore 0%nat a); [lia|reflexivity]).
    destruct (proj1 (sp_fine_iff a) Ha) as (o & Hr' & Ho).
    rewrite (stack_loop_fine a rest o Hr' Ho). apply in_app_iff. right.
    apply (IH i c off off2 Hc); auto. intros j cj Hj Hcj. apply (Hbefore (S j) cj); [lia|exact Hcj].
Qed.

(* ---- C05: whatever is due is reported ---------------------------------------------------- *)
Ltac pick_lint n :=
  apply in_run_diagnostics;
  match n with
  | 1%nat => left | 2%nat => right; left | 3%nat => do 2 right; left | 4%nat => do 3 right; left
  | 5%nat => do 4 right; left | 6%nat => do 5 right; left | 7%nat => do 6 right; left
  | 8%nat => do 7 right; left | 9%nat => do 8 right; left | 10%nat => do 9 right; left
  | 11%nat => do 10 right
  end.

Theorem triggers_are_reported : forall g k l, trig g k l -> reported g k l.
Proof.
  intros g k l H. unfold reported.
  destruct H as [i c r Hc Hw H0 Hs
                |i c d Hc Hcall Hw Hm Hs
                |i c Hc Hi Ht
                |i c Hc He Hk
                |i c Hc Hae Hpv
                |i c p pc Hc Hfe Hp Hpc Hpe Hne
                |i c p pc Hc Hfe Hp Hpc Hpe Huj Hne
                |i c rd Hc Hrd Hs Hu Ho
                |i c r Hc Hw Hs Hne Ho E1 E2
                |f e r w Hf He Hr Ho Hw
                |i c off r2 off2 Hc Hbefore Hr Hu H2 Hsum].
  - exists (lint1 LSaveToZero (op_loc r)). split; [|split; [reflexivity|left; reflexivity]].
    pick_lint 1%nat. apply in_save_to_zero. exists i, c, r. auto.
  - exists (lint1 LDeadAssignment (op_loc d)). split; [|split; [reflexivity|left; reflexivity]].
    pick_lint 2%nat. apply in_dead_value. right. exists i, c, d. auto 10.
  - exists (lint1 LInvalidSegment (node_loc c)). split; [|split; [reflexivity|left; reflexivity]].
    pick_lint 3%nat. apply in_instruction_in_text. exists i, c. auto.
  - exists (lint1 LUnknownEcall (node_loc c)). split; [|split; [reflexivity|left; reflexivity]].
    pick_lint 4%nat. apply in_ecall. exists i, c. auto.
  - exists (lint1 LUnreachableCode (node_loc c)). split; [|split; [reflexivity|left; reflexivity]].
    pick_lint 5%nat. apply in_control_flow. right; right. exists i, c. auto.
  - exists (lint1 LFirstInstructionIsFunction (node_loc c)). split; [|split; [reflexivity|left; reflexivity]].
    pick_lint 5%nat. apply in_control_flow. left. exists i, c, p, pc. auto 10.
  - exists (lint1 LInvalidJumpToFunction (node_loc c)). split; [|split; [reflexivity|left; reflexivity]].
    pick_lint 5%nat. apply in_control_flow. right; left. exists i, c, p, pc. auto 10.
  - exists (lint1 LInvalidUseBeforeAssignment (op_loc rd)). split; [|split; [reflexivity|left; reflexivity]].
    pick_lint 9%nat. apply in_garbage_read. exists i, c, rd. auto 10.
  - exists (lint1 LLostRegisterValue (op_loc r)). split; [|split; [reflexivity|left; reflexivity]].
    pick_lint 10%nat. apply in_lost. exists i, c, r. auto 10.
  - exists (lint1 LOverwriteCalleeSavedRegister w). split; [|split; [reflexivity|left; reflexivity]].
    pick_lint 8%nat. apply in_callee_saved. exists f, e, r, w. auto 10.
  - exists (lint1 LInvalidStackOffsetUsage (node_loc c)). split; [|split; [reflexivity|left; reflexivity]].
    pick_lint 7%nat. unfold lint_stack. subst r2.
    apply (stack_loop_offset (gnodes g) i c off off2 Hc); auto.
    intros j cj Hj Hcj. apply sp_fine_iff. exact (Hbefore j cj Hj Hcj).
Qed.

Theorem first_bad_sp_reported :
  forall g i c s, first_bad_sp g i c s ->
    reported g (match s with SpUnknown => LUnknownStack | SpInvalid => LInvalidStackPointer
                           | SpPositive => LInvalidStackPosition | SpFine => LUnknownStack end) (node_loc c).
Proof.
  intros g i c s (Hc & Hs & Hbad & Hbefore). unfold reported.
  exists (lint1 (sp_code s) (node_loc c)). split; [|split; [reflexivity|left; reflexivity]].
  pick_lint 7%nat. unfold lint_stack. subst s.
  apply (stack_loop_first_bad (gnodes g) i c Hc Hbad Hbefore).
Qed.

Theorem use_after_call_reported :
  forall g i c fid f r cands, node_at g i c -> calls_to_from_cfg g c = Some fid -> nth_opt (gfuncs g) fid = Some f ->
    rs_mem r (rs_inter (rs_diff caller_saved_set (fn_returns g f)) (lout c)) = true -> (r < 32)%N ->
    error_ranges_for_first_usage (gnodes g) i r = cands ->
    filter_map (fun x => x) cands <> [] ->
    exists x, In x (run_diagnostics g) /\ lcode x = LInvalidUseAfterCall /\ lcands x = filter_map (fun x => x) cands.
Proof.
  intros g i c fid f r cands Hc Hcall Hf Hm Hr <- Hne.
  destruct (usage_lints_hit LInvalidUseAfterCall g i
              (rs_elems (rs_inter (rs_diff caller_saved_set (fn_returns g f)) (lout c))) r)
    as (x & Hin & Hk & Hl); [apply in_rs_elems; auto|exact Hne|].
  exists x. split; [|auto]. pick_lint 2%nat. apply in_dead_value. left. exists i, c, fid, f. auto.
Qed.

Theorem use_before_assignment_reported :
  forall g i c r cands, node_at g i c -> is_program_entry (cn c) = true ->
    rs_mem r (rs_diff (lin c) program_args_set) = true -> (r < 32)%N ->
    error_ranges_for_first_usage (gnodes g) i r = cands -> filter_map (fun x => x) cands <> [] ->
    exists x, In x (run_diagnostics g) /\ lcode x = LInvalidUseBeforeAssignment /\ lcands x = filter_map (fun x => x) cands.
Proof.
  intros g i c r cands Hc Hpe Hm Hr <- Hne.
  destruct (usage_lints_hit LInvalidUseBeforeAssignment g i
              (rs_elems (rs_diff (lin c) program_args_set)) r)
    as (x & Hin & Hk & Hl); [apply in_rs_elems; auto|exact Hne|].
  exists x. split; [|auto]. pick_lint 6%nat. apply in_garbage_input. left. exists i, c. auto.
Qed.

(* ---- C04: whatever is reported is due ---------------------------------------------------- *)
(* where every item comes from, precisely (the use-before-assignment items of the entry lint are
   kept as members of their `usage_lints` list: `clean_facts_no_diags` needs that) *)
Definition due_strong (g : cfg) (x : lint) : Prop :=
  match lcode x with
  | LInvalidUseAfterCall =>
      exists i c fid f, node_at g i c /\ calls_to_from_cfg g c = Some fid /\ nth_opt (gfuncs g) fid = Some f /\
        In x (usage_lints LInvalidUseAfterCall g i
                (rs_elems (rs_inter (rs_diff caller_saved_set (fn_returns g f)) (lout c))))
  | LUnknownStack | LInvalidStackPointer | LInvalidStackPosition =>
      exists i c s, first_bad_sp g i c s /\ lcands x = [node_loc c]
  | LNodeInManyFunctions =>
      exists i c, node_at g i c /\ (2 <= length (cfuncs c))%nat
  | LInvalidUseBeforeAssignment =>
      (exists l, lcands x = [l] /\ trig g LInvalidUseBeforeAssignment l) \/
      (exists i c, node_at g i c /\ is_program_entry (cn c) = true /\
         In x (usage_lints LInvalidUseBeforeAssignment g i (rs_elems (rs_diff (lin c) program_args_set)))) \/
      (exists i c f, node_at g i c /\ is_function_entry_with_func g i c = Some f /\
         In x (usage_lints LInvalidUseBeforeAssignment g i
                 (rs_elems (rs_diff (rs_diff (lin c) (fn_arguments g f)) callee_saved_set))))
  | k => exists l, lcands x = [l] /\ trig g k l
  end.

Lemma due_lint1 g k l : simple_kind k = true -> trig g k l -> due_strong g (lint1 k l).
Proof.
  intros Hk Ht. unfold due_strong. simpl lcode. simpl lcands.
  destruct k; try discriminate Hk; try (exists l; split; [reflexivity|exact Ht]).
  left. exists l. split; [reflexivity|exact Ht].
Qed.

Lemma due_strong_all g x : In x (run_diagnostics g) -> due_strong g x.
Proof.
  intros Hin. apply in_run_diagnostics in Hin.
  destruct Hin as [H|[H|[H|[H|[H|[H|[H|[H|[H|[H|H]]]]]]]]]].
  - apply in_save_to_zero in H. destruct H as (i & c & r & Hc & Hw & H0 & Hs & ->).
    apply due_lint1; [reflexivity|]. eapply T_save_to_zero; eauto.
  - apply in_dead_value in H.
    destruct H as [(i & c & fid & f & Hc & Hcall & Hf & Hin)|(i & c & d & Hc & Hcall & Hw & Hm & Hs & ->)].
    + unfold due_strong. rewrite (proj1 (usage_lints_in _ _ _ _ _ Hin)).
      exists i, c, fid, f. auto.
    + apply due_lint1; [reflexivity|]. eapply T_dead_assignment; eauto.
  - apply in_instruction_in_text in H. destruct H as (i & c & Hc & Hi & Ht & ->).
    apply due_lint1; [reflexivity|]. eapply T_invalid_segment; eauto.
  - apply in_ecall in H. destruct H as (i & c & Hc & He & Hk & ->).
    apply due_lint1; [reflexivity|]. eapply T_unknown_ecall; eauto.
  - apply in_control_flow in H.
    destruct H as [(i & c & p & pc & Hc & Hfe & Hp & Hpc & Hpe & Hne & ->)
                  |[(i & c & p & pc & Hc & Hfe & Hp & Hpc & Hpe & Huj & Hne & ->)
                   |(i & c & Hc & Hae & Hpv & ->)]]; (apply due_lint1; [reflexivity|]).
    + eapply T_first_is_function; eauto.
    + eapply T_jump_to_function; eauto.
    + eapply T_unreachable; eauto.
  - apply in_garbage_input in H.
    destruct H as [(i & c & Hc & Hpe & Hin)|(i & c & f & Hc & Hpe & Hf & Hin)];
      unfold due_strong; rewrite (proj1 (usage_lints_in _ _ _ _ _ Hin)).
    + right; left. exists i, c. auto.
    + right; right. exists i, c, f. auto.
  - unfold lint_stack in H. apply in_stack_loop in H.
    destruct H as [(i & c & Hc & Hbad & Hbefore & ->)
                  |(i & c & off & r2 & off2 & Hc & Hbefore & Hr & Hu & H2 & Hsum & ->)].
    + assert (Hfb : first_bad_sp g i c (sp_state_of c)) by (repeat split; auto).
      unfold due_strong. simpl lcode. simpl lcands.
      destruct (sp_state_of c) eqn:Es; simpl sp_code;
        try (exists i, c, (sp_state_of c); rewrite Es; split; [exact Hfb|reflexivity]).
    + apply due_lint1; [reflexivity|]. eapply T_stack_offset_usage; eauto.
      intros j cj Hj Hcj. apply sp_fine_iff. exact (Hbefore j cj Hj Hcj).
  - apply in_callee_saved in H. destruct H as (f & e & r & w & Hf & He & Hr & Ho & Hw & ->).
    apply due_lint1; [reflexivity|]. eapply T_overwrite_callee_saved; eauto.
  - apply in_garbage_read in H. destruct H as (i & c & rd & Hc & Hrd & Hs & Hu & Ho & ->).
    apply due_lint1; [reflexivity|]. eapply T_saved_garbage_read; eauto.
  - apply in_lost in H. destruct H as (i & c & r & Hc & Hw & Hs & Hne & Ho & E1 & E2 & ->).
    apply due_lint1; [reflexivity|]. eapply T_lost_register; eauto.
  - apply in_overlapping in H. destruct H as (Hk & i & c & Hc & Hlen).
    unfold due_strong. rewrite Hk. exists i, c. auto.
Qed.

(* CORRECTION (Props/C04.v, C04_due_statement, case LInvalidUseBeforeAssignment).
   The statement of Props/C04.v asks, for an item of the entry lint, for a node with
   `is_any_entry (cn c) = true`.  The lint (lints/garbage_input_value.rs and its model
   `lint_garbage_input`) does not look at the node kind in its second branch: it asks
   `is_function_entry_with_func`, i.e. whether some function the node is annotated with has the
   node's index as its entry.  For an arbitrary `cfg` the two are unrelated, so the statement as
   written is false (counterexample: two plain `add` nodes, the first annotated with a function
   whose `fentry` is 0 and with x5 live-in, the second reading x5; no node of the graph is an
   entry node, yet an invalid-use-before-assignment item is emitted).  The second disjunct is
   therefore stated with what the lint tests. *)
Theorem every_diagnostic_is_due :
  forall g x, In x (run_diagnostics g) ->
    match lcode x with
    | LInvalidUseAfterCall =>
        exists i c fid f r, node_at g i c /\ calls_to_from_cfg g c = Some fid /\ nth_opt (gfuncs g) fid = Some f /\
          rs_mem r (rs_inter (rs_diff caller_saved_set (fn_returns g f)) (lout c)) = true
    | LUnknownStack | LInvalidStackPointer | LInvalidStackPosition =>
        exists i c s, first_bad_sp g i c s /\ lcands x = [node_loc c]
    | LNodeInManyFunctions =>
        exists i c, node_at g i c /\ (2 <= length (cfuncs c))%nat
    | LInvalidUseBeforeAssignment =>
        (exists l, lcands x = [l] /\ trig g LInvalidUseBeforeAssignment l) \/
        (exists i c r, node_at g i c /\
           (is_program_entry (cn c) = true \/ exists f, is_function_entry_with_func g i c = Some f) /\
           rs_mem r (lin c) = true)
    | k => exists l, lcands x = [l] /\ trig g k l
    end.
Proof.
  intros g x Hin. apply due_strong_all in Hin. unfold due_strong in Hin.
  destruct (lcode x); try exact Hin.
  - destruct Hin as (i & c & fid & f & Hc & Hcall & Hf & Hin).
    apply usage_lints_in in Hin. destruct Hin as (_ & r & Hr). apply in_rs_elems in Hr.
    exists i, c, fid, f, r. tauto.
  - destruct Hin as [H|[(i & c & Hc & Hpe & Hin)|(i & c & f & Hc & Hf & Hin)]]; [left; exact H|right..];
      apply usage_lints_in in Hin; destruct Hin as (_ & r & Hr); apply in_rs_elems in Hr;
      destruct Hr as [Hr _]; unfold rs_mem, rs_diff in Hr; repeat rewrite N.ldiff_spec in Hr;
      exists i, c, r; (split; [exact Hc|]); (split; [|unfold rs_mem; destruct (N.testbit (lin c) r); [reflexivity|discriminate Hr]]).
    + left. exact Hpe.
    + right. exists f. exact Hf.
Qed.

(* the statement of Props/C04.v verbatim, for graphs in which the entry index of a function is a
   function-entry node (FnProofs.fn_body gives, for the graphs of `gen_full_cfg`, a function-entry
   node at `fentry f` for every `nth_opt (gfuncs g) fid = Some f`, from which `entries_marked`
   follows) *)
Definition entries_marked (g : cfg) : Prop :=
  forall i c f, node_at g i c -> is_function_entry_with_func g i c = Some f -> is_function_entry (cn c) = true.

Theorem every_diagnostic_is_due_marked :
  forall g, entries_marked g -> forall x, In x (run_diagnostics g) ->
    match lcode x with
    | LInvalidUseAfterCall =>
        exists i c fid f r, node_at g i c /\ calls_to_from_cfg g c = Some fid /\ nth_opt (gfuncs g) fid = Some f /\
          rs_mem r (rs_inter (rs_diff caller_saved_set (fn_returns g f)) (lout c)) = true
    | LUnknownStack | LInvalidStackPointer | LInvalidStackPosition =>
        exists i c s, first_bad_sp g i c s /\ lcands x = [node_loc c]
    | LNodeInManyFunctions =>
        exists i c, node_at g i c /\ (2 <= length (cfuncs c))%nat
    | LInvalidUseBeforeAssignment =>
        (exists l, lcands x = [l] /\ trig g LInvalidUseBeforeAssignment l) \/
        (exists i c r, node_at g i c /\ is_any_entry (cn c) = true /\ rs_mem r (lin c) = true)
    | k => exists l, lcands x = [l] /\ trig g k l
    end.
Proof.
  intros g Hm x Hin. pose proof (every_diagnostic_is_due g x Hin) as H.
  destruct (lcode x); try exact H.
  destruct H as [H|(i & c & r & Hc & He & Hr)]; [left; exact H|right].
  exists i, c, r. split; [exact Hc|]. split; [|exact Hr].
  destruct He as [He|(f & Hf)].
  - destruct (cn c); simpl in *; congruence.
  - apply (Hm i c f Hc) in Hf. destruct (cn c); simpl in *; congruence.
Qed.

Theorem clean_facts_no_diags : forall g, facts_clean g -> run_diagnostics g = [].
Proof.
  intros g (Htrig & Hsp & Hshare & Hcall & Hprog & Hfn).
  destruct (run_diagnostics g) as [|x rest] eqn:E; [reflexivity|]. exfalso.
  assert (Hin : In x (run_diagnostics g)) by (rewrite E; left; reflexivity).
  apply due_strong_all in Hin. unfold due_strong in Hin.
  destruct (lcode x);
    try (destruct Hin as (l & _ & Ht); exact (Htrig _ _ Ht));
    try (destruct Hin as (i & c & s & Hfb & _); exact (Hsp _ _ _ Hfb)).
  - destruct Hin as (i & c & fid & f & Hc & Hcl & Hf & Hin).
    rewrite (Hcall i c fid f Hc Hcl Hf), rs_elems_0, usage_lints_nil in Hin. destruct Hin.
  - destruct Hin as [(l & _ & Ht)|[(i & c & Hc & Hpe & Hin)|(i & c & f & Hc & Hf & Hin)]].
    + exact (Htrig _ _ Ht).
    + rewrite (Hprog i c Hc Hpe), rs_elems_0, usage_lints_nil in Hin. destruct Hin.
    + rewrite (Hfn i c f Hc Hf), rs_elems_0, usage_lints_nil in Hin. destruct Hin.
  - destruct Hin as (i & c & Hc & Hlen). specialize (Hshare i c Hc). lia.
Qed.

(* the jump that replaces an additional return keeps the replaced return's place (fix 41a4d47) *)
Lemma rewritten_return_place : forall found exit_ : cnode,
  node_raw (rewritten_return found exit_) = node_raw (cn found) /\
  node_loc (set_cn (set_nexts found [0%nat]) (rewritten_return found exit_)) = node_loc found.
Proof. intros found exit_. split; reflexivity. Qed.

