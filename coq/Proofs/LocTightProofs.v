(* C09 beyond the lexer, tightness: an INSTRUCTION statement consumes nothing but its mnemonic and its
   operand tokens (no newline, no comment), so the raw range of an instruction node runs exactly from the
   mnemonic through the last operand.  (Before the jalr fix a bare `jalr rs` consumed the token after rs.)
   Definitions: Spec/LocSpec.v ([operand_tok], [is_instruction_node], [mnemonic_tok], [stmt_tight],
   [segs_tight]).  Statement: Props/C09loc.v, C09loc_node_range_tight. *)
From RV.Model Require Import Base I32 Imm Lexer Isa Parser Reader Cfg Lints.
From RV.Spec Require Import PosSpec LineSpec ParamSpec ParamPlaceSpec IncludeSpec LocSpec.
From RV.Proofs Require Import LexProofs ImmProofs LineProofs IncludeRun ParamProofs LocProofs.
From Coq Require Import Lia.
Open Scope N_scope.

(* ================================================================================== *)
(* Part A: what makes a token an operand                                                *)

Lemma tok_reg_op t r : tok_reg t = Some r -> wt r = t /\ operand_tok t.
Proof.
  intros H. split; [apply (tok_reg_wt _ _ H)|]. unfold tok_reg in H. unfold operand_tok, is_newline_tok, is_comment_tok.
  destruct (tt t); try discriminate H; split; reflexivity.
Qed.
Lemma tok_label_op t r : tok_label t = Some r -> wt r = t /\ operand_tok t.
Proof.
  intros H. split; [apply (LineProofs.tok_label_wt _ _ H)|]. unfold tok_label in H.
  unfold operand_tok, is_newline_tok, is_comment_tok.
  destruct (tt t); try discriminate H; split; reflexivity.
Qed.
Lemma tok_imm_op t r : tok_imm t = Ok (Some r) -> wt r = t /\ operand_tok t.
Proof.
  intros H. split; [apply (tok_imm_wt _ _ H)|]. unfold tok_imm in H. unfold operand_tok, is_newline_tok, is_comment_tok.
  destruct (tt t); try discriminate H; split; reflexivity.
Qed.
Lemma tok_csrimm_op t r : tok_csrimm t = Ok (Some r) -> wt r = t /\ operand_tok t.
Proof.
  intros H. split; [apply (tok_csrimm_wt _ _ H)|]. unfold tok_csrimm in H.
  unfold operand_tok, is_newline_tok, is_comment_tok.
  destruct (tt t); try discriminate H; split; reflexivity.
Qed.
Lemma is_lparen_op t : is_lparen t = true -> operand_tok t.
Proof.
  unfold is_lparen, operand_tok, is_newline_tok, is_comment_tok. destruct (tt t); try discriminate; split; reflexivity.
Qed.
Lemma is_rparen_op t : is_rparen t = true -> operand_tok t.
Proof.
  unfold is_rparen, operand_tok, is_newline_tok, is_comment_tok. destruct (tt t); try discriminate; split; reflexivity.
Qed.

(* ================================================================================== *)
(* Part B: a partial-correctness logic for the parser monad that only tracks which       *)
(* tokens were consumed and whether an error is an expansion (ENeedTwoNodes)              *)

Definition no_two (e : lexerr) : Prop := match e with ENeedTwoNodes _ _ => False | _ => True end.

(* [m] from [st]: a value satisfies [Q]; an error is not an expansion *)
Definition SpecT {A} (m : P A) (st : pstate) (Q : A -> pstate -> Prop) : Prop :=
  forall x st', m st = Ok (x, st') -> match x with inr a => Q a st' | inl e => no_two e end.

(* a finished statement: a node satisfies [Qn], an expansion [Q2] *)
Definition FinT (Qn : pnode -> pstate -> Prop) (Q2 : pnode -> pnode -> pstate -> Prop)
  (r : res ((lexerr + pnode) * pstate)) : Prop :=
  forall x st', r = Ok (x, st') ->
    match x with inr n => Qn n st' | inl (ENeedTwoNodes a b) => Q2 a b st' | inl _ => True end.

Lemma spect_bind {A B} (m : P A) (k : A -> P B) st (Q : A -> pstate -> Prop) (R : B -> pstate -> Prop) :
  SpecT m st Q -> (forall a st', Q a st' -> SpecT (k a) st' R) -> SpecT (pbind m k) st R.
Proof.
  intros Hm Hk x st' E. unfold pbind in E. destruct (m st) as [[[e|a] st1]| |] eqn:Em; try discriminate E.
  - inversion E; subst. exact (Hm _ _ Em).
  - exact (Hk a st1 (Hm _ _ Em) x st' E).
Qed.

Lemma spect_imp {A} (m : P A) st (Q R : A -> pstate -> Prop) :
  SpecT m st Q -> (forall a st', Q a st' -> R a st') -> SpecT m st R.
Proof. intros Hm Hi x st' E. specialize (Hm x st' E). destruct x as [e|a]; [exact Hm|apply Hi; exact Hm]. Qed.

Lemma fint_bind {A} (m : P A) (k : A -> P pnode) st (Q : A -> pstate -> Prop) Qn Q2 :
  SpecT m st Q -> (forall a st', Q a st' -> FinT Qn Q2 (k a st')) -> FinT Qn Q2 (pbind m k st).
Proof.
  intros Hm Hk x st' E. unfold pbind in E. destruct (m st) as [[[e|a] st1]| |] eqn:Em; try discriminate E.
  - inversion E; subst. pose proof (Hm _ _ Em) as H. cbn in H. destruct e; try exact I. contradiction.
  - exact (Hk a st1 (Hm _ _ Em) x st' E).
Qed.

Lemma spect_ret {A} (a : A) st (Q : A -> pstate -> Prop) : Q a st -> SpecT (ret a) st Q.
Proof. intros H x st' E. unfold ret in E. inversion E; subst. exact H. Qed.
Lemma spect_fail {A} e st (Q : A -> pstate -> Prop) : no_two e -> SpecT (@fail A e) st Q.
Proof. intros H x st' E. unfold fail in E. inversion E; subst. exact H. Qed.
Lemma spect_lift {A} (r : res A) st : SpecT (lift_res r) st (fun a st' => st' = st /\ r = Ok a).
Proof. intros x st' E. unfold lift_res in E. destruct r; inversion E; subst. split; reflexivity. Qed.
Lemma spect_get_raw st : SpecT get_raw st (fun _ st' => st' = st).
Proof. intros x st' E. unfold get_raw in E. inversion E; subst. reflexivity. Qed.

Lemma fint_ret n st (Qn : pnode -> pstate -> Prop) Q2 : Qn n st -> FinT Qn Q2 (ret n st).
Proof. intros H x st' E. unfold ret in E. inversion E; subst. exact H. Qed.
Lemma fint_fail e st Qn (Q2 : pnode -> pnode -> pstate -> Prop) :
  match e with ENeedTwoNodes a b => Q2 a b st | _ => True end -> FinT Qn Q2 (@fail pnode e st).
Proof. intros H x st' E. unfold fail in E. inversion E; subst. exact H. Qed.

(* ---------------------------------------------------------------------------------- *)
(* without any hypothesis: errors of the primitives are never expansions (for directives) *)

Definition NoTwo {A} (m : P A) : Prop := forall st, SpecT m st (fun _ _ => True).

Lemma notwo_bind {A B} (m : P A) (k : A -> P B) : NoTwo m -> (forall a, NoTwo (k a)) -> NoTwo (pbind m k).
Proof. intros Hm Hk st. eapply spect_bind; [apply Hm|]. intros a st' _. apply Hk. Qed.
Lemma notwo_ret {A} (a : A) : NoTwo (ret a).
Proof. intros st. apply spect_ret. exact I. Qed.
Lemma notwo_fail {A} e : no_two e -> NoTwo (@fail A e).
Proof. intros H st. apply spect_fail. exact H. Qed.
Lemma notwo_lift {A} (r : res A) : NoTwo (lift_res r).
Proof. intros st. eapply spect_imp; [apply spect_lift|]. intros; exact I. Qed.
Lemma notwo_get_raw : NoTwo get_raw.
Proof. intros st. eapply spect_imp; [apply spect_get_raw|]. intros; exact I. Qed.
Lemma notwo_remaining : NoTwo remaining.
Proof. intros st x st' E. unfold remaining in E. inversion E; subst. exact I. Qed.

Lemma notwo_get_any : NoTwo get_any.
Proof.
  intros st x st' E. unfold get_any in E. destruct (fst st) as [|it l]; [inversion E; subst; exact I|].
  destruct it as [t|t p k|t]; cbn [item_result] in E; inversion E; subst; exact I.
Qed.
Lemma notwo_peek_any : NoTwo peek_any.
Proof.
  intros st x st' E. unfold peek_any in E. destruct (fst st) as [|it l]; [inversion E; subst; exact I|].
  destruct it as [t|t p k|t]; cbn [item_result] in E; inversion E; subst; exact I.
Qed.

Lemma notwo_get_imm : NoTwo get_imm.
Proof.
  unfold get_imm. apply notwo_bind; [apply notwo_get_any|]. intros t. unfold as_imm.
  apply notwo_bind; [apply notwo_lift|]. intros [i|]; [apply notwo_ret|apply notwo_fail; exact I].
Qed.
Lemma notwo_get_string : NoTwo get_string.
Proof.
  unfold get_string. apply notwo_bind; [apply notwo_get_any|]. intros t. unfold as_string.
  destruct (tok_string t); [apply notwo_ret|apply notwo_fail; exact I].
Qed.

Lemma notwo_data_values : forall f acc, NoTwo (data_values f acc).
Proof.
  induction f as [|f IH]; intros acc st; [intros x st' E; discriminate E|].
  unfold SpecT. cbn [data_values]. cbv beta.
  destruct (fst st) as [|it l]; [apply (spect_ret (rev acc) st); exact I|].
  destruct it as [t|t p k|t]; try (apply (spect_ret (rev acc) st); exact I).
  refine (notwo_bind _ _ notwo_peek_any _ st). intros nx.
  assert (Hother : NoTwo (pbind (lift_res (tok_imm nx))
            (fun r => match r with
                      | Some i => pbind get_any (fun _ => data_values f (i :: acc))
                      | None => ret (rev acc)
                      end))).
  { apply notwo_bind; [apply notwo_lift|]. intros [i|]; [|apply notwo_ret].
    apply notwo_bind; [apply notwo_get_any|]. intros _. apply IH. }
  destruct (tt nx); try exact Hother.
  apply notwo_bind; [apply notwo_get_any|]. intros _. apply IH.
Qed.

Lemma notwo_skip_macro : forall f, NoTwo (skip_macro f).
Proof.
  induction f as [|f IH]; intros st; [intros x st' E; discriminate E|].
  cbn [skip_macro]. apply notwo_bind; [apply notwo_get_any|]. intros nx.
  destruct (tt nx); try exact IH. destruct (dir_from_str s) as [[]|]; try exact IH. apply notwo_ret.
Qed.

(* a directive statement yields a directive node, never an expansion *)
Lemma parse_directive_shape d t0 st :
  FinT (fun n _ => is_instruction_node n = false) (fun _ _ _ => False) (parse_directive d t0 st).
Proof.
  unfold parse_directive. cbv zeta.
  assert (Hdata : forall dt, FinT (fun n _ => is_instruction_node n = false) (fun _ _ _ => False)
            (pbind remaining (fun n => pbind (data_values (S n) [])
              (fun vals => pbind get_raw (fun rt => ret (PDirective (mkw d t0) (DDat dt vals) rt)))) st)).
  { intros dt. eapply fint_bind; [apply notwo_remaining|intros n st1 _].
    eapply fint_bind; [apply notwo_data_values|intros vals st2 _].
    eapply fint_bind; [apply notwo_get_raw|intros rt st3 _]. apply fint_ret. reflexivity. }
  destruct d; try (apply Hdata);
    repeat first
      [ apply fint_ret; reflexivity
      | apply fint_fail; exact I
      | eapply fint_bind; [first [apply notwo_get_imm|apply notwo_get_string|apply notwo_get_raw
                                  |apply notwo_remaining|apply notwo_skip_macro]|intros ? ? _] ].
Qed.

(* ================================================================================== *)
(* Part C: instruction statements.  [t0] is the mnemonic; the state invariant [T ut st]: *)
(* the statement has consumed t0 followed by the operand tokens [ut].                     *)

Section TightStmt.
  Variable top : list lexitem.
  Variable t0 : token.
  Notation W := (LineProofs.W top).

  Definition T (ut : list token) (st : pstate) : Prop :=
    W (LTok t0 :: map LTok ut) st /\ Forall operand_tok ut.

  Lemma T_snoc ut st t l : T ut st -> fst st = LTok t :: l -> operand_tok t ->
    T (ut ++ [t]) (l, rawstep (snd st) (LTok t)).
  Proof.
    intros [HW Ho] Hf Ht. split.
    - rewrite map_app. apply (W_snoc top (LTok t0 :: map LTok ut) st t l (or_introl HW) Hf).
    - apply Forall_app. split; [exact Ho|constructor; [exact Ht|constructor]].
  Qed.

  (* the next token, when it is an operand *)
  Lemma spect_get_any ut st : T ut st ->
    SpecT get_any st (fun t st' => operand_tok t -> T (ut ++ [t]) st').
  Proof.
    intros HT x st' E. unfold get_any in E. destruct (fst st) as [|it l] eqn:Ef; [inversion E; subst; exact I|].
    destruct it as [t|t p k|t]; cbn [item_result] in E; inversion E; subst; try exact I.
    intros Ht. apply (T_snoc ut st t l HT Ef Ht).
  Qed.

  Lemma spect_get_known ut st t l : T ut st -> fst st = LTok t :: l -> operand_tok t ->
    SpecT get_any st (fun _ st' => T (ut ++ [t]) st').
  Proof.
    intros HT Hf Ht x st' E. unfold get_any in E. rewrite Hf in E. cbn [item_result] in E. inversion E; subst.
    apply (T_snoc ut st t l HT Hf Ht).
  Qed.

  Lemma spect_peek st : SpecT peek_any st (fun t st' => st' = st /\ exists l, fst st = LTok t :: l).
  Proof.
    intros x st' E. unfold peek_any in E. destruct (fst st) as [|it l] eqn:Ef; [inversion E; subst; exact I|].
    destruct it as [t|t p k|t]; cbn [item_result] in E; inversion E; subst; try exact I.
    split; [reflexivity|exists l; reflexivity].
  Qed.

  Notation Tn := (fun ut => fun (r : wth _) (st' : pstate) => T (ut ++ [wt r]) st').

  Lemma spect_get_reg ut st : T ut st -> SpecT get_reg st (Tn ut).
  Proof.
    intros HT. unfold get_reg. eapply spect_bind; [apply (spect_get_any ut st HT)|]. intros t st' Ht.
    unfold as_reg. destruct (tok_reg t) as [r|] eqn:Er; [|apply spect_fail; exact I].
    apply spect_ret. destruct (tok_reg_op _ _ Er) as [-> Ho]. apply Ht. exact Ho.
  Qed.
  Lemma spect_get_label ut st : T ut st -> SpecT get_label st (Tn ut).
  Proof.
    intros HT. unfold get_label. eapply spect_bind; [apply (spect_get_any ut st HT)|]. intros t st' Ht.
    unfold as_label. destruct (tok_label t) as [r|] eqn:Er; [|apply spect_fail; exact I].
    apply spect_ret. destruct (tok_label_op _ _ Er) as [-> Ho]. apply Ht. exact Ho.
  Qed.
  Lemma spect_get_imm ut st : T ut st -> SpecT get_imm st (Tn ut).
  Proof.
    intros HT. unfold get_imm. eapply spect_bind; [apply (spect_get_any ut st HT)|]. intros t st' Ht.
    unfold as_imm. eapply spect_bind; [apply spect_lift|]. intros [r|] st2 [-> Er]; [|apply spect_fail; exact I].
    apply spect_ret. destruct (tok_imm_op _ _ Er) as [-> Ho]. apply Ht. exact Ho.
  Qed.
  Lemma spect_get_csrimm ut st : T ut st -> SpecT get_csrimm st (Tn ut).
  Proof.
    intros HT. unfold get_csrimm. eapply spect_bind; [apply (spect_get_any ut st HT)|]. intros t st' Ht.
    unfold as_csrimm. eapply spect_bind; [apply spect_lift|]. intros [r|] st2 [-> Er]; [|apply spect_fail; exact I].
    apply spect_ret. destruct (tok_csrimm_op _ _ Er) as [-> Ho]. apply Ht. exact Ho.
  Qed.
  Lemma spect_expect_rparen ut st : T ut st ->
    SpecT expect_rparen st (fun _ st' => exists t, T (ut ++ [t]) st').
  Proof.
    intros HT. unfold expect_rparen. eapply spect_bind; [apply (spect_get_any ut st HT)|]. intros t st' Ht.
    destruct (is_rparen t) eqn:Er; [|apply spect_fail; exact I].
    apply spect_ret. exists t. apply Ht. apply is_rparen_op. exact Er.
  Qed.

  (* what an instruction statement yields *)
  Definition Qn1 (n : pnode) (st : pstate) : Prop := exists ut, T ut st /\ mnemonic_tok n = Some t0.
  Definition Qn2 (a b : pnode) (st : pstate) : Prop :=
    exists ut, T ut st /\ mnemonic_tok a = Some t0 /\ mnemonic_tok b = Some t0.

  Ltac tstep :=
    cbv beta in *;
    lazymatch goal with
    | |- FinT _ _ (pbind get_reg _ _) => eapply fint_bind; [eapply spect_get_reg; eassumption|intros ? ? ?]
    | |- FinT _ _ (pbind get_imm _ _) => eapply fint_bind; [eapply spect_get_imm; eassumption|intros ? ? ?]
    | |- FinT _ _ (pbind get_label _ _) => eapply fint_bind; [eapply spect_get_label; eassumption|intros ? ? ?]
    | |- FinT _ _ (pbind get_csrimm _ _) => eapply fint_bind; [eapply spect_get_csrimm; eassumption|intros ? ? ?]
    | |- FinT _ _ (pbind expect_rparen _ _) =>
        eapply fint_bind; [eapply spect_expect_rparen; eassumption|intros ? ? [? ?]]
    | |- FinT _ _ (pbind get_raw _ _) => eapply fint_bind; [apply spect_get_raw|intros ? ? ->]
    | |- FinT _ _ (ret _ _) => apply fint_ret; eexists; split; [eassumption|reflexivity]
    | |- FinT _ _ (fail (ENeedTwoNodes _ _) _) =>
        apply fint_fail; eexists; split; [eassumption|split; reflexivity]
    | |- FinT _ _ (fail _ _) => apply fint_fail; exact I
    end;
    cbv beta in *.

  Lemma parse_inst_tight i st : T [] st -> FinT Qn1 Qn2 (parse_inst i t0 st).
  Proof.
    intros HT0. unfold parse_inst. cbv zeta.
    destruct (inst_kind i) eqn:K.
    - repeat tstep.
    - repeat tstep.
    - repeat tstep.
    - (* KJumpLink *)
      eapply fint_bind; [apply (spect_get_any _ _ HT0)|]. intros nx st1 Hnx.
      destruct (tok_reg nx) as [r|] eqn:Er.
      + destruct (tok_reg_op _ _ Er) as [_ Ho]. specialize (Hnx Ho). repeat tstep.
      + destruct (tok_label nx) as [nm|] eqn:El.
        * destruct (tok_label_op _ _ El) as [_ Ho]. specialize (Hnx Ho). repeat tstep.
        * tstep.
    - (* KJumpLinkR *)
      tstep. eapply fint_bind; [apply spect_peek|]. intros nx st2 [-> [l0 Hnx]].
      destruct (tok_reg nx) as [r1|] eqn:Er.
      + destruct (tok_reg_op _ _ Er) as [_ Ho].
        eapply fint_bind; [eapply spect_get_known; [eassumption|exact Hnx|exact Ho]|intros ? ? ?]; cbv beta in *. repeat tstep.
      + eapply fint_bind; [apply spect_lift|]. intros [imm|] st3 [-> Ei].
        * destruct (tok_imm_op _ _ Ei) as [_ Ho].
          eapply fint_bind; [eapply spect_get_known; [eassumption|exact Hnx|exact Ho]|intros ? st3 HT3]; cbv beta in *.
          eapply fint_bind; [apply spect_peek|]. intros pk st4 [-> [l Hpk]].
          destruct (is_lparen pk) eqn:Elp.
          -- eapply fint_bind;
               [eapply spect_get_known; [eassumption|exact Hpk|apply is_lparen_op; exact Elp]|intros ? ? ?]; cbv beta in *.
             repeat tstep.
          -- repeat tstep.
        * destruct (is_lparen nx) eqn:Elp.
          -- eapply fint_bind;
               [eapply spect_get_known; [eassumption|exact Hnx|apply is_lparen_op; exact Elp]|intros ? ? ?]; cbv beta in *.
             repeat tstep.
          -- repeat tstep.
    - (* KLoad *)
      tstep. eapply fint_bind; [eapply spect_get_any; eassumption|]. intros nx st2 Hnx.
      eapply fint_bind; [apply spect_lift|]. intros [imm|] st3 [-> Ei].
      + destruct (tok_imm_op _ _ Ei) as [_ Ho]. specialize (Hnx Ho).
        eapply fint_bind; [apply spect_peek|]. intros pk st4 [-> [l Hpk]].
        destruct (is_lparen pk) eqn:Elp.
        * eapply fint_bind;
            [eapply spect_get_known; [eassumption|exact Hpk|apply is_lparen_op; exact Elp]|intros ? ? ?]; cbv beta in *.
          repeat tstep.
        * repeat tstep.
      + destruct (tok_label nx) as [lb|] eqn:El.
        * destruct (tok_label_op _ _ El) as [_ Ho]. specialize (Hnx Ho). repeat tstep.
        * destruct (is_lparen nx) eqn:Elp; [specialize (Hnx (is_lparen_op _ Elp))|]; repeat tstep.
    - (* KStore *)
      tstep. eapply fint_bind; [eapply spect_get_any; eassumption|]. intros nx st2 Hnx.
      eapply fint_bind; [apply spect_lift|]. intros [imm|] st3 [-> Ei].
      + destruct (tok_imm_op _ _ Ei) as [_ Ho]. specialize (Hnx Ho).
        eapply fint_bind; [apply spect_peek|]. intros pk st4 [-> [l Hpk]].
        destruct (is_lparen pk) eqn:Elp.
        * eapply fint_bind;
            [eapply spect_get_known; [eassumption|exact Hpk|apply is_lparen_op; exact Elp]|intros ? ? ?]; cbv beta in *.
          repeat tstep.
        * destruct (tok_reg pk) as [tmp|] eqn:Et.
          -- destruct (tok_reg_op _ _ Et) as [_ Hop].
             eapply fint_bind; [eapply spect_get_known; [eassumption|exact Hpk|exact Hop]|intros ? ? ?]; cbv beta in *.
             repeat tstep.
          -- repeat tstep.
      + destruct (tok_label nx) as [lb|] eqn:El.
        * destruct (tok_label_op _ _ El) as [_ Ho]. specialize (Hnx Ho). repeat tstep.
        * destruct (is_lparen nx) eqn:Elp; [specialize (Hnx (is_lparen_op _ Elp))|]; repeat tstep.
    - repeat tstep.
    - repeat tstep.
    - repeat tstep.
    - repeat tstep.
    - (* KPseudo *) destruct i; repeat tstep.
    - (* KUpperArith *)
      tstep. tstep. destruct (lui_imm (wv a0)); repeat tstep.
  Qed.
End TightStmt.

(* ================================================================================== *)
(* Part D: one statement, one call of [parse_one].                                       *)

Definition TightRes (top : list lexitem) (x : lexerr + pnode) (st' : pstate) : Prop :=
  match x with
  | inr n => is_instruction_node n = true ->
      exists t0 ut, LineProofs.W top (LTok t0 :: map LTok ut) st' /\ Forall operand_tok (t0 :: ut) /\
                    mnemonic_tok n = Some t0
  | inl (ENeedTwoNodes a b) =>
      exists t0 ut, LineProofs.W top (LTok t0 :: map LTok ut) st' /\ Forall operand_tok (t0 :: ut) /\
                    mnemonic_tok a = Some t0 /\ mnemonic_tok b = Some t0
  | inl _ => True
  end.

Lemma parse_stmt_tight top x st' : parse_stmt (top, None) = Ok (x, st') -> TightRes top x st'.
Proof.
  unfold parse_stmt, pbind at 1, get_any. cbn [fst snd].
  destruct top as [|it l]; intros E; [inversion E; subst; exact I|].
  destruct it as [t0|t p k|t]; cbn [item_result] in E; try (inversion E; subst; exact I).
  set (st := (l, Some (raw_of_token t0)) : pstate) in *.
  assert (HW : LineProofs.W (LTok t0 :: l) [LTok t0] st).
  { split; [reflexivity|]. split; [repeat constructor|]. split; [reflexivity|discriminate]. }
  assert (Hfail : forall e, no_two e -> @fail pnode e st = Ok (x, st') -> TightRes (LTok t0 :: l) x st').
  { intros e He E'. unfold fail in E'. inversion E'; subst. destruct e; try exact I. contradiction. }
  destruct (tt t0) as [| | |s|s|d|s|c|s] eqn:Ett; try ((refine (Hfail _ _ E); exact I)).
  - (* a label *)
    destruct (label_from_str s) as [lb|]; [|(refine (Hfail _ _ E); exact I)].
    unfold pbind, get_raw, ret in E. inversion E; subst. intros Hi. discriminate Hi.
  - (* an instruction *)
    destruct (inst_from_str s) as [i|]; [|(refine (Hfail _ _ E); exact I)].
    assert (Hop : operand_tok t0).
    { unfold operand_tok, is_newline_tok, is_comment_tok. rewrite Ett. split; reflexivity. }
    pose proof (parse_inst_tight (LTok t0 :: l) t0 i st (conj HW (Forall_nil _)) x st' E) as H.
    destruct x as [e|n]; [destruct e; try exact I|].
    + destruct H as [ut [[HW' Ho] [Ma Mb]]]. exists t0, ut. split; [exact HW'|]. split; [constructor; assumption|].
      split; assumption.
    + destruct H as [ut [[HW' Ho] Hm]]. intros _. exists t0, ut. split; [exact HW'|]. split; [constructor; assumption|exact Hm].
  - (* a directive *)
    destruct (dir_from_str d) as [dt|]; [|(refine (Hfail _ _ E); exact I)].
    pose proof (parse_directive_shape dt t0 st x st' E) as H.
    destruct x as [e|n]; [destruct e; try exact I; contradiction|].
    intros Hi. rewrite H in Hi. discriminate Hi.
Qed.

Lemma map_LTok_inj : forall a b : list token, map LTok a = map LTok b -> a = b.
Proof.
  induction a as [|x a IH]; intros [|y b] H; try discriminate H; [reflexivity|].
  cbn [map] in H. inversion H; subst. f_equal. apply IH. assumption.
Qed.

(* the tokens [u] a statement consumed (they are determined by what it leaves unread) *)
Theorem parse_one_tight top x rest : parse_one top = Ok (x, rest) ->
  forall u, top = map LTok u ++ rest ->
    match x with
    | inr n => stmt_tight u n
    | inl (ENeedTwoNodes a b) => stmt_tight u a /\ stmt_tight u b
    | inl _ => True
    end.
Proof.
  intros E u Hu. unfold parse_one, bind in E.
  destruct (parse_stmt (top, None)) as [[x' [rest' o]]| |] eqn:Ep; try discriminate E.
  inversion E; subst x' rest'. clear E.
  pose proof (parse_stmt_tight top x _ Ep) as H.
  assert (Hkey : forall t0 ut, LineProofs.W top (LTok t0 :: map LTok ut) (rest, o) -> u = t0 :: ut).
  { intros t0 ut [H1 _]. cbn [fst] in H1. rewrite Hu in H1.
    change (LTok t0 :: map LTok ut) with (map LTok (t0 :: ut)) in H1.
    apply app_inv_tail in H1. apply map_LTok_inj. exact H1. }
  destruct x as [e|n].
  - destruct e; try exact I. destruct H as [t0 [ut [HW [Ho [Ma Mb]]]]]. rewrite (Hkey _ _ HW).
    split; intros _; split; assumption.
  - intros Hi. destruct (H Hi) as [t0 [ut [HW [Ho Hm]]]]. rewrite (Hkey _ _ HW). split; assumption.
Qed.

(* ================================================================================== *)
(* Part E: the file driver on a single-file store (as LocProofs Part C, with segs_tight) *)

Lemma segs_tight_prefix d l ns : segs_tight l ns -> segs_tight (d ++ l) ns.
Proof.
  intros H. inversion H; subst.
  - constructor.
  - rewrite app_assoc. apply segst_one; assumption.
  - rewrite app_assoc. apply segst_two; assumption.
Qed.

Lemma segs_tight_segs : forall l ns, segs_tight l ns -> segs l ns.
Proof.
  induction 1 as [l|d u rest n ns Hn Ht Hs IH|d u rest n1 n2 ns Hn1 Hn2 Hx Ht1 Ht2 Hs IH].
  - constructor.
  - apply segs_one; assumption.
  - apply segs_two; assumption.
Qed.

Lemma segs_tight_in : forall l ns, segs_tight l ns -> forall n, In n ns ->
  exists pre u post, l = pre ++ map LTok u ++ post /\ stmt_node u n /\ stmt_tight u n.
Proof.
  induction 1 as [l|d u rest n ns Hn Ht Hs IH|d u rest n1 n2 ns Hn1 Hn2 Hx Ht1 Ht2 Hs IH]; intros m Hin.
  - destruct Hin.
  - destruct Hin as [<-|Hin]; [exists d, u, rest; split; [reflexivity|split; assumption]|].
    destruct (IH m Hin) as [pre [u' [post [E Hm]]]]. exists (d ++ map LTok u ++ pre), u', post.
    split; [rewrite E, <- !app_assoc; reflexivity|exact Hm].
  - destruct Hin as [<-|[<-|Hin]]; [exists d, u, rest; split; [reflexivity|split; assumption]
                                    |exists d, u, rest; split; [reflexivity|split; assumption]|].
    destruct (IH m Hin) as [pre [u' [post [E Hm]]]]. exists (d ++ map LTok u ++ pre), u', post.
    split; [rewrite E, <- !app_assoc; reflexivity|exact Hm].
Qed.

Section DriveT.
  Variables (chk : bool) (path text : str).
  Notation fs := [(path, @inl str unit text)].
  Notation rs1 := (mkrs [path]).

  Lemma dstep_tight top tops rs' dn de :
    dstep chk fs false top rs1 [] [] = Ok (tops, rs', dn, de) ->
    rs' = rs1 /\
    ((tops = [] /\ dn = []) \/
     exists top', tops = [top'] /\ forall new', segs_tight top' new' -> segs_tight top (rev dn ++ new')).
  Proof.
    unfold dstep. intros H.
    destruct (parse_one top) as [[x rest]| |] eqn:Ep; cbn [bind] in H; try discriminate H.
    destruct (parse_one_loc top x rest Ep) as [[d0 Hd0] Hx].
    pose proof (parse_one_tight top x rest Ep) as Ht.
    assert (Hrec : exists d, top = d ++ recover rest).
    { destruct (recover_suffix rest) as [d2 Hd2]. exists (d0 ++ d2). rewrite <- app_assoc, <- Hd2. exact Hd0. }
    assert (Hplain : forall top', (exists d, top = d ++ top') ->
              forall new', segs_tight top' new' -> segs_tight top (rev [] ++ new')).
    { intros top' [d Hd] new' Hs. cbn [rev app]. rewrite Hd. apply segs_tight_prefix. exact Hs. }
    destruct x as [e|n].
    - assert (Hde : de = match err_perr e with Some pe => [pe] | None => [] end /\ rs' = rs1 /\
                    tops = match stmt_next (inl e) rest with Some t => [t] | None => [] end /\
                    dn = err_nodes e).
      { inversion H; subst. rewrite app_nil_r. destruct (err_perr e); auto. }
      destruct Hde as [_ [-> [-> ->]]]. split; [reflexivity|].
      destruct e; cbn [stmt_next err_nodes].
      + right. eexists. split; [reflexivity|]. apply Hplain. destruct (is_newline_tok got); eauto.
      + right. eexists. split; [reflexivity|]. apply Hplain. eauto.
      + right. eexists. split; [reflexivity|]. apply Hplain. eauto.
      + right. eexists. split; [reflexivity|]. apply Hplain. eauto.
      + right. eexists. split; [reflexivity|]. apply Hplain. eauto.
      + left. split; reflexivity.
      + right. eexists. split; [reflexivity|].
        cbn [stmt_res] in Hx. destruct Hx as [u [A1 [A2 [A3 A4]]]]. destruct (Ht u A1) as [T1 T2].
        intros new' Hs. cbn [rev app]. rewrite A1. apply (segst_two [] u rest n1 n2 new'); assumption.
      + right. eexists. split; [reflexivity|]. apply Hplain. eauto.
      + right. eexists. split; [reflexivity|]. apply Hplain. eauto.
      + right. eexists. split; [reflexivity|]. apply Hplain. eauto.
      + right. eexists. split; [reflexivity|]. apply Hplain. eauto.
    - cbn [stmt_res] in Hx. destruct Hx as [u [A1 A2]]. pose proof (Ht u A1) as T1. cbv beta iota in T1.
      destruct (include_path n) as [pth|] eqn:Einc.
      + destruct (import_fail path text (wv pth)) as [e [I1 _]]. rewrite I1 in H. inversion H; subst.
        split; [reflexivity|]. right. eexists. split; [reflexivity|]. apply Hplain. eauto.
      + inversion H; subst. split; [reflexivity|].
        right. eexists. split; [reflexivity|].
        intros new' Hs. cbn [rev app]. rewrite A1. apply (segst_one [] u rest n new'); assumption.
  Qed.

  Lemma drive_tight : forall f top nodes errs ns es rs',
    drive f chk fs false [top] rs1 nodes errs = Ok (ns, es, rs') ->
    exists newn, ns = rev nodes ++ newn /\ segs_tight top newn.
  Proof.
    induction f as [|f IH]; intros top nodes errs ns es rs' H; [discriminate H|].
    rewrite drive_S, dstep_acc in H.
    destruct (dstep chk fs false top rs1 [] []) as [[[[tops rs''] dn] de]| |] eqn:Ed; cbn [bind] in H; try discriminate H.
    destruct (dstep_tight top tops rs'' dn de Ed) as [-> [[-> ->]|[top' [-> Hs]]]].
    - cbn [app] in H. destruct f as [|f]; [discriminate H|]. rewrite drive_nil in H. inversion H; subst.
      exists []. rewrite app_nil_r. split; [reflexivity|constructor].
    - cbn [app] in H. destruct (IH top' _ _ _ _ _ H) as [newn [N1 N3]].
      exists (rev dn ++ newn).
      split; [rewrite N1, rev_app_distr, <- app_assoc; reflexivity|]. apply Hs. exact N3.
  Qed.

  Theorem parse_file_segs_tight nodes errs rs items :
    parse_from_file chk fs path false = Ok (nodes, errs, rs) ->
    lex_all chk (Some 0) (normalize_text text) = Ok items ->
    exists body, nodes = entry_node 0 :: body /\ segs_tight items body.
  Proof.
    intros Hp Hl. rewrite parse_from_file_unfold, Hl in Hp. cbn [bind] in Hp.
    destruct (drive_tight _ _ _ _ _ _ _ Hp) as [newn [N1 N3]].
    exists newn. subst. split; [reflexivity|assumption].
  Qed.
End DriveT.

(* ================================================================================== *)
(* Part F: the single-file theorem.  The nodes are the ProgramEntry followed by [body];   *)
(* [segs_tight items body]; and spelled out for one instruction node: its statement is a   *)
(* segment [tf :: u'] of the lexer output that starts with its mnemonic [tf] and consists   *)
(* of operand tokens only (no newline, no comment); its raw range is the hull of tf and   *)
(* the last of them; the tokens it carries are among them.                                 *)

Theorem node_range_tight chk path text nodes errs rs items :
  parse_from_file chk [(path, inl text)] path false = Ok (nodes, errs, rs) ->
  lex_all chk (Some 0) (normalize_text text) = Ok items ->
  exists body, nodes = entry_node 0 :: body /\ segs_tight items body /\
    forall n, In n body -> is_instruction_node n = true ->
      exists pre tf u' post,
        items = pre ++ map LTok (tf :: u') ++ post /\ mnemonic_tok n = Some tf /\
        Forall operand_tok (tf :: u') /\ node_raw n = hull tf (last u' tf) /\
        Forall (fun t => In t (tf :: u')) (node_tokens n).
Proof.
  intros Hp Hl. destruct (parse_file_segs_tight chk path text nodes errs rs items Hp Hl) as [body [E Hs]].
  exists body. split; [exact E|]. split; [exact Hs|]. intros n Hin Hi.
  destruct (segs_tight_in items body Hs n Hin) as [pre [u [post [Ei [Hn Ht]]]]].
  destruct (Ht Hi) as [Hm Ho]. destruct u as [|tf u']; [contradiction|]. destruct Hn as [Hr Hk].
  exists pre, tf, u', post. repeat split; assumption.
Qed.
