(* The function a label owns has its ENTRY at the node that carries the label.

   `mark_function` appends the record `mkfn entry ex r defs` to `gfuncs` and, with the index of that
   record, one pair `(l, fid)` to `glabelfn` for every label l of the node at `entry`.  So the label map
   and the records agree: every pair (l, fid) of the map points to a record whose entry node is a
   function entry carrying l.  This is an invariant of `mark_function`/`markup_loop` (the later passes
   change neither labels, nor the kind of a node, nor `gfuncs`/`glabelfn`), proved here the same way as
   `labels_bound` in Proofs/LivePipeProofs.v.

     label_fn_entry              the invariant on every finished graph (Props/C11.v)
     label_fn_entry_assoc        the same, the pair given by `assoc_fn`
     call_target_function_entry  `call_target_owns_function` (Proofs/LabelProofs.v) extended by: the
                                 owned function has its entry at the node k of the label (Props/C03lbl.v) *)
From Coq Require Import List Arith Lia ZifyNat ZifyBool.
From RV.Model Require Import Base I32 Imm Lexer Isa Parser Cfg Avail Live Lints.
From RV.Spec Require Import CfgSpec LabelSpec.
From RV.Proofs Require Import CfgProofs FnProofs LabelProofs.
From RV.Proofs Require ErrProofs.
Import ListNotations.
Local Open Scope nat_scope.

(* ===== 1. the invariant ====================================================================== *)

Definition lfe (G : cfg) : Prop :=
  forall l fid, In (l, fid) (glabelfn G) ->
    exists f c, nth_opt (gfuncs G) fid = Some f /\ nth_opt (gnodes G) (fentry f) = Some c /\
                is_function_entry (cn c) = true /\ mem_name l (clabels c) = true.

Lemma mem_name_In_wv (w : wth str) ls : In w ls -> mem_name (wv w) ls = true.
Proof. intros Hin. apply ErrProofs.mem_name_true. exists w. split; [exact Hin|reflexivity]. Qed.

Lemma mark_function_lfe G e pick G' :
  mark_function G e pick = inr G' -> fe_at (gnodes G) e -> lfe G -> lfe G'.
Proof.
  intros Hm [ce [Hce Hfe]] HI l fid Hin.
  destruct (mark_function_spec _ _ _ _ Hm) as [ex [defs [Hgf [Hlf _]]]].
  pose proof (mark_function_frame _ _ _ _ Hm) as HF.
  rewrite Hlf in Hin. rewrite Hgf. apply in_app_or in Hin. destruct Hin as [Hin|Hin].
  - destruct (HI l fid Hin) as [f [c [Hf [Hc [Hfc Hmn]]]]].
    destruct (frameLF_fwd _ _ _ _ HF Hc) as [c' [Hc' [El Ef]]].
    exists f, c'. split.
    + rewrite nth_opt_app_l; [exact Hf|]. eapply nth_opt_lt; exact Hf.
    + split; [exact Hc'|]. rewrite El, Ef. split; assumption.
  - rewrite Hce in Hin. apply in_map_iff in Hin. destruct Hin as [w [Hw Hwin]].
    inversion Hw; subst l fid; clear Hw.
    destruct (frameLF_fwd _ _ _ _ HF Hce) as [c' [Hc' [El Ef]]].
    exists (mkfn e ex (reachable (gnodes G) e) defs), c'.
    split; [apply nth_opt_app_len|]. cbn [fentry].
    split; [exact Hc'|]. rewrite El, Ef. split; [exact Hfe|]. apply mem_name_In_wv. exact Hwin.
Qed.

Lemma markup_loop_lfe : forall es picks G G',
  markup_loop es picks G = inr G' -> (forall e, In e es -> fe_at (gnodes G) e) -> lfe G -> lfe G'.
Proof.
  induction es as [|e es IH]; intros picks G G' H Hes HI; simpl in H.
  - inversion H; subst; exact HI.
  - destruct (mark_function G e (hd_opt picks)) as [err|G1] eqn:Hm; [discriminate|].
    eapply IH; [exact H| |].
    + intros e' He'. eapply frameLF_fe; [eapply mark_function_frame; exact Hm|].
      apply Hes. right. exact He'.
    + eapply mark_function_lfe; [exact Hm| |exact HI]. apply Hes. left. reflexivity.
Qed.

Lemma function_markup_lfe picks G G' :
  function_markup picks G = inr G' -> glabelfn G = [] -> lfe G'.
Proof.
  unfold function_markup. intros H Hl. eapply markup_loop_lfe; [exact H| |].
  - intros e He. apply function_entries_fe. exact He.
  - intros l fid Hin. rewrite Hl in Hin. destruct Hin.
Qed.

(* the graph right after the markup (stage 8) *)
Theorem stage8_lfe picks ns h5 : gen_cfg_upto 8 picks ns = Ok (SOk h5) -> lfe h5.
Proof.
  intros H8. destruct (upto8_stages _ _ _ H8) as [hs [h0 [h4 [_ [_ [_ [_ [_ [Gl4 Hm]]]]]]]]].
  eapply function_markup_lfe; [exact Hm|exact Gl4].
Qed.

(* the later passes keep labels, node kinds, records and the label map *)
Lemma post_lfe G G' : post (gnodes G) (gnodes G') -> gfuncs G' = gfuncs G -> glabelfn G' = glabelfn G ->
  lfe G -> lfe G'.
Proof.
  intros HP Gf Gl HI l fid Hin. rewrite Gl in Hin. rewrite Gf.
  destruct (HI l fid Hin) as [f [c [Hf [Hc [Hfc Hmn]]]]].
  destruct (post_fwd _ _ _ _ HP Hc) as [c' [Hc' [Ecn [El _]]]].
  exists f, c'. split; [exact Hf|]. split; [exact Hc'|]. rewrite Ecn, El. split; assumption.
Qed.

(* ===== 2. the finished graph ================================================================= *)

Theorem label_fn_entry :
  forall picks ns g, gen_full_cfg picks ns = Ok (SOk g) ->
    forall l fid, In (l, fid) (glabelfn g) ->
      exists f c, nth_opt (gfuncs g) fid = Some f /\ nth_opt (gnodes g) (fentry f) = Some c /\
                  is_function_entry (cn c) = true /\ mem_name l (clabels c) = true.
Proof.
  intros picks ns g H. destruct (final_setup _ _ _ H) as [h5 [H8 [HP [Gf Gl]]]].
  exact (post_lfe h5 g HP Gf Gl (stage8_lfe _ _ _ H8)).
Qed.

Lemma assoc_fn_In_key s L v : assoc_fn s L = Some v -> In (s, v) L.
Proof.
  induction L as [|[k w] L IH]; cbn [assoc_fn]; [discriminate|].
  destruct (str_eqb s k) eqn:E.
  - intros H; inversion H; subst w. apply ErrProofs.str_eqb_eq in E. subst k. left; reflexivity.
  - intros H. right. exact (IH H).
Qed.

(* the pair found by the lookup the analyses use (`calls_to_from_cfg`) *)
Theorem label_fn_entry_assoc :
  forall picks ns g, gen_full_cfg picks ns = Ok (SOk g) ->
    forall l fid, assoc_fn l (glabelfn g) = Some fid ->
      exists f c, nth_opt (gfuncs g) fid = Some f /\ node_at g (fentry f) c /\
                  is_function_entry (cn c) = true /\ mem_name l (clabels c) = true.
Proof.
  intros picks ns g H l fid Ha. unfold node_at.
  exact (label_fn_entry _ _ _ H l fid (assoc_fn_In_key _ _ _ Ha)).
Qed.

(* ===== 3. the call target ==================================================================== *)

Theorem call_target_function_entry picks ns g :
  gen_full_cfg picks ns = Ok (SOk g) ->
  forall m lab, In m ns -> calls_to m = Some lab ->
  forall p q, label_position ns (wv lab) = Some p -> next_instruction_after ns p = Some q ->
    exists hs h0 k ck fid,
      cfg_new ns (Some hs) = inr h0 /\ name_on_instruction ns (Some hs) h0 (wv lab) q k /\
      node_at g k ck /\ is_function_entry (cn ck) = true /\ mem_name (wv lab) (clabels ck) = true /\
      assoc_fn (wv lab) (glabelfn g) = Some fid /\
      exists f, nth_opt (gfuncs g) fid = Some f /\ fentry f = k.
Proof.
  intros H m lab Hm Hc p q Hp Hq.
  destruct (full_frame _ _ _ H) as [hs [h0 [Hnew HF]]].
  destruct (call_target_is_function_entry _ _ _ Hnew _ _ Hm Hc _ _ Hp Hq)
    as [j [c [k [ck [A [_ [B [_ [Fe [M _]]]]]]]]]].
  destruct (frameLF_fwd _ _ _ _ HF B) as [ck' [Hck' [El Ef]]].
  assert (Hex : exists i c0, node_at g i c0 /\ is_function_entry (cn c0) = true /\
                             mem_name (wv lab) (clabels c0) = true).
  { exists k, ck'. unfold node_at. rewrite El, Ef. auto. }
  apply (label_owns_function _ _ _ H) in Hex. destruct Hex as [fid Hfid].
  exists hs, h0, k, ck', fid.
  split; [exact Hnew|]. split; [exact A|]. split; [exact Hck'|].
  split; [rewrite Ef; exact Fe|]. split; [rewrite El; exact M|]. split; [exact Hfid|].
  destruct (label_fn_entry_assoc _ _ _ H _ _ Hfid) as [f [cf [Hf [Hcf [_ Hmn]]]]].
  exists f. split; [exact Hf|].
  (* the node at `fentry f` carries the label already in h0, where only k does *)
  destruct (proj2 HF (fentry f) cf Hcf) as [c0 [Hc0 [El0 _]]].
  destruct A as [j0 [cj [ck0 [_ [_ [_ Huniq]]]]]].
  apply (Huniq (fentry f) c0); [exact Hc0|]. rewrite <- El0. exact Hmn.
Qed.
