(* Location parametricity, part 2: the graph stages of Model/Cfg.v (cfg_new, directions, dead_code,
   ecall_terminate, function_markup) map related inputs to related outputs / related errors. *)
From Coq Require Import List ZArith NArith Bool Lia.
From RV.Model Require Import Base I32 Imm Lexer Isa Parser Reader Cfg Avail Live Lints.
From RV.Proofs Require Import ParamRel.
Import ListNotations.

Section Cfg.
Variable P : loc -> loc -> Prop.
Notation Rn := (Rn P). Notation Rw := (Rw P). Notation Rr := (Rr P). Notation Rav := (Rav P). Notation Rt := (Rt P).
Notation Rc := (Rc P). Notation Rcs := (Rcs P). Notation Rg := (Rg P). Notation Rerr := (Rerr P).
Notation Rrm := (Rrm P). Notation Rmm := (Rmm P).

(* ---- projections of Rc ---- *)
Lemma Rc_cn c1 c2 : Rc c1 c2 -> Rn (cn c1) (cn c2). Proof. destruct 1; assumption. Qed.
Lemma Rc_clabels c1 c2 : Rc c1 c2 -> Forall2 Rw (clabels c1) (clabels c2). Proof. destruct 1; assumption. Qed.
Lemma Rc_ctext c1 c2 : Rc c1 c2 -> ctext c1 = ctext c2. Proof. destruct 1; reflexivity. Qed.
Lemma Rc_nexts c1 c2 : Rc c1 c2 -> nexts c1 = nexts c2. Proof. destruct 1; reflexivity. Qed.
Lemma Rc_prevs c1 c2 : Rc c1 c2 -> prevs c1 = prevs c2. Proof. destruct 1; reflexivity. Qed.
Lemma Rc_cfuncs c1 c2 : Rc c1 c2 -> cfuncs c1 = cfuncs c2. Proof. destruct 1; reflexivity. Qed.
Lemma Rc_rin c1 c2 : Rc c1 c2 -> Rrm (rin c1) (rin c2). Proof. destruct 1; assumption. Qed.
Lemma Rc_rout c1 c2 : Rc c1 c2 -> Rrm (rout c1) (rout c2). Proof. destruct 1; assumption. Qed.
Lemma Rc_min c1 c2 : Rc c1 c2 -> Rmm (min c1) (min c2). Proof. destruct 1; assumption. Qed.
Lemma Rc_mout c1 c2 : Rc c1 c2 -> Rmm (mout c1) (mout c2). Proof. destruct 1; assumption. Qed.
Lemma Rc_lin c1 c2 : Rc c1 c2 -> lin c1 = lin c2. Proof. destruct 1; reflexivity. Qed.
Lemma Rc_lout c1 c2 : Rc c1 c2 -> lout c1 = lout c2. Proof. destruct 1; reflexivity. Qed.
Lemma Rc_udef c1 c2 : Rc c1 c2 -> udef c1 = udef c2. Proof. destruct 1; reflexivity. Qed.

Lemma getn_rel g1 g2 i : Rcs g1 g2 -> rel_option Rc (getn g1 i) (getn g2 i).
Proof. apply F2_nth_opt. Qed.
Lemma Rcs_length g1 g2 : Rcs g1 g2 -> length g1 = length g2.
Proof. apply F2_length. Qed.

Lemma set_nexts_rel c1 c2 v : Rc c1 c2 -> Rc (set_nexts c1 v) (set_nexts c2 v).
Proof. destruct 1; constructor; assumption. Qed.
Lemma set_prevs_rel c1 c2 v : Rc c1 c2 -> Rc (set_prevs c1 v) (set_prevs c2 v).
Proof. destruct 1; constructor; assumption. Qed.
Lemma set_cfuncs_rel c1 c2 v : Rc c1 c2 -> Rc (set_cfuncs c1 v) (set_cfuncs c2 v).
Proof. destruct 1; constructor; assumption. Qed.
Lemma set_cn_rel c1 c2 n1 n2 : Rc c1 c2 -> Rn n1 n2 -> Rc (set_cn c1 n1) (set_cn c2 n2).
Proof. destruct 1; constructor; assumption. Qed.
Lemma new_cnode_rel n1 n2 l1 l2 t : Rn n1 n2 -> Forall2 Rw l1 l2 -> Rc (new_cnode n1 l1 t) (new_cnode n2 l2 t).
Proof. intros; constructor; auto; constructor. Qed.

(* ---- finite maps ---- *)
Lemma rm_get_rel r m1 m2 : Rrm m1 m2 -> rel_option Rav (rm_get r m1) (rm_get r m2).
Proof.
  induction 1 as [|a b m1 m2 Hab Hm IH]; cbn; [constructor|].
  destruct Hab as [k a1 a2 Ha]. destruct (N.eqb k r); [constructor; exact Ha|exact IH].
Qed.
Lemma mm_get_rel l m1 m2 : Rmm m1 m2 -> rel_option Rav (mm_get l m1) (mm_get l m2).
Proof.
  induction 1 as [|a b m1 m2 Hab Hm IH]; cbn; [constructor|].
  destruct Hab as [k a1 a2 Ha]. destruct (memloc_eqb k l); [constructor; exact Ha|exact IH].
Qed.

(* ---- S4 ---- *)
Lemma mem_name_rel s l1 l2 : Forall2 Rw l1 l2 -> mem_name s l1 = mem_name s l2.
Proof. induction 1 as [|a b l1 l2 Hab Hl IH]; cbn; [reflexivity|]. destruct Hab. cbn. rewrite IH. reflexivity. Qed.

Lemma Rw_wv {A} (a b : wth A) : Rw a b -> wv a = wv b. Proof. destruct 1; reflexivity. Qed.
Lemma Rw_wt {A} (a b : wth A) : Rw a b -> Rt (wt a) (wt b). Proof. destruct 1; assumption. Qed.

Lemma dedup_names_rel l1 l2 : Forall2 Rw l1 l2 -> forall a1 a2, Forall2 Rw a1 a2 ->
  Forall2 Rw (dedup_names l1 a1) (dedup_names l2 a2).
Proof.
  induction 1 as [|a b l1 l2 Hab Hl IH]; intros a1 a2 Ha; cbn.
  - apply F2_rev; exact Ha.
  - rewrite (Rw_wv _ _ Hab), (mem_name_rel (wv b) _ _ Ha). destruct (mem_name (wv b) a2); apply IH; auto.
Qed.

Lemma any_in_rel a1 a2 b1 b2 : Forall2 Rw a1 a2 -> Forall2 Rw b1 b2 -> any_in a1 b1 = any_in a2 b2.
Proof.
  intros Ha Hb. induction Ha as [|x y a1 a2 Hxy Ha IH]; cbn; [reflexivity|].
  rewrite (Rw_wv _ _ Hxy), (mem_name_rel (wv y) _ _ Hb), IH. reflexivity.
Qed.

Lemma build_nodes_rel ns1 ns2 : Forall2 Rn ns1 ns2 ->
  forall cn1 cn2 pd1 pd2 cur1 cur2 all1 all2 text acc1 acc2,
  Forall2 Rw cn1 cn2 -> rel_option (Forall2 Rw) pd1 pd2 -> Forall2 Rw cur1 cur2 -> Forall2 Rw all1 all2 ->
  Rcs acc1 acc2 ->
  rel_sum Rerr Rcs (build_nodes ns1 cn1 pd1 cur1 all1 text acc1) (build_nodes ns2 cn2 pd2 cur2 all2 text acc2).
Proof.
  induction 1 as [|n1 n2 ns1 ns2 Hn Hns IH]; intros cn1 cn2 pd1 pd2 cur1 cur2 all1 all2 text acc1 acc2 Hcn Hpd Hcur Hall Hacc;
    cbn [build_nodes].
  - constructor. apply F2_rev. exact Hacc.
  - destruct (label_of_rel _ _ _ Hn) as [|a b Hab].
    + rewrite (is_datasec_rel _ _ _ Hn), (is_textsec_rel _ _ _ Hn), (is_directive_rel _ _ _ Hn).
      destruct (is_datasec n2); [apply IH; auto|].
      destruct (is_textsec n2); [apply IH; auto|].
      destruct (is_directive n2); [apply IH; auto|].
      rewrite (any_in_rel _ _ _ _ Hcur Hcn). destruct (any_in cur2 cn2).
      * assert (Hh : match pd1 with Some p => any_in cur1 p | None => false end
                     = match pd2 with Some p => any_in cur2 p | None => false end).
        { destruct Hpd as [|p1 p2 Hp]; [reflexivity|]. apply any_in_rel; assumption. }
        rewrite Hh. apply IH; auto. constructor; [|constructor; [|exact Hacc]].
        -- apply new_cnode_rel; auto.
        -- apply new_cnode_rel; auto. constructor. apply node_raw_rel. exact Hn.
      * apply IH; auto. constructor; [|exact Hacc]. apply new_cnode_rel; auto.
    + rewrite (Rw_wv _ _ Hab), (mem_name_rel (wv b) _ _ Hall).
      destruct (mem_name (wv b) all2).
      * constructor. constructor. exact Hab.
      * apply IH; auto.
        rewrite (mem_name_rel (wv b) _ _ Hcur). destruct (mem_name (wv b) cur2); auto.
        apply F2_app; auto.
Qed.

Lemma cfg_new_rel ns1 ns2 pd1 pd2 : Forall2 Rn ns1 ns2 -> rel_option (Forall2 Rw) pd1 pd2 ->
  rel_sum Rerr Rg (cfg_new ns1 pd1) (cfg_new ns2 pd2).
Proof.
  intros Hns Hpd. unfold cfg_new.
  assert (Hlab : Forall2 Rw (filter_map label_of ns1) (filter_map label_of ns2)).
  { apply (F2_filter_map Rn); auto. apply label_of_rel. }
  assert (Hpl : Forall2 Rw (match pd1 with Some p => p | None => [] end) (match pd2 with Some p => p | None => [] end)).
  { destruct Hpd; auto. }
  assert (Hcalls : Forall2 Rw (dedup_names (filter_map calls_to ns1 ++ match pd1 with Some p => p | None => [] end) [])
                              (dedup_names (filter_map calls_to ns2 ++ match pd2 with Some p => p | None => [] end) [])).
  { apply dedup_names_rel; [|constructor]. apply F2_app; auto. apply (F2_filter_map Rn); auto. apply calls_to_rel. }
  assert (Hjumps : Forall2 Rw (dedup_names (filter_map jumps_to ns1) []) (dedup_names (filter_map jumps_to ns2) [])).
  { apply dedup_names_rel; [|constructor]. apply (F2_filter_map Rn); auto. apply jumps_to_rel. }
  assert (Hloads : Forall2 Rw (dedup_names (filter_map reads_address_of ns1) []) (dedup_names (filter_map reads_address_of ns2) [])).
  { apply dedup_names_rel; [|constructor]. apply (F2_filter_map Rn); auto. apply reads_address_of_rel. }
  cbv zeta.
  match goal with |- rel_sum _ _ (match ?u1 with _ => _ end) (match ?u2 with _ => _ end) =>
    assert (Hund : Forall2 Rw u1 u2) end.
  { apply F2_filter.
    - assert (U : forall a1 a2 b1 b2, Forall2 Rw a1 a2 -> Forall2 Rw b1 b2 -> Forall2 Rw (union_names a1 b1) (union_names a2 b2)).
      { intros a1 a2 b1 b2 Ha Hb. unfold union_names.
        assert (L : forall (x y : list (wth str)), Forall2 Rw x y -> length x = length y) by (induction 1; cbn; congruence).
        rewrite (L _ _ Ha), (L _ _ Hb).
        destruct (Nat.leb (length b2) (length a2)); (apply dedup_names_rel; [|constructor]); apply F2_app; auto. }
      apply U; [apply U|]; auto.
    - intros a b Hab. rewrite (Rw_wv _ _ Hab), (mem_name_rel (wv b) _ _ Hlab). reflexivity. }
  destruct Hund as [|a b u1 u2 Hab Hu].
  - destruct (build_nodes_rel _ _ Hns _ _ pd1 pd2 [] [] [] [] true [] [] Hcalls Hpd
                             (Forall2_nil _) (Forall2_nil _) (Forall2_nil _)) as [e1 e2 He|g1 g2 Hg].
    + constructor; exact He.
    + constructor. constructor. exact Hg.
  - constructor. constructor. constructor; assumption.
Qed.

(* ---- S5 ---- *)
Lemma find_label_rel s g1 g2 : Rcs g1 g2 -> forall i, find_label s g1 i = find_label s g2 i.
Proof.
  induction 1 as [|c1 c2 g1 g2 Hc Hg IH]; intros i; cbn; [reflexivity|].
  rewrite (mem_name_rel s _ _ (Rc_clabels _ _ Hc)), IH. reflexivity.
Qed.

Lemma add_edge_rel g1 g2 a b : Rcs g1 g2 -> Rcs (add_edge g1 a b) (add_edge g2 a b).
Proof.
  intros H. unfold add_edge. apply F2_upd; [apply F2_upd; [exact H|]|]; intros c1 c2 Hc.
  - rewrite (Rc_nexts _ _ Hc). apply set_nexts_rel; exact Hc.
  - rewrite (Rc_prevs _ _ Hc). apply set_prevs_rel; exact Hc.
Qed.

Lemma directions_loop_rel todo1 todo2 : Rcs todo1 todo2 -> forall i prev g1 g2, Rcs g1 g2 ->
  rel_sum Rerr Rcs (directions_loop todo1 i prev g1) (directions_loop todo2 i prev g2).
Proof.
  induction 1 as [|c1 c2 t1 t2 Hc Ht IH]; intros i prev g1 g2 Hg; cbn [directions_loop]; cbv zeta.
  - constructor; exact Hg.
  - pose proof (Rc_cn _ _ Hc) as Hn.
    rewrite (is_return_rel _ _ _ Hn), (is_unconditional_jump_rel _ _ _ Hn).
    destruct (jumps_to_rel _ _ _ Hn) as [|a b Hab].
    + apply IH. destruct prev; auto using add_edge_rel.
    + rewrite (Rw_wv _ _ Hab), (find_label_rel (wv b) _ _ Hg 0).
      destruct (find_label (wv b) g2 0).
      * apply IH. destruct prev; auto using add_edge_rel.
      * constructor. constructor. exact Hab.
Qed.

Lemma directions_rel g1 g2 : Rg g1 g2 -> rel_sum Rerr Rg (directions g1) (directions g2).
Proof.
  destruct 1 as [ns1 ns2 fs lf Hns]. unfold directions; cbn [gnodes gfuncs glabelfn].
  destruct (directions_loop_rel _ _ Hns 0 None _ _ Hns); constructor; auto. constructor; assumption.
Qed.

(* ---- S6 ---- *)
Lemma unlink_prevs_rel i l g1 g2 : Rcs g1 g2 ->
  Rcs (fold_left (fun g p => upd g p (fun x => set_nexts x (del i (nexts x)))) l g1)
      (fold_left (fun g p => upd g p (fun x => set_nexts x (del i (nexts x)))) l g2).
Proof.
  intros H. apply fold_left_same; [exact H|]. intros x y c Hxy. apply F2_upd; [exact Hxy|].
  intros c1 c2 Hc. rewrite (Rc_nexts _ _ Hc). apply set_nexts_rel; exact Hc.
Qed.
Lemma unlink_nexts_rel i l g1 g2 : Rcs g1 g2 ->
  Rcs (fold_left (fun g n => upd g n (fun x => set_prevs x (del i (prevs x)))) l g1)
      (fold_left (fun g n => upd g n (fun x => set_prevs x (del i (prevs x)))) l g2).
Proof.
  intros H. apply fold_left_same; [exact H|]. intros x y c Hxy. apply F2_upd; [exact Hxy|].
  intros c1 c2 Hc. rewrite (Rc_prevs _ _ Hc). apply set_prevs_rel; exact Hc.
Qed.

Lemma dead_step_rel g1 g2 i : Rcs g1 g2 -> Rcs (dead_step g1 i) (dead_step g2 i).
Proof.
  intros H. unfold dead_step. destruct (getn_rel _ _ i H) as [|c1 c2 Hc]; [exact H|].
  pose proof (Rc_cn _ _ Hc) as Hn.
  rewrite (is_return_rel _ _ _ Hn), (is_any_entry_rel _ _ _ Hn), (might_terminate_rel _ _ _ Hn).
  destruct (_ || _ || _)%bool; [exact H|].
  rewrite (Rc_nexts _ _ Hc), (Rc_prevs _ _ Hc). cbv zeta.
  match goal with |- Rcs (match getn ?a i with _ => _ end) (match getn ?b i with _ => _ end) =>
    assert (H1 : Rcs a b) end.
  { destruct (nexts c2); [|exact H]. apply F2_upd; [apply unlink_prevs_rel; exact H|].
    intros x y Hxy. apply set_prevs_rel; exact Hxy. }
  destruct (getn_rel _ _ i H1) as [|d1 d2 Hd]; [exact H1|].
  rewrite (Rc_nexts _ _ Hd), (Rc_prevs _ _ Hd).
  destruct (prevs d2); [|exact H1]. apply F2_upd; [apply unlink_nexts_rel; exact H1|].
  intros x y Hxy. apply set_nexts_rel; exact Hxy.
Qed.

Lemma dead_code_rel g1 g2 : Rg g1 g2 -> Rg (dead_code g1) (dead_code g2).
Proof.
  destruct 1 as [ns1 ns2 fs lf Hns]. unfold dead_code; cbn [gnodes gfuncs glabelfn].
  rewrite (Rcs_length _ _ Hns). constructor. apply fold_left_same; [exact Hns|].
  intros x y c Hxy. apply dead_step_rel; exact Hxy.
Qed.

(* ---- S8 ---- *)
Lemma known_ecall_rel c1 c2 : Rc c1 c2 -> known_ecall c1 = known_ecall c2.
Proof.
  intros Hc. unfold known_ecall. rewrite (is_ecall_rel _ _ _ (Rc_cn _ _ Hc)).
  destruct (is_ecall (cn c2)); [|reflexivity].
  destruct (rm_get_rel 17 _ _ (Rc_rin _ _ Hc)) as [|a b Hab]; [reflexivity|]. destruct Hab; reflexivity.
Qed.
Lemma is_program_exit_rel c1 c2 : Rc c1 c2 -> is_program_exit c1 = is_program_exit c2.
Proof. intros Hc. unfold is_program_exit. rewrite (known_ecall_rel _ _ Hc). reflexivity. Qed.

Lemma ecall_term_step_rel g1 g2 i : Rcs g1 g2 -> Rcs (ecall_term_step g1 i) (ecall_term_step g2 i).
Proof.
  intros H. unfold ecall_term_step. destruct (getn_rel _ _ i H) as [|c1 c2 Hc]; [exact H|].
  rewrite (is_program_exit_rel _ _ Hc), (Rc_nexts _ _ Hc). destruct (is_program_exit c2); [|exact H].
  apply F2_upd; [apply unlink_nexts_rel; exact H|]. intros x y Hxy. apply set_nexts_rel; exact Hxy.
Qed.
Lemma ecall_terminate_rel g1 g2 : Rg g1 g2 -> Rg (ecall_terminate g1) (ecall_terminate g2).
Proof.
  destruct 1 as [ns1 ns2 fs lf Hns]. unfold ecall_terminate; cbn [gnodes gfuncs glabelfn].
  rewrite (Rcs_length _ _ Hns). constructor. apply fold_left_same; [exact Hns|].
  intros x y c Hxy. apply ecall_term_step_rel; exact Hxy.
Qed.

(* ---- S9 ---- *)
Lemma reach_rel g1 g2 : Rcs g1 g2 -> forall fuel stack seen, reach fuel g1 stack seen = reach fuel g2 stack seen.
Proof.
  intros H fuel. induction fuel as [|f IH]; intros stack seen; cbn [reach]; [reflexivity|].
  destruct stack as [|x st]; [reflexivity|]. destruct (memn x seen); [apply IH|].
  destruct (getn_rel _ _ x H) as [|c1 c2 Hc]; [apply IH|]. rewrite (Rc_nexts _ _ Hc). apply IH.
Qed.
Lemma reachable_rel g1 g2 s : Rcs g1 g2 -> reachable g1 s = reachable g2 s.
Proof. intros H. unfold reachable. rewrite (Rcs_length _ _ H). apply reach_rel; exact H. Qed.

Lemma tok_return_rel c1 c2 : Rc c1 c2 -> Rt (tok_return c1) (tok_return c2).
Proof.
  intros Hc. unfold tok_return. pose proof (node_raw_rel _ _ _ (Rc_cn _ _ Hc)) as Hr.
  destruct Hr. cbn. constructor. assumption.
Qed.
Lemma rewritten_return_rel c1 c2 e1 e2 : Rc c1 c2 -> Rc e1 e2 -> Rn (rewritten_return c1 e1) (rewritten_return c2 e2).
Proof.
  intros Hc He. unfold rewritten_return. pose proof (tok_return_rel _ _ Hc) as Ht.
  constructor; try (constructor; exact Ht). apply node_raw_rel. apply Rc_cn; exact Hc.
Qed.

(* the pieces of mark_function *)
Definition mf_rets (ns : list cnode) (r : list nat) : list nat :=
  filter (fun i => match getn ns i with Some c => is_return (cn c) | None => false end) r.
Definition mf_defs (ns : list cnode) (r : list nat) : regset :=
  fold_left (fun acc i => match getn ns i with
                          | Some c => match writes_to (cn c) with Some w => rs_union acc (rs_one (wv w)) | None => acc end
                          | None => acc end) r rs_empty.
Definition mf_mark (fid : nat) (ns : list cnode) (r : list nat) : list cnode :=
  fold_left (fun g i => upd g i (fun c => set_cfuncs c (ins fid (cfuncs c)))) r ns.
Definition mf_rewrite (ex : nat) (rets : list nat) (ns1 : list cnode) : list cnode :=
  fold_left (fun g i =>
               if Nat.eqb i ex then g
               else match getn g i, getn g ex with
                    | Some c, Some e =>
                        let g' := upd g i (fun x => set_cn (set_nexts x [ex]) (rewritten_return c e)) in
                        upd g' ex (fun x => set_prevs x (ins i (prevs x)))
                    | _, _ => g
                    end) rets ns1.
Definition mf_labels (ns : list cnode) (entry fid : nat) : list (str * nat) :=
  map (fun l => (wv l, fid)) (match getn ns entry with Some c => clabels c | None => [] end).

Lemma mark_function_eq g entry pick :
  mark_function g entry pick =
  let ns := gnodes g in
  let fid := length (gfuncs g) in
  let r := reachable ns entry in
  match mf_rets ns r with
  | [] => inl (match getn ns entry with
               | Some c => CFunctionWithoutReturn (cn c) (clabels c)
               | None => CUnexpectedError end)
  | first :: rest =>
      let ex := match pick with Some p => if memn p (mf_rets ns r) then p else first | None => first end in
      inr (mkcfg (mf_rewrite ex (mf_rets ns r) (mf_mark fid ns r))
                 (gfuncs g ++ [mkfn entry ex r (mf_defs ns r)])
                 (glabelfn g ++ mf_labels ns entry fid))
  end.
Proof. reflexivity. Qed.

Lemma mf_rets_rel g1 g2 r : Rcs g1 g2 -> mf_rets g1 r = mf_rets g2 r.
Proof.
  intros H. unfold mf_rets. apply filter_ext. intros i.
  destruct (getn_rel _ _ i H) as [|c1 c2 Hc]; [reflexivity|]. apply is_return_rel with (P := P). apply Rc_cn; exact Hc.
Qed.
Lemma mf_defs_rel g1 g2 r : Rcs g1 g2 -> mf_defs g1 r = mf_defs g2 r.
Proof.
  intros H. unfold mf_defs. apply fold_left_same; [reflexivity|]. intros x y i ->.
  destruct (getn_rel _ _ i H) as [|c1 c2 Hc]; [reflexivity|].
  destruct (writes_to_rel _ _ _ (Rc_cn _ _ Hc)) as [|a b Hab]; [reflexivity|]. rewrite (Rw_wv _ _ Hab). reflexivity.
Qed.
Lemma mf_mark_rel fid g1 g2 r : Rcs g1 g2 -> Rcs (mf_mark fid g1 r) (mf_mark fid g2 r).
Proof.
  intros H. unfold mf_mark. apply fold_left_same; [exact H|]. intros x y i Hxy. apply F2_upd; [exact Hxy|].
  intros c1 c2 Hc. rewrite (Rc_cfuncs _ _ Hc). apply set_cfuncs_rel; exact Hc.
Qed.
Lemma mf_rewrite_rel ex rets g1 g2 : Rcs g1 g2 -> Rcs (mf_rewrite ex rets g1) (mf_rewrite ex rets g2).
Proof.
  intros H. unfold mf_rewrite. apply fold_left_same; [exact H|]. intros x y i Hxy.
  destruct (Nat.eqb i ex); [exact Hxy|].
  destruct (getn_rel _ _ i Hxy) as [|c1 c2 Hc]; [exact Hxy|].
  destruct (getn_rel _ _ ex Hxy) as [|e1 e2 He]; [exact Hxy|]. cbv zeta.
  apply F2_upd; [apply F2_upd; [exact Hxy|]|].
  - intros a b Hab. apply set_cn_rel; [apply set_nexts_rel; exact Hab|]. apply rewritten_return_rel; assumption.
  - intros a b Hab. rewrite (Rc_prevs _ _ Hab). apply set_prevs_rel; exact Hab.
Qed.
Lemma mf_labels_rel g1 g2 e fid : Rcs g1 g2 -> mf_labels g1 e fid = mf_labels g2 e fid.
Proof.
  intros H. unfold mf_labels. apply (F2_map_eq Rw).
  - destruct (getn_rel _ _ e H) as [|c1 c2 Hc]; [constructor|]. apply Rc_clabels; exact Hc.
  - intros a b Hab. rewrite (Rw_wv _ _ Hab). reflexivity.
Qed.

Lemma mark_function_rel g1 g2 e pick : Rg g1 g2 -> rel_sum Rerr Rg (mark_function g1 e pick) (mark_function g2 e pick).
Proof.
  destruct 1 as [ns1 ns2 fs lf Hns]. rewrite !mark_function_eq. cbn [gnodes gfuncs glabelfn]. cbv zeta.
  rewrite (reachable_rel _ _ e Hns), (mf_rets_rel _ _ (reachable ns2 e) Hns).
  destruct (mf_rets ns2 (reachable ns2 e)) as [|first rest].
  - constructor. destruct (getn_rel _ _ e Hns) as [|c1 c2 Hc]; constructor.
    + apply Rc_cn; exact Hc.
    + apply Rc_clabels; exact Hc.
  - constructor. rewrite (mf_defs_rel _ _ (reachable ns2 e) Hns), (mf_labels_rel _ _ e (length fs) Hns).
    constructor. apply mf_rewrite_rel. apply mf_mark_rel. exact Hns.
Qed.

Lemma function_entries_rel g1 g2 : Rg g1 g2 -> function_entries g1 = function_entries g2.
Proof.
  destruct 1 as [ns1 ns2 fs lf Hns]. unfold function_entries; cbn [gnodes]. rewrite (Rcs_length _ _ Hns).
  apply filter_ext. intros i. destruct (getn_rel _ _ i Hns) as [|c1 c2 Hc]; [reflexivity|].
  apply is_function_entry_rel with (P := P). apply Rc_cn; exact Hc.
Qed.

Lemma markup_loop_rel entries : forall picks g1 g2, Rg g1 g2 ->
  rel_sum Rerr Rg (markup_loop entries picks g1) (markup_loop entries picks g2).
Proof.
  induction entries as [|e es IH]; intros picks g1 g2 Hg; cbn [markup_loop].
  - constructor; exact Hg.
  - destruct (mark_function_rel _ _ e (hd_opt picks) Hg) as [e1 e2 He|h1 h2 Hh].
    + constructor; exact He.
    + apply IH; exact Hh.
Qed.

Lemma function_markup_rel picks g1 g2 : Rg g1 g2 ->
  rel_sum Rerr Rg (function_markup picks g1) (function_markup picks g2).
Proof.
  intros Hg. unfold function_markup. rewrite (function_entries_rel _ _ Hg). apply markup_loop_rel; exact Hg.
Qed.
End Cfg.
