(* C13, end to end: two writings of a file whose lexer outputs have the same KEYS (same tokens with the same text,
   other positions: the layout theorems of SpellLexProofs give this for spacing, separators, tabs, CR) get the same
   nodes and parse errors up to positions (parser parametricity, C15) and the same diagnostics, each located at the
   same place - same node index, same operand selector (pipeline parametricity, Param). *)
From Coq Require Import List.
From RV.Model Require Import Base I32 Imm Lexer Isa Parser Reader Cfg Lints.
From RV.Spec Require Import ParamSpec ParamPlaceSpec IncludeSpec SpellSpec.
From RV.Proofs Require Import ParamProofs IncludeProofs SpellLexProofs.
Import ListNotations.

Theorem same_keys_same_diagnostics :
  forall chk path (t1 t2 : str) ign i1 i2,
    lex_all chk (Some 0%N) (normalize_text t1) = Ok i1 ->
    lex_all chk (Some 0%N) (normalize_text t2) = Ok i2 ->
    keys i1 = keys i2 ->
    forall ns1 es1 rs1 ns2 es2 rs2,
      parse_from_file chk [(path, inl t1)] path ign = Ok (ns1, es1, rs1) ->
      parse_from_file chk [(path, inl t2)] path ign = Ok (ns2, es2, rs2) ->
      map erase_node ns1 = map erase_node ns2 /\ map erase_perr es1 = map erase_perr es2 /\
      forall picks,
        match run_items picks ns1 es1, run_items picks ns2 es2 with
        | Ok d1, Ok d2 =>
            map erase_ditem d1 = map erase_ditem d2 /\
            Forall2 (fun a b => Forall2 (place ns1 ns2 es1 es2) (dlocs a) (dlocs b)) d1 d2
        | Panic _, Panic _ => True | OutOfFuel, OutOfFuel => True | _, _ => False
        end.
Proof.
  intros chk path t1 t2 ign i1 i2 L1 L2 K ns1 es1 rs1 ns2 es2 rs2 P1 P2.
  assert (E : items_eq i1 i2) by (unfold items_eq; apply keys_erase; exact K).
  assert (A1 : assoc_str path [(path, @inl str unit t1)] = Some (inl t1)).
  { cbn. rewrite LineProofs.str_eqb_refl. reflexivity. }
  assert (A2 : assoc_str path [(path, @inl str unit t2)] = Some (inl t2)).
  { cbn. rewrite LineProofs.str_eqb_refl. reflexivity. }
  assert (Q : forall q, q <> path -> assoc_str q [(path, @inl str unit t2)] = assoc_str q [(path, @inl str unit t1)]).
  { intros q Hq. cbn. destruct (str_eqb q path) eqn:S; [|reflexivity].
    exfalso. apply Hq. clear -S. revert path S. induction q as [|a q IH]; intros [|b p] S; cbn in S; try discriminate; [reflexivity|].
    apply andb_prop in S. destruct S as [S1 S2]. apply N.eqb_eq in S1. subst. f_equal. auto. }
  destruct (parse_file_erase chk _ _ path t1 t2 ign i1 i2 A1 A2 Q L1 L2 E _ _ _ _ _ _ P1 P2) as [Hn He].
  split; [exact Hn|]. split; [exact He|]. intros picks. apply run_items_place; assumption.
Qed.
